package interp

// sync/atomic under the cooperative scheduler (threads.go): only one target
// goroutine runs at a time and a switch happens only at blocking operations,
// so every primitive is a plain read-modify-write of the addressed cell.
// Values may be symbolic (an Add over a symbolic counter stays a term; a
// CompareAndSwap over symbolic operands is an ordinary symbolic decision).
//
// For the map race detector an atomic store/RMW publishes the writer's clock
// on the cell and an atomic load/RMW joins it (role 'a'), which is the
// happens-before edge the Go memory model gives to atomics.
//
// atomic.Value is implemented in the standard library by reinterpreting the
// interface header through unsafe pointers, which a boxed-value interpreter
// cannot follow: its four methods are intrinsics that keep the stored
// interface value in the Value's first word.

import (
	"go/token"
	"go/types"
)

func init() {
	cell := func(v value) *value {
		p, _ := v.(*value)
		if p == nil {
			panic("target:runtime error: invalid memory address or nil pointer dereference")
		}
		return p
	}
	for _, t := range []string{"Int32", "Int64", "Uint32", "Uint64", "Uintptr", "Pointer"} {
		externals["sync/atomic.Load"+t] = func(fr *frame, args []value) value {
			p := cell(args[0])
			ex(fr).acquire(p, 'a')
			return *p
		}
		externals["sync/atomic.Store"+t] = func(fr *frame, args []value) value {
			p := cell(args[0])
			*p = args[1]
			ex(fr).release(p, 'a')
			return nil
		}
		externals["sync/atomic.Swap"+t] = func(fr *frame, args []value) value {
			p := cell(args[0])
			ex(fr).acquire(p, 'a')
			old := *p
			*p = args[1]
			ex(fr).release(p, 'a')
			return old
		}
		externals["sync/atomic.CompareAndSwap"+t] = func(fr *frame, args []value) value {
			p := cell(args[0])
			ex(fr).acquire(p, 'a')
			if !ex(fr).branch(binop(token.EQL, nil, *p, args[1])) {
				return false
			}
			*p = args[2]
			ex(fr).release(p, 'a')
			return true
		}
		if t == "Pointer" {
			continue
		}
		externals["sync/atomic.Add"+t] = func(fr *frame, args []value) value {
			p := cell(args[0])
			ex(fr).acquire(p, 'a')
			*p = binop(token.ADD, nil, *p, args[1])
			ex(fr).release(p, 'a')
			return *p
		}
		if t == "Int32" || t == "Int64" || t == "Uint32" || t == "Uint64" || t == "Uintptr" {
			externals["sync/atomic.And"+t] = func(fr *frame, args []value) value {
				p := cell(args[0])
				old := *p
				*p = binop(token.AND, nil, *p, args[1])
				return old
			}
			externals["sync/atomic.Or"+t] = func(fr *frame, args []value) value {
				p := cell(args[0])
				old := *p
				*p = binop(token.OR, nil, *p, args[1])
				return old
			}
		}
	}

	// atomic.Value{v any}: the stored value lives in field 0 as an iface.
	slot := func(v value) *value {
		st, ok := (*cell(v)).(structure)
		if !ok || len(st) == 0 {
			panic(engineUnsupported{"atomic.Value layout"})
		}
		return &st[0]
	}
	stored := func(s *value) (iface, bool) {
		x, ok := (*s).(iface)
		return x, ok && x.t != nil
	}
	check := func(s *value, nv value, what string) iface {
		n, _ := nv.(iface)
		if n.t == nil {
			panic("target:sync/atomic: " + what + " of nil value into Value")
		}
		if o, ok := stored(s); ok && !types.Identical(o.t, n.t) {
			panic("target:sync/atomic: " + what + " of inconsistently typed value into Value")
		}
		return n
	}
	externals["(*sync/atomic.Value).Load"] = func(fr *frame, args []value) value {
		s := slot(args[0])
		ex(fr).acquire(s, 'a')
		if x, ok := stored(s); ok {
			return x
		}
		return iface{}
	}
	externals["(*sync/atomic.Value).Store"] = func(fr *frame, args []value) value {
		s := slot(args[0])
		*s = check(s, args[1], "store")
		ex(fr).release(s, 'a')
		return nil
	}
	externals["(*sync/atomic.Value).Swap"] = func(fr *frame, args []value) value {
		s := slot(args[0])
		n := check(s, args[1], "swap")
		ex(fr).acquire(s, 'a')
		old, _ := stored(s)
		*s = n
		ex(fr).release(s, 'a')
		return old
	}
	externals["(*sync/atomic.Value).CompareAndSwap"] = func(fr *frame, args []value) value {
		s := slot(args[0])
		n := check(s, args[2], "compare and swap")
		ex(fr).acquire(s, 'a')
		cur, _ := stored(s)
		o, _ := args[1].(iface)
		if !ex(fr).branch(binop(token.EQL, nil, cur, o)) {
			return false
		}
		*s = n
		ex(fr).release(s, 'a')
		return true
	}
}

package interp

// sync/atomic under the cooperative scheduler (threads.go): only one target
// goroutine runs at a time and a switch happens only at blocking operations,
// so every primitive is a plain read-modify-write of the addressed cell.
// Values may be symbolic (an Add over a symbolic counter stays a term; a
// CompareAndSwap over symbolic operands is an ordinary symbolic decision).
//
// For the map race detector an atomic store/RMW publishes the writer's clock
// on the cell and an atomic load/RMW joins it (role 'a'), which is the
// happens-before edge the Go memory model gives to atomics.
//
// atomic.Value is implemented in the standard library by reinterpreting the
// interface header through unsafe pointers, which a boxed-value interpreter
// cannot follow: its four methods are intrinsics that keep the stored
// interface value in the Value's first word.

import (
	"fmt"
	"go/token"
	"go/types"
)

func init() {
	cell := func(v value) *value {
		p, _ := v.(*value)
		if p == nil {
			panic("target:runtime error: invalid memory address or nil pointer dereference")
		}
		return p
	}
	for _, t := range []string{"Int32", "Int64", "Uint32", "Uint64", "Uintptr", "Pointer"} {
		externals["sync/atomic.Load"+t] = func(fr *frame, args []value) value {
			p := cell(args[0])
			ex(fr).acquire(p, 'a')
			return *p
		}
		externals["sync/atomic.Store"+t] = func(fr *frame, args []value) value {
			p := cell(args[0])
			*p = args[1]
			ex(fr).release(p, 'a')
			return nil
		}
		externals["sync/atomic.Swap"+t] = func(fr *frame, args []value) value {
			p := cell(args[0])
			ex(fr).acquire(p, 'a')
			old := *p
			*p = args[1]
			ex(fr).release(p, 'a')
			return old
		}
		externals["sync/atomic.CompareAndSwap"+t] = func(fr *frame, args []value) value {
			p := cell(args[0])
			ex(fr).acquire(p, 'a')
			if !ex(fr).branch(binop(token.EQL, nil, *p, args[1])) {
				return false
			}
			*p = args[2]
			ex(fr).release(p, 'a')
			return true
		}
		if t == "Pointer" {
			continue
		}
		externals["sync/atomic.Add"+t] = func(fr *frame, args []value) value {
			p := cell(args[0])
			ex(fr).acquire(p, 'a')
			*p = binop(token.ADD, nil, *p, args[1])
			ex(fr).release(p, 'a')
			return *p
		}
		if t == "Int32" || t == "Int64" || t == "Uint32" || t == "Uint64" || t == "Uintptr" {
			externals["sync/atomic.And"+t] = func(fr *frame, args []value) value {
				p := cell(args[0])
				old := *p
				*p = binop(token.AND, nil, *p, args[1])
				return old
			}
			externals["sync/atomic.Or"+t] = func(fr *frame, args []value) value {
				p := cell(args[0])
				old := *p
				*p = binop(token.OR, nil, *p, args[1])
				return old
			}
		}
	}

	// atomic.Value{v any}: the stored value lives in field 0 as an iface.
	slot := func(v value) *value {
		st, ok := (*cell(v)).(structure)
		if !ok || len(st) == 0 {
			panic(engineUnsupported{"atomic.Value layout"})
		}
		return &st[0]
	}
	stored := func(s *value) (iface, bool) {
		x, ok := (*s).(iface)
		return x, ok && x.t != nil
	}
	check := func(s *value, nv value, what string) iface {
		n, _ := nv.(iface)
		if n.t == nil {
			panic("target:sync/atomic: " + what + " of nil value into Value")
		}
		if o, ok := stored(s); ok && !types.Identical(o.t, n.t) {
			panic("target:sync/atomic: " + what + " of inconsistently typed value into Value")
		}
		return n
	}
	externals["(*sync/atomic.Value).Load"] = func(fr *frame, args []value) value {
		s := slot(args[0])
		ex(fr).acquire(s, 'a')
		if x, ok := stored(s); ok {
			return x
		}
		return iface{}
	}
	externals["(*sync/atomic.Value).Store"] = func(fr *frame, args []value) value {
		s := slot(args[0])
		*s = check(s, args[1], "store")
		ex(fr).release(s, 'a')
		return nil
	}
	externals["(*sync/atomic.Value).Swap"] = func(fr *frame, args []value) value {
		s := slot(args[0])
		n := check(s, args[1], "swap")
		ex(fr).acquire(s, 'a')
		old, _ := stored(s)
		*s = n
		ex(fr).release(s, 'a')
		return old
	}
	externals["(*sync/atomic.Value).CompareAndSwap"] = func(fr *frame, args []value) value {
		s := slot(args[0])
		n := check(s, args[2], "compare and swap")
		ex(fr).acquire(s, 'a')
		cur, _ := stored(s)
		o, _ := args[1].(iface)
		if !ex(fr).branch(binop(token.EQL, nil, cur, o)) {
			return false
		}
		*s = n
		ex(fr).release(s, 'a')
		return true
	}
}

// sort.Slice / sort.SliceStable / sort.SliceIsSorted reach the slice through
// reflection (reflectlite.Swapper), which the boxed-value interpreter cannot
// follow. They are a stable insertion sort over the boxed slice whose
// comparisons call the target's `less` closure; a symbolic comparison result
// is an ordinary symbolic decision (each resulting order is its own path).
func init() {
	sortSlice := func(fr *frame, args []value) value {
		x, _ := args[0].(iface)
		s, ok := x.v.([]value)
		if !ok {
			if x.t == nil {
				panic("target:reflect: call of Swapper on zero Value")
			}
			panic(engineUnsupported{fmt.Sprintf("sort.Slice over %T", x.v)})
		}
		less := func(i, j int) bool {
			return ex(fr).branch(call(fr.i, fr, token.NoPos, args[1], []value{i, j}))
		}
		for i := 1; i < len(s); i++ {
			for j := i; j > 0 && less(j, j-1); j-- {
				s[j], s[j-1] = s[j-1], s[j]
			}
		}
		return nil
	}
	externals["sort.Slice"] = sortSlice
	externals["sort.SliceStable"] = sortSlice
	externals["sort.SliceIsSorted"] = func(fr *frame, args []value) value {
		x, _ := args[0].(iface)
		s, ok := x.v.([]value)
		if !ok {
			panic(engineUnsupported{fmt.Sprintf("sort.SliceIsSorted over %T", x.v)})
		}
		for i := len(s) - 1; i > 0; i-- {
			if ex(fr).branch(call(fr.i, fr, token.NoPos, args[1], []value{i, i - 1})) {
				return false
			}
		}
		return true
	}
}

// strings.Compare bottoms out in an assembly routine; with symbolic operands
// the three outcomes are symbolic decisions.
func init() {
	cmp := func(fr *frame, args []value) value {
		if ex(fr).branch(binop(token.LSS, nil, args[0], args[1])) {
			return -1
		}
		if ex(fr).branch(binop(token.EQL, nil, args[0], args[1])) {
			return 0
		}
		return 1
	}
	externals["strings.Compare"] = cmp
	externals["internal/bytealg.CompareString"] = cmp
}

// evanphx/json-patch looks at the first non-blank byte of a document to tell an
// array from an object; for a JSON token of the executor (an opaque symbolic
// string standing for a known tree) the answer is read off the tree.
func init() {
	resembles := func(fr *frame, args []value) value {
		switch d := args[0].(type) {
		case symbytes:
			tok := ex(fr).findToken(d.term)
			if tok == nil {
				panic(engineUnsupported{"resemblesJSONArray over a symbolic string that is no JSON token"})
			}
			_, isList := tok.tree.([]value)
			return isList
		case []value:
			for _, b := range d {
				c, ok := b.(byte)
				if !ok {
					panic(engineUnsupported{"resemblesJSONArray over symbolic bytes"})
				}
				if c == ' ' || c == '\t' || c == '\n' || c == '\r' {
					continue
				}
				return c == '['
			}
			return false
		}
		return false
	}
	externals["github.com/evanphx/json-patch/v5.resemblesJSONArray"] = resembles
	externals["gopkg.in/evanphx/json-patch.v4.resemblesJSONArray"] = resembles
}

// jp.CreateMergePatch(original, modified) over two JSON tokens: the RFC 7386
// difference of the two known trees, returned as a new token. (The library
// decodes with a private fork of encoding/json that scans bytes, which an
// opaque token does not have.) Equality of symbolic leaves is a symbolic
// decision. Arrays are replaced as a whole, as in the library.
func init() {
	var diff func(e *Explorer, a, b *hashmap) *hashmap
	diff = func(e *Explorer, a, b *hashmap) *hashmap {
		out := &hashmap{ex: e, keyType: b.keyType}
		for _, en := range b.ents {
			i := a.find(en.key)
			if i < 0 {
				out.insert(en.key, en.value)
				continue
			}
			av := a.ents[i].value
			am, aIsMap := av.(*hashmap)
			bm, bIsMap := en.value.(*hashmap)
			if aIsMap && bIsMap {
				if d := diff(e, am, bm); d.len() > 0 {
					out.insert(en.key, d)
				}
				continue
			}
			if !e.branch(jsonEq(e, av, en.value)) {
				out.insert(en.key, en.value)
			}
		}
		for _, en := range a.ents {
			if b.find(en.key) < 0 {
				out.insert(en.key, jnull{})
			}
		}
		return out
	}
	externals["github.com/evanphx/json-patch/v5.CreateMergePatch"] = func(fr *frame, args []value) value {
		e := ex(fr)
		tree := func(v value) (value, bool) {
			sb, ok := v.(symbytes)
			if !ok {
				return nil, false
			}
			tok := e.findToken(sb.term)
			if tok == nil {
				return nil, false
			}
			return tok.tree, true
		}
		a, okA := tree(args[0])
		b, okB := tree(args[1])
		if !okA || !okB {
			panic(engineUnsupported{"CreateMergePatch over bytes that are no JSON tokens"})
		}
		am, aIsMap := a.(*hashmap)
		bm, bIsMap := b.(*hashmap)
		if !aIsMap || !bIsMap {
			panic(engineUnsupported{"CreateMergePatch over documents that are not objects"})
		}
		tok := e.newJSONToken(diff(e, am, bm))
		return tuple{symbytes{tok.term}, iface{}}
	}
}

// internal/reflectlite is used by context.WithValue ("is the key comparable?")
// and by a few String methods; its Type is backed by the runtime's type
// descriptors, which boxed values do not have. TypeOf hands out a stand-in that
// carries the go/types type; the handful of methods needed are answered from it.
type rliteType struct{ t types.Type }

func init() {
	externals["internal/reflectlite.TypeOf"] = func(fr *frame, args []value) value {
		itf, _ := args[0].(iface)
		if itf.t == nil {
			return iface{}
		}
		pkg := fr.i.prog.ImportedPackage("internal/reflectlite")
		if pkg == nil || pkg.Type("rtype") == nil {
			panic(engineUnsupported{"internal/reflectlite.rtype not in the program"})
		}
		return iface{t: pkg.Type("rtype").Type(), v: rliteType{itf.t}}
	}
	recv := func(v value) types.Type {
		r, ok := v.(rliteType)
		if !ok {
			panic(engineUnsupported{fmt.Sprintf("reflectlite method on %T", v)})
		}
		return r.t
	}
	externals["(internal/reflectlite.rtype).Comparable"] = func(fr *frame, args []value) value {
		return types.Comparable(recv(args[0]))
	}
	externals["(internal/reflectlite.rtype).String"] = func(fr *frame, args []value) value {
		return recv(args[0]).String()
	}
	externals["(internal/reflectlite.rtype).Name"] = func(fr *frame, args []value) value {
		if n, ok := recv(args[0]).(*types.Named); ok {
			return n.Obj().Name()
		}
		return ""
	}
	externals["(internal/reflectlite.rtype).PkgPath"] = func(fr *frame, args []value) value {
		if n, ok := recv(args[0]).(*types.Named); ok && n.Obj().Pkg() != nil {
			return n.Obj().Pkg().Path()
		}
		return ""
	}
}

// maps.Clone ends in the runtime-linked maps.clone(any) any: a shallow copy.
func init() {
	externals["maps.clone"] = func(fr *frame, args []value) value {
		x, _ := args[0].(iface)
		m, ok := x.v.(*hashmap)
		if !ok || m == nil {
			return x
		}
		m.touch(false)
		out := &hashmap{ex: m.ex, keyType: m.keyType}
		for _, en := range m.ents {
			out.ents = append(out.ents, &entry{en.key, en.value})
		}
		return iface{t: x.t, v: out}
	}
}

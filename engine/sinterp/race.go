package interp

// Happens-before race detection on Go maps (DESIGN §2.4).
//
// While goroutines exist on a path, every thread carries a vector clock that
// is transferred by go statements, WaitGroup Done->Wait, channel send/close->
// receive and sync.Once (fork/join and message edges), and the set of mutexes
// it holds (with the mode: exclusive or shared). Every map remembers, per
// goroutine, the epoch and the lock set of its last write and last read. Two
// accesses by different goroutines, at least one a write, are a DATA RACE when
// neither is ordered before the other by the fork/join/message edges AND they
// hold no common mutex that excludes them (same mutex, at least one side in
// exclusive mode). Mutex release->acquire edges are deliberately NOT used for
// ordering (hybrid lockset/happens-before): a race must not be hidden by a
// critical section that merely happened to run in between in the one schedule
// the executor explores. The verdict is therefore about the events of the
// explored path under EVERY interleaving of its goroutines at lock granularity.
//
// A race is reported as a violation of kind "race"; the native replay runs the
// harness under `go test -race` and the finding is kept only if Go's race
// detector reports a data race as well.

import (
	"fmt"
	"go/token"
	"os"
	"strings"

	"golang.org/x/tools/go/ssa"
)

type vclock []int32

func (v vclock) get(i int) int32 {
	if i < len(v) {
		return v[i]
	}
	return 0
}

func vjoin(a, b vclock) vclock {
	if len(b) > len(a) {
		n := make(vclock, len(b))
		copy(n, a)
		a = n
	}
	for i, x := range b {
		if x > a[i] {
			a[i] = x
		}
	}
	return a
}

func (v vclock) copyOf() vclock { return append(vclock(nil), v...) }

func (v vclock) withSlot(i int) vclock {
	for len(v) <= i {
		v = append(v, 0)
	}
	return v
}

type heldLock struct {
	p         interface{}
	exclusive bool
}

type epoch struct {
	tid   int
	clk   int32
	locks []heldLock
	at    string
}

type mapRace struct {
	w []epoch // last write per goroutine
	r []epoch // last read per goroutine
}

type syncKey struct {
	p    interface{}
	role byte
}

func (e *Explorer) tick(t *gthread) {
	t.vc = t.vc.withSlot(t.id)
	t.vc[t.id]++
}

// release publishes the running thread's clock on a synchronisation object.
func (e *Explorer) release(p interface{}, role byte) {
	if e.nthreads == 0 {
		return
	}
	k := syncKey{p, role}
	e.syncVC[k] = vjoin(e.syncVC[k].copyOf(), e.cur.vc)
	e.tick(e.cur)
}

// acquire orders the running thread after everything released on the object.
func (e *Explorer) acquire(p interface{}, role byte) {
	if e.nthreads == 0 {
		return
	}
	if v := e.syncVC[syncKey{p, role}]; v != nil {
		e.cur.vc = vjoin(e.cur.vc, v)
	}
}

func (e *Explorer) where() string {
	for f := e.curFrame; f != nil; f = f.caller {
		name := f.fn.String()
		if strings.Contains(name, "metacontroller/") && !strings.Contains(name, "zzverif") {
			name = strings.ReplaceAll(name, "metacontroller/pkg/", "")
			if f.curInstr != nil && f.curInstr.Pos() != token.NoPos {
				p := e.cfg.Prog.Fset.Position(f.curInstr.Pos())
				fn := p.Filename
				if i := strings.LastIndex(fn, "/"); i >= 0 {
					fn = fn[i+1:]
				}
				return fmt.Sprintf("%s (%s:%d)", name, fn, p.Line)
			}
			return name
		}
	}
	return "?"
}

func (e *Explorer) whereFn() string {
	s := e.where()
	if i := strings.Index(s, " ("); i >= 0 {
		s = s[:i]
	}
	return s
}

// excluded: the two accesses hold a common mutex, at least one exclusively.
func excluded(a, b []heldLock) bool {
	for _, x := range a {
		for _, y := range b {
			if x.p == y.p && (x.exclusive || y.exclusive) {
				return true
			}
		}
	}
	return false
}

func (t *gthread) hold(p interface{}, exclusive bool) {
	t.held = append(t.held, heldLock{p, exclusive})
}

func (t *gthread) drop(p interface{}, exclusive bool) {
	for i := len(t.held) - 1; i >= 0; i-- {
		if t.held[i].p == p && t.held[i].exclusive == exclusive {
			t.held = append(t.held[:i:i], t.held[i+1:]...)
			return
		}
	}
}

// mapAccess is called for every read or write of a Go map while goroutines
// exist on the path.
func (e *Explorer) mapAccess(m *hashmap, write bool) {
	t := e.cur
	if t == nil {
		return
	}
	if m.race == nil {
		m.race = &mapRace{}
	}
	rs := m.race
	if os.Getenv("VCHECK_RACE_DEBUG") != "" {
		fmt.Fprintf(os.Stderr, "mapAccess write=%v tid=%d vc=%v held=%v w=%+v r=%+v at %s\n", write, t.id, t.vc, t.held, rs.w, rs.r, e.where())
	}
	conflict := func(ep epoch) bool {
		return ep.tid != t.id && ep.clk > t.vc.get(ep.tid) && !excluded(ep.locks, t.held)
	}
	report := func(prev epoch, prevKind string) {
		kind := "read"
		if write {
			kind = "write"
		}
		label := "data-race/map/" + e.whereFn()
		if e.raceSeen[label] {
			return
		}
		e.raceSeen[label] = true
		e.recordViolation("race", label, fmt.Sprintf("%s of a map by goroutine %d at %s and the %s by goroutine %d at %s are neither ordered (go / WaitGroup / channel edges) nor protected by a common mutex held exclusively by one of them",
			kind, t.id, e.where(), prevKind, prev.tid, prev.at))
	}
	for _, ep := range rs.w {
		if conflict(ep) {
			report(ep, "write")
		}
	}
	if write {
		for _, ep := range rs.r {
			if conflict(ep) {
				report(ep, "read")
			}
		}
	}
	me := epoch{tid: t.id, clk: t.vc.get(t.id), locks: append([]heldLock(nil), t.held...)}
	list := &rs.r
	if write {
		list = &rs.w
	}
	for i := range *list {
		if (*list)[i].tid == t.id {
			at := (*list)[i].at
			(*list)[i] = me
			(*list)[i].at = at
			if write {
				(*list)[i].at = e.where()
			}
			return
		}
	}
	me.at = e.where()
	*list = append(*list, me)
}

// isTarget: fn belongs to the code under test (metacontroller's own packages,
// neither the harness/model packages nor a zz_verif overlay file).
func (e *Explorer) isTarget(fn *ssa.Function) bool {
	if v, ok := e.targetFn[fn]; ok {
		return v
	}
	if e.targetFn == nil {
		e.targetFn = map[*ssa.Function]bool{}
	}
	r := false
	root := fn
	for root.Parent() != nil {
		root = root.Parent()
	}
	if root.Pkg != nil {
		path := root.Pkg.Pkg.Path()
		if strings.HasPrefix(path, "metacontroller/pkg/") && !strings.Contains(path, "/zzverif") && !strings.Contains(path, "/client/generated") {
			r = true
			if fn.Pos() != token.NoPos {
				file := e.cfg.Prog.Fset.Position(fn.Pos()).Filename
				if i := strings.LastIndex(file, "/"); i >= 0 {
					file = file[i+1:]
				}
				if strings.HasPrefix(file, "zz_verif") || strings.HasPrefix(file, "zz_") {
					r = false
				}
			}
		}
	}
	e.targetFn[fn] = r
	return r
}

// cellState: Eraser-style ownership on top of the epochs. A cell is exempt
// while only ONE goroutine has touched it (initialisation before publication);
// from the first access by a second goroutine on, accesses are recorded.
type cellState struct {
	mapRace
	owner  int
	shared bool
}

// cellAccess: a load or store of one memory cell (struct field, variable,
// element) by the code under test while goroutines exist - opt-in per harness
// (cell_races). Same hybrid rule as for maps (unordered by go / WaitGroup /
// channel / atomic edges AND no common mutex, one side exclusive), so that the
// verdict does not depend on the one schedule explored; what one goroutine did
// to a cell before any other goroutine touched it is exempt (objects are
// routinely initialised without a lock and then published under one). The
// native replay under `go test -race` has to confirm a finding.
func (e *Explorer) cellAccess(fr *frame, p *value, write bool) {
	t := e.cur
	if t == nil || p == nil || !e.isTarget(fr.fn) {
		return
	}
	if os.Getenv("VCHECK_RACE_DEBUG") != "" {
		fmt.Fprintf(os.Stderr, "cellAccess %p write=%v tid=%d vc=%v held=%d at %s\n", p, write, t.id, t.vc, len(t.held), e.where())
	}
	rs := e.cellRace[p]
	if rs == nil {
		e.cellRace[p] = &cellState{owner: t.id}
		return
	}
	if !rs.shared {
		if rs.owner == t.id {
			return
		}
		rs.shared = true
	}
	conflict := func(ep epoch) bool {
		return ep.tid != t.id && ep.clk > t.vc.get(ep.tid) && !excluded(ep.locks, t.held)
	}
	report := func(prev epoch, prevKind string) {
		kind := "read"
		if write {
			kind = "write"
		}
		label := "data-race/memory/" + e.whereFn()
		if e.raceSeen[label] {
			return
		}
		e.raceSeen[label] = true
		e.recordViolation("race", label, fmt.Sprintf("%s of a memory cell by goroutine %d at %s and the %s by goroutine %d at %s are neither ordered (go / WaitGroup / channel / atomic edges) nor protected by a common mutex held exclusively by one of them",
			kind, t.id, e.where(), prevKind, prev.tid, prev.at))
	}
	for _, ep := range rs.w {
		if conflict(ep) {
			report(ep, "write")
		}
	}
	if write {
		for _, ep := range rs.r {
			if conflict(ep) {
				report(ep, "read")
			}
		}
	}
	me := epoch{tid: t.id, clk: t.vc.get(t.id), locks: append([]heldLock(nil), t.held...), at: e.where()}
	list := &rs.r
	if write {
		list = &rs.w
	}
	for i := range *list {
		if (*list)[i].tid == t.id {
			(*list)[i] = me
			return
		}
	}
	*list = append(*list, me)
}

package interp

// C14: reflect.DeepEqual of two nil maps dereferenced the nil *hashmap in
// deepEq (ranging over x.ents).  Handle that case before delegating.

func init() {
	externals["reflect.DeepEqual"] = func(fr *frame, args []value) value {
		a, b := args[0], args[1]
		if ia, ok := a.(iface); ok {
			if ib, ok := b.(iface); ok {
				if ma, ok := ia.v.(*hashmap); ok && ma == nil {
					if mb, ok := ib.v.(*hashmap); ok {
						if mb != nil {
							return false
						}
						return ia.t != nil && ib.t != nil && typesIdenticalC14(ia, ib)
					}
				}
			}
		}
		return deepEq(ex(fr), a, b)
	}
}

func typesIdenticalC14(a, b iface) bool {
	return a.t.String() == b.t.String()
}

package interp

// Engine intrinsics: harness runtime (rt.*), and models of library code that
// sits behind reflection / unsafe / assembler / time (see DESIGN §2.5).

import (
	"fmt"
	"go/token"
	"go/types"
	"math"
	"sort"
	"strconv"
	"strings"
	"time"

	"golang.org/x/tools/go/ssa"
)

const rtPkg = "metacontroller/pkg/zzverif/rt"

// symExternals are consulted only when an argument is symbolic; otherwise the
// real SSA body (or an upstream external) runs.
var symExternals = make(map[string]externalFn)

func anySym(args []value) bool {
	for _, a := range args {
		switch x := a.(type) {
		case symv, symbytes:
			return true
		case []value:
			for _, e := range x {
				if isSym(e) {
					return true
				}
			}
		case iface:
			if isSym(x.v) {
				return true
			}
		}
	}
	return false
}

var (
	tEmptyIface   = types.NewInterfaceType(nil, nil).Complete()
	tMapStringAny = types.NewMap(types.Typ[types.String], tEmptyIface)
	tSliceAny     = types.NewSlice(tEmptyIface)
	tString       = types.Typ[types.String]
	tBool         = types.Typ[types.Bool]
	tInt64        = types.Typ[types.Int64]
	tFloat64      = types.Typ[types.Float64]
)

func ex(fr *frame) *Explorer { return fr.i.ex }

func goString(v value) string {
	s, ok := v.(string)
	if !ok {
		panic(engineUnsupported{fmt.Sprintf("intrinsic needs a concrete string, got %T", v)})
	}
	return s
}

// ---------------------------------------------------------------- rt

func init() {
	externals[rtPkg+".String"] = func(fr *frame, args []value) value {
		v := ex(fr).nondet('S', goString(args[0]))
		// default length bound keeps z3 usable as a cross-checker
		ex(fr).S.Send("(assert (<= (str.len " + v.term + ") 12))")
		return v
	}
	externals[rtPkg+".Bool"] = func(fr *frame, args []value) value { return ex(fr).nondet('B', goString(args[0])) }
	intRange := func(lo, hi string) externalFn {
		return func(fr *frame, args []value) value {
			v := ex(fr).nondet('I', goString(args[0]))
			ex(fr).S.Send("(assert (and (<= " + lo + " " + v.term + ") (<= " + v.term + " " + hi + ")))")
			return v
		}
	}
	externals[rtPkg+".Int"] = intRange("(- 9223372036854775808)", "9223372036854775807")
	externals[rtPkg+".Int64"] = intRange("(- 9223372036854775808)", "9223372036854775807")
	externals[rtPkg+".Int32"] = intRange("(- 2147483648)", "2147483647")
	externals[rtPkg+".Choice"] = func(fr *frame, args []value) value {
		n := asInt64(args[1])
		v := ex(fr).nondet('I', goString(args[0]))
		ex(fr).S.Send(fmt.Sprintf("(assert (and (<= 0 %s) (< %s %d)))", v.term, v.term, n))
		// concretise eagerly: callers switch on the result
		for k := int64(0); k < n-1; k++ {
			if ex(fr).branch(symv{sort: 'B', term: fmt.Sprintf("(= %s %d)", v.term, k)}) {
				return int(k)
			}
		}
		return int(n - 1)
	}
	// And / Or: boolean connectives that do NOT fork the path (Go's && and ||
	// compile to branches); harnesses use them for order-free "exists" laws.
	boolOp := func(op string) externalFn {
		return func(fr *frame, args []value) value {
			a, aok := args[0].(bool)
			b, bok := args[1].(bool)
			switch {
			case aok && bok:
				if op == "and" {
					return a && b
				}
				return a || b
			case aok:
				if (op == "and") != a {
					return a
				}
				return args[1]
			case bok:
				if (op == "and") != b {
					return b
				}
				return args[0]
			}
			ta, _, ok1 := termOf(args[0])
			tb, _, ok2 := termOf(args[1])
			if !ok1 || !ok2 {
				panic(engineUnsupported{"rt.And/Or of non-boolean values"})
			}
			return symv{sort: 'B', term: "(" + op + " " + ta + " " + tb + ")"}
		}
	}
	externals[rtPkg+".And"] = boolOp("and")
	externals[rtPkg+".Or"] = boolOp("or")
	externals[rtPkg+".Assume"] = func(fr *frame, args []value) value { ex(fr).assume(args[0]); return nil }
	externals[rtPkg+".Assert"] = func(fr *frame, args []value) value {
		ex(fr).assert(args[0], goString(args[1]))
		return nil
	}
	externals[rtPkg+".Cover"] = func(fr *frame, args []value) value {
		ex(fr).covers[goString(args[0])] = true
		return nil
	}
	externals[rtPkg+".Tier"] = func(fr *frame, args []value) value { return ex(fr).cfg.Tier }
	externals[rtPkg+".ReverseMaps"] = func(fr *frame, args []value) value {
		on, ok := args[0].(bool)
		if !ok {
			panic(engineUnsupported{"rt.ReverseMaps needs a concrete bool (branch on the symbolic value first)"})
		}
		ex(fr).revMaps = on
		return nil
	}
	externals[rtPkg+".Symbolic"] = func(fr *frame, args []value) value { return true }
	externals[rtPkg+".Observe"] = func(fr *frame, args []value) value {
		label := goString(args[0])
		v := args[1]
		if itf, ok := v.(iface); ok {
			v = itf.v
		}
		o := Observation{Label: label}
		switch x := v.(type) {
		case symv:
			o.term, o.sort = x.term, x.sort
		case string:
			o.Val = x
		case bool:
			o.Val = fmt.Sprint(x)
		case nil:
			o.Val = "<nil>"
		default:
			if t, s, ok := termOf(v); ok && s == 'I' {
				n, _ := DecodeSMTInt(t)
				o.Val = fmt.Sprint(n)
			} else {
				panic(engineUnsupported{fmt.Sprintf("Observe of %T", v)})
			}
		}
		ex(fr).observes = append(ex(fr).observes, o)
		return nil
	}
	// Concrete(s) forces a symbolic string to one of the listed constants (or
	// "other"), by branching.  Used by harnesses to pick representative values.
	externals[rtPkg+".OneOf"] = func(fr *frame, args []value) value {
		s := args[0]
		opts := args[1].([]value)
		for _, o := range opts {
			if ex(fr).branch(eqv(tString, s, o)) {
				return o
			}
		}
		return s
	}
}

// ---------------------------------------------------------------- fmt / errors

// formatted pieces: either literal text or a symbolic string term.
type fmtPart struct {
	lit     string
	sym     string // SMT term of sort String when non-empty
	fromInt string
}

func strOfInt(t string) string {
	return "(ite (< " + t + " 0) (str.++ \"-\" (str.from_int (- " + t + "))) (str.from_int " + t + "))"
}

// errorMethod finds an Error() string / String() string method on a dynamic type.
func findMethod(i *interpreter, t types.Type, name string) *ssa.Function {
	ms := i.prog.MethodSets.MethodSet(t)
	for k := 0; k < ms.Len(); k++ {
		sel := ms.At(k)
		if sel.Obj().Name() == name {
			return i.prog.MethodValue(sel)
		}
	}
	return nil
}

func isErrorLike(fn *ssa.Function) bool {
	sig := fn.Signature
	return sig.Params().Len() == 0 && sig.Results().Len() == 1 && types.Identical(sig.Results().At(0).Type(), tString)
}

// fmtArg renders one operand under verb.
func fmtArg(fr *frame, verb byte, flags string, a value) fmtPart {
	var dyn types.Type
	if itf, ok := a.(iface); ok {
		dyn = itf.t
		a = itf.v
		if dyn == nil {
			if verb == 'v' || verb == 's' {
				return fmtPart{lit: "<nil>"}
			}
			return fmtPart{lit: "%!" + string(verb) + "(<nil>)"}
		}
		if verb != 'T' && verb != 'd' && verb != 'p' && !strings.Contains(flags, "#") {
			for _, mname := range []string{"Error", "String"} {
				if m := findMethod(fr.i, dyn, mname); m != nil && isErrorLike(m) {
					if p, ok := a.(*value); ok && p == nil {
						return fmtPart{lit: "<nil>"}
					}
					r := call(fr.i, fr, token.NoPos, m, []value{a})
					return fmtArg(fr, 's', "", r)
				}
			}
		}
	}
	if verb == 'T' {
		if dyn != nil {
			return fmtPart{lit: dyn.String()}
		}
		return fmtPart{lit: fmt.Sprintf("%T", a)}
	}
	switch x := a.(type) {
	case symv:
		switch x.sort {
		case 'S':
			if verb == 'q' {
				// assumes no characters needing escapes (stated in DESIGN)
				return fmtPart{sym: "(str.++ \"\\u{22}\" " + x.term + " \"\\u{22}\")"}
			}
			return fmtPart{sym: x.term}
		case 'I':
			return fmtPart{sym: strOfInt(x.term), fromInt: x.term}
		case 'B':
			return fmtPart{sym: "(ite " + x.term + " \"true\" \"false\")"}
		}
	case symbytes:
		return fmtPart{sym: x.term}
	case string:
		return fmtPart{lit: fmt.Sprintf("%"+flags+string(verb), x)}
	case bool:
		return fmtPart{lit: fmt.Sprintf("%"+flags+string(verb), x)}
	case int, int8, int16, int32, int64, uint, uint8, uint16, uint32, uint64, uintptr, float32, float64:
		return fmtPart{lit: fmt.Sprintf("%"+flags+string(verb), x)}
	case []value:
		if verb == 's' || verb == 'v' {
			// []byte / []string etc.
			allBytes := len(x) > 0
			for _, e := range x {
				if _, ok := e.(byte); !ok {
					allBytes = false
				}
			}
			if allBytes && verb == 's' {
				bs := make([]byte, len(x))
				for i, e := range x {
					bs[i] = e.(byte)
				}
				return fmtPart{lit: string(bs)}
			}
			var parts []fmtPart
			parts = append(parts, fmtPart{lit: "["})
			for i, e := range x {
				if i > 0 {
					parts = append(parts, fmtPart{lit: " "})
				}
				parts = append(parts, fmtArg(fr, 'v', "", e))
			}
			parts = append(parts, fmtPart{lit: "]"})
			return joinParts(parts)
		}
	case *value:
		if x == nil {
			return fmtPart{lit: "<nil>"}
		}
	}
	// composite values only occur in log / error messages whose text nothing
	// depends on: render an opaque placeholder.
	return fmtPart{lit: fmt.Sprintf("<%T>", a)}
}

func joinParts(parts []fmtPart) fmtPart {
	var out []fmtPart
	for _, p := range parts {
		if p.sym == "" && len(out) > 0 && out[len(out)-1].sym == "" {
			out[len(out)-1].lit += p.lit
			continue
		}
		out = append(out, p)
	}
	if len(out) == 0 {
		return fmtPart{}
	}
	if len(out) == 1 {
		return out[0]
	}
	t := "(str.++"
	for _, p := range out {
		if p.sym != "" {
			t += " " + p.sym
		} else {
			t += " " + smtStr(p.lit)
		}
	}
	return fmtPart{sym: t + ")"}
}

func (p fmtPart) value() value {
	if p.sym != "" {
		return symv{sort: 'S', term: p.sym, fromInt: p.fromInt}
	}
	return p.lit
}

// sprintf implements the subset of fmt verbs the code base uses. It returns
// the string and the operands of %w verbs.
func sprintf(fr *frame, format string, av []value) (value, []value) {
	var parts []fmtPart
	var wrapped []value
	ai := 0
	for i := 0; i < len(format); i++ {
		if format[i] != '%' {
			j := strings.IndexByte(format[i:], '%')
			if j < 0 {
				j = len(format) - i
			}
			parts = append(parts, fmtPart{lit: format[i : i+j]})
			i += j - 1
			continue
		}
		i++
		if i >= len(format) {
			parts = append(parts, fmtPart{lit: "%!(NOVERB)"})
			break
		}
		j := i
		for j < len(format) && strings.IndexByte("+-# 0123456789.", format[j]) >= 0 {
			j++
		}
		if j >= len(format) {
			parts = append(parts, fmtPart{lit: "%!(NOVERB)"})
			break
		}
		flags := format[i:j]
		verb := format[j]
		i = j
		if verb == '%' {
			parts = append(parts, fmtPart{lit: "%"})
			continue
		}
		if ai >= len(av) {
			parts = append(parts, fmtPart{lit: "%!" + string(verb) + "(MISSING)"})
			continue
		}
		a := av[ai]
		ai++
		if verb == 'w' {
			wrapped = append(wrapped, a)
			verb = 'v'
		}
		parts = append(parts, fmtArg(fr, verb, flags, a))
	}
	return joinParts(parts).value(), wrapped
}

func mkPtr(v value) *value { p := new(value); *p = v; return p }

func namedType(prog *ssa.Program, pkg, name string) types.Type {
	p := prog.ImportedPackage(pkg)
	if p == nil {
		panic("package not loaded: " + pkg)
	}
	return p.Type(name).Type()
}

func newErrorString(fr *frame, msg value) value {
	t := namedType(fr.i.prog, "errors", "errorString")
	return iface{t: types.NewPointer(t), v: mkPtr(structure{msg})}
}

func init() {
	externals["fmt.Sprintf"] = func(fr *frame, args []value) value {
		if isSym(args[0]) {
			panic(engineUnsupported{"symbolic format string"})
		}
		s, _ := sprintf(fr, args[0].(string), args[1].([]value))
		return s
	}
	externals["fmt.Appendf"] = func(fr *frame, args []value) value {
		s, _ := sprintf(fr, args[1].(string), args[2].([]value))
		if sv, ok := s.(symv); ok {
			if b, ok := args[0].([]value); ok && len(b) == 0 {
				return symbytes{sv.term}
			}
			panic(engineUnsupported{"fmt.Appendf onto non-empty buffer with symbolic text"})
		}
		out := append([]value{}, args[0].([]value)...)
		for _, c := range []byte(s.(string)) {
			out = append(out, c)
		}
		return out
	}
	externals["fmt.Sprint"] = func(fr *frame, args []value) value {
		var parts []fmtPart
		for _, a := range args[0].([]value) {
			parts = append(parts, fmtArg(fr, 'v', "", a))
		}
		return joinParts(parts).value()
	}
	externals["fmt.Errorf"] = func(fr *frame, args []value) value {
		msg, wrapped := sprintf(fr, args[0].(string), args[1].([]value))
		switch len(wrapped) {
		case 0:
			return newErrorString(fr, msg)
		case 1:
			w := wrapped[0]
			if _, ok := w.(iface); !ok {
				return newErrorString(fr, msg)
			}
			t := namedType(fr.i.prog, "fmt", "wrapError")
			return iface{t: types.NewPointer(t), v: mkPtr(structure{msg, w})}
		}
		panic(engineUnsupported{"fmt.Errorf with several %w"})
	}
	externals["errors.New"] = func(fr *frame, args []value) value { return newErrorString(fr, args[0]) }
	for _, n := range []string{"fmt.Fprintf", "fmt.Printf", "fmt.Println", "fmt.Fprintln", "fmt.Print", "fmt.Fprint"} {
		externals[n] = func(fr *frame, args []value) value { return tuple{0, iface{}} }
	}

	// errors.As / errors.Is walk the Unwrap chain (real code uses reflectlite).
	unwrap := func(fr *frame, err iface) []iface {
		if err.t == nil {
			return nil
		}
		if m := findMethod(fr.i, err.t, "Unwrap"); m != nil {
			res := m.Signature.Results()
			if res.Len() == 1 {
				r := call(fr.i, fr, token.NoPos, m, []value{err.v})
				switch rr := r.(type) {
				case iface:
					if rr.t != nil {
						return []iface{rr}
					}
				case []value:
					var out []iface
					for _, e := range rr {
						if ee := e.(iface); ee.t != nil {
							out = append(out, ee)
						}
					}
					return out
				}
			}
		}
		return nil
	}
	var as func(fr *frame, err iface, target *value, tt types.Type) bool
	as = func(fr *frame, err iface, target *value, tt types.Type) bool {
		if err.t == nil {
			return false
		}
		ok := false
		if it, isI := tt.Underlying().(*types.Interface); isI {
			ok = types.Implements(err.t, it)
			if ok {
				*target = err
			}
		} else if types.Identical(err.t, tt) {
			ok = true
			*target = err.v
		}
		if ok {
			return true
		}
		if m := findMethod(fr.i, err.t, "As"); m != nil && m.Signature.Params().Len() == 1 {
			r := call(fr.i, fr, token.NoPos, m, []value{err.v, iface{t: types.NewPointer(tt), v: target}})
			if b, isB := r.(bool); isB && b {
				return true
			}
		}
		for _, u := range unwrap(fr, err) {
			if as(fr, u, target, tt) {
				return true
			}
		}
		return false
	}
	externals["errors.As"] = func(fr *frame, args []value) value {
		err := args[0].(iface)
		tgt := args[1].(iface)
		pt, ok := tgt.t.Underlying().(*types.Pointer)
		if !ok || tgt.v.(*value) == nil {
			panic("target:errors.As: target must be a non-nil pointer")
		}
		return as(fr, err, tgt.v.(*value), pt.Elem())
	}
	var is func(fr *frame, err, target iface) value
	is = func(fr *frame, err, target iface) value {
		if err.t == nil || target.t == nil {
			return err.t == nil && target.t == nil
		}
		if types.Comparable(target.t) && types.Identical(err.t, target.t) {
			c := eqv(err.t, err.v, target.v)
			if ex(fr).branch(c) {
				return true
			}
		}
		if m := findMethod(fr.i, err.t, "Is"); m != nil && m.Signature.Params().Len() == 1 {
			r := call(fr.i, fr, token.NoPos, m, []value{err.v, target})
			if ex(fr).branch(r) {
				return true
			}
		}
		for _, u := range unwrap(fr, err) {
			if r := is(fr, u, target); r == true {
				return true
			}
		}
		return false
	}
	externals["errors.Is"] = func(fr *frame, args []value) value {
		return is(fr, args[0].(iface), args[1].(iface))
	}
}

// ---------------------------------------------------------------- sync & co

func init() {
	nop := func(fr *frame, args []value) value { return nil }
	for _, n := range []string{
		"k8s.io/apimachinery/pkg/util/runtime.HandleError",
		"k8s.io/apimachinery/pkg/util/runtime.HandleCrash",
		"runtime.SetFinalizer", "runtime.KeepAlive",
	} {
		externals[n] = nop
	}
	// strings.Builder guards against copying with unsafe pointer tricks and
	// returns its buffer through unsafe.String
	externals["(*strings.Builder).copyCheck"] = nop
	externals["(*strings.Builder).String"] = func(fr *frame, args []value) value {
		b := (*args[0].(*value)).(structure)
		for _, f := range b {
			if buf, ok := f.([]value); ok {
				return bytesToString(buf)
			}
		}
		return ""
	}
	externals["internal/bytealg.MakeNoZero"] = func(fr *frame, args []value) value {
		n := asInt64(args[0])
		out := make([]value, n)
		for i := range out {
			out[i] = byte(0)
		}
		return out
	}
	externals["(*sync.Once).Do"] = func(fr *frame, args []value) value {
		o := args[0].(*value)
		st := (*o).(structure)
		// field 0 is "done" (atomic.Uint32 / uint32 depending on Go version)
		if markOnce(&st[0]) {
			call(fr.i, fr, token.NoPos, args[1], nil)
			ex(fr).release(args[0], 'o')
		}
		ex(fr).acquire(args[0], 'o')
		return nil
	}
	// RawExtension.DeepCopyInto copies Raw byte-wise; JSON tokens are immutable.
	externals["(*k8s.io/apimachinery/pkg/runtime.RawExtension).DeepCopyInto"] = func(fr *frame, args []value) value {
		in, out := args[0].(*value), args[1].(*value)
		src := (*in).(structure)
		if obj, ok := src[1].(iface); ok && obj.t != nil {
			panic(engineUnsupported{"RawExtension.DeepCopyInto with a non-nil Object"})
		}
		dst := make(structure, len(src))
		copy(dst, src)
		if raw, ok := src[0].([]value); ok && raw != nil {
			dst[0] = append([]value{}, raw...)
		}
		*out = dst
		return nil
	}
	externals["k8s.io/apimachinery/pkg/runtime.NewScheme"] = func(fr *frame, args []value) value { return (*value)(nil) }
	externals["(*k8s.io/apimachinery/pkg/runtime.SchemeBuilder).AddToScheme"] = func(fr *frame, args []value) value { return iface{} }
	externals["time.Now"] = func(fr *frame, args []value) value {
		// fixed instant; harnesses that care inject their own clock
		return timeValue(time.Unix(1700000000, 0).UTC())
	}
	externals["math.Ceil"] = func(fr *frame, args []value) value { return math.Ceil(args[0].(float64)) }
	externals["math.Floor"] = func(fr *frame, args []value) value { return math.Floor(args[0].(float64)) }
	externals["time.Parse"] = func(fr *frame, args []value) value {
		layout := goString(args[0])
		if sv, ok := args[1].(symv); ok {
			// Symbolic text is assumed not to be a valid timestamp in `layout`
			// (stated bound): only the error outcome is explored, and the text is
			// constrained to contain no digit-colon-digit pattern typical of times.
			ex(fr).addPC("(not (str.contains " + sv.term + " \":\"))")
			return tuple{timeValue(time.Time{}), newErrorString(fr, "parsing time: symbolic text")}
		}
		t, err := time.Parse(layout, goString(args[1]))
		if err != nil {
			return tuple{timeValue(time.Time{}), newErrorString(fr, err.Error())}
		}
		return tuple{timeValue(t.UTC()), iface{}}
	}
}

func markOnce(cell *value) bool {
	switch c := (*cell).(type) {
	case uint32:
		if c != 0 {
			return false
		}
		*cell = uint32(1)
		return true
	case structure: // atomic.Uint32{_ noCopy; v uint32}
		for i := range c {
			if u, ok := c[i].(uint32); ok {
				if u != 0 {
					return false
				}
				c[i] = uint32(1)
				return true
			}
		}
	}
	panic(engineUnsupported{fmt.Sprintf("sync.Once layout %T", *cell)})
}

// timeValue builds the interpreter representation of a time.Time in UTC
// (wall, ext, loc) without a monotonic reading.
func timeValue(t time.Time) value {
	// wall: hasMonotonic=0 → wall holds nanoseconds, ext holds seconds since year 1.
	const unixToInternal int64 = (1969*365 + 1969/4 - 1969/100 + 1969/400) * 86400
	if t.IsZero() {
		return structure{uint64(0), int64(0), (*value)(nil)}
	}
	sec := t.Unix() + unixToInternal
	return structure{uint64(t.Nanosecond()), sec, (*value)(nil)}
}

// ---------------------------------------------------------------- JSON token model

type jsonTok struct {
	term string
	tree value // canonical tree
}

type jnull struct{}

// canonical JSON tree:
//   jnull{} | bool | string | symv | int64 | float64 | []value | *hashmap(string -> tree)

func structJSONFields(st *types.Struct) (names []string, omit []bool, inline []bool, skip []bool) {
	n := st.NumFields()
	names, omit, inline, skip = make([]string, n), make([]bool, n), make([]bool, n), make([]bool, n)
	for i := 0; i < n; i++ {
		f := st.Field(i)
		tag := reflectTagGet(st.Tag(i), "json")
		name, opts, _ := strings.Cut(tag, ",")
		if tag == "-" || !f.Exported() {
			skip[i] = true
			continue
		}
		if strings.Contains(","+opts+",", ",omitempty,") {
			omit[i] = true
		}
		if strings.Contains(","+opts+",", ",inline,") || (f.Embedded() && name == "") {
			inline[i] = true
		}
		if name == "" {
			name = f.Name()
		}
		names[i] = name
	}
	return
}

func reflectTagGet(tag, key string) string {
	for tag != "" {
		i := 0
		for i < len(tag) && tag[i] == ' ' {
			i++
		}
		tag = tag[i:]
		if tag == "" {
			break
		}
		i = 0
		for i < len(tag) && tag[i] > ' ' && tag[i] != ':' && tag[i] != '"' && tag[i] != 0x7f {
			i++
		}
		if i == 0 || i+1 >= len(tag) || tag[i] != ':' || tag[i+1] != '"' {
			break
		}
		name := tag[:i]
		tag = tag[i+1:]
		i = 1
		for i < len(tag) && tag[i] != '"' {
			if tag[i] == '\\' {
				i++
			}
			i++
		}
		if i >= len(tag) {
			break
		}
		qvalue := tag[:i+1]
		tag = tag[i+1:]
		if key == name {
			v, err := strconv.Unquote(qvalue)
			if err != nil {
				break
			}
			return v
		}
	}
	return ""
}

func isEmptyJSON(v value) bool {
	switch x := v.(type) {
	case bool:
		return !x
	case string:
		return x == ""
	case symv, symbytes:
		return false // treated as possibly non-empty: see toJSONTree for strings
	case int, int8, int16, int32, int64, uint, uint8, uint16, uint32, uint64, uintptr:
		return asInt64(x) == 0
	case float64:
		return x == 0
	case float32:
		return x == 0
	case []value:
		return len(x) == 0
	case *hashmap:
		return x.len() == 0
	case *value:
		return x == nil
	case iface:
		return x.t == nil
	}
	return false
}

// toJSONTree converts an interpreter value of static type t to a canonical tree.
func toJSONTree(fr *frame, t types.Type, v value) value {
	if itf, ok := v.(iface); ok {
		if itf.t == nil {
			return jnull{}
		}
		return toJSONTree(fr, itf.t, itf.v)
	}
	// custom marshalers we understand
	if n := typeString(t); n != "" {
		switch n {
		case "*k8s.io/apimachinery/pkg/apis/meta/v1/unstructured.Unstructured":
			p := v.(*value)
			if p == nil {
				return jnull{}
			}
			return toJSONTree(fr, tMapStringAny, (*p).(structure)[0])
		case "k8s.io/apimachinery/pkg/apis/meta/v1/unstructured.Unstructured":
			return toJSONTree(fr, tMapStringAny, v.(structure)[0])
		case "k8s.io/apimachinery/pkg/runtime.RawExtension":
			raw := v.(structure)[0]
			if sb, ok := raw.(symbytes); ok {
				for _, tk := range ex(fr).jsonToks {
					if tk.term == sb.term {
						return tk.tree
					}
				}
			}
			if b, ok := raw.([]value); ok && len(b) == 0 {
				return jnull{}
			}
			panic(engineUnsupported{"RawExtension with non-token bytes"})
		case "k8s.io/apimachinery/pkg/apis/meta/v1.Time":
			return "<time>"
		case "k8s.io/apimachinery/pkg/apis/meta/v1.Duration":
			return "<duration>"
		}
	}
	switch ut := t.Underlying().(type) {
	case *types.Basic:
		switch x := v.(type) {
		case symv, string, bool, float64:
			return x
		case float32:
			return float64(x)
		default:
			return asInt64(v)
		}
	case *types.Pointer:
		p := v.(*value)
		if p == nil {
			return jnull{}
		}
		return toJSONTree(fr, ut.Elem(), *p)
	case *types.Interface:
		return jnull{} // nil iface handled above
	case *types.Map:
		m := v.(*hashmap)
		if m == nil {
			return jnull{}
		}
		out := &hashmap{ex: ex(fr), keyType: tString}
		for _, e := range m.ents {
			k := e.key
			if _, isStr := ut.Key().Underlying().(*types.Basic); !isStr {
				// encoding.TextMarshaler keys
				mt := findMethod(fr.i, ut.Key(), "MarshalText")
				if mt == nil {
					panic(engineUnsupported{"JSON map key of type " + ut.Key().String()})
				}
				r := call(fr.i, fr, token.NoPos, mt, []value{e.key}).(tuple)
				k = bytesToString(r[0])
			}
			out.ents = append(out.ents, &entry{k, toJSONTree(fr, ut.Elem(), e.value)})
		}
		return out
	case *types.Slice:
		if sb, ok := v.(symbytes); ok {
			return symv{sort: 'S', term: "(str.++ \"b64:\" " + sb.term + ")"}
		}
		s := v.([]value)
		if s == nil {
			return jnull{}
		}
		if b, ok := ut.Elem().Underlying().(*types.Basic); ok && b.Kind() == types.Byte {
			return "b64:" + goString(bytesToString(s))
		}
		out := make([]value, len(s))
		for i, e := range s {
			out[i] = toJSONTree(fr, ut.Elem(), e)
		}
		return out
	case *types.Struct:
		st := v.(structure)
		out := &hashmap{ex: ex(fr), keyType: tString}
		structToTree(fr, ut, st, out)
		return out
	}
	panic(engineUnsupported{"JSON marshal of " + t.String()})
}

func structToTree(fr *frame, ut *types.Struct, st structure, out *hashmap) {
	names, omit, inline, skip := structJSONFields(ut)
	for i := range st {
		if skip[i] {
			continue
		}
		ft := ut.Field(i).Type()
		if inline[i] {
			if sub, ok := ft.Underlying().(*types.Struct); ok {
				structToTree(fr, sub, st[i].(structure), out)
				continue
			}
		}
		if omit[i] && isEmptyJSON(st[i]) {
			continue
		}
		out.ents = append(out.ents, &entry{names[i], toJSONTree(fr, ft, st[i])})
	}
}

func typeString(t types.Type) string {
	switch tt := t.(type) {
	case *types.Named:
		if tt.Obj().Pkg() != nil {
			return tt.Obj().Pkg().Path() + "." + tt.Obj().Name()
		}
	case *types.Pointer:
		if s := typeString(tt.Elem()); s != "" {
			return "*" + s
		}
	case *types.Alias:
		return typeString(types.Unalias(tt))
	}
	return ""
}

func bytesToString(v value) value {
	switch x := v.(type) {
	case symbytes:
		return symv{sort: 'S', term: x.term}
	case []value:
		bs := make([]byte, len(x))
		for i, e := range x {
			bs[i] = e.(byte)
		}
		return string(bs)
	}
	panic(engineUnsupported{fmt.Sprintf("bytesToString %T", v)})
}

func stringToBytes(v value) value {
	switch x := v.(type) {
	case symv:
		return symbytes{x.term}
	case string:
		out := make([]value, len(x))
		for i := 0; i < len(x); i++ {
			out[i] = x[i]
		}
		return out
	}
	panic(engineUnsupported{fmt.Sprintf("stringToBytes %T", v)})
}

// jsonEq: canonical-JSON equality of two trees as a (possibly symbolic) Bool.
func jsonEq(e *Explorer, a, b value) value {
	switch x := a.(type) {
	case jnull:
		_, ok := b.(jnull)
		return ok
	case *hashmap:
		y, ok := b.(*hashmap)
		if !ok || x.len() != y.len() {
			return false
		}
		var acc value = true
		for _, en := range x.ents {
			i := y.find(en.key)
			if i < 0 {
				return false
			}
			acc = andv(acc, jsonEq(e, en.value, y.ents[i].value))
			if acc == false {
				return false
			}
		}
		return acc
	case []value:
		y, ok := b.([]value)
		if !ok || len(x) != len(y) {
			return false
		}
		var acc value = true
		for i := range x {
			acc = andv(acc, jsonEq(e, x[i], y[i]))
			if acc == false {
				return false
			}
		}
		return acc
	}
	switch b.(type) {
	case jnull, *hashmap, []value:
		return false
	}
	ta, sa, oka := termOf(a)
	tb, sb, okb := termOf(b)
	if fa, ok := a.(float64); ok {
		if fb, ok := b.(float64); ok {
			return fa == fb
		}
		if okb && sb == 'I' {
			if ib, isC := b.(int64); isC {
				return fa == float64(ib)
			}
			panic(engineUnsupported{"JSON equality float vs symbolic int"})
		}
		return false
	}
	if _, ok := b.(float64); ok {
		return jsonEq(e, b, a)
	}
	if !oka || !okb {
		panic(engineUnsupported{fmt.Sprintf("jsonEq leaf %T/%T", a, b)})
	}
	if sa != sb {
		return false
	}
	if ta == tb {
		return true
	}
	return symv{sort: 'B', term: "(= " + ta + " " + tb + ")"}
}

// fromJSONTree materialises a canonical tree as a value of type t.
func fromJSONTree(fr *frame, t types.Type, tree value) value {
	if _, isNull := tree.(jnull); isNull {
		return zero(t)
	}
	if n := typeString(t); n != "" {
		switch n {
		case "k8s.io/apimachinery/pkg/apis/meta/v1/unstructured.Unstructured":
			return structure{fromJSONTree(fr, tMapStringAny, tree)}
		case "k8s.io/apimachinery/pkg/runtime.RawExtension":
			tok := ex(fr).newJSONToken(tree)
			return structure{symbytes{tok.term}, iface{}}
		}
	}
	switch ut := t.Underlying().(type) {
	case *types.Interface:
		switch x := tree.(type) {
		case *hashmap:
			return iface{t: tMapStringAny, v: fromJSONTree(fr, tMapStringAny, x)}
		case []value:
			return iface{t: tSliceAny, v: fromJSONTree(fr, tSliceAny, x)}
		case string:
			return iface{t: tString, v: x}
		case bool:
			return iface{t: tBool, v: x}
		case int64:
			if ex(fr).jsonStdNumbers {
				// encoding/json decodes every number into an interface{} as float64
				// (k8s.io/apimachinery/pkg/util/json turns integral ones into int64)
				return iface{t: tFloat64, v: float64(x)}
			}
			return iface{t: tInt64, v: x}
		case float64:
			return iface{t: tFloat64, v: x}
		case symv:
			switch x.sort {
			case 'S':
				return iface{t: tString, v: x}
			case 'B':
				return iface{t: tBool, v: x}
			case 'I':
				return iface{t: tInt64, v: x}
			}
		}
	case *types.Map:
		m, ok := tree.(*hashmap)
		if !ok {
			panic(jsonTypeError{fmt.Sprintf("cannot unmarshal %s into map", treeKind(tree))})
		}
		out := &hashmap{ex: ex(fr), keyType: ut.Key()}
		for _, e := range m.ents {
			out.ents = append(out.ents, &entry{e.key, fromJSONTree(fr, ut.Elem(), e.value)})
		}
		return out
	case *types.Slice:
		s, ok := tree.([]value)
		if !ok {
			panic(jsonTypeError{fmt.Sprintf("cannot unmarshal %s into slice", treeKind(tree))})
		}
		out := make([]value, len(s))
		for i, e := range s {
			out[i] = fromJSONTree(fr, ut.Elem(), e)
		}
		return out
	case *types.Pointer:
		return mkPtr(fromJSONTree(fr, ut.Elem(), tree))
	case *types.Struct:
		m, ok := tree.(*hashmap)
		if !ok {
			panic(jsonTypeError{fmt.Sprintf("cannot unmarshal %s into struct", treeKind(tree))})
		}
		out := zero(t).(structure)
		treeToStruct(fr, ut, m, out)
		return out
	case *types.Basic:
		switch {
		case ut.Info()&types.IsString != 0:
			switch x := tree.(type) {
			case string:
				return x
			case symv:
				if x.sort == 'S' {
					return x
				}
			}
		case ut.Info()&types.IsBoolean != 0:
			switch x := tree.(type) {
			case bool:
				return x
			case symv:
				if x.sort == 'B' {
					return x
				}
			}
		case ut.Info()&types.IsInteger != 0:
			switch x := tree.(type) {
			case int64:
				return conv(t, tInt64, x)
			case symv:
				if x.sort == 'I' && (ut.Kind() == types.Int64 || ut.Kind() == types.Int) {
					return x
				}
			}
		case ut.Info()&types.IsFloat != 0:
			switch x := tree.(type) {
			case int64:
				return conv(t, tInt64, x)
			case float64:
				return conv(t, tFloat64, x)
			}
		}
		panic(jsonTypeError{fmt.Sprintf("cannot unmarshal %s into %s", treeKind(tree), t)})
	}
	panic(engineUnsupported{"JSON unmarshal into " + t.String()})
}

type jsonTypeError struct{ msg string }

func treeKind(tree value) string {
	switch x := tree.(type) {
	case *hashmap:
		return "object"
	case []value:
		return "array"
	case string:
		return "string"
	case bool:
		return "bool"
	case int64, float64:
		return "number"
	case symv:
		return map[byte]string{'S': "string", 'B': "bool", 'I': "number"}[x.sort]
	}
	return "null"
}

func treeToStruct(fr *frame, ut *types.Struct, m *hashmap, out structure) {
	names, _, inline, skip := structJSONFields(ut)
	for i := range out {
		if skip[i] {
			continue
		}
		ft := ut.Field(i).Type()
		if inline[i] {
			if sub, ok := ft.Underlying().(*types.Struct); ok {
				treeToStruct(fr, sub, m, out[i].(structure))
				continue
			}
		}
		// case-insensitive match like encoding/json: exact first
		idx := m.find(names[i])
		if idx < 0 {
			continue
		}
		out[i] = fromJSONTree(fr, ft, m.ents[idx].value)
	}
}

func (e *Explorer) newJSONToken(tree value) *jsonTok {
	for _, tk := range e.jsonToks {
		if tk.tree == nil {
			continue
		}
	}
	v := e.fresh('S', "json")
	tok := &jsonTok{term: v.term, tree: tree}
	e.S.Send("(assert (>= (str.len " + v.term + ") 2))")
	for _, o := range e.jsonToks {
		c := jsonEq(e, tree, o.tree)
		ct, _, _ := termOf(c)
		e.S.Send("(assert (= (= " + v.term + " " + o.term + ") " + ct + "))")
	}
	e.jsonToks = append(e.jsonToks, tok)
	return tok
}

func (e *Explorer) findToken(term string) *jsonTok {
	for _, tk := range e.jsonToks {
		if tk.term == term {
			return tk
		}
	}
	return nil
}

func copyTree(v value) value {
	switch x := v.(type) {
	case *hashmap:
		m := &hashmap{ex: x.ex, keyType: x.keyType}
		for _, e := range x.ents {
			m.ents = append(m.ents, &entry{e.key, copyTree(e.value)})
		}
		return m
	case []value:
		s := make([]value, len(x))
		for i, e := range x {
			s[i] = copyTree(e)
		}
		return s
	}
	return v
}

func init() {
	marshal := func(fr *frame, args []value) value {
		itf := args[0].(iface)
		var tree value = jnull{}
		if itf.t != nil {
			tree = toJSONTree(fr, itf.t, itf.v)
		}
		tok := ex(fr).newJSONToken(tree)
		return tuple{symbytes{tok.term}, iface{}}
	}
	unmarshal := func(fr *frame, args []value) (res value) {
		data := args[0]
		var tok *jsonTok
		switch d := data.(type) {
		case symbytes:
			tok = ex(fr).findToken(d.term)
			if tok == nil {
				// a symbolic string that is not syntactically a token: it may still
				// be equal to one
				for _, tk := range ex(fr).jsonToks {
					if ex(fr).branch(symv{sort: 'B', term: "(= " + d.term + " " + tk.term + ")"}) {
						tok = tk
						break
					}
				}
			}
			if tok == nil {
				return newErrorString(fr, "invalid JSON (symbolic non-token text)")
			}
		case []value:
			s := goString(bytesToString(d))
			tree, err := parseConcreteJSON(ex(fr), s)
			if err != nil {
				return newErrorString(fr, "json: "+err.Error())
			}
			tok = &jsonTok{tree: tree}
		default:
			panic(engineUnsupported{fmt.Sprintf("json.Unmarshal of %T", data)})
		}
		out := args[1].(iface)
		pt, ok := out.t.Underlying().(*types.Pointer)
		if !ok {
			return newErrorString(fr, "json: Unmarshal(non-pointer)")
		}
		defer func() {
			if r := recover(); r != nil {
				if te, ok := r.(jsonTypeError); ok {
					res = newErrorString(fr, "json: "+te.msg)
					return
				}
				panic(r)
			}
		}()
		p := out.v.(*value)
		if _, isNull := tok.tree.(jnull); isNull {
			return iface{} // null leaves the target unchanged
		}
		*p = fromJSONTree(fr, pt.Elem(), copyTree(tok.tree))
		return iface{}
	}
	for _, n := range []string{"k8s.io/apimachinery/pkg/util/json.Marshal", "encoding/json.Marshal"} {
		externals[n] = marshal
	}
	externals["k8s.io/apimachinery/pkg/util/json.Unmarshal"] = unmarshal
	externals["encoding/json.Unmarshal"] = func(fr *frame, args []value) value {
		e := ex(fr)
		saved := e.jsonStdNumbers
		e.jsonStdNumbers = true
		defer func() { e.jsonStdNumbers = saved }()
		return unmarshal(fr, args)
	}
}

// ---------------------------------------------------------------- DeepEqual

func deepEq(e *Explorer, a, b value) value {
	switch x := a.(type) {
	case *hashmap:
		y, ok := b.(*hashmap)
		if !ok || x.len() != y.len() || (x == nil) != (y == nil) {
			return false
		}
		if x == nil {
			return true // two nil maps (x.ents below would dereference nil)
		}
		var acc value = true
		for _, en := range x.ents {
			i := y.find(en.key)
			if i < 0 {
				return false
			}
			acc = andv(acc, deepEq(e, en.value, y.ents[i].value))
			if acc == false {
				return false
			}
		}
		return acc
	case []value:
		y, ok := b.([]value)
		if !ok || len(x) != len(y) || (x == nil) != (y == nil) {
			return false
		}
		var acc value = true
		for i := range x {
			acc = andv(acc, deepEq(e, x[i], y[i]))
			if acc == false {
				return false
			}
		}
		return acc
	case iface:
		y, ok := b.(iface)
		if !ok {
			return false
		}
		if x.t == nil || y.t == nil {
			return x.t == nil && y.t == nil
		}
		if !types.Identical(x.t, y.t) {
			return false
		}
		return deepEq(e, x.v, y.v)
	case *value:
		y, ok := b.(*value)
		if !ok {
			return false
		}
		if x == nil || y == nil {
			return x == y
		}
		if x == y {
			return true
		}
		return deepEq(e, *x, *y)
	case structure:
		y, ok := b.(structure)
		if !ok || len(x) != len(y) {
			return false
		}
		var acc value = true
		for i := range x {
			acc = andv(acc, deepEq(e, x[i], y[i]))
			if acc == false {
				return false
			}
		}
		return acc
	case array:
		y, ok := b.(array)
		if !ok || len(x) != len(y) {
			return false
		}
		var acc value = true
		for i := range x {
			acc = andv(acc, deepEq(e, x[i], y[i]))
			if acc == false {
				return false
			}
		}
		return acc
	case *ssa.Function:
		y, ok := b.(*ssa.Function)
		return ok && x == nil && y == nil
	case *closure:
		return false
	case symbytes:
		switch y := b.(type) {
		case symbytes:
			return eqv(nil, symv{sort: 'S', term: x.term}, symv{sort: 'S', term: y.term})
		case []value:
			if y == nil {
				return false
			}
			return eqv(nil, symv{sort: 'S', term: x.term}, bytesToString(y))
		}
		return false
	}
	if sb, ok := b.(symbytes); ok {
		return deepEq(e, sb, a)
	}
	if isSym(a) || isSym(b) {
		_, sa, oka := termOf(a)
		_, sb, okb := termOf(b)
		if !oka || !okb || sa != sb {
			return false
		}
		return eqv(nil, a, b)
	}
	return a == b
}

func init() {
	externals["reflect.DeepEqual"] = func(fr *frame, args []value) value { return deepEq(ex(fr), args[0], args[1]) }
	externals["(k8s.io/apimachinery/third_party/forked/golang/reflect.Equalities).DeepEqual"] = func(fr *frame, args []value) value {
		return deepEq(ex(fr), args[1], args[2])
	}
}

// ---------------------------------------------------------------- strings / strconv

func strTerm(v value) string {
	t, s, ok := termOf(v)
	if !ok || s != 'S' {
		panic(engineUnsupported{fmt.Sprintf("string term of %T", v)})
	}
	return t
}

func stringSlice(parts []value) value { return parts }

// splitN models strings.SplitN(s, sep, n) for a single-character concrete sep
// by word equations with fresh parts.  n<0 means "all", bounded by maxParts.
func splitN(e *Explorer, s value, sep string, n int, maxParts int) []value {
	if len(sep) != 1 {
		panic(engineUnsupported{"Split with symbolic text and multi-character separator"})
	}
	var parts []value
	cur := s
	for {
		if n > 0 && len(parts) == n-1 {
			return append(parts, cur)
		}
		if len(parts) >= maxParts {
			e.inconclusive("bound-exceeded: Split parts")
			panic(pathAbort{"split bound"})
		}
		ct := strTerm(cur)
		if cs, ok := cur.(string); ok {
			i := strings.Index(cs, sep)
			if i < 0 {
				return append(parts, cur)
			}
			parts = append(parts, cs[:i])
			cur = cs[i+1:]
			continue
		}
		if !e.branch(symv{sort: 'B', term: "(str.contains " + ct + " " + smtStr(sep) + ")"}) {
			return append(parts, cur)
		}
		head := e.fresh('S', "split")
		rest := e.fresh('S', "split")
		e.addPC("(= " + ct + " (str.++ " + head.term + " " + smtStr(sep) + " " + rest.term + "))")
		e.addPC("(not (str.contains " + head.term + " " + smtStr(sep) + "))")
		parts = append(parts, head)
		cur = rest
	}
}

func init() {
	symExternals["strings.SplitN"] = func(fr *frame, args []value) value {
		return stringSlice(splitN(ex(fr), args[0], goString(args[1]), int(asInt64(args[2])), 6))
	}
	symExternals["strings.Split"] = func(fr *frame, args []value) value {
		return stringSlice(splitN(ex(fr), args[0], goString(args[1]), -1, 5))
	}
	symExternals["strings.HasPrefix"] = func(fr *frame, args []value) value {
		return symv{sort: 'B', term: "(str.prefixof " + strTerm(args[1]) + " " + strTerm(args[0]) + ")"}
	}
	symExternals["strings.HasSuffix"] = func(fr *frame, args []value) value {
		return symv{sort: 'B', term: "(str.suffixof " + strTerm(args[1]) + " " + strTerm(args[0]) + ")"}
	}
	symExternals["strings.Contains"] = func(fr *frame, args []value) value {
		return symv{sort: 'B', term: "(str.contains " + strTerm(args[0]) + " " + strTerm(args[1]) + ")"}
	}
	symExternals["strings.ReplaceAll"] = func(fr *frame, args []value) value {
		return symv{sort: 'S', term: "(str.replace_all " + strTerm(args[0]) + " " + strTerm(args[1]) + " " + strTerm(args[2]) + ")"}
	}
	symExternals["strings.Join"] = func(fr *frame, args []value) value {
		el := args[0].([]value)
		if len(el) == 0 {
			return ""
		}
		t := "(str.++"
		for i, e := range el {
			if i > 0 {
				t += " " + strTerm(args[1])
			}
			t += " " + strTerm(e)
		}
		if len(el) == 1 {
			return el[0]
		}
		return symv{sort: 'S', term: t + ")"}
	}
	symExternals["strings.Clone"] = func(fr *frame, args []value) value { return args[0] }
	externals["strings.Clone"] = func(fr *frame, args []value) value { return args[0] }
	symExternals["strings.Count"] = func(fr *frame, args []value) value {
		// only the "how many separators" use with a 1-char separator, bounded
		parts := splitN(ex(fr), args[0], goString(args[1]), -1, 5)
		return len(parts) - 1
	}
	symExternals["strings.Index"] = func(fr *frame, args []value) value {
		return symv{sort: 'I', term: "(str.indexof " + strTerm(args[0]) + " " + strTerm(args[1]) + " 0)"}
	}
	symExternals["strings.TrimSpace"] = func(fr *frame, args []value) value {
		panic(engineUnsupported{"strings.TrimSpace on symbolic text"})
	}
	symExternals["strconv.Itoa"] = func(fr *frame, args []value) value {
		return symv{sort: 'S', term: strOfInt(args[0].(symv).term), fromInt: args[0].(symv).term}
	}
	symExternals["strconv.Atoi"] = func(fr *frame, args []value) value {
		s := strTerm(args[0])
		e := ex(fr)
		okc := "(and (>= (str.to_int " + s + ") 0) (<= (str.len " + s + ") 18))"
		if e.branch(symv{sort: 'B', term: okc}) {
			return tuple{symv{sort: 'I', term: "(str.to_int " + s + ")"}, iface{}}
		}
		// signed forms ("+5", "-5") and >18 digits are outside the model (stated)
		e.addPC("(not (str.prefixof \"-\" " + s + "))")
		e.addPC("(not (str.prefixof \"+\" " + s + "))")
		e.addPC("(<= (str.len " + s + ") 18)")
		return tuple{0, newErrorString(fr, "strconv.Atoi: invalid syntax")}
	}
	// schema.ParseGroupVersion slices by index; model it with word equations.
	symExternals["k8s.io/apimachinery/pkg/runtime/schema.ParseGroupVersion"] = func(fr *frame, args []value) value {
		e := ex(fr)
		gv := args[0]
		t := strTerm(gv)
		if e.branch(symv{sort: 'B', term: "(or (= " + t + " \"\") (= " + t + " \"/\"))"}) {
			return tuple{structure{"", ""}, iface{}}
		}
		parts := splitN(e, gv, "/", -1, 3)
		switch len(parts) {
		case 1:
			return tuple{structure{"", parts[0]}, iface{}}
		case 2:
			return tuple{structure{parts[0], parts[1]}, iface{}}
		}
		return tuple{structure{"", ""}, newErrorString(fr, "unexpected GroupVersion string")}
	}
}

// ---------------------------------------------------------------- hashes

// uninterpreted, injective hash of a string term → Int term
func (e *Explorer) hashTerm(src string, lo, hi string) symv {
	h := e.fresh('I', "hash")
	e.S.Send("(assert (and (<= " + lo + " " + h.term + ") (<= " + h.term + " " + hi + ")))")
	for i := 0; i+1 < len(e.hashToks); i += 2 {
		e.S.Send("(assert (= (= " + h.term + " " + e.hashToks[i+1] + ") (= " + src + " " + e.hashToks[i] + ")))")
	}
	e.hashToks = append(e.hashToks, src, h.term)
	return h
}

func init() {
	externals["github.com/cespare/xxhash/v2.Sum64"] = func(fr *frame, args []value) value {
		return ex(fr).hashTerm(strTerm(bytesToString(args[0])), "0", "18446744073709551615")
	}
	// sha1+hex of (uid, patch): an injective uninterpreted function rendered as
	// a fresh 40-character string (equal inputs <=> equal digests)
	externals["metacontroller/pkg/controller/composite.controllerRevisionHash"] = func(fr *frame, args []value) value {
		a := strTerm(bytesToString(args[0]))
		b := strTerm(bytesToString(args[1]))
		src := "(str.++ " + a + " \"|\" " + b + ")"
		e := ex(fr)
		for i := 0; i+1 < len(e.digests); i += 2 {
			if e.digests[i] == src {
				return symv{sort: 'S', term: e.digests[i+1]}
			}
		}
		h := e.fresh('S', "sha")
		e.S.Send("(assert (= (str.len " + h.term + ") 40))")
		for i := 0; i+1 < len(e.digests); i += 2 {
			e.S.Send("(assert (= (= " + h.term + " " + e.digests[i+1] + ") (= " + src + " " + e.digests[i] + ")))")
		}
		e.digests = append(e.digests, src, h.term)
		return h
	}
}

// parseConcreteJSON parses a concrete JSON text into a canonical tree.
func parseConcreteJSON(e *Explorer, s string) (value, error) {
	p := &jparser{s: s, e: e}
	p.ws()
	v, err := p.val()
	if err != nil {
		return nil, err
	}
	p.ws()
	if p.i != len(p.s) {
		return nil, fmt.Errorf("trailing data")
	}
	return v, nil
}

type jparser struct {
	s string
	i int
	e *Explorer
}

func (p *jparser) ws() {
	for p.i < len(p.s) && strings.IndexByte(" \t\r\n", p.s[p.i]) >= 0 {
		p.i++
	}
}

func (p *jparser) val() (value, error) {
	if p.i >= len(p.s) {
		return nil, fmt.Errorf("unexpected end")
	}
	switch c := p.s[p.i]; {
	case c == '{':
		p.i++
		m := &hashmap{ex: p.e, keyType: tString}
		p.ws()
		if p.i < len(p.s) && p.s[p.i] == '}' {
			p.i++
			return m, nil
		}
		for {
			p.ws()
			k, err := p.str()
			if err != nil {
				return nil, err
			}
			p.ws()
			if p.i >= len(p.s) || p.s[p.i] != ':' {
				return nil, fmt.Errorf("expected :")
			}
			p.i++
			p.ws()
			v, err := p.val()
			if err != nil {
				return nil, err
			}
			m.insert(k, v)
			p.ws()
			if p.i < len(p.s) && p.s[p.i] == ',' {
				p.i++
				continue
			}
			if p.i < len(p.s) && p.s[p.i] == '}' {
				p.i++
				return m, nil
			}
			return nil, fmt.Errorf("expected , or }")
		}
	case c == '[':
		p.i++
		out := []value{}
		p.ws()
		if p.i < len(p.s) && p.s[p.i] == ']' {
			p.i++
			return out, nil
		}
		for {
			p.ws()
			v, err := p.val()
			if err != nil {
				return nil, err
			}
			out = append(out, v)
			p.ws()
			if p.i < len(p.s) && p.s[p.i] == ',' {
				p.i++
				continue
			}
			if p.i < len(p.s) && p.s[p.i] == ']' {
				p.i++
				return out, nil
			}
			return nil, fmt.Errorf("expected , or ]")
		}
	case c == '"':
		return p.str()
	case strings.HasPrefix(p.s[p.i:], "true"):
		p.i += 4
		return true, nil
	case strings.HasPrefix(p.s[p.i:], "false"):
		p.i += 5
		return false, nil
	case strings.HasPrefix(p.s[p.i:], "null"):
		p.i += 4
		return jnull{}, nil
	default:
		j := p.i
		for j < len(p.s) && strings.IndexByte("+-0123456789.eE", p.s[j]) >= 0 {
			j++
		}
		if j == p.i {
			return nil, fmt.Errorf("invalid character %q", c)
		}
		num := p.s[p.i:j]
		p.i = j
		if n, err := strconv.ParseInt(num, 10, 64); err == nil {
			return n, nil
		}
		f, err := strconv.ParseFloat(num, 64)
		if err != nil {
			return nil, err
		}
		return f, nil
	}
}

func (p *jparser) str() (string, error) {
	if p.i >= len(p.s) || p.s[p.i] != '"' {
		return "", fmt.Errorf("expected string")
	}
	j := p.i + 1
	for j < len(p.s) && p.s[j] != '"' {
		if p.s[j] == '\\' {
			j++
		}
		j++
	}
	if j >= len(p.s) {
		return "", fmt.Errorf("unterminated string")
	}
	s, err := strconv.Unquote(p.s[p.i : j+1])
	if err != nil {
		return "", err
	}
	p.i = j + 1
	return s, nil
}

var _ = sort.Strings

package interp

// Scratch prototype: symbolic values + DART-style path exploration by re-execution.

import (
	"bufio"
	"fmt"
	"go/types"
	"io"
	"os/exec"
	"strconv"
	"strings"
	"time"
)

type symv struct {
	sort byte // 'B', 'S', 'I'
	term string
}

func smtStr(s string) string {
	var b strings.Builder
	b.WriteByte('"')
	for _, r := range s {
		if r == '"' {
			b.WriteString(`""`)
		} else if r < 32 || r > 126 || r == '\\' {
			fmt.Fprintf(&b, "\\u{%x}", r)
		} else {
			b.WriteRune(r)
		}
	}
	b.WriteByte('"')
	return b.String()
}

func termOf(v value) (string, byte, bool) {
	switch x := v.(type) {
	case symv:
		return x.term, x.sort, true
	case string:
		return smtStr(x), 'S', true
	case bool:
		if x {
			return "true", 'B', true
		}
		return "false", 'B', true
	case int, int8, int16, int32, int64, uint, uint8, uint16, uint32, uint64:
		n := asInt64(x)
		if n < 0 {
			return fmt.Sprintf("(- %d)", -n), 'I', true
		}
		return strconv.FormatInt(n, 10), 'I', true
	}
	return "", 0, false
}

func isSym(v value) bool { _, ok := v.(symv); return ok }

// ---- solver ----

type Solver struct {
	cmd   *exec.Cmd
	in    io.WriteCloser
	out   *bufio.Reader
	Calls int
	Time  time.Duration
}

func NewSolver(argv ...string) *Solver {
	cmd := exec.Command(argv[0], argv[1:]...)
	in, _ := cmd.StdinPipe()
	out, _ := cmd.StdoutPipe()
	if err := cmd.Start(); err != nil {
		panic(err)
	}
	s := &Solver{cmd: cmd, in: in, out: bufio.NewReader(out)}
	s.send("(set-logic ALL)")
	return s
}

func (s *Solver) send(l string) { io.WriteString(s.in, l+"\n") }

func (s *Solver) Check(decls []string, asserts []string) string {
	t0 := time.Now()
	s.send("(push 1)")
	for _, d := range decls {
		s.send(d)
	}
	for _, a := range asserts {
		s.send("(assert " + a + ")")
	}
	s.send("(check-sat)")
	line, _ := s.out.ReadString('\n')
	s.send("(pop 1)")
	s.Calls++
	s.Time += time.Since(t0)
	return strings.TrimSpace(line)
}

// ---- explorer ----

type Explorer struct {
	S        *Solver
	prefix   []bool
	pos      int
	pc       []string
	decls    []string
	nsym     int
	Work     [][]bool
	Paths    int
	Viol     []string
	Branches int
}

var EX *Explorer

type pathAbort struct{ why string }

func (e *Explorer) fresh(sort byte, tag string) symv {
	e.nsym++
	name := fmt.Sprintf("%s_%d", tag, e.nsym)
	ss := map[byte]string{'B': "Bool", 'S': "String", 'I': "Int"}[sort]
	e.decls = append(e.decls, fmt.Sprintf("(declare-const %s %s)", name, ss))
	return symv{sort, name}
}

func (e *Explorer) branch(c value) bool {
	switch x := c.(type) {
	case bool:
		return x
	case symv:
		e.Branches++
		if e.pos < len(e.prefix) {
			d := e.prefix[e.pos]
			e.pos++
			if d {
				e.pc = append(e.pc, x.term)
			} else {
				e.pc = append(e.pc, "(not "+x.term+")")
			}
			return d
		}
		canT := e.S.Check(e.decls, append(append([]string{}, e.pc...), x.term)) != "unsat"
		canF := e.S.Check(e.decls, append(append([]string{}, e.pc...), "(not "+x.term+")")) != "unsat"
		if !canT && !canF {
			panic(pathAbort{"infeasible"})
		}
		d := canT
		if canT && canF {
			alt := append(append([]bool{}, e.prefix...), false)
			e.Work = append(e.Work, alt)
		}
		e.prefix = append(e.prefix, d)
		e.pos++
		if d {
			e.pc = append(e.pc, x.term)
		} else {
			e.pc = append(e.pc, "(not "+x.term+")")
		}
		return d
	}
	panic(fmt.Sprintf("branch on %T", c))
}

func (e *Explorer) assume(c value) {
	if !e.branchOnly(c, true) {
		panic(pathAbort{"assume false"})
	}
}

func (e *Explorer) branchOnly(c value, want bool) bool {
	switch x := c.(type) {
	case bool:
		return x == want
	case symv:
		t := x.term
		if !want {
			t = "(not " + t + ")"
		}
		if e.S.Check(e.decls, append(append([]string{}, e.pc...), t)) == "unsat" {
			return false
		}
		e.pc = append(e.pc, t)
		return true
	}
	panic("assume")
}

func (e *Explorer) assert(c value, msg string) {
	switch x := c.(type) {
	case bool:
		if !x {
			e.Viol = append(e.Viol, msg+" (concrete)")
		}
	case symv:
		r := e.S.Check(e.decls, append(append([]string{}, e.pc...), "(not "+x.term+")"))
		if r != "unsat" {
			e.Viol = append(e.Viol, msg+" ["+r+"] pc="+strings.Join(e.pc, " & "))
		}
		e.pc = append(e.pc, x.term)
	}
}

// eqv: sym-aware equality for basic values; falls back to equals.
func eqv(t types.Type, x, y value) value {
	if isSym(x) || isSym(y) {
		tx, _, _ := termOf(x)
		ty, _, _ := termOf(y)
		return symv{'B', "(= " + tx + " " + ty + ")"}
	}
	switch xx := x.(type) {
	case iface:
		yy := y.(iface)
		if xx.t == nil || yy.t == nil {
			return xx.t == nil && yy.t == nil
		}
		if !types.Identical(xx.t, yy.t) {
			return false
		}
		return eqv(xx.t, xx.v, yy.v)
	case structure:
		yy := y.(structure)
		st := t.Underlying().(*types.Struct)
		var acc value = true
		for i := range xx {
			if st.Field(i).Name() == "_" {
				continue
			}
			acc = andv(acc, eqv(st.Field(i).Type(), xx[i], yy[i]))
		}
		return acc
	}
	return equals(t, x, y)
}

func andv(a, b value) value {
	if ab, ok := a.(bool); ok {
		if !ab {
			return false
		}
		return b
	}
	if bb, ok := b.(bool); ok {
		if !bb {
			return false
		}
		return a
	}
	return symv{'B', "(and " + a.(symv).term + " " + b.(symv).term + ")"}
}

func notv(a value) value {
	if ab, ok := a.(bool); ok {
		return !ab
	}
	return symv{'B', "(not " + a.(symv).term + ")"}
}

package interp

// Symbolic scalar values and the SMT solver pipe.
//
// A symv is an SMT-LIB2 term of sort Bool ('B'), String ('S') or Int ('I').
// All other interpreter values stay concrete (KLEE/DART style: concrete heap,
// symbolic scalars).

import (
	"bufio"
	"fmt"
	"go/types"
	"io"
	"os/exec"
	"strconv"
	"strings"
	"syscall"
	"time"
)

type symv struct {
	sort byte // 'B', 'S', 'I'
	term string
	// fromInt: for a String term that is the decimal rendering of this Int
	// term (fmt %d/%v, strconv.Itoa). Rendering is injective, so equalities
	// between such strings are decided on the integers.
	fromInt string
}

// symbytes is the []byte view of a symbolic string (result of []byte(s) or of
// json.Marshal). Only conversions back to string, len, equality and the JSON /
// hash intrinsics understand it; any other use is an engine "unsupported".
type symbytes struct {
	term string
}

func smtStr(s string) string {
	var b strings.Builder
	b.WriteByte('"')
	for _, r := range s {
		if r == '"' {
			b.WriteString(`""`)
		} else if r < 32 || r > 126 || r == '\\' {
			fmt.Fprintf(&b, "\\u{%x}", r)
		} else {
			b.WriteRune(r)
		}
	}
	b.WriteByte('"')
	return b.String()
}

func smtInt(n int64) string {
	if n < 0 {
		if n == -9223372036854775808 {
			return "(- 9223372036854775808)"
		}
		return fmt.Sprintf("(- %d)", -n)
	}
	return strconv.FormatInt(n, 10)
}

func termOf(v value) (string, byte, bool) {
	switch x := v.(type) {
	case symv:
		return x.term, x.sort, true
	case symbytes:
		return x.term, 'S', true
	case string:
		return smtStr(x), 'S', true
	case bool:
		if x {
			return "true", 'B', true
		}
		return "false", 'B', true
	case int, int8, int16, int32, int64:
		return smtInt(asInt64(x)), 'I', true
	case uint, uint8, uint16, uint32, uintptr:
		return strconv.FormatUint(asUint64(x), 10), 'I', true
	case uint64:
		return strconv.FormatUint(x, 10), 'I', true
	}
	return "", 0, false
}

func isSym(v value) bool {
	switch v.(type) {
	case symv, symbytes:
		return true
	}
	return false
}

func mkBool(t string) value {
	switch t {
	case "true":
		return true
	case "false":
		return false
	}
	return symv{sort: 'B', term: t}
}

func andv(a, b value) value {
	if ab, ok := a.(bool); ok {
		if !ab {
			return false
		}
		return b
	}
	if bb, ok := b.(bool); ok {
		if !bb {
			return false
		}
		return a
	}
	return symv{sort: 'B', term: "(and " + a.(symv).term + " " + b.(symv).term + ")"}
}

func orv(a, b value) value {
	if ab, ok := a.(bool); ok {
		if ab {
			return true
		}
		return b
	}
	if bb, ok := b.(bool); ok {
		if bb {
			return true
		}
		return a
	}
	return symv{sort: 'B', term: "(or " + a.(symv).term + " " + b.(symv).term + ")"}
}

func notv(a value) value {
	if ab, ok := a.(bool); ok {
		return !ab
	}
	t := a.(symv).term
	if strings.HasPrefix(t, "(not ") && balanced(t[5:len(t)-1]) {
		return symv{sort: 'B', term: t[5 : len(t)-1]}
	}
	return symv{sort: 'B', term: "(not " + t + ")"}
}

func balanced(s string) bool {
	d := 0
	inStr := false
	for i := 0; i < len(s); i++ {
		c := s[i]
		if inStr {
			if c == '"' {
				inStr = false
			}
			continue
		}
		switch c {
		case '"':
			inStr = true
		case '(':
			d++
		case ')':
			d--
			if d < 0 {
				return false
			}
			if d == 0 && i != len(s)-1 {
				return false
			}
		case ' ':
			if d == 0 {
				return false
			}
		}
	}
	return d == 0 && !inStr
}

// eqv: sym-aware equality; falls back to the interpreter's equals.
func eqv(t types.Type, x, y value) value {
	if isSym(x) || isSym(y) {
		if r, ok := eqFromInt(x, y); ok {
			return r
		}
		tx, sx, okx := termOf(x)
		ty, sy, oky := termOf(y)
		if !okx || !oky || sx != sy {
			panic(engineUnsupported{fmt.Sprintf("eqv on %T / %T", x, y)})
		}
		if tx == ty {
			return true
		}
		return symv{sort: 'B', term: "(= " + tx + " " + ty + ")"}
	}
	switch xx := x.(type) {
	case iface:
		yy := y.(iface)
		if xx.t == nil || yy.t == nil {
			return xx.t == nil && yy.t == nil
		}
		if !types.Identical(xx.t, yy.t) {
			return false
		}
		return eqv(xx.t, xx.v, yy.v)
	case structure:
		yy := y.(structure)
		st := t.Underlying().(*types.Struct)
		var acc value = true
		for i := range xx {
			if st.Field(i).Name() == "_" {
				continue
			}
			acc = andv(acc, eqv(st.Field(i).Type(), xx[i], yy[i]))
			if acc == false {
				return false
			}
		}
		return acc
	case array:
		yy := y.(array)
		et := t.Underlying().(*types.Array).Elem()
		var acc value = true
		for i := range xx {
			acc = andv(acc, eqv(et, xx[i], yy[i]))
			if acc == false {
				return false
			}
		}
		return acc
	}
	return equals(t, x, y)
}

// ---- solver ----

type Solver struct {
	name  string
	cmd   *exec.Cmd
	in    *bufio.Writer
	inc   io.WriteCloser
	out   *bufio.Reader
	Calls int
	Time  time.Duration
	Sat   int
	Unsat int
	Unk   int
	Errs  int
	log   io.Writer // optional SMT-LIB2 transcript
	tmo   int       // per-query timeout ms
}

// SolverArgv returns the command line for a named back end.
func SolverArgv(name string, timeoutMs int) []string {
	switch name {
	case "z3":
		return []string{"z3", "-in", fmt.Sprintf("-t:%d", timeoutMs)}
	case "z3-new":
		return []string{"z3-new", "-in", fmt.Sprintf("-t:%d", timeoutMs)}
	default:
		return []string{"cvc5", "--incremental", "--strings-exp", "--produce-models", fmt.Sprintf("--tlimit-per=%d", timeoutMs)}
	}
}

func NewSolver(name string, timeoutMs int, log io.Writer) *Solver {
	argv := SolverArgv(name, timeoutMs)
	cmd := exec.Command(argv[0], argv[1:]...)
	cmd.SysProcAttr = &syscall.SysProcAttr{Pdeathsig: syscall.SIGKILL}
	in, _ := cmd.StdinPipe()
	out, _ := cmd.StdoutPipe()
	if err := cmd.Start(); err != nil {
		panic(err)
	}
	s := &Solver{name: name, cmd: cmd, inc: in, in: bufio.NewWriterSize(in, 1<<16), out: bufio.NewReaderSize(out, 1<<16), log: log, tmo: timeoutMs}
	s.Send("(set-option :produce-models true)")
	s.Send("(set-logic ALL)")
	return s
}

func (s *Solver) Close() {
	s.in.Flush()
	s.inc.Close()
	s.cmd.Process.Kill()
	s.cmd.Wait()
}

func (s *Solver) Send(l string) {
	s.in.WriteString(l)
	s.in.WriteByte('\n')
	if s.log != nil {
		io.WriteString(s.log, l+"\n")
	}
}

func (s *Solver) readLine() string {
	s.in.Flush()
	line, err := s.out.ReadString('\n')
	if err != nil {
		return "(error \"solver died: " + err.Error() + "\")"
	}
	return strings.TrimSpace(line)
}

// CheckWith: sat / unsat / unknown for current context ∧ extra.
func (s *Solver) CheckWith(extra ...string) string {
	t0 := time.Now()
	if len(extra) > 0 {
		s.Send("(push 1)")
		for _, a := range extra {
			s.Send("(assert " + a + ")")
		}
	}
	s.Send("(check-sat)")
	r := s.readLine()
	if len(extra) > 0 {
		s.Send("(pop 1)")
	}
	s.Calls++
	s.Time += time.Since(t0)
	switch r {
	case "sat":
		s.Sat++
	case "unsat":
		s.Unsat++
	case "unknown", "timeout":
		r = "unknown"
		s.Unk++
	default:
		s.Errs++
		r = "error: " + r
	}
	return r
}

// ModelWith checks context ∧ extra and, when sat, returns the values of the
// given terms (raw SMT-LIB value syntax).
func (s *Solver) ModelWith(terms []string, extra ...string) (string, []string) {
	t0 := time.Now()
	s.Send("(push 1)")
	for _, a := range extra {
		s.Send("(assert " + a + ")")
	}
	s.Send("(check-sat)")
	r := s.readLine()
	s.Calls++
	var vals []string
	if r == "sat" {
		s.Sat++
		for _, t := range terms {
			s.Send("(get-value (" + t + "))")
			vals = append(vals, parseGetValue(s.readSexp()))
		}
	} else if r == "unsat" {
		s.Unsat++
	} else if r == "unknown" || r == "timeout" {
		r = "unknown"
		s.Unk++
	} else {
		s.Errs++
		r = "error: " + r
	}
	s.Send("(pop 1)")
	s.Time += time.Since(t0)
	return r, vals
}

// readSexp reads one balanced s-expression (possibly spanning lines).
func (s *Solver) readSexp() string {
	var b strings.Builder
	depth := 0
	inStr := false
	started := false
	for {
		line := s.readLine()
		b.WriteString(line)
		for i := 0; i < len(line); i++ {
			c := line[i]
			if inStr {
				if c == '"' {
					inStr = false
				}
				continue
			}
			switch c {
			case '"':
				inStr = true
			case '(':
				depth++
				started = true
			case ')':
				depth--
			}
		}
		if started && depth <= 0 && !inStr {
			return b.String()
		}
		if !started && line != "" {
			return b.String()
		}
		b.WriteByte('\n')
	}
}

// parseGetValue extracts V from "((term V))".
func parseGetValue(s string) string {
	s = strings.TrimSpace(s)
	if !strings.HasPrefix(s, "((") {
		return s
	}
	s = s[2 : len(s)-2]
	// skip the echoed term: it is balanced; find its end.
	i := 0
	depth := 0
	inStr := false
	for ; i < len(s); i++ {
		c := s[i]
		if inStr {
			if c == '"' {
				inStr = false
			}
			continue
		}
		if c == '"' {
			inStr = true
		} else if c == '(' {
			depth++
		} else if c == ')' {
			depth--
		} else if c == ' ' && depth == 0 {
			break
		}
	}
	return strings.TrimSpace(s[i:])
}

// DecodeSMTString turns an SMT-LIB string literal into a Go string.
func DecodeSMTString(lit string) string {
	lit = strings.TrimSpace(lit)
	if len(lit) < 2 || lit[0] != '"' {
		return lit
	}
	body := lit[1 : len(lit)-1]
	var b strings.Builder
	for i := 0; i < len(body); i++ {
		c := body[i]
		if c == '"' && i+1 < len(body) && body[i+1] == '"' {
			b.WriteByte('"')
			i++
			continue
		}
		if c == '\\' && i+1 < len(body) && body[i+1] == 'u' {
			// \u{X..} or \uXXXX
			if i+2 < len(body) && body[i+2] == '{' {
				j := strings.IndexByte(body[i:], '}')
				if j > 0 {
					n, err := strconv.ParseInt(body[i+3:i+j], 16, 32)
					if err == nil {
						b.WriteRune(rune(n))
						i += j
						continue
					}
				}
			} else if i+5 < len(body) {
				n, err := strconv.ParseInt(body[i+2:i+6], 16, 32)
				if err == nil {
					b.WriteRune(rune(n))
					i += 5
					continue
				}
			}
		}
		b.WriteByte(c)
	}
	return b.String()
}

// DecodeSMTInt parses "5" or "(- 5)".
func DecodeSMTInt(lit string) (int64, bool) {
	lit = strings.TrimSpace(lit)
	neg := false
	if strings.HasPrefix(lit, "(-") {
		neg = true
		lit = strings.TrimSpace(lit[2 : len(lit)-1])
	}
	if neg && lit == "9223372036854775808" {
		return -9223372036854775808, true
	}
	n, err := strconv.ParseInt(lit, 10, 64)
	if err != nil {
		return 0, false
	}
	if neg {
		n = -n
	}
	return n, true
}

// eqFromInt decides equality of decimal renderings on the integers.
func eqFromInt(x, y value) (value, bool) {
	sx, okx := x.(symv)
	sy, oky := y.(symv)
	if okx && oky && sx.fromInt != "" && sy.fromInt != "" {
		if sx.fromInt == sy.fromInt {
			return true, true
		}
		return symv{sort: 'B', term: "(= " + sx.fromInt + " " + sy.fromInt + ")"}, true
	}
	lit := func(s symv, c value) (value, bool) {
		cs, ok := c.(string)
		if !ok || s.fromInt == "" {
			return nil, false
		}
		n, err := strconv.ParseInt(cs, 10, 64)
		if err != nil || strconv.FormatInt(n, 10) != cs {
			return false, true
		}
		return symv{sort: 'B', term: "(= " + s.fromInt + " " + smtInt(n) + ")"}, true
	}
	if okx {
		if r, ok := lit(sx, y); ok {
			return r, true
		}
	}
	if oky {
		if r, ok := lit(sy, x); ok {
			return r, true
		}
	}
	return nil, false
}

package interp

// Cooperative goroutines (DESIGN §2.4).
//
// A `go` statement runs the new goroutine at once (inline) until it finishes
// or blocks. A goroutine that blocks is PARKED, not dropped: when the harness
// thread (the main thread) itself blocks - on a channel, a select, a mutex, a
// WaitGroup, time.Sleep - the parked goroutines are resumed one after the other
// in creation order, each running until it finishes or blocks again, until the
// main thread can continue; if a whole round makes no progress the main thread
// "blocks forever" (reported INCONCLUSIVE, never a pass). A parked goroutine
// that nobody ever needs stays parked (timer loops, workers waiting on an empty
// queue) and is discarded at the end of the path.
//
// Exactly one interpreted goroutine runs at any time (baton passing between
// the real Go goroutines that carry them), so the schedule is deterministic:
// run-to-block, spawn-inline, resume in creation order. It is ONE schedule per
// path, not an exploration of interleavings.

import (
	"fmt"
	"go/token"
	"time"

	"golang.org/x/tools/go/ssa"
)

func fixedNow() time.Time { return time.Unix(1700000000, 0).UTC() }

type gthread struct {
	id         int
	wake       chan bool      // baton to this thread; false = die
	ret        chan threadRet // baton coming back to this thread from one it handed off to
	owner      *gthread       // who handed us the baton and waits on owner.ret
	savedFrame *frame
	done       bool
	progressed bool
	why        string
	vc         vclock     // fork/join/message clock (race.go)
	held       []heldLock // mutexes held, with mode (race.go)
}

type threadRet struct {
	progressed bool
	panicVal   interface{}
}

// threadKilled unwinds a parked goroutine at the end of a path.
type threadKilled struct{}

func (e *Explorer) resetThreads() {
	e.mainT = &gthread{ret: make(chan threadRet), vc: vclock{1}}
	e.syncVC = map[syncKey]vclock{}
	e.cellRace = map[*value]*cellState{}
	e.raceSeen = map[string]bool{}
	e.cur = e.mainT
	e.parkedT = nil
	e.nthreads = 0
	e.locks = map[*value]*lockState{}
	e.waitGroups = map[*value]int64{}
	e.tickers = nil
	e.pools = map[*value][]value{}
}

// switchTo hands the baton from `from` (the running thread) to `to` and waits
// until it comes back.
func (e *Explorer) switchTo(from, to *gthread) threadRet {
	from.savedFrame = e.curFrame
	to.owner = from
	e.cur = to
	to.wake <- true
	r := <-from.ret
	e.cur = from
	e.curFrame = from.savedFrame
	return r
}

// spawn implements the go statement.
func (e *Explorer) spawn(fr *frame, pos token.Pos, fn value, args []value) {
	if e.nthreads >= 64 {
		panic(engineUnsupported{"more than 64 goroutines on one path"})
	}
	e.nthreads++
	t := &gthread{id: e.nthreads, wake: make(chan bool), ret: make(chan threadRet)}
	// happens-before: everything the spawner did so far precedes the new goroutine
	t.vc = e.cur.vc.copyOf().withSlot(t.id)
	t.vc[t.id] = 1
	e.tick(e.cur)
	i := fr.i
	go func() {
		if !<-t.wake {
			t.done = true
			t.owner.ret <- threadRet{}
			return
		}
		var pv interface{}
		func() {
			defer func() { pv = recover() }()
			e.curFrame = nil
			call(i, nil, pos, fn, args)
		}()
		t.done = true
		if _, killed := pv.(threadKilled); killed {
			pv = nil
		}
		t.owner.ret <- threadRet{progressed: true, panicVal: pv}
	}()
	r := e.switchTo(e.cur, t)
	if r.panicVal != nil {
		panic(r.panicVal)
	}
}

// await is called by the running thread for an operation that may block: try
// attempts the operation without blocking and reports whether it was done.
func (e *Explorer) await(try func() bool, why string) {
	for {
		// what try() does on the way to "not yet" (e.g. taking a lock inside a
		// polled predicate) is not progress of the waiting goroutine
		before := e.cur.progressed
		if try() {
			break
		}
		e.cur.progressed = before
		x := e.cur
		if x != e.mainT {
			// park and hand the baton back
			x.why = why
			found := false
			for _, p := range e.parkedT {
				if p == x {
					found = true
				}
			}
			if !found {
				e.parkedT = append(e.parkedT, x)
			}
			x.savedFrame = e.curFrame
			owner := x.owner
			x.owner = nil
			pr := x.progressed
			x.progressed = false
			owner.ret <- threadRet{progressed: pr}
			if !<-x.wake {
				panic(threadKilled{})
			}
			e.curFrame = x.savedFrame
			continue
		}
		if !e.pollParked() {
			panic(blockedForever{why})
		}
	}
	e.cur.progressed = true
}

// blockUntil waits for a side-effect-free condition.
func (e *Explorer) blockUntil(ready func() bool, why string) { e.await(ready, why) }

// pollParked resumes every parked thread once, in creation order, and reports
// whether any of them got past the operation it was blocked on (or finished).
func (e *Explorer) pollParked() bool {
	progressed := false
	list := e.parkedT
	e.parkedT = nil
	for idx, p := range list {
		if p.done {
			continue
		}
		r := e.switchTo(e.cur, p)
		if r.panicVal != nil {
			// keep the rest parked for the final clean-up
			e.parkedT = append(append([]*gthread{}, list[idx+1:]...), e.parkedT...)
			panic(r.panicVal)
		}
		if r.progressed {
			progressed = true
		}
	}
	// threads that parked again were re-appended in resume order, new ones after
	sortThreads(e.parkedT)
	return progressed
}

func sortThreads(l []*gthread) {
	for i := 1; i < len(l); i++ {
		for j := i; j > 0 && l[j-1].id > l[j].id; j-- {
			l[j-1], l[j] = l[j], l[j-1]
		}
	}
}

// yield lets every parked thread that can run do so, until none progresses
// (time.Sleep, runtime.Gosched, rt.FireTickers on the main thread).
func (e *Explorer) yield() {
	if e.cur != e.mainT {
		return
	}
	for round := 0; round < 1000; round++ {
		if !e.pollParked() {
			return
		}
	}
	panic(engineUnsupported{"goroutines keep making progress for 1000 rounds (livelock?)"})
}

// killThreads discards the parked goroutines at the end of a path.
func (e *Explorer) killThreads() {
	if e.mainT == nil {
		return
	}
	e.cur = e.mainT
	list := e.parkedT
	e.parkedT = nil
	for _, p := range list {
		if p.done {
			continue
		}
		p.owner = e.mainT
		p.wake <- false
		<-e.mainT.ret
	}
	e.parked += len(list)
}

// ---------------------------------------------------------------- locks, wait groups, tickers

type lockState struct {
	writer  bool
	readers int
	// goroutines blocked in (*RWMutex).Lock: like Go's RWMutex, a pending
	// writer keeps NEW readers out (a reader that arrives while a writer waits
	// blocks until that writer has had the lock)
	pendingWriters int
}

func (e *Explorer) lockOf(p *value) *lockState {
	l := e.locks[p]
	if l == nil {
		l = &lockState{}
		e.locks[p] = l
	}
	return l
}

func init() {
	lock := func(fr *frame, args []value) value {
		e := ex(fr)
		l := e.lockOf(args[0].(*value))
		if l.writer || l.readers > 0 {
			l.pendingWriters++
			defer func() { l.pendingWriters-- }()
		}
		e.blockUntil(func() bool { return !l.writer && l.readers == 0 }, "Lock of a mutex that is never released")
		l.writer = true
		e.cur.hold(args[0], true)
		return nil
	}
	unlock := func(fr *frame, args []value) value {
		l := ex(fr).lockOf(args[0].(*value))
		if !l.writer {
			panic("target:sync: unlock of unlocked mutex")
		}
		l.writer = false
		ex(fr).cur.drop(args[0], true)
		return nil
	}
	externals["(*sync.Mutex).Lock"] = lock
	externals["(*sync.Mutex).Unlock"] = unlock
	externals["(*sync.RWMutex).Lock"] = lock
	externals["(*sync.RWMutex).Unlock"] = unlock
	externals["(*sync.Mutex).TryLock"] = func(fr *frame, args []value) value {
		l := ex(fr).lockOf(args[0].(*value))
		if l.writer || l.readers > 0 {
			return false
		}
		l.writer = true
		ex(fr).cur.hold(args[0], true)
		return true
	}
	externals["(*sync.RWMutex).RLock"] = func(fr *frame, args []value) value {
		e := ex(fr)
		l := e.lockOf(args[0].(*value))
		e.blockUntil(func() bool { return !l.writer && l.pendingWriters == 0 }, "RLock of a mutex that is never released (or that a writer is waiting for)")
		l.readers++
		e.cur.hold(args[0], false)
		return nil
	}
	externals["(*sync.RWMutex).RUnlock"] = func(fr *frame, args []value) value {
		l := ex(fr).lockOf(args[0].(*value))
		if l.readers <= 0 {
			panic("target:sync: RUnlock of unlocked RWMutex")
		}
		l.readers--
		ex(fr).cur.drop(args[0], false)
		return nil
	}
	externals["(*sync.WaitGroup).Add"] = func(fr *frame, args []value) value {
		e := ex(fr)
		p := args[0].(*value)
		e.waitGroups[p] += asInt64(args[1])
		if e.waitGroups[p] < 0 {
			panic("target:sync: negative WaitGroup counter")
		}
		return nil
	}
	externals["(*sync.WaitGroup).Done"] = func(fr *frame, args []value) value {
		e := ex(fr)
		p := args[0].(*value)
		e.waitGroups[p]--
		if e.waitGroups[p] < 0 {
			panic("target:sync: negative WaitGroup counter")
		}
		e.release(args[0], 'g')
		return nil
	}
	externals["(*sync.WaitGroup).Wait"] = func(fr *frame, args []value) value {
		e := ex(fr)
		p := args[0].(*value)
		e.blockUntil(func() bool { return e.waitGroups[p] == 0 }, "WaitGroup.Wait: a goroutine never calls Done")
		e.acquire(args[0], 'g')
		return nil
	}
	externals["time.Sleep"] = func(fr *frame, args []value) value { ex(fr).yield(); return nil }
	externals["runtime.Gosched"] = func(fr *frame, args []value) value { ex(fr).yield(); return nil }

	// Tickers never fire by themselves (time does not pass); rt.FireTickers
	// delivers one tick to every live ticker and lets the goroutines run.
	externals["time.NewTicker"] = func(fr *frame, args []value) value {
		t := namedType(fr.i.prog, "time", "Ticker")
		st := zero(t).(structure)
		ch := make(chan value, 1)
		st[0] = ch
		p := mkPtr(st)
		e := ex(fr)
		e.tickers = append(e.tickers, &tickerState{ptr: p, ch: ch})
		return p
	}
	externals["(*time.Ticker).Stop"] = func(fr *frame, args []value) value {
		for _, t := range ex(fr).tickers {
			if t.ptr == args[0] {
				t.stopped = true
			}
		}
		return nil
	}
	externals["(*time.Ticker).Reset"] = func(fr *frame, args []value) value { return nil }
	// One-shot timers (time.AfterFunc, time.NewTimer): armed on creation and by
	// Reset, disarmed by Stop and by firing; like tickers they fire only through
	// rt.FireTickers - an AfterFunc's function then runs on a goroutine of its own.
	newTimer := func(fr *frame, fn value) value {
		t := namedType(fr.i.prog, "time", "Timer")
		st := zero(t).(structure)
		ts := &tickerState{oneShot: true, armed: true, fn: fn}
		if fn == nil {
			ts.ch = make(chan value, 1)
			st[0] = ts.ch
		}
		ts.ptr = mkPtr(st)
		e := ex(fr)
		e.tickers = append(e.tickers, ts)
		return ts.ptr
	}
	externals["time.AfterFunc"] = func(fr *frame, args []value) value { return newTimer(fr, args[1]) }
	externals["time.NewTimer"] = func(fr *frame, args []value) value { return newTimer(fr, nil) }
	timerOf := func(fr *frame, p value) *tickerState {
		for _, t := range ex(fr).tickers {
			if t.oneShot && t.ptr == p {
				return t
			}
		}
		panic(engineUnsupported{"time.Timer that was not made by NewTimer/AfterFunc"})
	}
	externals["(*time.Timer).Stop"] = func(fr *frame, args []value) value {
		t := timerOf(fr, args[0])
		was := t.armed
		t.armed = false
		return was
	}
	externals["(*time.Timer).Reset"] = func(fr *frame, args []value) value {
		t := timerOf(fr, args[0])
		was := t.armed
		t.armed = true
		return was
	}
	externals[rtPkg+".FireTickers"] = func(fr *frame, args []value) value {
		e := ex(fr)
		for _, t := range append([]*tickerState{}, e.tickers...) {
			if t.oneShot {
				if !t.armed {
					continue
				}
				t.armed = false
				if t.fn != nil {
					e.spawn(fr, token.NoPos, t.fn, nil)
				} else {
					select {
					case t.ch <- timeValue(fixedNow()):
					default:
					}
				}
				continue
			}
			if t.stopped {
				continue
			}
			select {
			case t.ch <- timeValue(fixedNow()):
			default:
			}
		}
		e.yield()
		return nil
	}
	externals[rtPkg+".LiveGoroutines"] = func(fr *frame, args []value) value {
		n := 0
		for _, p := range ex(fr).parkedT {
			if !p.done {
				n++
			}
		}
		return n
	}
}

type tickerState struct {
	ptr     value
	ch      chan value
	stopped bool
	// one-shot timers
	oneShot bool
	armed   bool
	fn      value // AfterFunc: the function to run; nil: deliver on ch
}

func (t *gthread) String() string { return fmt.Sprintf("g%d(%s)", t.id, t.why) }

// ---------------------------------------------------------------- sync.Pool

// sync.Pool keeps per-P caches behind runtime hooks. Model: a LIFO free list
// per pool and path - Get hands back the object Put most recently (what a real
// pool does on one P without an intervening GC, and the behaviour under which
// aliasing bugs of recycled buffers show), New() when the list is empty.
func init() {
	externals["(*sync.Pool).Put"] = func(fr *frame, args []value) value {
		e := ex(fr)
		if x, ok := args[1].(iface); ok && x.t == nil {
			return nil
		}
		p := args[0].(*value)
		e.pools[p] = append(e.pools[p], args[1])
		return nil
	}
	externals["(*sync.Pool).Get"] = func(fr *frame, args []value) value {
		e := ex(fr)
		p := args[0].(*value)
		if l := e.pools[p]; len(l) > 0 {
			v := l[len(l)-1]
			e.pools[p] = l[:len(l)-1]
			return v
		}
		st := (*p).(structure)
		newFn := st[len(st)-1] // field New is the last one
		switch f := newFn.(type) {
		case *closure:
			if f != nil {
				return call(fr.i, fr, token.NoPos, f, nil)
			}
		case *ssa.Function:
			if f != nil {
				return call(fr.i, fr, token.NoPos, f, nil)
			}
		}
		return iface{} // no New: Get of an empty pool answers nil
	}
}

// cache.WaitForNamedCacheSync polls until every sync function answers true or
// the stop channel is closed. Model: the calling goroutine waits cooperatively
// (other goroutines - e.g. the harness making the informer "synced" - run
// meanwhile); on the harness thread with nobody able to help it is a deadlock
// (INCONCLUSIVE), exactly as the real call would hang.
func init() {
	externals["k8s.io/client-go/tools/cache.WaitForNamedCacheSync"] = func(fr *frame, args []value) value {
		e := ex(fr)
		stopCh, _ := args[1].(chan value)
		syncs, _ := args[2].([]value)
		result := false
		e.await(func() bool {
			all := true
			for _, f := range syncs {
				r := call(fr.i, fr, token.NoPos, f, nil)
				if b, ok := r.(bool); !ok || !b {
					all = false
				}
			}
			if all {
				result = true
				return true
			}
			if stopCh != nil {
				select {
				case <-stopCh:
					result = false
					return true
				default:
				}
			}
			return false
		}, "WaitForNamedCacheSync: the caches never sync and nobody stops the wait")
		return result
	}
}

package interp

// C19: outcome model of sigs.k8s.io/json.UnmarshalStrict for CONCRETE texts.
//
// The real function is a byte-level parser (fork of encoding/json driven by
// reflection) the engine cannot execute.  The model parses the concrete text
// with the engine's own JSON reader and reproduces the three outcomes of the
// real function for a struct / map / interface target:
//
//   - syntax error                        -> (nil, err)
//   - value of the wrong JSON kind        -> (nil, err)
//   - ok, strict errors = one per unknown struct field (case-sensitive match,
//     as sigs.k8s.io/json does) and one per duplicate object key
//   - the decoded value is stored through the pointer (last duplicate wins)
//
// Symbolic texts are not supported (engineUnsupported -> INCONCLUSIVE).

import (
	"fmt"
	"go/types"
	"time"
)

// jsonDupKeys returns the keys that occur more than once in some object of the
// (syntactically valid) text s.
func jsonDupKeys(e *Explorer, s string) []string {
	p := &jparser{s: s, e: e}
	var dups []string
	var walk func() bool
	walk = func() bool {
		p.ws()
		if p.i >= len(p.s) {
			return false
		}
		switch p.s[p.i] {
		case '{':
			p.i++
			seen := map[string]bool{}
			p.ws()
			if p.i < len(p.s) && p.s[p.i] == '}' {
				p.i++
				return true
			}
			for {
				p.ws()
				k, err := p.str()
				if err != nil {
					return false
				}
				if seen[k] {
					dups = append(dups, k)
				}
				seen[k] = true
				p.ws()
				if p.i >= len(p.s) || p.s[p.i] != ':' {
					return false
				}
				p.i++
				if !walk() {
					return false
				}
				p.ws()
				if p.i < len(p.s) && p.s[p.i] == ',' {
					p.i++
					continue
				}
				if p.i < len(p.s) && p.s[p.i] == '}' {
					p.i++
					return true
				}
				return false
			}
		case '[':
			p.i++
			p.ws()
			if p.i < len(p.s) && p.s[p.i] == ']' {
				p.i++
				return true
			}
			for {
				if !walk() {
					return false
				}
				p.ws()
				if p.i < len(p.s) && p.s[p.i] == ',' {
					p.i++
					continue
				}
				if p.i < len(p.s) && p.s[p.i] == ']' {
					p.i++
					return true
				}
				return false
			}
		default:
			_, err := p.val()
			return err == nil
		}
	}
	walk()
	return dups
}

// jsonUnknownFields lists object keys of tree that have no field in the struct
// type they are decoded into (exact, case-sensitive match).
func jsonUnknownFields(t types.Type, tree value, out *[]string) {
	if n := typeString(t); n != "" {
		switch n {
		case "k8s.io/apimachinery/pkg/apis/meta/v1/unstructured.Unstructured",
			"k8s.io/apimachinery/pkg/runtime.RawExtension":
			return
		}
	}
	switch ut := t.Underlying().(type) {
	case *types.Pointer:
		jsonUnknownFields(ut.Elem(), tree, out)
	case *types.Slice:
		if s, ok := tree.([]value); ok {
			for _, e := range s {
				jsonUnknownFields(ut.Elem(), e, out)
			}
		}
	case *types.Map:
		if m, ok := tree.(*hashmap); ok {
			for _, e := range m.ents {
				jsonUnknownFields(ut.Elem(), e.value, out)
			}
		}
	case *types.Struct:
		m, ok := tree.(*hashmap)
		if !ok {
			return
		}
		known := map[string]types.Type{}
		var collect func(st *types.Struct)
		collect = func(st *types.Struct) {
			names, _, inline, skip := structJSONFields(st)
			for i := 0; i < st.NumFields(); i++ {
				if skip[i] {
					continue
				}
				if inline[i] {
					if sub, ok := st.Field(i).Type().Underlying().(*types.Struct); ok {
						collect(sub)
						continue
					}
				}
				known[names[i]] = st.Field(i).Type()
			}
		}
		collect(ut)
		for _, e := range m.ents {
			k, isStr := e.key.(string)
			if !isStr {
				continue
			}
			ft, ok := known[k]
			if !ok {
				*out = append(*out, k)
				continue
			}
			jsonUnknownFields(ft, e.value, out)
		}
	}
}

func init() {
	externals["sigs.k8s.io/json.UnmarshalStrict"] = func(fr *frame, args []value) (res value) {
		data, ok := args[0].([]value)
		if !ok {
			panic(engineUnsupported{fmt.Sprintf("sigs.k8s.io/json.UnmarshalStrict of %T (only concrete texts are modelled)", args[0])})
		}
		// strict options: none = all checks; otherwise only the listed checks
		// (DisallowDuplicateFields = 1, DisallowUnknownFields = 2), any other value
		// is an error of the call - as in sigs.k8s.io/json.UnmarshalStrict
		checkDup, checkUnknown := true, true
		if opts, ok := args[2].([]value); ok && len(opts) > 0 {
			checkDup, checkUnknown = false, false
			for _, o := range opts {
				switch asInt64(o) {
				case 1:
					checkDup = true
				case 2:
					checkUnknown = true
				default:
					return tuple{[]value(nil), newErrorString(fr, "unknown strict option")}
				}
			}
		}
		noStrict := []value(nil)
		s := goString(bytesToString(data))
		tree, err := parseConcreteJSON(ex(fr), s)
		if err != nil {
			return tuple{noStrict, newErrorString(fr, "json: "+err.Error())}
		}
		out := args[1].(iface)
		if out.t == nil {
			return tuple{noStrict, newErrorString(fr, "json: Unmarshal(nil)")}
		}
		pt, isPtr := out.t.Underlying().(*types.Pointer)
		if !isPtr || out.v.(*value) == nil {
			return tuple{noStrict, newErrorString(fr, "json: Unmarshal(non-pointer)")}
		}
		defer func() {
			if r := recover(); r != nil {
				if te, ok := r.(jsonTypeError); ok {
					res = tuple{noStrict, newErrorString(fr, "json: "+te.msg)}
					return
				}
				panic(r)
			}
		}()
		var strict []value
		var unknown []string
		if checkUnknown {
			jsonUnknownFields(pt.Elem(), tree, &unknown)
		}
		for _, k := range unknown {
			strict = append(strict, newErrorString(fr, fmt.Sprintf("unknown field %q", k)))
		}
		if checkDup {
			for _, k := range jsonDupKeys(ex(fr), s) {
				strict = append(strict, newErrorString(fr, fmt.Sprintf("duplicate field %q", k)))
			}
		}
		if _, isNull := tree.(jnull); !isNull {
			p := out.v.(*value)
			*p = fromJSONTree(fr, pt.Elem(), copyTree(tree))
		}
		return tuple{strict, iface{}}
	}
}

// Text produced by strconv.Itoa(n) of a symbolic n carries n (symv.fromInt).
// strconv.Atoi of such a text is n itself and time.Parse of it fails (it
// consists of digits and at most a sign) — exact facts about the real
// functions that spare the solver the str.to_int(str.from_int n) round trip.
// Every other argument falls through to the general models of intrinsics.go.
func init() {
	prevAtoi := symExternals["strconv.Atoi"]
	symExternals["strconv.Atoi"] = func(fr *frame, args []value) value {
		if sv, ok := args[0].(symv); ok && sv.sort == 'S' && sv.fromInt != "" {
			return tuple{symv{sort: 'I', term: sv.fromInt}, iface{}}
		}
		return prevAtoi(fr, args)
	}
	prevParse := externals["time.Parse"]
	externals["time.Parse"] = func(fr *frame, args []value) value {
		if sv, ok := args[1].(symv); ok && sv.sort == 'S' && sv.fromInt != "" {
			if layout := goString(args[0]); layout == time.RFC1123 {
				return tuple{timeValue(time.Time{}), newErrorString(fr, "parsing time: decimal number")}
			}
		}
		return prevParse(fr, args)
	}
}

// (*encoding/json.Decoder).Decode over a reader that holds a CONCRETE text
// (*bytes.Reader, *bytes.Buffer, *strings.Reader - what json.NewDecoder is
// handed for a body that was read before): the rest of the text is parsed with
// the engine's JSON reader and stored with encoding/json's typing (numbers into
// an interface{} become float64); with DisallowUnknownFields an unknown struct
// field is an error of the call. NewDecoder and the option setters run from
// their real source. A Decoder is used for ONE document here; streams of
// several values are not modelled.
func init() {
	fieldIndex := func(st *types.Struct, name string) int {
		for i := 0; i < st.NumFields(); i++ {
			if st.Field(i).Name() == name {
				return i
			}
		}
		return -1
	}
	externals["(*encoding/json.Decoder).Decode"] = func(fr *frame, args []value) (res value) {
		recvT := fr.fn.Signature.Recv().Type().(*types.Pointer).Elem().Underlying().(*types.Struct)
		dec := (*args[0].(*value)).(structure)
		ri, di := fieldIndex(recvT, "r"), fieldIndex(recvT, "d")
		if ri < 0 || di < 0 {
			panic(engineUnsupported{"encoding/json.Decoder layout"})
		}
		dsT := recvT.Field(di).Type().Underlying().(*types.Struct)
		disallow := false
		if k := fieldIndex(dsT, "disallowUnknownFields"); k >= 0 {
			disallow, _ = dec[di].(structure)[k].(bool)
		}
		rd, _ := dec[ri].(iface)
		var text string
		consumed := false
		if p, ok := rd.v.(*value); ok && p != nil && rd.t != nil {
			if st, ok := (*p).(structure); ok {
				switch rd.t.String() {
				case "*bytes.Reader": // s []byte, i int64, prevRune int
					if b, ok := st[0].([]value); ok {
						off := asInt64(st[1])
						text, consumed = goString(bytesToString(b[off:])), true
						st[1] = int64(len(b))
					}
				case "*bytes.Buffer": // buf []byte, off int, lastRead
					if b, ok := st[0].([]value); ok {
						off := int(asInt64(st[1]))
						text, consumed = goString(bytesToString(b[off:])), true
						st[1] = len(b)
					}
				case "*strings.Reader": // s string, i int64, prevRune int
					if s, ok := st[0].(string); ok {
						off := asInt64(st[1])
						text, consumed = s[off:], true
						st[1] = int64(len(s))
					}
				}
			}
		}
		if !consumed {
			panic(engineUnsupported{fmt.Sprintf("json.Decoder over %v (only readers of concrete texts are modelled)", rd.t)})
		}
		if len(text) == 0 {
			if g := fr.i.globals[fr.i.prog.ImportedPackage("io").Var("EOF")]; g != nil {
				return *g
			}
			return newErrorString(fr, "EOF")
		}
		tree, err := parseConcreteJSON(ex(fr), text)
		if err != nil {
			return newErrorString(fr, "json: "+err.Error())
		}
		out := args[1].(iface)
		if out.t == nil {
			return newErrorString(fr, "json: Unmarshal(nil)")
		}
		pt, isPtr := out.t.Underlying().(*types.Pointer)
		if !isPtr || out.v.(*value) == nil {
			return newErrorString(fr, "json: Unmarshal(non-pointer)")
		}
		defer func() {
			if r := recover(); r != nil {
				if te, ok := r.(jsonTypeError); ok {
					res = newErrorString(fr, "json: "+te.msg)
					return
				}
				panic(r)
			}
		}()
		if disallow {
			var unknown []string
			jsonUnknownFields(pt.Elem(), tree, &unknown)
			if len(unknown) > 0 {
				return newErrorString(fr, fmt.Sprintf("json: unknown field %q", unknown[0]))
			}
		}
		if _, isNull := tree.(jnull); !isNull {
			e := ex(fr)
			saved := e.jsonStdNumbers
			e.jsonStdNumbers = true
			defer func() { e.jsonStdNumbers = saved }()
			p := out.v.(*value)
			*p = fromJSONTree(fr, pt.Elem(), copyTree(tree))
		}
		return iface{}
	}
}

// Copyright 2013 The Go Authors. All rights reserved.
// Use of this source code is governed by a BSD-style
// license that can be found in the LICENSE file.

// Package ssa/interp defines an interpreter for the SSA
// representation of Go programs.
//
// This interpreter is provided as an adjunct for testing the SSA
// construction algorithm.  Its purpose is to provide a minimal
// metacircular implementation of the dynamic semantics of each SSA
// instruction.  It is not, and will never be, a production-quality Go
// interpreter.
//
// The following is a partial list of Go features that are currently
// unsupported or incomplete in the interpreter.
//
// * Unsafe operations, including all uses of unsafe.Pointer, are
// impossible to support given the "boxed" value representation we
// have chosen.
//
// * The reflect package is only partially implemented.
//
// * The "testing" package is no longer supported because it
// depends on low-level details that change too often.
//
// * "sync/atomic" operations are not atomic due to the "boxed" value
// representation: it is not possible to read, modify and write an
// interface value atomically. As a consequence, Mutexes are currently
// broken.
//
// * recover is only partially implemented.  Also, the interpreter
// makes no attempt to distinguish target panics from interpreter
// crashes.
//
// * the sizes of the int, uint and uintptr types in the target
// program are assumed to be the same as those of the interpreter
// itself.
//
// * all values occupy space, even those of types defined by the spec
// to have zero size, e.g. struct{}.  This can cause asymptotic
// performance degradation.
//
// * os.Exit is implemented using panic, causing deferred functions to
// run.
package interp // import "golang.org/x/tools/go/ssa/interp"

import (
	"fmt"
	"go/token"
	"go/types"
	"log"
	"os"
	"reflect"
	"runtime"
	"slices"
	_ "unsafe"

	"golang.org/x/tools/go/ssa"
	"strings"
	"sync"
)

type continuation int

const (
	kNext continuation = iota
	kReturn
	kJump
)

// Mode is a bitmask of options affecting the interpreter.
type Mode uint

const (
	DisableRecover Mode = 1 << iota // Disable recover() in target programs; show interpreter crash instead.
	EnableTracing                   // Print a trace of all instructions as they are interpreted.
)

type methodSet map[string]*ssa.Function

// State shared between all interpreted goroutines.
type interpreter struct {
	osArgs             []value                // the value of os.Args
	prog               *ssa.Program           // the SSA program
	globals            map[*ssa.Global]*value // addresses of global variables (immutable)
	mode               Mode                   // interpreter options
	reflectPackage     *ssa.Package           // the fake reflect package
	errorMethods       methodSet              // the method set of reflect.error, which implements the error interface.
	rtypeMethods       methodSet              // the method set of rtype, which implements the reflect.Type interface.
	runtimeErrorString types.Type             // the runtime.errorString type
	sizes              types.Sizes            // the effective type-sizing function
	goroutines         int32                  // atomically updated
	ex                 *Explorer              // per-worker exploration state
	inited             map[*ssa.Package]bool
	initing            map[*ssa.Package]bool
}

type deferred struct {
	fn    value
	args  []value
	instr *ssa.Defer
	tail  *deferred
}

type frame struct {
	i                *interpreter
	caller           *frame
	fn               *ssa.Function
	block, prevBlock *ssa.BasicBlock
	env              map[ssa.Value]value // dynamic values of SSA variables
	locals           []value
	defers           *deferred
	result           value
	panicking        bool
	panic            interface{}
	phitemps         []value // temporaries for parallel phi assignment
	curInstr         ssa.Instruction
}

func (fr *frame) get(key ssa.Value) value {
	switch key := key.(type) {
	case nil:
		// Hack; simplifies handling of optional attributes
		// such as ssa.Slice.{Low,High}.
		return nil
	case *ssa.Function, *ssa.Builtin:
		return key
	case *ssa.Const:
		return constValue(key)
	case *ssa.Global:
		return fr.i.global(key)
	}
	if r, ok := fr.env[key]; ok {
		return r
	}
	panic(fmt.Sprintf("get: no value for %T: %v", key, key.Name()))
}

// runDefer runs a deferred call d.
// It always returns normally, but may set or clear fr.panic.
func (fr *frame) runDefer(d *deferred) {
	if fr.i.mode&EnableTracing != 0 {
		fmt.Fprintf(os.Stderr, "%s: invoking deferred function call\n",
			fr.i.prog.Fset.Position(d.instr.Pos()))
	}
	var ok bool
	defer func() {
		if !ok {
			// Deferred call created a new state of panic.
			fr.panicking = true
			fr.panic = recover()
		}
	}()
	call(fr.i, fr, d.instr.Pos(), d.fn, d.args)
	ok = true
}

// runDefers executes fr's deferred function calls in LIFO order.
//
// On entry, fr.panicking indicates a state of panic; if
// true, fr.panic contains the panic value.
//
// On completion, if a deferred call started a panic, or if no
// deferred call recovered from a previous state of panic, then
// runDefers itself panics after the last deferred call has run.
//
// If there was no initial state of panic, or it was recovered from,
// runDefers returns normally.
func (fr *frame) runDefers() {
	for d := fr.defers; d != nil; d = d.tail {
		fr.runDefer(d)
	}
	fr.defers = nil
	if fr.panicking {
		panic(fr.panic) // new panic, or still panicking
	}
}

// lookupMethod returns the method set for type typ, which may be one
// of the interpreter's fake types.
func lookupMethod(i *interpreter, typ types.Type, meth *types.Func) *ssa.Function {
	switch typ {
	case rtypeType:
		return i.rtypeMethods[meth.Id()]
	case errorType:
		return i.errorMethods[meth.Id()]
	}
	return i.prog.LookupMethod(typ, meth.Pkg(), meth.Name())
}

// visitInstr interprets a single ssa.Instruction within the activation
// record frame.  It returns a continuation value indicating where to
// read the next instruction from.
func visitInstr(fr *frame, instr ssa.Instruction) continuation {
	switch instr := instr.(type) {
	case *ssa.DebugRef:
		// no-op

	case *ssa.UnOp:
		if instr.Op == token.ARROW {
			// channel receive: may park this goroutine (threads.go)
			ch := fr.get(instr.X).(chan value)
			var v value
			var ok bool
			if ch == nil {
				fr.i.ex.await(func() bool { return false }, "receive from a nil channel")
			}
			fr.i.ex.await(func() bool {
				select {
				case v, ok = <-ch:
					return true
				default:
					return false
				}
			}, "receive on a channel nobody sends to")
			fr.i.ex.acquire(ch, 'c')
			if !ok {
				v = zero(instr.X.Type().Underlying().(*types.Chan).Elem())
			}
			if instr.CommaOk {
				v = tuple{v, ok}
			}
			fr.env[instr] = v
			break
		}
		if instr.Op == token.MUL {
			if e := fr.i.ex; e != nil && e.cfg.CellRaces && e.nthreads > 0 {
				if p, ok := fr.get(instr.X).(*value); ok {
					e.cellAccess(fr, p, false)
				}
			}
		}
		fr.env[instr] = unop(instr, fr.get(instr.X))

	case *ssa.BinOp:
		r := binop(instr.Op, instr.X.Type(), fr.get(instr.X), fr.get(instr.Y))
		if sv, ok := r.(symv); ok && sv.sort == 'I' {
			// machine integers wrap, SMT integers do not: the result must
			// provably stay in range, else the path is inconclusive
			fr.i.ex.checkIntRange(sv.term, instr.Type())
		}
		fr.env[instr] = r

	case *ssa.Call:
		fn, args := prepareCall(fr, &instr.Call)
		fr.env[instr] = call(fr.i, fr, instr.Pos(), fn, args)

	case *ssa.ChangeInterface:
		fr.env[instr] = fr.get(instr.X)

	case *ssa.ChangeType:
		fr.env[instr] = fr.get(instr.X) // (can't fail)

	case *ssa.Convert:
		fr.env[instr] = conv(instr.Type(), instr.X.Type(), fr.get(instr.X))

	case *ssa.SliceToArrayPointer:
		fr.env[instr] = sliceToArrayPointer(instr.Type(), instr.X.Type(), fr.get(instr.X))

	case *ssa.MakeInterface:
		fr.env[instr] = iface{t: instr.X.Type(), v: fr.get(instr.X)}

	case *ssa.Extract:
		fr.env[instr] = fr.get(instr.Tuple).(tuple)[instr.Index]

	case *ssa.Slice:
		fr.env[instr] = slice(fr.get(instr.X), fr.get(instr.Low), fr.get(instr.High), fr.get(instr.Max))

	case *ssa.Return:
		switch len(instr.Results) {
		case 0:
		case 1:
			fr.result = fr.get(instr.Results[0])
		default:
			var res []value
			for _, r := range instr.Results {
				res = append(res, fr.get(r))
			}
			fr.result = tuple(res)
		}
		fr.block = nil
		return kReturn

	case *ssa.RunDefers:
		fr.runDefers()

	case *ssa.Panic:
		panic(targetPanic{fr.get(instr.X)})

	case *ssa.Send:
		ch, v := fr.get(instr.Chan).(chan value), fr.get(instr.X)
		fr.i.ex.release(ch, 'c')
		fr.i.ex.await(func() bool {
			select {
			case ch <- v:
				return true
			default:
				return false
			}
		}, "send on a channel nobody receives from")

	case *ssa.Store:
		if e := fr.i.ex; e != nil && e.cfg.CellRaces && e.nthreads > 0 {
			e.cellAccess(fr, fr.get(instr.Addr).(*value), true)
		}
		store(mustDeref(instr.Addr.Type()), fr.get(instr.Addr).(*value), fr.get(instr.Val))

	case *ssa.If:
		succ := 1
		if fr.i.ex.branchAt(instr, fr.get(instr.Cond)) {
			succ = 0
		}
		fr.prevBlock, fr.block = fr.block, fr.block.Succs[succ]
		return kJump

	case *ssa.Jump:
		fr.prevBlock, fr.block = fr.block, fr.block.Succs[0]
		return kJump

	case *ssa.Defer:
		fn, args := prepareCall(fr, &instr.Call)
		defers := &fr.defers
		if into := fr.get(instr.DeferStack); into != nil {
			defers = into.(**deferred)
		}
		*defers = &deferred{
			fn:    fn,
			args:  args,
			instr: instr,
			tail:  *defers,
		}

	case *ssa.Go:
		fn, args := prepareCall(fr, &instr.Call)
		// The goroutine runs at once until it finishes or blocks (threads.go).
		fr.i.ex.spawn(fr, instr.Pos(), fn, args)

	case *ssa.MakeChan:
		fr.env[instr] = make(chan value, asInt64(fr.get(instr.Size)))

	case *ssa.Alloc:
		var addr *value
		if instr.Heap {
			// new
			addr = new(value)
			fr.env[instr] = addr
		} else {
			// local
			addr = fr.env[instr].(*value)
		}
		*addr = zero(mustDeref(instr.Type()))

	case *ssa.MakeSlice:
		slice := make([]value, asInt64(fr.get(instr.Cap)))
		tElt := instr.Type().Underlying().(*types.Slice).Elem()
		for i := range slice {
			slice[i] = zero(tElt)
		}
		fr.env[instr] = slice[:asInt64(fr.get(instr.Len))]

	case *ssa.MakeMap:
		var reserve int64
		if instr.Reserve != nil {
			reserve = asInt64(fr.get(instr.Reserve))
		}
		if !fitsInt(reserve, fr.i.sizes) {
			panic(fmt.Sprintf("ssa.MakeMap.Reserve value %d does not fit in int", reserve))
		}
		fr.env[instr] = makeMap(fr.i.ex, instr.Type().Underlying().(*types.Map).Key(), reserve)

	case *ssa.Range:
		fr.env[instr] = rangeIter(fr.get(instr.X), instr.X.Type())

	case *ssa.Next:
		fr.env[instr] = fr.get(instr.Iter).(iter).next()

	case *ssa.FieldAddr:
		fr.env[instr] = &(*fr.get(instr.X).(*value)).(structure)[instr.Field]

	case *ssa.Field:
		fr.env[instr] = fr.get(instr.X).(structure)[instr.Field]

	case *ssa.IndexAddr:
		x := fr.get(instr.X)
		idx := fr.get(instr.Index)
		switch x := x.(type) {
		case []value:
			fr.env[instr] = &x[asInt64(idx)]
		case *value: // *array
			fr.env[instr] = &(*x).(array)[asInt64(idx)]
		default:
			panic(fmt.Sprintf("unexpected x type in IndexAddr: %T", x))
		}

	case *ssa.Index:
		x := fr.get(instr.X)
		idx := fr.get(instr.Index)

		switch x := x.(type) {
		case array:
			fr.env[instr] = x[asInt64(idx)]
		case string:
			fr.env[instr] = x[asInt64(idx)]
		default:
			panic(fmt.Sprintf("unexpected x type in Index: %T", x))
		}

	case *ssa.Lookup:
		fr.env[instr] = lookup(instr, fr.get(instr.X), fr.get(instr.Index))

	case *ssa.MapUpdate:
		m := fr.get(instr.Map)
		key := fr.get(instr.Key)
		v := fr.get(instr.Value)
		switch m := m.(type) {
		case map[value]value:
			m[key] = v
		case *hashmap:
			m.insert(key, v)
		default:
			panic(fmt.Sprintf("illegal map type: %T", m))
		}

	case *ssa.TypeAssert:
		fr.env[instr] = typeAssert(fr.i, instr, fr.get(instr.X).(iface))

	case *ssa.MakeClosure:
		var bindings []value
		for _, binding := range instr.Bindings {
			bindings = append(bindings, fr.get(binding))
		}
		fr.env[instr] = &closure{instr.Fn.(*ssa.Function), bindings}

	case *ssa.Phi:
		log.Fatal("unreachable") // phis are processed at block entry

	case *ssa.Select:
		var cases []reflect.SelectCase
		if !instr.Blocking {
			cases = append(cases, reflect.SelectCase{
				Dir: reflect.SelectDefault,
			})
		}
		for _, state := range instr.States {
			var dir reflect.SelectDir
			if state.Dir == types.RecvOnly {
				dir = reflect.SelectRecv
			} else {
				dir = reflect.SelectSend
			}
			var send reflect.Value
			if state.Send != nil {
				send = reflect.ValueOf(fr.get(state.Send))
			}
			cases = append(cases, reflect.SelectCase{
				Dir:  dir,
				Chan: reflect.ValueOf(fr.get(state.Chan)),
				Send: send,
			})
		}
		var chosen int
		var recv reflect.Value
		var recvOk bool
		for _, state := range instr.States {
			if state.Dir != types.RecvOnly {
				fr.i.ex.release(fr.get(state.Chan), 'c')
			}
		}
		if instr.Blocking {
			// try the cases one by one in source order (deterministic where Go
			// chooses at random among the ready ones); park until one is ready
			fr.i.ex.await(func() bool {
				for k := range cases {
					c, rv, ok := reflect.Select([]reflect.SelectCase{{Dir: reflect.SelectDefault}, cases[k]})
					if c == 1 {
						chosen, recv, recvOk = k, rv, ok
						return true
					}
				}
				return false
			}, "select with no ready case")
		} else {
			chosen, recv, recvOk = reflect.Select(cases)
			chosen-- // default case should have index -1.
		}
		r := tuple{chosen, recvOk}
		for i, st := range instr.States {
			if st.Dir == types.RecvOnly {
				if i == chosen {
					fr.i.ex.acquire(fr.get(st.Chan), 'c')
				}
				var v value
				if i == chosen && recvOk {
					// No need to copy since send makes an unaliased copy.
					v = recv.Interface().(value)
				} else {
					v = zero(st.Chan.Type().Underlying().(*types.Chan).Elem())
				}
				r = append(r, v)
			}
		}
		fr.env[instr] = r

	default:
		panic(fmt.Sprintf("unexpected instruction: %T", instr))
	}

	// if val, ok := instr.(ssa.Value); ok {
	// 	fmt.Println(toString(fr.env[val])) // debugging
	// }

	return kNext
}

// prepareCall determines the function value and argument values for a
// function call in a Call, Go or Defer instruction, performing
// interface method lookup if needed.
func prepareCall(fr *frame, call *ssa.CallCommon) (fn value, args []value) {
	v := fr.get(call.Value)
	if call.Method == nil {
		// Function call.
		fn = v
	} else {
		// Interface method invocation.
		recv := v.(iface)
		if recv.t == nil {
			// a target-program fault (Go: nil pointer dereference), not an engine one
			panic("target:runtime error: invalid memory address or nil pointer dereference (method invoked on nil interface)")
		}
		if f := lookupMethod(fr.i, recv.t, call.Method); f == nil {
			// Unreachable in well-typed programs.
			panic(fmt.Sprintf("method set for dynamic type %v does not contain %s", recv.t, call.Method))
		} else {
			fn = f
		}
		args = append(args, recv.v)
	}
	for _, arg := range call.Args {
		args = append(args, fr.get(arg))
	}
	return
}

// call interprets a call to a function (function, builtin or closure)
// fn with arguments args, returning its result.
// callpos is the position of the callsite.
func call(i *interpreter, caller *frame, callpos token.Pos, fn value, args []value) value {
	switch fn := fn.(type) {
	case *ssa.Function:
		if fn == nil {
			panic("call of nil function") // nil of func type
		}
		return callSSA(i, caller, callpos, fn, args, nil)
	case *closure:
		return callSSA(i, caller, callpos, fn.Fn, args, fn.Env)
	case *ssa.Builtin:
		return callBuiltin(caller, callpos, fn, args)
	}
	panic(fmt.Sprintf("cannot call %T", fn))
}

func loc(fset *token.FileSet, pos token.Pos) string {
	if pos == token.NoPos {
		return ""
	}
	return " at " + fset.Position(pos).String()
}

// callSSA interprets a call to function fn with arguments args,
// and lexical environment env, returning its result.
// callpos is the position of the callsite.
func callSSA(i *interpreter, caller *frame, callpos token.Pos, fn *ssa.Function, args []value, env []value) value {
	if i.mode&EnableTracing != 0 {
		fset := fn.Prog.Fset
		// TODO(adonovan): fix: loc() lies for external functions.
		fmt.Fprintf(os.Stderr, "Entering %s%s.\n", fn, loc(fset, fn.Pos()))
		suffix := ""
		if caller != nil {
			suffix = ", resuming " + caller.fn.String() + loc(fset, callpos)
		}
		defer fmt.Fprintf(os.Stderr, "Leaving %s%s.\n", fn, suffix)
	}
	fr := &frame{
		i:      i,
		caller: caller, // for panic/recover
		fn:     fn,
	}
	ex := i.ex
	ex.curFrame = fr
	if fn.Synthetic == "package initializer" && fn.Pkg != nil {
		if !InitOK(fn.Pkg.Pkg.Path()) {
			ex.curFrame = caller
			return nil
		}
		i.inited[fn.Pkg] = true
	}
	if fn.Parent() == nil {
		name := fn.String()
		if alt := redirect(fn); alt != nil {
			fn = alt
			fr.fn = alt
			name = fn.String()
		}
		if se := symExternals[name]; se != nil && anySym(args) {
			r := se(fr, args)
			ex.curFrame = caller
			return r
		}
		if ext := externals[name]; ext != nil {
			if i.mode&EnableTracing != 0 {
				fmt.Fprintln(os.Stderr, "\t(external)")
			}
			r := ext(fr, args)
			ex.curFrame = caller
			return r
		}
		if fn.Blocks == nil {
			panic("no code for function: " + name)
		}
	}

	// generic function body?
	if fn.TypeParams().Len() > 0 && len(fn.TypeArgs()) == 0 {
		panic("interp requires ssa.BuilderMode to include InstantiateGenerics to execute generics")
	}

	if fn.Pkg != nil && strings.HasPrefix(fn.Pkg.Pkg.Path(), "metacontroller/") {
		ex.funcs[fn.String()] = true
	}
	fr.env = make(map[ssa.Value]value)
	fr.block = fn.Blocks[0]
	fr.locals = make([]value, len(fn.Locals))
	for i, l := range fn.Locals {
		fr.locals[i] = zero(mustDeref(l.Type()))
		fr.env[l] = &fr.locals[i]
	}
	for i, p := range fn.Params {
		fr.env[p] = args[i]
	}
	for i, fv := range fn.FreeVars {
		fr.env[fv] = env[i]
	}
	for fr.block != nil {
		runFrame(fr)
	}
	ex.curFrame = caller
	// Destroy the locals to avoid accidental use after return.
	for i := range fn.Locals {
		fr.locals[i] = bad{}
	}
	return fr.result
}

// runFrame executes SSA instructions starting at fr.block and
// continuing until a return, a panic, or a recovered panic.
//
// After a panic, runFrame panics.
//
// After a normal return, fr.result contains the result of the call
// and fr.block is nil.
//
// A recovered panic in a function without named return parameters
// (NRPs) becomes a normal return of the zero value of the function's
// result type.
//
// After a recovered panic in a function with NRPs, fr.result is
// undefined and fr.block contains the block at which to resume
// control.
func runFrame(fr *frame) {
	defer func() {
		if fr.block == nil {
			return // normal return
		}
		if fr.i.mode&DisableRecover != 0 {
			return // let interpreter crash
		}
		fr.panicking = true
		fr.panic = recover()
		switch fr.panic.(type) {
		case pathAbort, engineUnsupported, blockedForever, threadKilled:
			panic(fr.panic)
		case *runtime.TypeAssertionError:
			panic(fr.panic)
		}
		if fr.i.mode&EnableTracing != 0 {
			fmt.Fprintf(os.Stderr, "Panicking: %T %v.\n", fr.panic, fr.panic)
		}
		fr.runDefers()
		fr.i.ex.curFrame = fr
		fr.block = fr.fn.Recover
	}()

	for {
		if fr.i.mode&EnableTracing != 0 {
			fmt.Fprintf(os.Stderr, ".%s:\n", fr.block)
		}

		nonPhis := executePhis(fr)
		for _, instr := range nonPhis {
			if fr.i.mode&EnableTracing != 0 {
				if v, ok := instr.(ssa.Value); ok {
					fmt.Fprintln(os.Stderr, "\t", v.Name(), "=", instr)
				} else {
					fmt.Fprintln(os.Stderr, "\t", instr)
				}
			}
			fr.curInstr = instr
			if fr.i.ex.steps++; fr.i.ex.steps > fr.i.ex.cfg.MaxSteps {
				fr.i.ex.inconclusive("bound-exceeded: instruction budget")
				panic(pathAbort{"steps"})
			}
			if visitInstr(fr, instr) == kReturn {
				return
			}
			// Inv: kNext (continue) or kJump (last instr)
		}
	}
}

// executePhis executes the phi-nodes at the start of the current
// block and returns the non-phi instructions.
func executePhis(fr *frame) []ssa.Instruction {
	firstNonPhi := -1
	for i, instr := range fr.block.Instrs {
		if _, ok := instr.(*ssa.Phi); !ok {
			firstNonPhi = i
			break
		}
	}
	// Inv: 0 <= firstNonPhi; every block contains a non-phi.

	nonPhis := fr.block.Instrs[firstNonPhi:]
	if firstNonPhi > 0 {
		phis := fr.block.Instrs[:firstNonPhi]
		// Execute parallel assignment of phis.
		//
		// See "the swap problem" in Briggs et al's "Practical Improvements
		// to the Construction and Destruction of SSA Form" for discussion.
		predIndex := slices.Index(fr.block.Preds, fr.prevBlock)
		fr.phitemps = fr.phitemps[:0]
		for _, phi := range phis {
			phi := phi.(*ssa.Phi)
			if fr.i.mode&EnableTracing != 0 {
				fmt.Fprintln(os.Stderr, "\t", phi.Name(), "=", phi)
			}
			fr.phitemps = append(fr.phitemps, fr.get(phi.Edges[predIndex]))
		}
		for i, phi := range phis {
			fr.env[phi.(*ssa.Phi)] = fr.phitemps[i]
		}
	}
	return nonPhis
}

// doRecover implements the recover() built-in.
func doRecover(caller *frame) value {
	// recover() must be exactly one level beneath the deferred
	// function (two levels beneath the panicking function) to
	// have any effect.  Thus we ignore both "defer recover()" and
	// "defer f() -> g() -> recover()".
	if caller.i.mode&DisableRecover == 0 &&
		caller != nil && !caller.panicking &&
		caller.caller != nil && caller.caller.panicking {
		caller.caller.panicking = false
		p := caller.caller.panic
		caller.caller.panic = nil

		// TODO(adonovan): support runtime.Goexit.
		switch p := p.(type) {
		case targetPanic:
			// The target program explicitly called panic().
			return p.v
		case runtime.Error:
			// The interpreter encountered a runtime error.
			return iface{caller.i.runtimeErrorString, p.Error()}
		case string:
			// The interpreter explicitly called panic().
			return iface{caller.i.runtimeErrorString, p}
		default:
			panic(fmt.Sprintf("unexpected panic type %T in target call to recover()", p))
		}
	}
	return iface{}
}


// InitAllow lists package path prefixes whose initialisers are run.
var InitAllow = []string{"metacontroller/"}

// InitAllowExact lists dependency packages whose own initialiser is run
// (without running the initialisers of their imports unless also listed).
var InitAllowExact = map[string]bool{}

// InitDeny lists path prefixes excluded from InitAllow.
var InitDeny = []string{}

func InitOK(path string) bool {
	if InitAllowExact[path] {
		return true
	}
	for _, a := range InitDeny {
		if strings.HasPrefix(path, a) {
			return false
		}
	}
	for _, a := range InitAllow {
		if strings.HasPrefix(path, a) {
			return true
		}
	}
	return false
}

func (i *interpreter) ensureInit(pkg *ssa.Package) {
	if i.inited[pkg] {
		return
	}
	if f := pkg.Func("init"); f != nil {
		call(i, nil, token.NoPos, f, nil)
	}
}

// global returns the cell of a package-level variable, allocating it lazily.
// Reading a variable that its (not executed) package initialiser would have
// set makes the path inconclusive instead of silently using the zero value.
func (i *interpreter) global(g *ssa.Global) *value {
	if r, ok := i.globals[g]; ok {
		return r
	}
	if g.Pkg != nil && InitOK(g.Pkg.Pkg.Path()) && !i.inited[g.Pkg] && !i.initing[g.Pkg] && g.Name() != "init$guard" {
		// a whitelisted package that no executed initialiser chain reached
		// (e.g. only imported by dependency packages): initialise it on demand
		i.initing[g.Pkg] = true
		saved := i.ex.curFrame
		i.ensureInit(g.Pkg)
		i.ex.curFrame = saved
		if r, ok := i.globals[g]; ok {
			return r
		}
	}
	if g.Pkg != nil && !InitOK(g.Pkg.Pkg.Path()) && needsInit(g) && !BenignGlobals[g.String()] {
		if alt := GlobalInit[g.String()]; alt != nil {
			cell := alt(i)
			i.globals[g] = &cell
			return &cell
		}
		panic(engineUnsupported{"read of dependency global not initialised by the executor: " + g.String()})
	}
	cell := zero(mustDeref(g.Type()))
	i.globals[g] = &cell
	return &cell
}

// BenignGlobals may be used with their zero value although their package
// initialiser assigns them (each entry is justified in DESIGN.md).
var BenignGlobals = map[string]bool{}

// GlobalInit supplies values for selected dependency globals.
var GlobalInit = map[string]func(i *interpreter) value{}

var needsInitMu sync.Mutex
var needsInitCache = map[*ssa.Package]map[*ssa.Global]bool{}

func needsInit(g *ssa.Global) bool {
	needsInitMu.Lock()
	defer needsInitMu.Unlock()
	m, ok := needsInitCache[g.Pkg]
	if !ok {
		m = map[*ssa.Global]bool{}
		for name, mem := range g.Pkg.Members {
			f, ok := mem.(*ssa.Function)
			if !ok || !(name == "init" || strings.HasPrefix(name, "init#")) {
				continue
			}
			for _, b := range f.Blocks {
				for _, ins := range b.Instrs {
					var addr ssa.Value
					switch st := ins.(type) {
					case *ssa.Store:
						addr = st.Addr
					case *ssa.MapUpdate:
						addr = st.Map
					default:
						continue
					}
					for addr != nil {
						switch a := addr.(type) {
						case *ssa.Global:
							m[a] = true
							addr = nil
						case *ssa.FieldAddr:
							addr = a.X
						case *ssa.IndexAddr:
							addr = a.X
						case *ssa.UnOp:
							addr = a.X
						default:
							addr = nil
						}
					}
				}
			}
		}
		needsInitCache[g.Pkg] = m
	}
	return m[g]
}

func mustDeref(t types.Type) types.Type {
	if p, ok := t.Underlying().(*types.Pointer); ok {
		return p.Elem()
	}
	panic("mustDeref: not a pointer: " + t.String())
}

// Redirect maps a dependency function (by ssa.Function.String()) to its
// Go-source model "pkgpath.Func".
var Redirect = map[string]string{}
var redirMu sync.Mutex
var redirCache = map[*ssa.Function]*ssa.Function{}

func redirect(fn *ssa.Function) *ssa.Function {
	redirMu.Lock()
	defer redirMu.Unlock()
	if alt, ok := redirCache[fn]; ok {
		return alt
	}
	var alt *ssa.Function
	if target := Redirect[fn.String()]; target != "" {
		i := strings.LastIndex(target, ".")
		if p := fn.Prog.ImportedPackage(target[:i]); p != nil {
			alt = p.Func(target[i+1:])
		}
		if alt == nil {
			panic("redirect target not found: " + target)
		}
	}
	redirCache[fn] = alt
	return alt
}

// blockedForever: the current (inline) goroutine can make no progress.
type blockedForever struct{ why string }

// branchAt decides a conditional jump; a per-instruction visit counter on
// symbolic conditions implements the loop bound (unwinding assertion).
func (e *Explorer) branchAt(instr ssa.Instruction, c value) bool {
	if _, ok := c.(bool); ok {
		return c.(bool)
	}
	e.loopCnt[instr]++
	if e.loopCnt[instr] > e.cfg.Unwind {
		e.inconclusive(fmt.Sprintf("bound-exceeded: symbolic loop unwinding (%d)", e.cfg.Unwind))
		panic(pathAbort{"unwind"})
	}
	return e.branch(c)
}

package interp

// Ordered association-list map, deterministic iteration, symbolic-key aware.

import (
	"go/types"
)

type hashable interface {
	hash(t types.Type) int
	eq(t types.Type, x interface{}) bool
}

type entry struct {
	key   value
	value value
}

type hashmap struct {
	keyType types.Type
	ents    []*entry
}

func makeMap(kt types.Type, reserve int64) value {
	return &hashmap{keyType: kt}
}

func (m *hashmap) find(k value) int {
	if m == nil {
		return -1
	}
	for i, e := range m.ents {
		if EX.branch(eqv(m.keyType, k, e.key)) {
			return i
		}
	}
	return -1
}

func (m *hashmap) delete(k value) {
	if i := m.find(k); i >= 0 {
		m.ents = append(m.ents[:i:i], m.ents[i+1:]...)
	}
}

func (m *hashmap) lookup(k value) value {
	if i := m.find(k); i >= 0 {
		return m.ents[i].value
	}
	return nil
}

func (m *hashmap) insert(k value, v value) {
	if i := m.find(k); i >= 0 {
		m.ents[i].value = v
		return
	}
	m.ents = append(m.ents, &entry{k, v})
}

func (m *hashmap) len() int {
	if m != nil {
		return len(m.ents)
	}
	return 0
}

type hashmapIter struct {
	ents []*entry
	i    int
}

func (it *hashmapIter) next() tuple {
	if it.i >= len(it.ents) {
		return []value{false, nil, nil}
	}
	e := it.ents[it.i]
	it.i++
	return []value{true, e.key, e.value}
}

package interp

// Ordered association-list map: deterministic iteration (needed for
// prefix re-execution and for replay), symbolic-key aware. A key comparison
// that is symbolic becomes a branch, so after any operation the entries are
// pairwise distinct under the path condition and len is concrete.

import (
	"go/types"
)

type hashable interface {
	hash(t types.Type) int
	eq(t types.Type, x interface{}) bool
}

type entry struct {
	key   value
	value value
}

type hashmap struct {
	ex      *Explorer
	keyType types.Type
	ents    []*entry
	race    *mapRace // happens-before bookkeeping (race.go), only while goroutines exist
}

func (m *hashmap) touch(write bool) {
	if m != nil && m.ex != nil && m.ex.nthreads > 0 {
		m.ex.mapAccess(m, write)
	}
}

func makeMap(ex *Explorer, kt types.Type, reserve int64) value {
	return &hashmap{ex: ex, keyType: kt}
}

func (m *hashmap) find(k value) int {
	if m == nil {
		return -1
	}
	for i, e := range m.ents {
		c := eqv(m.keyType, k, e.key)
		if b, ok := c.(bool); ok {
			if b {
				return i
			}
			continue
		}
		if m.ex.branch(c) {
			return i
		}
	}
	return -1
}

func (m *hashmap) delete(k value) {
	m.touch(true)
	if i := m.find(k); i >= 0 {
		m.ents = append(m.ents[:i:i], m.ents[i+1:]...)
	}
}

func (m *hashmap) lookup(k value) value {
	m.touch(false)
	if i := m.find(k); i >= 0 {
		return m.ents[i].value
	}
	return nil
}

func (m *hashmap) insert(k value, v value) {
	if m == nil {
		panic("target:assignment to entry in nil map")
	}
	m.touch(true)
	if i := m.find(k); i >= 0 {
		m.ents[i].value = v
		return
	}
	m.ents = append(m.ents, &entry{k, v})
}

func (m *hashmap) len() int {
	m.touch(false)
	if m != nil {
		return len(m.ents)
	}
	return 0
}

type hashmapIter struct {
	ents []*entry
	i    int
}

func (it *hashmapIter) next() tuple {
	if it.i >= len(it.ents) {
		return []value{false, nil, nil}
	}
	e := it.ents[it.i]
	it.i++
	return []value{true, e.key, e.value}
}

func (m *hashmap) iter() *hashmapIter {
	if m == nil {
		return &hashmapIter{}
	}
	m.touch(false)
	ents := append([]*entry{}, m.ents...)
	if m.ex != nil && m.ex.cfg.ReverseMaps != m.ex.revMaps {
		for i, j := 0, len(ents)-1; i < j; i, j = i+1, j-1 {
			ents[i], ents[j] = ents[j], ents[i]
		}
	}
	return &hashmapIter{ents: ents}
}

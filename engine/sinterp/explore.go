package interp

// DART-style path exploration by re-execution with a decision prefix.
// One Explorer per worker; each has its own solver process and creates a
// fresh interpreter per path.

import (
	"fmt"
	"go/token"
	"go/types"
	"io"
	"os"
	"runtime"
	"sort"
	"strings"
	"sync"
	"time"

	"golang.org/x/tools/go/ssa"
)

// engineUnsupported is raised when the engine meets something it cannot
// encode; the path becomes inconclusive (never "held", never a violation).
type engineUnsupported struct{ why string }

// pathAbort ends the current path silently (infeasible assume etc.).
type pathAbort struct{ why string }

type Nondet struct {
	Name string `json:"name"`
	Sort string `json:"sort"` // "S","I","B"
	Tag  string `json:"tag"`
	Val  string `json:"val"` // decoded model value (filled for witnesses)
}

type Observation struct {
	Label string `json:"label"`
	Val   string `json:"val"`
	term  string
	sort  byte
}

type Violation struct {
	Harness   string        `json:"harness"`
	Pkg       string        `json:"pkg"`
	Label     string        `json:"label"`
	Kind      string        `json:"kind"` // assert | panic
	Pos       string        `json:"pos"`
	Nondets   []Nondet      `json:"nondets"`
	Decisions string        `json:"decisions"`
	PC        []string      `json:"pc,omitempty"`
	Detail    string        `json:"detail,omitempty"`
	Observes  []Observation `json:"observes,omitempty"`
}

type Witness struct {
	Harness   string        `json:"harness"`
	Pkg       string        `json:"pkg"`
	Nondets   []Nondet      `json:"nondets"`
	Decisions string        `json:"decisions"`
	Observes  []Observation `json:"observes"`
	Covers    []string      `json:"covers"`
	Panic     string        `json:"panic,omitempty"`
}

type Config struct {
	Prog        *ssa.Program
	Pkg         *ssa.Package // package holding the harness
	Fn          string       // harness function name
	Sizes       types.Sizes
	SolverName  string
	TimeoutMs   int
	Workers     int
	MaxPaths    int
	MaxSteps    int // instructions per path
	MaxBranches int // symbolic decisions per path
	Witnesses   int // number of completed paths to model-complete for concolic validation
	Seed        int64
	Trace       bool
	SMTLog      io.Writer
	ReverseMaps bool
	CellRaces   bool // opt-in: happens-before race detection on memory cells written/read by the code under test (race.go)
	Tier        int
	Unwind      int // visits of one conditional jump with a symbolic condition per path
	Progress    bool
	Deadline    time.Time
}

type Stats struct {
	Paths        int
	Completed    int
	Held         int
	Infeasible   int
	Inconclusive int
	BoundHit     int
	Decisions    int
	Queries      int
	Sat, Unsat   int
	Unknown      int
	SolverErrs   int
	SolverTime   time.Duration
	Wall         time.Duration
	Exhaustive   bool
	Covers       map[string]int
	Funcs        map[string]bool
	InconclWhy   map[string]int
	Violations   []Violation
	Witnesses    []Witness
	Probes       []Witness // solver-completed inputs of paths the executor could not finish
	SamplePCs    [][]string
	AssertsTotal int
	AssertsSym   int
}

type Explorer struct {
	jsonStdNumbers bool // inside encoding/json.Unmarshal: integral numbers decode to float64
	cfg *Config
	S   *Solver
	id  int

	prefix   []bool
	pos      int
	pc       []string
	nondets  []Nondet
	observes []Observation
	nsym     int
	steps    int
	covers   map[string]bool
	revMaps  bool // rt.ReverseMaps: this path iterates maps in reverse insertion order
	viol     []Violation
	incl     string // why this path is inconclusive ("" = not)
	jsonToks []*jsonTok
	hashToks []string
	digests  []string
	funcs    map[string]bool
	asserts  int
	assertsS int
	curFrame *frame
	siblings [][]bool
	loopCnt  map[ssa.Instruction]int
	parked   int
	// cooperative goroutines (threads.go)
	mainT, cur *gthread
	parkedT    []*gthread
	nthreads   int
	locks      map[*value]*lockState
	waitGroups map[*value]int64
	tickers    []*tickerState
	syncVC     map[syncKey]vclock
	cellRace   map[*value]*cellState  // per memory cell (CellRaces)
	targetFn   map[*ssa.Function]bool // is the function code under test (not harness, not model)?
	pools      map[*value][]value
	raceSeen   map[string]bool
	probe    *Witness
}

func decString(d []bool) string {
	var b strings.Builder
	for _, x := range d {
		if x {
			b.WriteByte('1')
		} else {
			b.WriteByte('0')
		}
	}
	return b.String()
}

func (e *Explorer) fresh(sort byte, tag string) symv {
	e.nsym++
	pfx := map[byte]string{'B': "b", 'S': "s", 'I': "i"}[sort]
	name := fmt.Sprintf("%s%d", pfx, e.nsym)
	ss := map[byte]string{'B': "Bool", 'S': "String", 'I': "Int"}[sort]
	e.S.Send(fmt.Sprintf("(declare-const %s %s)", name, ss))
	return symv{sort: sort, term: name}
}

func (e *Explorer) nondet(sort byte, tag string) symv {
	v := e.fresh(sort, tag)
	e.nondets = append(e.nondets, Nondet{Name: v.term, Sort: string(sort), Tag: tag})
	return v
}

func (e *Explorer) addPC(t string) {
	e.pc = append(e.pc, t)
	e.S.Send("(assert " + t + ")")
}

func (e *Explorer) inconclusive(why string) {
	if e.incl == "" {
		e.incl = why
	}
}

// branch decides a (possibly symbolic) condition.
func (e *Explorer) branch(c value) bool {
	switch x := c.(type) {
	case bool:
		return x
	case symv:
		if x.sort != 'B' {
			panic(engineUnsupported{"branch on non-bool symbolic"})
		}
		if e.pos < len(e.prefix) {
			d := e.prefix[e.pos]
			e.pos++
			if d {
				e.addPC(x.term)
			} else {
				e.addPC("(not " + x.term + ")")
			}
			return d
		}
		if len(e.prefix) >= e.cfg.MaxBranches {
			e.inconclusive("bound-exceeded: symbolic decisions per path")
			panic(pathAbort{"bound"})
		}
		rT := e.S.CheckWith(x.term)
		rF := e.S.CheckWith("(not " + x.term + ")")
		if strings.HasPrefix(rT, "error") || strings.HasPrefix(rF, "error") {
			e.inconclusive("solver error at branch: " + rT + " / " + rF)
			panic(pathAbort{"solver error"})
		}
		canT := rT != "unsat"
		canF := rF != "unsat"
		if !canT && !canF {
			panic(pathAbort{"infeasible"})
		}
		d := canT
		if canT && canF {
			alt := append(append([]bool{}, e.prefix...), false)
			e.siblings = append(e.siblings, alt)
		}
		e.prefix = append(e.prefix, d)
		e.pos++
		if d {
			e.addPC(x.term)
		} else {
			e.addPC("(not " + x.term + ")")
		}
		return d
	}
	panic(engineUnsupported{fmt.Sprintf("branch on %T", c)})
}

func (e *Explorer) assume(c value) {
	switch x := c.(type) {
	case bool:
		if !x {
			panic(pathAbort{"assume false"})
		}
	case symv:
		r := e.S.CheckWith(x.term)
		if r == "unsat" {
			panic(pathAbort{"assume infeasible"})
		}
		if strings.HasPrefix(r, "error") {
			e.inconclusive("solver error at assume: " + r)
			panic(pathAbort{"solver error"})
		}
		e.addPC(x.term)
	default:
		panic(engineUnsupported{"assume on non-bool"})
	}
}

func (e *Explorer) position() string {
	for f := e.curFrame; f != nil; f = f.caller {
		if f.curInstr != nil && f.curInstr.Pos() != token.NoPos {
			return e.cfg.Prog.Fset.Position(f.curInstr.Pos()).String()
		}
	}
	return ""
}

// panicLabel fingerprints a panic by the innermost function of the code under
// test (metacontroller/..., not harness code) on the stack.
func (e *Explorer) panicLabel() string {
	for f := e.curFrame; f != nil; f = f.caller {
		if f.fn.Pkg == nil {
			if p := f.fn.Parent(); p == nil || p.Pkg == nil {
				continue
			}
		}
		name := f.fn.String()
		if strings.Contains(name, "metacontroller/") && !strings.Contains(name, "zzverif") && !strings.Contains(name, ".Verif") && !strings.Contains(name, ".verif") {
			name = strings.ReplaceAll(name, "metacontroller/pkg/", "")
			return "no-panic/" + name
		}
	}
	return "no-panic"
}

func (e *Explorer) stack() string {
	var b strings.Builder
	n := 0
	for f := e.curFrame; f != nil && n < 12; f = f.caller {
		b.WriteString(f.fn.String())
		if f.curInstr != nil && f.curInstr.Pos() != token.NoPos {
			p := e.cfg.Prog.Fset.Position(f.curInstr.Pos())
			fmt.Fprintf(&b, " (%s:%d)", p.Filename, p.Line)
		}
		b.WriteString(" <- ")
		n++
	}
	return b.String()
}

func (e *Explorer) modelNondets(extra ...string) (string, []Nondet, []Observation) {
	terms := make([]string, 0, len(e.nondets)+len(e.observes))
	for _, n := range e.nondets {
		terms = append(terms, n.Name)
	}
	for _, o := range e.observes {
		if o.term != "" {
			terms = append(terms, o.term)
		}
	}
	r, vals := e.S.ModelWith(terms, extra...)
	if r != "sat" {
		return r, nil, nil
	}
	out := make([]Nondet, len(e.nondets))
	for i, n := range e.nondets {
		n.Val = decodeVal(n.Sort[0], vals[i])
		out[i] = n
	}
	obs := make([]Observation, len(e.observes))
	k := len(e.nondets)
	for i, o := range e.observes {
		if o.term != "" {
			o.Val = decodeVal(o.sort, vals[k])
			k++
		}
		obs[i] = o
	}
	return r, out, obs
}

func decodeVal(sort byte, raw string) string {
	switch sort {
	case 'S':
		return DecodeSMTString(raw)
	case 'I':
		n, _ := DecodeSMTInt(raw)
		return fmt.Sprint(n)
	}
	return strings.TrimSpace(raw)
}

func (e *Explorer) recordViolation(kind, label, detail string, extra ...string) {
	r, nd, obs := e.modelNondets(extra...)
	if r != "sat" {
		e.inconclusive("assertion " + label + ": " + r)
		return
	}
	v := Violation{Harness: e.cfg.Fn, Pkg: e.cfg.Pkg.Pkg.Path(), Label: label, Kind: kind, Pos: e.position(),
		Nondets: nd, Decisions: decString(e.prefix[:e.pos]), Detail: detail, Observes: obs}
	if len(e.pc) < 60 {
		v.PC = append([]string{}, e.pc...)
	}
	e.viol = append(e.viol, v)
}

func (e *Explorer) assert(c value, label string) {
	e.asserts++
	switch x := c.(type) {
	case bool:
		if !x {
			e.recordViolation("assert", label, "concrete")
			// nothing more can be learned on this path for this assertion
		}
	case symv:
		e.assertsS++
		neg := "(not " + x.term + ")"
		r := e.S.CheckWith(neg)
		switch {
		case r == "unsat":
		case r == "sat":
			e.recordViolation("assert", label, "", neg)
		default:
			e.inconclusive("assertion " + label + ": " + r)
		}
		// continue under the assumption that the assertion holds
		if r2 := e.S.CheckWith(x.term); r2 == "unsat" {
			panic(pathAbort{"assert always fails here"})
		}
		e.addPC(x.term)
	default:
		panic(engineUnsupported{"assert on non-bool"})
	}
}

// ---- driver ----

type workList struct {
	mu     sync.Mutex
	cond   *sync.Cond
	items  [][]bool
	active int
	done   bool
}

func (w *workList) get() ([]bool, bool) {
	w.mu.Lock()
	defer w.mu.Unlock()
	for len(w.items) == 0 && w.active > 0 && !w.done {
		w.cond.Wait()
	}
	if w.done || len(w.items) == 0 {
		w.cond.Broadcast()
		return nil, false
	}
	it := w.items[len(w.items)-1]
	w.items = w.items[:len(w.items)-1]
	w.active++
	return it, true
}

func (w *workList) put(done bool, more [][]bool) {
	w.mu.Lock()
	w.items = append(w.items, more...)
	if done {
		w.active--
	}
	w.cond.Broadcast()
	w.mu.Unlock()
}

// Explore runs cfg.Fn over all feasible paths within the bounds.
func Explore(cfg *Config) *Stats {
	t0 := time.Now()
	if cfg.Workers <= 0 {
		cfg.Workers = runtime.NumCPU()
	}
	if cfg.MaxSteps == 0 {
		cfg.MaxSteps = 20_000_000
	}
	if cfg.MaxBranches == 0 {
		cfg.MaxBranches = 4000
	}
	if cfg.MaxPaths == 0 {
		cfg.MaxPaths = 1 << 30
	}
	if cfg.Unwind == 0 {
		cfg.Unwind = 64
	}
	st := &Stats{Covers: map[string]int{}, Funcs: map[string]bool{}, InconclWhy: map[string]int{}}
	wl := &workList{items: [][]bool{nil}}
	wl.cond = sync.NewCond(&wl.mu)
	var mu sync.Mutex
	var wg sync.WaitGroup
	stopProgress := make(chan struct{})
	if cfg.Progress {
		go func() {
			tk := time.NewTicker(15 * time.Second)
			defer tk.Stop()
			for {
				select {
				case <-stopProgress:
					return
				case <-tk.C:
					mu.Lock()
					wl.mu.Lock()
					fmt.Fprintf(os.Stderr, "  ... %s: %d paths, %d queued, %d active, %d inconclusive, %d candidate violations, %.0fs\n", cfg.Fn, st.Paths, len(wl.items), wl.active, st.Inconclusive, len(st.Violations), time.Since(t0).Seconds())
					wl.mu.Unlock()
					mu.Unlock()
				}
			}
		}()
	}
	witnessLeft := cfg.Witnesses
	for w := 0; w < cfg.Workers; w++ {
		wg.Add(1)
		go func(id int) {
			defer wg.Done()
			var log io.Writer
			if id == 0 {
				log = cfg.SMTLog
			}
			ex := &Explorer{cfg: cfg, id: id, S: NewSolver(cfg.SolverName, cfg.TimeoutMs, log), funcs: map[string]bool{}}
			defer ex.S.Close()
			for {
				pre, ok := wl.get()
				if !ok {
					break
				}
				mu.Lock()
				stop := st.Paths >= cfg.MaxPaths || (!cfg.Deadline.IsZero() && time.Now().After(cfg.Deadline))
				if !stop {
					st.Paths++
				}
				wantWitness := witnessLeft > 0
				mu.Unlock()
				if stop {
					wl.mu.Lock()
					wl.done = true
					wl.mu.Unlock()
					wl.put(true, nil)
					mu.Lock()
					st.Exhaustive = false
					st.InconclWhy["path/time budget reached"]++
					mu.Unlock()
					break
				}
				completed, wit := ex.runPath(pre, wantWitness)
				mu.Lock()
				st.Decisions += ex.pos
				if completed {
					st.Completed++
				}
				switch {
				case ex.incl != "":
					st.Inconclusive++
					k := ex.incl
					if len(k) > 400 {
						k = k[:400]
					}
					st.InconclWhy[k]++
					if strings.HasPrefix(ex.incl, "bound-exceeded") {
						st.BoundHit++
					}
				case len(ex.viol) > 0:
				case completed:
					st.Held++
				default:
					st.Infeasible++
				}
				for c := range ex.covers {
					st.Covers[c]++
				}
				st.Violations = append(st.Violations, ex.viol...)
				if ex.probe != nil && len(st.Probes) < 12 {
					st.Probes = append(st.Probes, *ex.probe)
				}
				if wit != nil && witnessLeft > 0 {
					witnessLeft--
					st.Witnesses = append(st.Witnesses, *wit)
				}
				if completed && len(st.SamplePCs) < 3 && len(ex.pc) > 0 && len(ex.pc) < 40 {
					st.SamplePCs = append(st.SamplePCs, append([]string{}, ex.pc...))
				}
				st.AssertsTotal += ex.asserts
				st.AssertsSym += ex.assertsS
				mu.Unlock()
				wl.put(true, ex.siblings)
			}
			mu.Lock()
			st.Queries += ex.S.Calls
			st.Sat += ex.S.Sat
			st.Unsat += ex.S.Unsat
			st.Unknown += ex.S.Unk
			st.SolverErrs += ex.S.Errs
			st.SolverTime += ex.S.Time
			for f := range ex.funcs {
				st.Funcs[f] = true
			}
			mu.Unlock()
		}(w)
	}
	wg.Wait()
	close(stopProgress)
	st.Wall = time.Since(t0)
	wl.mu.Lock()
	st.Exhaustive = !wl.done && len(wl.items) == 0
	wl.mu.Unlock()
	sort.Slice(st.Violations, func(i, j int) bool {
		a, b := st.Violations[i], st.Violations[j]
		if a.Label != b.Label {
			return a.Label < b.Label
		}
		return a.Decisions < b.Decisions
	})
	return st
}

// runPath executes one path. It returns whether the harness ran to completion
// and, if requested and possible, a model-completed witness of the path.
func (e *Explorer) runPath(prefix []bool, wantWitness bool) (completed bool, wit *Witness) {
	e.probe = nil
	e.prefix, e.pos, e.pc, e.nondets, e.observes, e.nsym, e.steps = prefix, 0, nil, nil, nil, 0, 0
	e.covers, e.viol, e.incl, e.jsonToks, e.hashToks, e.siblings = map[string]bool{}, nil, "", nil, nil, nil
	e.revMaps = false
	e.resetThreads()
	e.digests = nil
	e.asserts, e.assertsS = 0, 0
	e.loopCnt = map[ssa.Instruction]int{}
	e.S.Send("(push 1)")
	defer e.S.Send("(pop 1)")

	cfg := e.cfg
	i := &interpreter{
		prog:       cfg.Prog,
		globals:    make(map[*ssa.Global]*value),
		sizes:      cfg.Sizes,
		goroutines: 1,
		ex:         e,
		inited:     map[*ssa.Package]bool{},
		initing:    map[*ssa.Package]bool{},
	}
	if cfg.Trace {
		i.mode = EnableTracing
	}
	runtimePkg := i.prog.ImportedPackage("runtime")
	i.runtimeErrorString = runtimePkg.Type("errorString").Object().Type()
	initReflect(i)

	panicMsg := ""
	func() {
		defer func() {
			if r := recover(); r != nil {
				switch p := r.(type) {
				case pathAbort:
				case engineUnsupported:
					e.inconclusive("unsupported: " + p.why + " @ " + e.stack())
				case blockedForever:
					// the harness thread can never continue: a deadlock candidate,
					// confirmed natively by a run that does not return in time
					panicMsg = "deadlock: " + p.why
					e.recordViolation("deadlock", strings.Replace(e.panicLabel(), "no-panic", "no-deadlock", 1), panicMsg+" @ "+e.stack())
				case targetPanic:
					panicMsg = "panic: " + toString(p.v)
					e.recordViolation("panic", e.panicLabel(), panicMsg+" @ "+e.stack())
				case runtime.Error:
					msg := p.Error()
					if _, isTA := p.(*runtime.TypeAssertionError); isTA || !isTargetRuntimeError(msg) {
						e.inconclusive("engine fault: " + msg + " @ " + e.stack())
						if os.Getenv("VCHECK_DEBUG") != "" {
							buf := make([]byte, 1<<14)
							n := runtime.Stack(buf, false)
							fmt.Fprintf(os.Stderr, "ENGINE FAULT %s\n%s\n", msg, buf[:n])
						}
					} else {
						panicMsg = "panic: runtime error: " + msg
						e.recordViolation("panic", e.panicLabel(), panicMsg+" @ "+e.stack())
					}
				case string:
					if strings.HasPrefix(p, "target:") {
						panicMsg = "panic: " + p[7:]
						e.recordViolation("panic", e.panicLabel(), panicMsg+" @ "+e.stack())
					} else {
						e.inconclusive("engine panic: " + p + " @ " + e.stack())
					}
				default:
					e.inconclusive(fmt.Sprintf("engine panic: %v @ %s", r, e.stack()))
				}
			}
		}()
		e.curFrame = nil
		i.ensureInit(cfg.Pkg)
		fn := cfg.Pkg.Func(cfg.Fn)
		if fn == nil {
			panic("no harness function " + cfg.Fn)
		}
		call(i, nil, token.NoPos, fn, nil)
		completed = true
	}()
	e.killThreads()
	if e.incl != "" && !strings.HasPrefix(e.incl, "bound-exceeded") {
		// The executor gave up on this path. Complete the path condition reached so
		// far to concrete inputs: the natively compiled harness is run on them, so a
		// change that pushes the code beyond what the executor can encode is still
		// confronted with the assertions (natively) instead of silently passing.
		if r, nd, _ := e.modelNondets(); r == "sat" {
			e.probe = &Witness{Harness: cfg.Fn, Pkg: cfg.Pkg.Pkg.Path(), Nondets: nd, Decisions: decString(e.prefix[:e.pos]), Panic: e.incl}
		}
	}
	if (completed || panicMsg != "") && wantWitness && e.incl == "" && len(e.viol) == 0 {
		r, nd, obs := e.modelNondets()
		if r == "sat" {
			w := &Witness{Harness: cfg.Fn, Pkg: cfg.Pkg.Pkg.Path(), Nondets: nd, Observes: obs, Decisions: decString(e.prefix[:e.pos]), Panic: panicMsg}
			for c := range e.covers {
				w.Covers = append(w.Covers, c)
			}
			sort.Strings(w.Covers)
			wit = w
		}
	}
	return completed, wit
}

func isTargetRuntimeError(msg string) bool {
	for _, s := range []string{"nil pointer dereference", "index out of range", "slice bounds out of range", "nil map", "integer divide by zero", "close of closed channel", "close of nil channel"} {
		if strings.Contains(msg, s) {
			return true
		}
	}
	return false
}

// checkIntRange is the overflow side-obligation for symbolic arithmetic.
func (e *Explorer) checkIntRange(term string, t types.Type) {
	b, ok := t.Underlying().(*types.Basic)
	if !ok || b.Info()&types.IsInteger == 0 {
		return
	}
	bits, signed := intBits(b)
	var lo, hi string
	switch {
	case signed && bits == 64:
		lo, hi = "(- 9223372036854775808)", "9223372036854775807"
	case signed && bits == 32:
		lo, hi = "(- 2147483648)", "2147483647"
	case signed && bits == 16:
		lo, hi = "(- 32768)", "32767"
	case signed && bits == 8:
		lo, hi = "(- 128)", "127"
	case bits == 64:
		lo, hi = "0", "18446744073709551615"
	case bits == 32:
		lo, hi = "0", "4294967295"
	case bits == 16:
		lo, hi = "0", "65535"
	default:
		lo, hi = "0", "255"
	}
	r := e.S.CheckWith("(or (< " + term + " " + lo + ") (> " + term + " " + hi + "))")
	if r != "unsat" {
		e.inconclusive("symbolic integer arithmetic may overflow its Go type (" + r + ")")
	}
}

// Copyright 2013 The Go Authors. All rights reserved.
// Use of this source code is governed by a BSD-style
// license that can be found in the LICENSE file.

package interp

// Emulated functions that we cannot interpret because they are
// external or because they use "unsafe" or "reflect" operations.

import (
	"go/token"
	"bytes"
	"math"
	"os"
	"runtime"
	"sort"
	"strconv"
	"strings"
	"time"
	"unicode/utf8"
)

type externalFn func(fr *frame, args []value) value

// TODO(adonovan): fix: reflect.Value abstracts an lvalue or an
// rvalue; Set() causes mutations that can be observed via aliases.
// We have not captured that correctly here.

// Key strings are from Function.String().
var externals = make(map[string]externalFn)

func init() {
	// That little dot ۰ is an Arabic zero numeral (U+06F0), categories [Nd].
	for k, v := range map[string]externalFn{
		"(reflect.Value).Bool":            ext۰reflect۰Value۰Bool,
		"(reflect.Value).CanAddr":         ext۰reflect۰Value۰CanAddr,
		"(reflect.Value).CanInterface":    ext۰reflect۰Value۰CanInterface,
		"(reflect.Value).Elem":            ext۰reflect۰Value۰Elem,
		"(reflect.Value).Field":           ext۰reflect۰Value۰Field,
		"(reflect.Value).Float":           ext۰reflect۰Value۰Float,
		"(reflect.Value).Index":           ext۰reflect۰Value۰Index,
		"(reflect.Value).Int":             ext۰reflect۰Value۰Int,
		"(reflect.Value).Interface":       ext۰reflect۰Value۰Interface,
		"(reflect.Value).IsNil":           ext۰reflect۰Value۰IsNil,
		"(reflect.Value).IsValid":         ext۰reflect۰Value۰IsValid,
		"(reflect.Value).Kind":            ext۰reflect۰Value۰Kind,
		"(reflect.Value).Len":             ext۰reflect۰Value۰Len,
		"(reflect.Value).MapIndex":        ext۰reflect۰Value۰MapIndex,
		"(reflect.Value).MapKeys":         ext۰reflect۰Value۰MapKeys,
		"(reflect.Value).NumField":        ext۰reflect۰Value۰NumField,
		"(reflect.Value).NumMethod":       ext۰reflect۰Value۰NumMethod,
		"(reflect.Value).Pointer":         ext۰reflect۰Value۰Pointer,
		"(reflect.Value).Set":             ext۰reflect۰Value۰Set,
		"(reflect.Value).String":          ext۰reflect۰Value۰String,
		"(reflect.Value).Type":            ext۰reflect۰Value۰Type,
		"(reflect.Value).Uint":            ext۰reflect۰Value۰Uint,
		"(reflect.error).Error":           ext۰reflect۰error۰Error,
		"(reflect.rtype).Bits":            ext۰reflect۰rtype۰Bits,
		"(reflect.rtype).Elem":            ext۰reflect۰rtype۰Elem,
		"(reflect.rtype).Field":           ext۰reflect۰rtype۰Field,
		"(reflect.rtype).In":              ext۰reflect۰rtype۰In,
		"(reflect.rtype).Kind":            ext۰reflect۰rtype۰Kind,
		"(reflect.rtype).NumField":        ext۰reflect۰rtype۰NumField,
		"(reflect.rtype).NumIn":           ext۰reflect۰rtype۰NumIn,
		"(reflect.rtype).NumMethod":       ext۰reflect۰rtype۰NumMethod,
		"(reflect.rtype).NumOut":          ext۰reflect۰rtype۰NumOut,
		"(reflect.rtype).Out":             ext۰reflect۰rtype۰Out,
		"(reflect.rtype).Size":            ext۰reflect۰rtype۰Size,
		"(reflect.rtype).String":          ext۰reflect۰rtype۰String,
		"bytes.Equal":                     ext۰bytes۰Equal,
		"bytes.IndexByte":                 ext۰bytes۰IndexByte,
		"fmt.Sprint":                      ext۰fmt۰Sprint,
		"math.Abs":                        ext۰math۰Abs,
		"math.Copysign":                   ext۰math۰Copysign,
		"math.Exp":                        ext۰math۰Exp,
		"math.Float32bits":                ext۰math۰Float32bits,
		"math.Float32frombits":            ext۰math۰Float32frombits,
		"math.Float64bits":                ext۰math۰Float64bits,
		"math.Float64frombits":            ext۰math۰Float64frombits,
		"math.Inf":                        ext۰math۰Inf,
		"math.IsNaN":                      ext۰math۰IsNaN,
		"math.Ldexp":                      ext۰math۰Ldexp,
		"math.Log":                        ext۰math۰Log,
		"math.Min":                        ext۰math۰Min,
		"math.NaN":                        ext۰math۰NaN,
		"math.Sqrt":                       ext۰math۰Sqrt,
		"os.Exit":                         ext۰os۰Exit,
		"os.Getenv":                       ext۰os۰Getenv,
		"reflect.New":                     ext۰reflect۰New,
		"reflect.SliceOf":                 ext۰reflect۰SliceOf,
		"reflect.TypeOf":                  ext۰reflect۰TypeOf,
		"reflect.ValueOf":                 ext۰reflect۰ValueOf,
		"reflect.Zero":                    ext۰reflect۰Zero,
		"runtime.Breakpoint":              ext۰runtime۰Breakpoint,
		"runtime.GC":                      ext۰runtime۰GC,
		"runtime.GOMAXPROCS":              ext۰runtime۰GOMAXPROCS,
		"runtime.GOROOT":                  ext۰runtime۰GOROOT,
		"runtime.Goexit":                  ext۰runtime۰Goexit,
		"runtime.Gosched":                 ext۰runtime۰Gosched,
		"runtime.NumCPU":                  ext۰runtime۰NumCPU,
		"sort.Float64s":                   ext۰sort۰Float64s,
		"sort.Ints":                       ext۰sort۰Ints,
		"sort.Strings":                    ext۰sort۰Strings,
		"strconv.Atoi":                    ext۰strconv۰Atoi,
		"strconv.Itoa":                    ext۰strconv۰Itoa,
		"strconv.FormatFloat":             ext۰strconv۰FormatFloat,
		"strings.Count":                   ext۰strings۰Count,
		"strings.EqualFold":               ext۰strings۰EqualFold,
		"strings.Index":                   ext۰strings۰Index,
		"strings.IndexByte":               ext۰strings۰IndexByte,
		"strings.Replace":                 ext۰strings۰Replace,
		"strings.ToLower":                 ext۰strings۰ToLower,
		"time.Sleep":                      ext۰time۰Sleep,
		"unicode/utf8.DecodeRuneInString": ext۰unicode۰utf8۰DecodeRuneInString,
	} {
		externals[k] = v
	}
}

func ext۰bytes۰Equal(fr *frame, args []value) value {
	// func Equal(a, b []byte) bool
	a := args[0].([]value)
	b := args[1].([]value)
	if len(a) != len(b) {
		return false
	}
	for i := range a {
		if a[i] != b[i] {
			return false
		}
	}
	return true
}

func ext۰bytes۰IndexByte(fr *frame, args []value) value {
	// func IndexByte(s []byte, c byte) int
	s := args[0].([]value)
	c := args[1].(byte)
	for i, b := range s {
		if b.(byte) == c {
			return i
		}
	}
	return -1
}

func ext۰math۰Float64frombits(fr *frame, args []value) value {
	return math.Float64frombits(args[0].(uint64))
}

func ext۰math۰Float64bits(fr *frame, args []value) value {
	return math.Float64bits(args[0].(float64))
}

func ext۰math۰Float32frombits(fr *frame, args []value) value {
	return math.Float32frombits(args[0].(uint32))
}

func ext۰math۰Abs(fr *frame, args []value) value {
	return math.Abs(args[0].(float64))
}

func ext۰math۰Copysign(fr *frame, args []value) value {
	return math.Copysign(args[0].(float64), args[1].(float64))
}

func ext۰math۰Exp(fr *frame, args []value) value {
	return math.Exp(args[0].(float64))
}

func ext۰math۰Float32bits(fr *frame, args []value) value {
	return math.Float32bits(args[0].(float32))
}

func ext۰math۰Min(fr *frame, args []value) value {
	return math.Min(args[0].(float64), args[1].(float64))
}

func ext۰math۰NaN(fr *frame, args []value) value {
	return math.NaN()
}

func ext۰math۰IsNaN(fr *frame, args []value) value {
	return math.IsNaN(args[0].(float64))
}

func ext۰math۰Inf(fr *frame, args []value) value {
	return math.Inf(args[0].(int))
}

func ext۰math۰Ldexp(fr *frame, args []value) value {
	return math.Ldexp(args[0].(float64), args[1].(int))
}

func ext۰math۰Log(fr *frame, args []value) value {
	return math.Log(args[0].(float64))
}

func ext۰math۰Sqrt(fr *frame, args []value) value {
	return math.Sqrt(args[0].(float64))
}

func ext۰runtime۰Breakpoint(fr *frame, args []value) value {
	runtime.Breakpoint()
	return nil
}

func ext۰sort۰Ints(fr *frame, args []value) value {
	x := args[0].([]value)
	sort.Slice(x, func(i, j int) bool {
		return x[i].(int) < x[j].(int)
	})
	return nil
}
func ext۰sort۰Strings(fr *frame, args []value) value {
	x := args[0].([]value)
	anySym := false
	for _, v := range x {
		if isSym(v) {
			anySym = true
		}
	}
	if !anySym {
		sort.Slice(x, func(i, j int) bool {
			return x[i].(string) < x[j].(string)
		})
		return nil
	}
	// symbolic elements: insertion sort whose comparisons are ordinary
	// symbolic decisions (each order of the elements becomes its own path)
	for i := 1; i < len(x); i++ {
		for j := i; j > 0; j-- {
			if !fr.i.ex.branch(binop(token.LSS, nil, x[j], x[j-1])) {
				break
			}
			x[j], x[j-1] = x[j-1], x[j]
		}
	}
	return nil
}
func ext۰sort۰Float64s(fr *frame, args []value) value {
	x := args[0].([]value)
	sort.Slice(x, func(i, j int) bool {
		return x[i].(float64) < x[j].(float64)
	})
	return nil
}

func ext۰strconv۰Atoi(fr *frame, args []value) value {
	i, e := strconv.Atoi(args[0].(string))
	if e != nil {
		return tuple{i, iface{fr.i.runtimeErrorString, e.Error()}}
	}
	return tuple{i, iface{}}
}
func ext۰strconv۰Itoa(fr *frame, args []value) value {
	return strconv.Itoa(args[0].(int))
}
func ext۰strconv۰FormatFloat(fr *frame, args []value) value {
	return strconv.FormatFloat(args[0].(float64), args[1].(byte), args[2].(int), args[3].(int))
}

func ext۰strings۰Count(fr *frame, args []value) value {
	return strings.Count(args[0].(string), args[1].(string))
}

func ext۰strings۰EqualFold(fr *frame, args []value) value {
	return strings.EqualFold(args[0].(string), args[1].(string))
}
func ext۰strings۰IndexByte(fr *frame, args []value) value {
	return strings.IndexByte(args[0].(string), args[1].(byte))
}

func ext۰strings۰Index(fr *frame, args []value) value {
	return strings.Index(args[0].(string), args[1].(string))
}

func ext۰strings۰Replace(fr *frame, args []value) value {
	// func Replace(s, old, new string, n int) string
	s := args[0].(string)
	new := args[1].(string)
	old := args[2].(string)
	n := args[3].(int)
	return strings.Replace(s, old, new, n)
}

func ext۰strings۰ToLower(fr *frame, args []value) value {
	return strings.ToLower(args[0].(string))
}

func ext۰runtime۰GOMAXPROCS(fr *frame, args []value) value {
	// Ignore args[0]; don't let the interpreted program
	// set the interpreter's GOMAXPROCS!
	return runtime.GOMAXPROCS(0)
}

func ext۰runtime۰Goexit(fr *frame, args []value) value {
	// TODO(adonovan): don't kill the interpreter's main goroutine.
	runtime.Goexit()
	return nil
}

func ext۰runtime۰GOROOT(fr *frame, args []value) value {
	return runtime.GOROOT()
}

func ext۰runtime۰GC(fr *frame, args []value) value {
	runtime.GC()
	return nil
}

func ext۰runtime۰Gosched(fr *frame, args []value) value {
	runtime.Gosched()
	return nil
}

func ext۰runtime۰NumCPU(fr *frame, args []value) value {
	return runtime.NumCPU()
}

func ext۰time۰Sleep(fr *frame, args []value) value {
	time.Sleep(time.Duration(args[0].(int64)))
	return nil
}

func ext۰os۰Getenv(fr *frame, args []value) value {
	name := args[0].(string)
	switch name {
	case "GOSSAINTERP":
		return "1"
	}
	return os.Getenv(name)
}

func ext۰os۰Exit(fr *frame, args []value) value {
	panic(exitPanic(args[0].(int)))
}

func ext۰unicode۰utf8۰DecodeRuneInString(fr *frame, args []value) value {
	r, n := utf8.DecodeRuneInString(args[0].(string))
	return tuple{r, n}
}

// A fake function for turning an arbitrary value into a string.
// Handles only the cases needed by the tests.
// Uses same logic as 'print' built-in.
func ext۰fmt۰Sprint(fr *frame, args []value) value {
	buf := new(bytes.Buffer)
	wasStr := false
	for i, arg := range args[0].([]value) {
		x := arg.(iface).v
		_, isStr := x.(string)
		if i > 0 && !wasStr && !isStr {
			buf.WriteByte(' ')
		}
		wasStr = isStr
		buf.WriteString(toString(x))
	}
	return buf.String()
}

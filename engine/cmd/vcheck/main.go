// vcheck: bounded symbolic model checking of metacontroller's real Go code.
//
//	vcheck run <property> --tier quick|thorough
//	vcheck replay <replay.json>
//	vcheck list
package main

import (
	"context"
	"crypto/sha1"
	"encoding/hex"
	"encoding/json"
	"flag"
	"fmt"
	"go/types"
	"io/fs"
	"os"
	"os/exec"
	"path/filepath"
	"regexp"
	"sort"
	"strconv"
	"strings"
	"time"

	"golang.org/x/tools/go/packages"
	"golang.org/x/tools/go/ssa"
	"golang.org/x/tools/go/ssa/ssautil"

	interp "vcheck/sinterp"
)

const modelsPkg = "metacontroller/pkg/zzverif/models"

// repoDir is /repo; VERIF_REPO points the checker at a scratch copy (used for
// mutation experiments so that /repo itself stays untouched).
var repoDir = func() string {
	if d := os.Getenv("VERIF_REPO"); d != "" {
		return d
	}
	return "/repo"
}()

// verifDir is the directory holding harness/, evidence/, replays/ — the
// current directory (checks are run with cwd=/verif or a snapshot of it).
var verifDir, overlayDir = func() (string, string) {
	d := os.Getenv("VERIF_DIR")
	if d == "" {
		d, _ = os.Getwd()
	}
	return d, filepath.Join(d, "harness", "overlay")
}()

type HarnessSpec struct {
	Pkg         string         `json:"pkg"`
	Fn          string         `json:"fn"`
	Tiers       []string       `json:"tiers,omitempty"` // default both
	Covers      []string       `json:"covers,omitempty"`
	MaxPaths    map[string]int `json:"max_paths,omitempty"`
	BudgetS     map[string]int `json:"budget_s,omitempty"`
	ReverseMaps bool           `json:"reverse_maps,omitempty"`
	CellRaces   bool           `json:"cell_races,omitempty"`
	// Unwind: per-path visit bound of one symbolic conditional jump (default 64).
	Unwind int `json:"unwind,omitempty"`
	// OnlyLabels: when set, only violations whose label contains one of these
	// substrings belong to this property (the harness is shared with another
	// property that owns the remaining assertions).
	OnlyLabels []string `json:"only_labels,omitempty"`
	Note        string         `json:"note,omitempty"`
}

type PropSpec struct {
	Harnesses   []HarnessSpec     `json:"harnesses"`
	Assumptions []string          `json:"assumptions"`
	Bounds      map[string]string `json:"bounds"`
	Outside     []string          `json:"outside"`
}

type KnownFinding struct {
	Property string `json:"property"`
	Harness  string `json:"harness"`
	Label    string `json:"label"`
	What     string `json:"what"`
}

type KnownFile struct {
	Findings []KnownFinding `json:"findings"`
	Fixed    []string       `json:"fixed"`
}

func fatal(f string, a ...interface{}) {
	fmt.Fprintf(os.Stderr, "vcheck: "+f+"\n", a...)
	os.Exit(2)
}

// loadProps reads harness/props.d/<ID>.json (one file per property).
func loadProps() map[string]*PropSpec {
	m := map[string]*PropSpec{}
	files, _ := filepath.Glob(filepath.Join(verifDir, "harness", "props.d", "*.json"))
	for _, f := range files {
		b, err := os.ReadFile(f)
		if err != nil {
			fatal("%v", err)
		}
		p := &PropSpec{}
		if err := json.Unmarshal(b, p); err != nil {
			fatal("%s: %v", f, err)
		}
		m[strings.TrimSuffix(filepath.Base(f), ".json")] = p
	}
	return m
}

func loadKnown() *KnownFile {
	k := &KnownFile{}
	b, err := os.ReadFile(filepath.Join(verifDir, "known_findings.json"))
	if err == nil {
		if err := json.Unmarshal(b, k); err != nil {
			fatal("known_findings.json: %v", err)
		}
	}
	return k
}

// harnessPkgs: the packages whose per-property harness files (zz_verif_cNN*.go,
// zz_verif_smoke*.go) take part in the current run. Shared scaffolding (rt, env,
// models, constructors, support files) is always included; per-property harness
// files of other packages are left out so that one property's harnesses cannot
// break (or slow down) another property's check.
var harnessPkgs = map[string]bool{}

var perPropertyFile = regexp.MustCompile(`^zz_verif_(c[0-9]+|smoke)`)

// overlayFiles maps virtual /repo paths to real files under overlayDir.
func overlayFiles() map[string]string {
	m := map[string]string{}
	filepath.WalkDir(overlayDir, func(p string, d fs.DirEntry, err error) error {
		if err != nil || d.IsDir() || !strings.HasSuffix(p, ".go") {
			return nil
		}
		rel, _ := filepath.Rel(overlayDir, p)
		if perPropertyFile.MatchString(filepath.Base(p)) && len(harnessPkgs) > 0 {
			if !harnessPkgs["metacontroller/"+filepath.Dir(rel)] {
				return nil
			}
		}
		m[filepath.Join(repoDir, rel)] = p
		return nil
	})
	return m
}

func goEnv() []string {
	env := []string{}
	for _, e := range os.Environ() {
		if strings.HasPrefix(e, "GOFLAGS=") || strings.HasPrefix(e, "GOPROXY=") || strings.HasPrefix(e, "GOSUMDB=") || strings.HasPrefix(e, "GOTOOLCHAIN=") {
			continue
		}
		env = append(env, e)
	}
	return append(env, "GOFLAGS=-mod=readonly", "GOPROXY=off", "GOSUMDB=off", "GOTOOLCHAIN=local")
}

// generatedOverlays derives overlay files from /repo's CURRENT sources on every
// run. At present: pkg/dynamic/informer/informer.go with the two client-go
// constructor calls inside newSharedResourceInformer re-pointed at the test seam
// of zz_verif_seam.go (cache.NewSharedIndexInformer -> verifNewSharedIndexInformer,
// dynamiclister.New -> verifNewLister); every other line is byte-identical.
func generatedOverlays() map[string][]byte {
	out := map[string][]byte{}
	src := filepath.Join(repoDir, "pkg/dynamic/informer/informer.go")
	b, err := os.ReadFile(src)
	if err != nil {
		fatal("%v", err)
	}
	lines := strings.Split(string(b), "\n")
	start, end := -1, -1
	for i, l := range lines {
		if strings.HasPrefix(l, "func newSharedResourceInformer(") {
			start = i
		}
		if start >= 0 && end < 0 && i > start && l == "}" {
			end = i
		}
	}
	if start < 0 || end < 0 {
		fatal("informer.go: newSharedResourceInformer not found - adapt the C18 seam (generatedOverlays)")
	}
	// (either client-go constructor of a shared index informer)
	subs := [][3]string{{"cache.NewSharedIndexInformer(", "verifNewSharedIndexInformer(", "cache.NewSharedIndexInformerWithOptions("}, {"dynamiclister.New(", "verifNewLister(", ""}}
	for _, sub := range subs {
		n := 0
		for i := start; i <= end; i++ {
			if strings.HasPrefix(strings.TrimSpace(lines[i]), "//") {
				continue
			}
			if strings.Contains(lines[i], sub[0]) {
				lines[i] = strings.Replace(lines[i], sub[0], sub[1], 1)
				n++
			} else if sub[2] != "" && strings.Contains(lines[i], sub[2]) {
				lines[i] = strings.Replace(lines[i], sub[2], "verifNewSharedIndexInformerWithOptions(", 1)
				n++
			}
		}
		if n != 1 {
			fatal("informer.go: expected exactly one call of %s inside newSharedResourceInformer, found %d - adapt the C18 seam", sub[0], n)
		}
	}
	out[src] = []byte(strings.Join(lines, "\n"))
	return out
}

type Loaded struct {
	prog *ssa.Program
	pkgs map[string]*ssa.Package
}

func load(patterns []string) *Loaded {
	ov := map[string][]byte{}
	for virt, real := range overlayFiles() {
		b, err := os.ReadFile(real)
		if err != nil {
			fatal("%v", err)
		}
		ov[virt] = b
	}
	for virt, b := range generatedOverlays() {
		ov[virt] = b
	}
	cfg := &packages.Config{
		Mode:    packages.LoadAllSyntax,
		Dir:     repoDir,
		Overlay: ov,
		Env:     goEnv(),
	}
	pkgs, err := packages.Load(cfg, patterns...)
	if err != nil {
		fatal("load: %v", err)
	}
	if packages.PrintErrors(pkgs) > 0 {
		fatal("the working tree (with harness overlay) does not type-check")
	}
	prog, spkgs := ssautil.AllPackages(pkgs, ssa.InstantiateGenerics)
	prog.Build()
	l := &Loaded{prog: prog, pkgs: map[string]*ssa.Package{}}
	for _, p := range spkgs {
		if p != nil {
			l.pkgs[p.Pkg.Path()] = p
		}
	}
	return l
}

func harnessFuncs(p *ssa.Package) []string {
	var out []string
	for name, m := range p.Members {
		if f, ok := m.(*ssa.Function); ok && strings.HasPrefix(name, "Verif") && f.Signature.Params().Len() == 0 && f.Signature.Results().Len() == 0 {
			out = append(out, name)
		}
	}
	sort.Strings(out)
	return out
}

// ---- native execution (replay + concolic validation) ----

type Case struct {
	Harness string          `json:"harness"`
	Nondets []interp.Nondet `json:"nondets"`
	Tier    int             `json:"tier"`
	Repeat  int             `json:"repeat"`
	Lenient bool            `json:"lenient"`
	Race    bool            `json:"-"` // run under the Go race detector (separate binary)
	// DeadlineMs > 0: the case is a deadlock candidate; it runs in a process of
	// its own and counts as reproduced when the harness does not return in time
	DeadlineMs int `json:"deadline_ms,omitempty"`
}

type NativeResult struct {
	Harness  string   `json:"harness"`
	Failures []string `json:"failures"`
	Panic    string   `json:"panic"`
	Diverged string   `json:"diverged"`
	Observes []struct {
		Label string `json:"label"`
		Val   string `json:"val"`
	} `json:"observes"`
	Covers  []string `json:"covers"`
	Assumed  bool     `json:"assume_failed"`
	TimedOut bool     `json:"timed_out"`
	Race     string   `json:"-"` // first lines of Go's race report, if any
}

// a native harness run takes milliseconds; one that has not returned after this
// long is blocked
const deadlockDeadlineMs = 20000

const (
	nativeBatchBase = 45 * time.Second
	nativePerCase   = 3 * time.Second
)

func replayCase(rf *ReplayFile) Case {
	c := Case{Harness: rf.Violation.Harness, Nondets: rf.Violation.Nondets, Tier: rf.Tier, Repeat: 12, Race: rf.Violation.Kind == "race"}
	if rf.Violation.Kind == "deadlock" {
		c.DeadlineMs = deadlockDeadlineMs
	}
	return c
}

// raceReportFor returns the first data-race report of Go's race detector that
// has a frame in the function named by the executor's label
// ("data-race/map/(controller/common.InformerMap).Get"), or "".
func raceReportFor(out, label string) string {
	fn := label[strings.LastIndex(label, "/")+1:]
	var toks []string
	cur := ""
	for _, c := range fn {
		if c == '_' || c >= '0' && c <= '9' || c >= 'a' && c <= 'z' || c >= 'A' && c <= 'Z' {
			cur += string(c)
		} else if cur != "" {
			toks = append(toks, cur)
			cur = ""
		}
	}
	if cur != "" {
		toks = append(toks, cur)
	}
	if len(toks) == 0 {
		return ""
	}
	name := toks[len(toks)-1] + "()"
	typ := ""
	if len(toks) >= 2 {
		typ = toks[len(toks)-2]
	}
	for _, rep := range strings.Split(out, "WARNING: DATA RACE")[1:] {
		if i := strings.Index(rep, "=================="); i >= 0 {
			rep = rep[:i]
		}
		if strings.Contains(rep, name) && strings.Contains(rep, typ) {
			return "WARNING: DATA RACE" + rep
		}
	}
	return ""
}

func firstLines(s string, n int) string {
	l := strings.Split(s, "\n")
	if len(l) > n {
		l = l[:n]
	}
	return strings.Join(l, "\n")
}

func relPkgDir(pkgPath string) string {
	return "./" + strings.TrimPrefix(pkgPath, "metacontroller/")
}

func nativeRun(pkgPath, pkgName string, funcs []string, cases []Case) ([]NativeResult, string, error) {
	// cases of kind "race" are replayed by a second binary built with -race,
	// one process per attempt
	var plain, racy []Case
	var isRacy []bool
	for _, c := range cases {
		isRacy = append(isRacy, c.Race)
		if c.Race {
			racy = append(racy, c)
		} else {
			plain = append(plain, c)
		}
	}
	if len(racy) == 0 {
		return nativeRun1(pkgPath, pkgName, funcs, cases, false)
	}
	var pres, rres []NativeResult
	var out string
	if len(plain) > 0 {
		var err error
		pres, out, err = nativeRun1(pkgPath, pkgName, funcs, plain, false)
		if err != nil {
			return nil, out, err
		}
	}
	rres, out2, err := nativeRun1(pkgPath, pkgName, funcs, racy, true)
	if err != nil {
		return nil, out + out2, err
	}
	var res []NativeResult
	pi, ri := 0, 0
	for _, r := range isRacy {
		if r {
			res = append(res, rres[ri])
			ri++
		} else {
			res = append(res, pres[pi])
			pi++
		}
	}
	return res, out + out2, nil
}

func nativeRun1(pkgPath, pkgName string, funcs []string, cases []Case, race bool) ([]NativeResult, string, error) {
	tmp, err := os.MkdirTemp("", "verif.native.")
	if err != nil {
		return nil, "", err
	}
	defer os.RemoveAll(tmp)
	var tb strings.Builder
	fmt.Fprintf(&tb, "package %s\n\nimport (\n\t\"testing\"\n\trt \"metacontroller/pkg/zzverif/rt\"\n)\n\nfunc TestVerifReplay(t *testing.T) {\n\tif err := rt.RunReplay(map[string]func(){\n", pkgName)
	for _, f := range funcs {
		fmt.Fprintf(&tb, "\t\t%q: %s,\n", f, f)
	}
	tb.WriteString("\t}); err != nil {\n\t\tt.Fatal(err)\n\t}\n}\n")
	testFile := filepath.Join(tmp, "zz_verif_replay_test.go")
	os.WriteFile(testFile, []byte(tb.String()), 0o644)
	repl := map[string]string{}
	for virt, real := range overlayFiles() {
		repl[virt] = real
	}
	repl[filepath.Join(repoDir, strings.TrimPrefix(pkgPath, "metacontroller/"), "zz_verif_replay_test.go")] = testFile
	gi := 0
	for virt, b := range generatedOverlays() {
		gf := filepath.Join(tmp, fmt.Sprintf("generated%d.go", gi))
		gi++
		os.WriteFile(gf, b, 0o644)
		repl[virt] = gf
	}
	ovb, _ := json.Marshal(map[string]interface{}{"Replace": repl})
	ovFile := filepath.Join(tmp, "overlay.json")
	os.WriteFile(ovFile, ovb, 0o644)
	// build the test binary once, then run it (whole batch first; if the process
	// dies - e.g. a panic inside a real goroutine cannot be recovered - case by case)
	bin := filepath.Join(tmp, "replay.test")
	buildArgs := []string{"test", "-c", "-vet=off", "-overlay", ovFile, "-o", bin}
	if race {
		buildArgs = append(buildArgs, "-race")
	}
	build := exec.Command("go", append(buildArgs, relPkgDir(pkgPath))...)
	build.Dir = repoDir
	build.Env = goEnv()
	if out, err := build.CombinedOutput(); err != nil {
		return nil, string(out), fmt.Errorf("native build failed: %v", err)
	}
	pkgDir := filepath.Join(repoDir, strings.TrimPrefix(pkgPath, "metacontroller/"))
	runBatch := func(cs []Case, tag string) ([]NativeResult, string, error) {
		cb, _ := json.Marshal(cs)
		inFile := filepath.Join(tmp, "cases"+tag+".json")
		outFile := filepath.Join(tmp, "results"+tag+".json")
		os.WriteFile(inFile, cb, 0o644)
		// a native batch takes seconds; a process that hangs (a target that
		// deadlocks outside a deadlock candidate) is killed and reported as died
		// budget: a minute plus a few seconds per (repeated) case
		budget := nativeBatchBase
		for _, c := range cs {
			n := c.Repeat
			if n < 1 {
				n = 1
			}
			budget += time.Duration(n) * nativePerCase
			if c.DeadlineMs > 0 {
				budget += time.Duration(c.DeadlineMs) * time.Millisecond
			}
		}
		ctx, cancel := context.WithTimeout(context.Background(), budget)
		defer cancel()
		cmd := exec.CommandContext(ctx, bin, "-test.run", "^TestVerifReplay$", "-test.count=1", "-test.timeout=0")
		cmd.Dir = pkgDir
		cmd.Env = append(goEnv(), "VERIF_REPLAY="+inFile, "VERIF_REPLAY_OUT="+outFile)
		cmd.WaitDelay = 5 * time.Second
		out, err := cmd.CombinedOutput()
		if ctx.Err() != nil {
			out = append(out, []byte("\nfatal error: native run killed after "+budget.String()+" (hung)\n")...)
		}
		rb, rerr := os.ReadFile(outFile)
		if rerr != nil {
			return nil, string(out), fmt.Errorf("native run produced no results: %v (%v)", rerr, err)
		}
		var res []NativeResult
		if jerr := json.Unmarshal(rb, &res); jerr != nil {
			return nil, string(out), jerr
		}
		return res, string(out), nil
	}
	if race {
		// one process per attempt; a data race makes the test fail but the results are still written
		var res []NativeResult
		var all string
		for i, c := range cases {
			one := c
			one.Repeat = 0
			var r NativeResult
			r.Harness = c.Harness
			for attempt := 0; attempt < 4; attempt++ {
				r1, o1, e1 := runBatch([]Case{one}, fmt.Sprintf("r%d_%d", i, attempt))
				all += o1
				if e1 == nil && len(r1) == 1 {
					r = r1[0]
				}
				if k := strings.Index(o1, "WARNING: DATA RACE"); k >= 0 {
					rep := o1[k:]
					if len(rep) > 60000 {
						rep = rep[:60000]
					}
					r.Race += rep
					if attempt >= 1 {
						break
					}
					continue
				}
				if strings.Contains(o1, "fatal error: concurrent map") {
					r.Race = "fatal error: concurrent map access (the Go runtime's own check)"
					break
				}
			}
			res = append(res, r)
		}
		return res, all, nil
	}
	// deadlock candidates: one process each (a blocked harness never returns)
	solo := false
	for _, c := range cases {
		if c.DeadlineMs > 0 {
			solo = true
		}
	}
	if solo {
		var res []NativeResult
		var all string
		for i, c := range cases {
			one := c
			if one.DeadlineMs > 0 {
				one.Repeat = 0
			}
			r1, o1, e1 := runBatch([]Case{one}, fmt.Sprintf("s%d", i))
			all += o1
			if e1 == nil && len(r1) == 1 {
				res = append(res, r1[0])
			} else {
				res = append(res, NativeResult{Harness: c.Harness, Panic: "process died: " + firstLines(o1, 3)})
			}
		}
		return res, all, nil
	}
	res, out, err := runBatch(cases, "")
	if err == nil {
		return res, out, nil
	}
	if !strings.Contains(out, "panic:") && !strings.Contains(out, "fatal error:") {
		return nil, out, err
	}
	res = nil
	for i, c := range cases {
		one := c
		one.Repeat = 0
		r1, o1, e1 := runBatch([]Case{one}, fmt.Sprint(i))
		if e1 == nil {
			res = append(res, r1[0])
			continue
		}
		msg := "process died"
		for _, line := range strings.Split(o1, "\n") {
			if strings.HasPrefix(line, "panic:") || strings.HasPrefix(line, "fatal error:") {
				msg = line + " (unrecoverable: the test process died)"
				break
			}
		}
		res = append(res, NativeResult{Harness: c.Harness, Panic: msg})
	}
	return res, out, nil
}

// ---- run ----

type HarnessEvidence struct {
	Harness       string            `json:"harness"`
	Pkg           string            `json:"pkg"`
	Paths         int               `json:"paths_explored"`
	Completed     int               `json:"paths_completed"`
	Held          int               `json:"paths_held"`
	Infeasible    int               `json:"paths_pruned_by_assume"`
	Inconclusive  int               `json:"paths_inconclusive"`
	BoundExceeded int               `json:"paths_bound_exceeded"`
	Decisions     int               `json:"symbolic_decisions"`
	Queries       int               `json:"queries"`
	Sat           int               `json:"sat"`
	Unsat         int               `json:"unsat"`
	Unknown       int               `json:"unknown"`
	SolverErrors  int               `json:"solver_errors"`
	SolverS       float64           `json:"solver_s"`
	WallS         float64           `json:"wall_s"`
	Exhaustive    bool              `json:"exhaustive"`
	Asserts       int               `json:"assertions_checked"`
	AssertsSym    int               `json:"assertions_decided_by_solver"`
	Covers        map[string]int    `json:"cover_markers"`
	MissingCovers []string          `json:"cover_markers_missing,omitempty"`
	Inconcl       map[string]int    `json:"inconclusive_reasons,omitempty"`
	Violations    int               `json:"candidate_violations"`
	Reproduced    int               `json:"violations_reproduced_natively"`
	Spurious      int               `json:"violations_not_reproduced"`
	Validated     int               `json:"witnesses_validated_natively"`
	Mismatch      int               `json:"witness_mismatches"`
	Note          string            `json:"note,omitempty"`
	ViolLabels    map[string]string `json:"violation_labels,omitempty"`
}

func hasTier(h HarnessSpec, tier string) bool {
	if len(h.Tiers) == 0 {
		return true
	}
	for _, t := range h.Tiers {
		if t == tier {
			return true
		}
	}
	return false
}

func configureEngine() {
	interp.InitAllow = []string{"metacontroller/"}
	// generated clientset/informer packages build REST codecs in their initialisers
	// (pkg/metrics: its two globals - the instrumentation cache and the registerer -
	// are initialised; building and registering collectors is modelled, engine.d/c19.json)
	interp.InitDeny = []string{"metacontroller/pkg/client/generated/"}
	interp.InitAllowExact = map[string]bool{
		"k8s.io/client-go/util/retry": true,
		// knownReasons: a map literal of constants
		"k8s.io/apimachinery/pkg/api/errors": true,
		// Canceled/DeadlineExceeded, closedchan (closed by its init)
		"context": true,
	}
	m := "metacontroller/pkg/zzverif/models."
	interp.Redirect = map[string]string{
		"(*k8s.io/apimachinery/pkg/apis/meta/v1/unstructured.Unstructured).SetOwnerReferences":   m + "Unstructured_SetOwnerReferences",
		"(*k8s.io/apimachinery/pkg/apis/meta/v1/unstructured.Unstructured).GetDeletionTimestamp": m + "Unstructured_GetDeletionTimestamp",
		"(*k8s.io/apimachinery/pkg/apis/meta/v1/unstructured.Unstructured).GetCreationTimestamp": m + "Unstructured_GetCreationTimestamp",
		"k8s.io/apimachinery/pkg/apis/meta/v1.LabelSelectorAsSelector":                            m + "LabelSelectorAsSelector",
		"k8s.io/apimachinery/pkg/labels.Everything":                                               m + "Labels_Everything",
		"k8s.io/apimachinery/pkg/labels.Nothing":                                                  m + "Labels_Nothing",
		"k8s.io/client-go/util/retry.RetryOnConflict":                                             m + "RetryOnConflict",
		"k8s.io/client-go/util/retry.OnError":                                                     m + "RetryOnError",
	}
}

// engineConfigD merges harness/engine.d/*.json:
// {"redirect":{"callee":"metacontroller/pkg/zzverif/models.Fn"},"init_allow_exact":["pkg"],"benign_globals":["pkg.Var"],"init_deny":["prefix"]}
func engineConfigD() {
	files, _ := filepath.Glob(filepath.Join(verifDir, "harness", "engine.d", "*.json"))
	sort.Strings(files)
	for _, f := range files {
		b, err := os.ReadFile(f)
		if err != nil {
			fatal("%v", err)
		}
		var c struct {
			Redirect       map[string]string `json:"redirect"`
			InitAllowExact []string          `json:"init_allow_exact"`
			BenignGlobals  []string          `json:"benign_globals"`
			InitDeny       []string          `json:"init_deny"`
		}
		if err := json.Unmarshal(b, &c); err != nil {
			fatal("%s: %v", f, err)
		}
		for k, v := range c.Redirect {
			interp.Redirect[k] = v
		}
		for _, k := range c.InitAllowExact {
			interp.InitAllowExact[k] = true
		}
		for _, k := range c.BenignGlobals {
			interp.BenignGlobals[k] = true
		}
		interp.InitDeny = append(interp.InitDeny, c.InitDeny...)
	}
}

func main() {
	if len(os.Args) < 2 {
		fatal("usage: vcheck run <property> [--tier quick|thorough] | replay <file> | list")
	}
	configureEngine()
	engineConfigD()
	switch os.Args[1] {
	case "run":
		os.Exit(cmdRun(os.Args[2:]))
	case "replay":
		os.Exit(cmdReplay(os.Args[2:]))
	case "list":
		props := loadProps()
		var ids []string
		for id := range props {
			ids = append(ids, id)
		}
		sort.Strings(ids)
		for _, id := range ids {
			for _, h := range props[id].Harnesses {
				fmt.Println(id, h.Pkg, h.Fn)
			}
		}
	default:
		fatal("unknown command %q", os.Args[1])
	}
}

func cmdRun(args []string) int {
	fs := flag.NewFlagSet("run", flag.ExitOnError)
	tier := fs.String("tier", os.Getenv("VERIF_TIER"), "quick|thorough")
	only := fs.String("harness", "", "run only this harness")
	workers := fs.Int("workers", 0, "parallel workers (default: all cores)")
	solver := fs.String("solver", "cvc5", "cvc5|z3|z3-new")
	timeoutMs := fs.Int("query-timeout-ms", 20000, "per-query solver timeout")
	trace := fs.Bool("trace", false, "trace instructions")
	noNative := fs.Bool("no-native", false, "skip native replay/validation (debugging only)")
	smtlog := fs.String("smtlog", "", "write worker 0's SMT-LIB transcript here")
	verbose := fs.Bool("v", false, "verbose")
	maxPaths := fs.Int("max-paths", 0, "override path budget")
	budgetS := fs.Int("budget-s", 0, "override time budget per harness (seconds)")
	if len(args) < 1 {
		fatal("usage: vcheck run <property> [--tier quick|thorough]")
	}
	id := args[0]
	fs.Parse(args[1:])
	if *tier == "" {
		*tier = "quick"
	}
	seed, _ := strconv.ParseInt(os.Getenv("VERIF_SEED"), 10, 64)
	props := loadProps()
	spec := props[id]
	if spec == nil {
		fatal("no such property %s", id)
	}
	known := loadKnown()
	t0 := time.Now()

	patSet := map[string]bool{modelsPkg: true}
	var specs []HarnessSpec
	for _, h := range spec.Harnesses {
		if !hasTier(h, *tier) || (*only != "" && h.Fn != *only) {
			continue
		}
		specs = append(specs, h)
		patSet[h.Pkg] = true
		harnessPkgs[h.Pkg] = true
	}
	if len(specs) == 0 {
		fatal("no harness for %s at tier %s", id, *tier)
	}
	var pats []string
	for p := range patSet {
		pats = append(pats, p)
	}
	sort.Strings(pats)
	tl := time.Now()
	ld := load(pats)
	loadS := time.Since(tl).Seconds()
	fmt.Printf("[%s] loaded %d packages from /repo working tree in %.1fs\n", id, len(ld.prog.AllPackages()), loadS)

	tierN := 0
	if *tier == "thorough" {
		tierN = 1
	}
	var evs []HarnessEvidence
	funcsEncoded := map[string]bool{}
	var samples []interface{}
	exit := 0
	totalViol := 0
	allExhaustive := true
	var knownLines, violLines []string
	for _, h := range specs {
		pkg := ld.pkgs[h.Pkg]
		if pkg == nil || pkg.Func(h.Fn) == nil {
			fatal("harness %s.%s not found", h.Pkg, h.Fn)
		}
		cfg := &interp.Config{
			Prog: ld.prog, Pkg: pkg, Fn: h.Fn, Sizes: &types.StdSizes{WordSize: 8, MaxAlign: 8},
			SolverName: *solver, TimeoutMs: *timeoutMs, Workers: *workers, Seed: seed, Trace: *trace,
			Tier: tierN, ReverseMaps: h.ReverseMaps, CellRaces: h.CellRaces, Progress: true, Unwind: h.Unwind,
		}
		if n := h.MaxPaths[*tier]; n > 0 {
			cfg.MaxPaths = n
		}
		if s := h.BudgetS[*tier]; s > 0 {
			cfg.Deadline = time.Now().Add(time.Duration(s) * time.Second)
		}
		if *maxPaths > 0 {
			cfg.MaxPaths = *maxPaths
		}
		if *budgetS > 0 {
			cfg.Deadline = time.Now().Add(time.Duration(*budgetS) * time.Second)
		}
		cfg.Witnesses = 5
		if tierN == 1 {
			cfg.Witnesses = 40
		}
		if *smtlog != "" {
			f, err := os.Create(*smtlog + "." + h.Fn + ".smt2")
			if err == nil {
				cfg.SMTLog = f
				defer f.Close()
			}
		}
		st := interp.Explore(cfg)
		ev := HarnessEvidence{
			Harness: h.Fn, Pkg: h.Pkg, Paths: st.Paths, Completed: st.Completed, Held: st.Held, Infeasible: st.Infeasible,
			Inconclusive: st.Inconclusive, BoundExceeded: st.BoundHit, Decisions: st.Decisions, Queries: st.Queries,
			Sat: st.Sat, Unsat: st.Unsat, Unknown: st.Unknown, SolverErrors: st.SolverErrs,
			SolverS: st.SolverTime.Seconds(), WallS: st.Wall.Seconds(), Exhaustive: st.Exhaustive,
			Asserts: st.AssertsTotal, AssertsSym: st.AssertsSym, Covers: st.Covers, Inconcl: st.InconclWhy,
			Violations: len(st.Violations), Note: h.Note, ViolLabels: map[string]string{},
		}
		if !st.Exhaustive {
			allExhaustive = false
		}
		for f := range st.Funcs {
			funcsEncoded[f] = true
		}
		for _, c := range h.Covers {
			if st.Covers[c] == 0 {
				ev.MissingCovers = append(ev.MissingCovers, c)
			}
		}
		fmt.Printf("[%s] %s: %d paths (%d completed, %d held, %d inconclusive), %d decisions, %d queries (%d sat/%d unsat/%d unknown), solver %.1fs, wall %.1fs, exhaustive=%v\n",
			id, h.Fn, st.Paths, st.Completed, st.Held, st.Inconclusive, st.Decisions, st.Queries, st.Sat, st.Unsat, st.Unknown, st.SolverTime.Seconds(), st.Wall.Seconds(), st.Exhaustive)
		for why, n := range st.InconclWhy {
			fmt.Printf("INCONCLUSIVE property=%s harness=%s paths=%d reason=%s\n", id, h.Fn, n, why)
		}
		for _, c := range ev.MissingCovers {
			fmt.Printf("VACUOUS property=%s harness=%s cover marker %q reached on no feasible path\n", id, h.Fn, c)
		}

		// ---- native: replay candidate violations, validate witnesses ----
		funcs := harnessFuncs(pkg)
		byLabel := map[string][]interp.Violation{}
		var labels []string
		for _, v := range st.Violations {
			if len(h.OnlyLabels) > 0 {
				keep := false
				for _, sub := range h.OnlyLabels {
					if strings.Contains(v.Label, sub) {
						keep = true
					}
				}
				if !keep {
					continue
				}
			}
			if len(byLabel[v.Label]) == 0 {
				labels = append(labels, v.Label)
			}
			byLabel[v.Label] = append(byLabel[v.Label], v)
		}
		sort.Strings(labels)
		var cases []Case
		type ref struct {
			label string
			v     *interp.Violation
			w     *interp.Witness
			probe *interp.Witness
		}
		var refs []ref
		for _, lb := range labels {
			vs := byLabel[lb]
			for i := 0; i < len(vs) && i < 3; i++ {
				c := Case{Harness: h.Fn, Nondets: vs[i].Nondets, Tier: tierN, Repeat: 12, Race: vs[i].Kind == "race"}
				if vs[i].Kind == "deadlock" {
					c.DeadlineMs = deadlockDeadlineMs
				}
				cases = append(cases, c)
				refs = append(refs, ref{label: lb, v: &vs[i]})
			}
		}
		for i := range st.Witnesses {
			w := &st.Witnesses[i]
			cases = append(cases, Case{Harness: h.Fn, Nondets: w.Nondets, Tier: tierN})
			refs = append(refs, ref{w: w})
		}
		for i := range st.Probes {
			w := &st.Probes[i]
			cases = append(cases, Case{Harness: h.Fn, Nondets: w.Nondets, Tier: tierN, Lenient: true, Repeat: 3})
			refs = append(refs, ref{probe: w})
		}
		reproduced := map[string]*interp.Violation{}
		reproDetail := map[string]string{}
		if len(cases) > 0 && !*noNative {
			res, out, err := nativeRun(h.Pkg, pkg.Pkg.Name(), funcs, cases)
			if err != nil {
				fmt.Printf("ENGINE-ERROR property=%s harness=%s native run failed: %v\n%s\n", id, h.Fn, err, tail(out, 40))
				ev.Mismatch += len(st.Witnesses)
			} else {
				for i, r := range res {
					rf := refs[i]
					if rf.probe != nil {
						// native probe of a path the executor could not finish
						if r.Assumed || r.Diverged != "" {
							continue
						}
						lb := ""
						if len(r.Failures) > 0 {
							lb = r.Failures[0]
						} else if r.Panic != "" {
							lb = "no-panic/native-probe"
						}
						if lb != "" && reproduced[lb] == nil {
							v := interp.Violation{Harness: h.Fn, Pkg: h.Pkg, Label: lb, Kind: "assert", Nondets: rf.probe.Nondets, Decisions: rf.probe.Decisions,
								Detail: "found by running the native harness on solver-completed inputs of a path the executor could not finish (" + rf.probe.Panic + ")"}
							if r.Panic != "" && len(r.Failures) == 0 {
								v.Kind = "panic"
								reproDetail[lb] = r.Panic
							}
							reproduced[lb] = &v
							labels = append(labels, lb)
							byLabel[lb] = append(byLabel[lb], v)
							ev.Violations++
						}
						continue
					}
					if rf.v != nil {
						ok := false
						if rf.v.Kind == "race" {
							rep := raceReportFor(r.Race, rf.label)
							ok = rep != ""
							if ok {
								reproDetail[rf.label] = rf.v.Detail + " | confirmed by go test -race: " + strings.Join(strings.Fields(firstLines(rep, 14)), " ")
							} else if r.Race != "" && *verbose {
								fmt.Printf("  (go test -race reported races, but none in the function of %q)\n%s\n", rf.label, firstLines(r.Race, 40))
							}
						} else if rf.v.Kind == "panic" {
							ok = r.Panic != "" && !r.TimedOut
							reproDetail[rf.label] = r.Panic
						} else if rf.v.Kind == "deadlock" {
							ok = r.TimedOut
							reproDetail[rf.label] = rf.v.Detail + " | native run: " + r.Panic
						} else {
							for _, f := range r.Failures {
								if f == rf.label {
									ok = true
								}
							}
						}
						if r.Diverged != "" {
							ok = false
						}
						if ok {
							if reproduced[rf.label] == nil {
								reproduced[rf.label] = rf.v
							}
						} else if *verbose {
							fmt.Printf("  (candidate %q did not reproduce natively: failures=%v panic=%q diverged=%q)\n", rf.label, r.Failures, r.Panic, r.Diverged)
						}
						continue
					}
					// witness validation: same observations, same covers, no failures
					mism := ""
					if r.Diverged != "" {
						mism = "diverged: " + r.Diverged
					} else if r.Assumed {
						mism = "native run violated an assumption"
					} else if (r.Panic != "") != (rf.w.Panic != "") {
						mism = fmt.Sprintf("panic mismatch: native=%q engine=%q", r.Panic, rf.w.Panic)
					} else if len(r.Failures) > 0 {
						mism = fmt.Sprintf("native assertion failures on a path the solver proved: %v", r.Failures)
					} else if len(r.Observes) != len(rf.w.Observes) {
						mism = fmt.Sprintf("observation count native=%d engine=%d", len(r.Observes), len(rf.w.Observes))
					} else {
						for k := range r.Observes {
							if r.Observes[k].Label != rf.w.Observes[k].Label || r.Observes[k].Val != rf.w.Observes[k].Val {
								mism = fmt.Sprintf("observation %d: native %s=%q engine %s=%q", k, r.Observes[k].Label, r.Observes[k].Val, rf.w.Observes[k].Label, rf.w.Observes[k].Val)
								break
							}
						}
					}
					if mism == "" {
						nc := append([]string{}, r.Covers...)
						sort.Strings(nc)
						nc = uniq(nc)
						if strings.Join(nc, ",") != strings.Join(rf.w.Covers, ",") {
							mism = fmt.Sprintf("covers native=%v engine=%v", nc, rf.w.Covers)
						}
					}
					if mism != "" {
						ev.Mismatch++
						fmt.Printf("ENGINE-MISMATCH property=%s harness=%s %s (decisions %s)\n", id, h.Fn, mism, rf.w.Decisions)
						if *verbose {
							b, _ := json.Marshal(rf.w.Nondets)
							fmt.Printf("  nondets: %s\n", b)
						}
					} else {
						ev.Validated++
					}
				}
			}
		}
		for _, lb := range labels {
			v := reproduced[lb]
			if v == nil {
				if *noNative {
					v = &byLabel[lb][0]
				} else {
					ev.Spurious++
					d := byLabel[lb][0].Detail
					if len(d) > 700 {
						d = d[:700]
					}
					fmt.Printf("SPURIOUS property=%s harness=%s label=%q: solver model did not reproduce against the native build (engine/model imprecision; not reported) %s\n", id, h.Fn, lb, d)
					ev.ViolLabels[lb] = "spurious"
					continue
				}
			}
			ev.Reproduced++
			path := writeReplay(id, *v, tierN)
			kf := findKnown(known, id, h.Fn, lb)
			if kf != nil {
				ev.ViolLabels[lb] = "known-finding"
				knownLines = append(knownLines, fmt.Sprintf("KNOWN-FINDING: property=%s %s [harness=%s label=%s replay=%s]", id, kf.What, h.Fn, lb, path))
				continue
			}
			ev.ViolLabels[lb] = "violation"
			totalViol++
			exit = 1
			det := v.Detail
			if d := reproDetail[lb]; d != "" {
				det = d
			}
			violLines = append(violLines, fmt.Sprintf("VIOLATION property=%s replay=%s harness=%s label=%q at=%s %s", id, path, h.Fn, lb, v.Pos, det))
		}
		if len(samples) < 6 {
			for _, pc := range st.SamplePCs {
				samples = append(samples, map[string]interface{}{"harness": h.Fn, "path_condition": pc})
			}
			if len(st.Witnesses) > 0 {
				w := st.Witnesses[0]
				samples = append(samples, map[string]interface{}{"harness": h.Fn, "witness_inputs": w.Nondets, "decisions": w.Decisions, "observations": w.Observes})
			}
		}
		evs = append(evs, ev)
	}
	for _, l := range knownLines {
		fmt.Println(l)
	}
	for _, l := range violLines {
		fmt.Println(l)
	}

	// ---- evidence ----
	var fn []string
	for f := range funcsEncoded {
		if !strings.Contains(f, "zzverif") && !strings.Contains(f, "Verif") {
			fn = append(fn, f)
		}
	}
	sort.Strings(fn)
	states, trans, validated, queries, unsat, sat, unknown, incl := 0, 0, 0, 0, 0, 0, 0, 0
	solverS := 0.0
	for _, e := range evs {
		states += e.Completed + e.Violations
		trans += e.Decisions
		validated += e.Validated
		queries += e.Queries
		unsat += e.Unsat
		sat += e.Sat
		unknown += e.Unknown
		incl += e.Inconclusive
		solverS += e.SolverS
	}
	if states == 0 {
		states = 1
	}
	if trans == 0 {
		trans = 1
	}
	if len(samples) == 0 {
		samples = append(samples, "no symbolic path condition recorded")
	}
	evidence := map[string]interface{}{
		"property_id": id,
		"tier":        *tier,
		"seed":        seed,
		"level":       "model_checking",
		"wall_s":      time.Since(t0).Seconds(),
		"violations":  totalViol,
		"assumptions": append(append([]string{}, spec.Assumptions...), trustedBase()...),
		"coverage": map[string]interface{}{
			"states":                        states,
			"transitions":                   trans,
			"traces_validated_against_impl": validated,
			"samples":                       samples,
			"exhaustive":                    allExhaustive && incl == 0,
			"technique":                     "bounded symbolic execution of the real code lowered to go/ssa; every assertion decided per path by an SMT solver (" + *solver + ")",
			"functions_encoded":             fn,
			"bounds":                        spec.Bounds[*tier],
			"outside_the_claim":             spec.Outside,
			"queries":                       queries,
			"unsat":                         unsat,
			"sat":                           sat,
			"unknown":                       unknown,
			"solver_s":                      solverS,
			"load_s":                        loadS,
			"paths_inconclusive":            incl,
			"harnesses":                     evs,
			"states_meaning":                "feasible paths explored to completion or to a violated assertion; transitions = symbolic branch decisions taken",
		},
	}
	evDir := filepath.Join(verifDir, "evidence")
	if d := os.Getenv("VERIF_EVIDENCE_DIR"); d != "" {
		evDir = d // mutation experiments must not overwrite the real evidence
	}
	os.MkdirAll(evDir, 0o755)
	b, _ := json.MarshalIndent(evidence, "", " ")
	if err := os.WriteFile(filepath.Join(evDir, id+".json"), b, 0o644); err != nil {
		fatal("%v", err)
	}
	fmt.Printf("[%s] tier=%s done in %.1fs: %d states, %d decisions, %d queries, %d validated witnesses, %d inconclusive, violations=%d\n",
		id, *tier, time.Since(t0).Seconds(), states, trans, queries, validated, incl, totalViol)
	return exit
}

func trustedBase() []string {
	var out []string
	for k, v := range interp.Redirect {
		out = append(out, "model: "+k+" -> "+v)
	}
	sort.Strings(out)
	out = append(out,
		"intrinsic: fmt.Sprintf/Errorf (verbs %s %v %q %d %w), errors.New/As/Is",
		"intrinsic: reflect.DeepEqual (structural, symbolic leaves)",
		"intrinsic: json.Marshal/Unmarshal opaque-token model (round trip = identity on trees of string/bool/int64/float64/map/list)",
		"intrinsic: sync.Mutex/RWMutex/Once/WaitGroup; goroutines run inline at the go statement (one schedule)",
		"intrinsic: strings.Split/SplitN/HasPrefix/Contains/... as word equations; strconv.Atoi unsigned",
		"intrinsic: xxhash.Sum64 and controllerRevisionHash as injective uninterpreted functions",
		"map iteration order = insertion order (reversed where configured)",
		"dependency package initialisers not run (reads of their initialised globals are inconclusive, not zero)",
	)
	return out
}

func uniq(s []string) []string {
	var out []string
	for i, x := range s {
		if i == 0 || x != s[i-1] {
			out = append(out, x)
		}
	}
	return out
}

func tail(s string, n int) string {
	lines := strings.Split(strings.TrimRight(s, "\n"), "\n")
	if len(lines) > n {
		lines = lines[len(lines)-n:]
	}
	return strings.Join(lines, "\n")
}

func findKnown(k *KnownFile, prop, harness, label string) *KnownFinding {
	for i := range k.Findings {
		f := &k.Findings[i]
		if f.Property == prop && (f.Harness == "" || f.Harness == harness) && f.Label == label {
			return f
		}
	}
	return nil
}

type ReplayFile struct {
	Property  string           `json:"property"`
	Pkg       string           `json:"pkg"`
	Tier      int              `json:"tier"`
	Violation interp.Violation `json:"violation"`
}

func writeReplay(prop string, v interp.Violation, tier int) string {
	dir := filepath.Join(verifDir, "replays", prop)
	if d := os.Getenv("VERIF_REPLAY_DIR"); d != "" {
		dir = filepath.Join(d, prop)
	}
	os.MkdirAll(dir, 0o755)
	h := sha1.Sum([]byte(v.Harness + "|" + v.Label))
	p := filepath.Join(dir, v.Harness+"-"+hex.EncodeToString(h[:4])+".json")
	b, _ := json.MarshalIndent(ReplayFile{Property: prop, Pkg: v.Pkg, Tier: tier, Violation: v}, "", " ")
	os.WriteFile(p, b, 0o644)
	return p
}

func cmdReplay(args []string) int {
	if len(args) < 1 {
		fatal("usage: vcheck replay <file>")
	}
	b, err := os.ReadFile(args[0])
	if err != nil {
		fatal("%v", err)
	}
	var rf ReplayFile
	if err := json.Unmarshal(b, &rf); err != nil {
		fatal("%v", err)
	}
	harnessPkgs[rf.Pkg] = true
	ld := load([]string{rf.Pkg})
	pkg := ld.pkgs[rf.Pkg]
	res, out, err := nativeRun(rf.Pkg, pkg.Pkg.Name(), harnessFuncs(pkg), []Case{replayCase(&rf)})
	if err != nil {
		fmt.Println(out)
		fatal("%v", err)
	}
	r := res[0]
	fmt.Printf("replay of %s %s label=%q against the native build of /repo:\n", rf.Property, rf.Violation.Harness, rf.Violation.Label)
	for _, n := range rf.Violation.Nondets {
		fmt.Printf("  %-28s = %q\n", n.Tag, n.Val)
	}
	fmt.Printf("  failures=%v panic=%q diverged=%q\n", r.Failures, r.Panic, r.Diverged)
	ok := false
	if rf.Violation.Kind == "panic" {
		ok = r.Panic != "" && !r.TimedOut
	}
	if rf.Violation.Kind == "deadlock" {
		ok = r.TimedOut
	}
	if rf.Violation.Kind == "race" {
		rep := raceReportFor(r.Race, rf.Violation.Label)
		ok = rep != ""
		fmt.Printf("  go test -race: %s\n", firstLines(rep, 30))
	}
	for _, f := range r.Failures {
		if f == rf.Violation.Label {
			ok = true
		}
	}
	if ok {
		fmt.Printf("VIOLATION property=%s replay=%s (reproduced)\n", rf.Property, args[0])
		return 1
	}
	fmt.Println("not reproduced")
	return 0
}

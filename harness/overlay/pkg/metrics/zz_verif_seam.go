package metrics

import (
	pph "github.com/prometheus/client_golang/prometheus/promhttp"

	"metacontroller/pkg/controller/common"
)

// verifGetOrCreateMetrics stands in for getOrCreateMetrics under the symbolic
// executor (redirect table): the same cache protocol - look the key up, create
// and remember an entry when it is missing - without building and registering
// prometheus collectors (descriptor hashing, registries: reflection-heavy code
// of a dependency). InstrumentClientWithConstLabels itself, the cache and the
// key are the real code.
func verifGetOrCreateMetrics(key string, hookType common.HookType, constLabels map[string]string) (*cachedInstrumentation, error) {
	inst, found := metricsCache.Get(key)
	if !found {
		inst = &cachedInstrumentation{Collector: &instrumentation{}, Trace: &pph.InstrumentTrace{}}
		metricsCache.SetNoExpiration(key, inst)
	}
	return inst, nil
}

package cache

import (
	"time"

	"zgo.at/zcache/v2"
)

// VerifNewWithExpired builds a cache (no janitor) that already holds the given
// entries in the EXPIRED state (expiry instant 1 ns after the Unix epoch), so
// that the real Get treats them as absent both under the executor (fixed
// clock) and natively.
func VerifNewWithExpired[K comparable, V any](defaultExpiration time.Duration, expired map[K]V) *Cache[K, V] {
	items := make(map[K]zcache.Item[V])
	for k, v := range expired {
		items[k] = zcache.Item[V]{Object: v, Expiration: 1}
	}
	// the REAL constructor builds the object (fields a later version adds are
	// initialised by it); only the inner store is swapped for one with the entries
	c := New[K, V](defaultExpiration, 0)
	c.cache = zcache.NewFrom[K, V](defaultExpiration, 0, items)
	return c
}

// VerifExpire plays "the TTL of this entry ran out": the entry is still stored
// but its expiry instant lies in the past, so the real Get treats it as absent.
func (c *Cache[K, V]) VerifExpire(key K) {
	if v, ok := c.cache.Get(key); ok {
		c.cache.SetWithExpire(key, v, time.Nanosecond)
		// (the executor's clock is fixed: make the instant absolute and ancient)
		items := c.cache.Items()
		it := items[key]
		it.Expiration = 1
		items[key] = it
		c.cache = zcache.NewFrom[K, V](zcache.NoExpiration, 0, items)
	}
}

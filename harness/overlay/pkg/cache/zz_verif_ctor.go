package cache

import (
	"time"

	"zgo.at/zcache/v2"
)

// VerifNewWithExpired builds a cache (no janitor) that already holds the given
// entries in the EXPIRED state (expiry instant 1 ns after the Unix epoch), so
// that the real Get treats them as absent both under the executor (fixed
// clock) and natively.
func VerifNewWithExpired[K comparable, V any](defaultExpiration time.Duration, expired map[K]V) *Cache[K, V] {
	items := make(map[K]zcache.Item[V])
	for k, v := range expired {
		items[k] = zcache.Item[V]{Object: v, Expiration: 1}
	}
	return &Cache[K, V]{cache: zcache.NewFrom[K, V](defaultExpiration, 0, items)}
}

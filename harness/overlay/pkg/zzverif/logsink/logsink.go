// Package logsink provides a log sink with every verbosity enabled that drops
// the lines: harnesses switch metacontroller's global logger to it to execute
// the code that only runs when somebody turns the verbosity up (V(5)/V(6)
// branches that render diffs, request and response bodies).
package logsink

import "github.com/go-logr/logr"

type sink struct{}

func (sink) Init(info logr.RuntimeInfo)                                {}
func (sink) Enabled(level int) bool                                    { return true }
func (sink) Info(level int, msg string, keysAndValues ...interface{})  {}
func (sink) Error(err error, msg string, keysAndValues ...interface{}) {}
func (s sink) WithValues(keysAndValues ...interface{}) logr.LogSink    { return s }
func (s sink) WithName(name string) logr.LogSink                       { return s }

// Verbose returns a logger for which V(n).Enabled() is true for every n.
func Verbose() logr.Logger { return logr.New(sink{}) }

// Package rt is the harness runtime.
//
// Under the symbolic executor (/verif/engine) every function here is an
// intrinsic: String/Int/Bool/Choice create solver variables, Assume extends
// the path condition, Assert is a proof obligation discharged by the SMT
// solver on every explored path.  The bodies below are the *native*
// implementation used when a counterexample (or a path witness) is replayed
// against the natively compiled code with `go test -overlay`.
package rt

import (
	"encoding/json"
	"fmt"
	"os"
	"strconv"
	"time"
)

type Nondet struct {
	Name string `json:"name"`
	Sort string `json:"sort"`
	Tag  string `json:"tag"`
	Val  string `json:"val"`
}

type Obs struct {
	Label string `json:"label"`
	Val   string `json:"val"`
}

type Case struct {
	Harness string   `json:"harness"`
	Nondets []Nondet `json:"nondets"`
	Tier    int      `json:"tier"`
	// Repeat: run up to this many times until a failure or panic shows (Go's
	// map iteration order is random; the executor explores one fixed order).
	Repeat int `json:"repeat"`
	// Lenient: inputs beyond the recorded ones take their zero value (used when
	// the executor could not finish a path and only its prefix is known).
	Lenient bool `json:"lenient"`
	// DeadlineMs > 0: a deadlock candidate - the harness runs on a goroutine of
	// its own and the case is reported as timed out when it has not returned
	// after this long.
	DeadlineMs int `json:"deadline_ms"`
}

type Result struct {
	Harness  string   `json:"harness"`
	Failures []string `json:"failures"`
	Panic    string   `json:"panic"`
	Diverged string   `json:"diverged"`
	Observes []Obs    `json:"observes"`
	Covers   []string `json:"covers"`
	Assumed  bool     `json:"assume_failed"`
	TimedOut bool     `json:"timed_out"`
}

var (
	cur  *Case
	pos  int
	res  *Result
	tier int
)

type assumeFailed struct{}
type diverged struct{ why string }

// replayDone: a counterexample records only the inputs drawn before the failed
// assertion; asking for more after a failure was recorded ends the replay.
type replayDone struct{}

func next(tag, sort string) string {
	if cur == nil {
		panic("rt: nondeterministic input requested outside the symbolic executor / replay")
	}
	if pos >= len(cur.Nondets) && res != nil && len(res.Failures) > 0 {
		panic(replayDone{})
	}
	if pos >= len(cur.Nondets) && cur.Lenient {
		pos++
		switch sort {
		case "S":
			return ""
		case "B":
			return "false"
		}
		return "0"
	}
	if pos >= len(cur.Nondets) {
		panic(diverged{fmt.Sprintf("nondet #%d (%s %q) beyond the recorded %d", pos, sort, tag, len(cur.Nondets))})
	}
	n := cur.Nondets[pos]
	pos++
	if n.Tag != tag || n.Sort != sort {
		panic(diverged{fmt.Sprintf("nondet #%d is %s %q, replay expected %s %q", pos-1, sort, tag, n.Sort, n.Tag)})
	}
	return n.Val
}

func String(tag string) string { return next(tag, "S") }
func Bool(tag string) bool     { return next(tag, "B") == "true" }
func Int(tag string) int {
	n, _ := strconv.ParseInt(next(tag, "I"), 10, 64)
	return int(n)
}
func Int64(tag string) int64 {
	n, _ := strconv.ParseInt(next(tag, "I"), 10, 64)
	return n
}
func Int32(tag string) int32 {
	n, _ := strconv.ParseInt(next(tag, "I"), 10, 64)
	return int32(n)
}

// Choice returns a value in [0,n).
func Choice(tag string, n int) int {
	v, _ := strconv.ParseInt(next(tag, "I"), 10, 64)
	return int(v)
}

// OneOf returns s; under the executor it additionally case-splits on s being
// equal to each option so the result is concrete on those paths.
func OneOf(s string, options ...string) string { return s }

// And / Or are && and || that the symbolic executor evaluates WITHOUT forking the
// path (both operands are always evaluated): for order-free "exists" oracles.
func And(a, b bool) bool { return a && b }
func Or(a, b bool) bool  { return a || b }

func Assume(c bool) {
	if !c {
		panic(assumeFailed{})
	}
}

func Assert(c bool, label string) {
	if !c && res != nil {
		res.Failures = append(res.Failures, label)
	}
}

func Cover(label string) {
	if res != nil {
		res.Covers = append(res.Covers, label)
	}
}

// Observe records a scalar for concolic cross-validation of the executor.
func Observe(label string, v interface{}) {
	if res == nil {
		return
	}
	s := "<nil>"
	if v != nil {
		s = fmt.Sprint(v)
	}
	res.Observes = append(res.Observes, Obs{label, s})
}

// Symbolic reports whether the code runs under the symbolic executor.
func Symbolic() bool { return false }

// ReverseMaps makes the executor iterate Go maps in reverse insertion order
// from here on (default: insertion order), so that a harness can explore both
// as a symbolic dimension: `if rt.Bool("maps-reversed") { rt.ReverseMaps(true) }`.
// Natively the iteration order is random anyway; replays are repeated.
func ReverseMaps(on bool) {}

// FireTickers lets time pass: under the executor every live time.Ticker gets
// one tick and all goroutines run until they block again; natively it sleeps
// long enough for tickers with a period of a few milliseconds to fire.
func FireTickers() { time.Sleep(100 * time.Millisecond) }

// LiveGoroutines is the number of goroutines parked by the executor (blocked
// and not finished). Natively it is unknown and reported as 0.
func LiveGoroutines() int { return 0 }

// Tier: 0 = quick, 1 = thorough.
func Tier() int { return tier }

// RunReplay executes the cases listed in $VERIF_REPLAY against the natively
// compiled harnesses and writes the results to $VERIF_REPLAY_OUT.
func RunReplay(harnesses map[string]func()) error {
	in := os.Getenv("VERIF_REPLAY")
	if in == "" {
		return nil
	}
	data, err := os.ReadFile(in)
	if err != nil {
		return err
	}
	var cases []Case
	if err := json.Unmarshal(data, &cases); err != nil {
		return err
	}
	var out []Result
	for i := range cases {
		c := &cases[i]
		var r *Result
		f := harnesses[c.Harness]
		if f == nil {
			out = append(out, Result{Harness: c.Harness, Diverged: "no such harness in this package"})
			continue
		}
		for attempt := 0; attempt == 0 || attempt < c.Repeat; attempt++ {
			r = runCase(c, f)
			if len(r.Failures) > 0 || r.Panic != "" {
				break
			}
		}
		out = append(out, *r)
	}
	b, _ := json.MarshalIndent(out, "", " ")
	return os.WriteFile(os.Getenv("VERIF_REPLAY_OUT"), b, 0o644)
}

func runCase(c *Case, f func()) *Result {
	r := &Result{Harness: c.Harness}
	{
		cur, pos, res, tier = c, 0, r, c.Tier
		body := func() {
			defer func() {
				if p := recover(); p != nil {
					switch x := p.(type) {
					case replayDone:
					case assumeFailed:
						r.Assumed = true
					case diverged:
						r.Diverged = x.why
					default:
						r.Panic = fmt.Sprint(p)
					}
				}
			}()
			f()
			if pos != len(c.Nondets) && r.Diverged == "" && !c.Lenient {
				r.Diverged = fmt.Sprintf("harness consumed %d of %d recorded nondets", pos, len(c.Nondets))
			}
		}
		if c.DeadlineMs > 0 {
			done := make(chan struct{})
			go func() {
				defer close(done)
				body()
			}()
			select {
			case <-done:
			case <-time.After(time.Duration(c.DeadlineMs) * time.Millisecond):
				// the harness goroutine stays blocked; the result is a copy so
				// that a late wake-up cannot race with the report
				out := *r
				out.TimedOut = true
				out.Panic = fmt.Sprintf("deadlock: the harness did not return within %d ms", c.DeadlineMs)
				return &out
			}
		} else {
			body()
		}
		cur, res = nil, nil
	}
	return r
}

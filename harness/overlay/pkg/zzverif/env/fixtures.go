package env

import (
	metav1 "k8s.io/apimachinery/pkg/apis/meta/v1"
	"k8s.io/apimachinery/pkg/apis/meta/v1/unstructured"
	"k8s.io/client-go/rest"

	dynamicclientset "metacontroller/pkg/dynamic/clientset"
	dynamicdiscovery "metacontroller/pkg/dynamic/discovery"
)

// Fixture resources known to the simulated discovery.
var (
	// parents
	ThingRes        = dynamicdiscovery.VerifNewAPIResource("ex.com/v1", metav1.APIResource{Name: "things", Namespaced: true, Group: "ex.com", Version: "v1", Kind: "Thing"}, "status")
	ClusterThingRes = dynamicdiscovery.VerifNewAPIResource("ex.com/v1", metav1.APIResource{Name: "clusterthings", Namespaced: false, Group: "ex.com", Version: "v1", Kind: "ClusterThing"}, "status")
	NoStatusRes     = dynamicdiscovery.VerifNewAPIResource("ex.com/v1", metav1.APIResource{Name: "nostatuses", Namespaced: true, Group: "ex.com", Version: "v1", Kind: "NoStatus"})
	// children
	ConfigMapRes = dynamicdiscovery.VerifNewAPIResource("v1", metav1.APIResource{Name: "configmaps", Namespaced: true, Group: "", Version: "v1", Kind: "ConfigMap"})
	PodRes       = dynamicdiscovery.VerifNewAPIResource("v1", metav1.APIResource{Name: "pods", Namespaced: true, Group: "", Version: "v1", Kind: "Pod"}, "status")
	NamespaceRes = dynamicdiscovery.VerifNewAPIResource("v1", metav1.APIResource{Name: "namespaces", Namespaced: false, Group: "", Version: "v1", Kind: "Namespace"})
	WidgetRes    = dynamicdiscovery.VerifNewAPIResource("apps.ex.com/v1", metav1.APIResource{Name: "widgets", Namespaced: true, Group: "apps.ex.com", Version: "v1", Kind: "Widget"}, "status")
)

func AllResources() []*dynamicdiscovery.APIResource {
	return []*dynamicdiscovery.APIResource{ThingRes, ClusterThingRes, NoStatusRes, ConfigMapRes, PodRes, NamespaceRes, WidgetRes}
}

func NewResourceMap() *dynamicdiscovery.ResourceMap {
	return dynamicdiscovery.VerifNewResourceMap(AllResources()...)
}

// World bundles a server, discovery and the real dynamic Clientset over them.
type World struct {
	Srv *Server
	RM  *dynamicdiscovery.ResourceMap
	Dyn *dynamicclientset.Clientset
}

func NewWorld() *World {
	srv := NewServer()
	for _, r := range AllResources() {
		if r.HasSubresource("status") {
			srv.StatusSub[r.Name] = true
		}
	}
	rm := NewResourceMap()
	return &World{Srv: srv, RM: rm, Dyn: dynamicclientset.NewClientset(&rest.Config{}, rm, srv)}
}

// Obj builds an object. uid == "" means "not yet created" (no uid / resourceVersion).
func Obj(apiVersion, kind, ns, name, uid string) *unstructured.Unstructured {
	md := map[string]interface{}{"name": name}
	if ns != "" {
		md["namespace"] = ns
	}
	if uid != "" {
		md["uid"] = uid
		md["resourceVersion"] = "7"
		md["generation"] = int64(1)
	}
	return &unstructured.Unstructured{Object: map[string]interface{}{"apiVersion": apiVersion, "kind": kind, "metadata": md}}
}

func ConfigMap(ns, name, uid, val string) *unstructured.Unstructured {
	o := Obj("v1", "ConfigMap", ns, name, uid)
	o.Object["data"] = map[string]interface{}{"k": val}
	return o
}

func Thing(ns, name, uid string) *unstructured.Unstructured {
	o := Obj("ex.com/v1", "Thing", ns, name, uid)
	o.Object["spec"] = map[string]interface{}{"x": "1"}
	return o
}

// ControllerRef returns an owner reference map as stored in unstructured metadata.
func OwnerRefMap(apiVersion, kind, name, uid string, controller bool) map[string]interface{} {
	m := map[string]interface{}{"apiVersion": apiVersion, "kind": kind, "name": name, "uid": uid}
	if controller {
		m["controller"] = true
		m["blockOwnerDeletion"] = true
	}
	return m
}

func AddOwnerRef(o *unstructured.Unstructured, ref map[string]interface{}) {
	md := o.Object["metadata"].(map[string]interface{})
	refs, _ := md["ownerReferences"].([]interface{})
	md["ownerReferences"] = append(refs, ref)
}

func SetLabel(o *unstructured.Unstructured, k, v string) {
	md := o.Object["metadata"].(map[string]interface{})
	l, _ := md["labels"].(map[string]interface{})
	if l == nil {
		l = map[string]interface{}{}
		md["labels"] = l
	}
	l[k] = v
}

func SetAnnotation(o *unstructured.Unstructured, k, v string) {
	md := o.Object["metadata"].(map[string]interface{})
	l, _ := md["annotations"].(map[string]interface{})
	if l == nil {
		l = map[string]interface{}{}
		md["annotations"] = l
	}
	l[k] = v
}

func MarkDeleting(o *unstructured.Unstructured) {
	o.Object["metadata"].(map[string]interface{})["deletionTimestamp"] = "2024-01-01T00:00:00Z"
}

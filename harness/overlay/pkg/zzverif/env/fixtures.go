package env

import (
	metav1 "k8s.io/apimachinery/pkg/apis/meta/v1"
	"k8s.io/apimachinery/pkg/apis/meta/v1/unstructured"
	"k8s.io/client-go/discovery"
	"k8s.io/client-go/rest"

	dynamicclientset "metacontroller/pkg/dynamic/clientset"
	dynamicdiscovery "metacontroller/pkg/dynamic/discovery"
)

// fixtureDoc is what the simulated API server answers to discovery. The first
// group-version holds a resource with the same plural name as ex.com/v1
// "nostatuses" that DOES have a status subresource (same-named resources in
// several groups are common: events, ingresses, ...).
func fixtureDoc() []*metav1.APIResourceList {
	return []*metav1.APIResourceList{
		{GroupVersion: "aaa.ex.com/v1", APIResources: []metav1.APIResource{
			{Name: "nostatuses", Namespaced: true, Kind: "NoStatus"},
			{Name: "nostatuses/status", Namespaced: true, Kind: "NoStatus"},
		}},
		{GroupVersion: "ex.com/v1", APIResources: []metav1.APIResource{
			{Name: "things", Namespaced: true, Kind: "Thing"},
			{Name: "things/status", Namespaced: true, Kind: "Thing"},
			{Name: "clusterthings", Namespaced: false, Kind: "ClusterThing"},
			{Name: "clusterthings/status", Namespaced: false, Kind: "ClusterThing"},
			{Name: "nostatuses", Namespaced: true, Kind: "NoStatus"},
		}},
		// a second served version of two kinds (multi-version CRDs): same
		// resource name and kind, other version
		{GroupVersion: "ex.com/v2", APIResources: []metav1.APIResource{
			{Name: "things", Namespaced: true, Kind: "Thing"},
			{Name: "things/status", Namespaced: true, Kind: "Thing"},
		}},
		{GroupVersion: "apps.ex.com/v2", APIResources: []metav1.APIResource{
			{Name: "widgets", Namespaced: true, Kind: "Widget"},
			{Name: "widgets/status", Namespaced: true, Kind: "Widget"},
		}},
		{GroupVersion: "v1", APIResources: []metav1.APIResource{
			{Name: "configmaps", Namespaced: true, Kind: "ConfigMap"},
			{Name: "pods", Namespaced: true, Kind: "Pod"},
			{Name: "pods/status", Namespaced: true, Kind: "Pod"},
			{Name: "namespaces", Namespaced: false, Kind: "Namespace"},
		}},
		{GroupVersion: "apps.ex.com/v1", APIResources: []metav1.APIResource{
			{Name: "widgets", Namespaced: true, Kind: "Widget"},
			{Name: "widgets/status", Namespaced: true, Kind: "Widget"},
		}},
	}
}

// HasStatusSubresource is the ground truth of the fixture document (NOT read
// back from the ResourceMap under test).
func HasStatusSubresource(resource string) bool {
	switch resource {
	case "things", "clusterthings", "pods", "widgets":
		return true
	}
	return false
}

type fakeDiscovery struct {
	discovery.DiscoveryInterface
}

func (fakeDiscovery) ServerGroupsAndResources() ([]*metav1.APIGroup, []*metav1.APIResourceList, error) {
	return nil, fixtureDoc(), nil
}

var fixtureRM = NewResourceMap()

// Fixture resources known to the simulated discovery.
var (
	// parents
	ThingRes        = fixtureRM.Get("ex.com/v1", "things")
	ClusterThingRes = fixtureRM.Get("ex.com/v1", "clusterthings")
	NoStatusRes     = fixtureRM.Get("ex.com/v1", "nostatuses")
	// children
	ConfigMapRes = fixtureRM.Get("v1", "configmaps")
	PodRes       = fixtureRM.Get("v1", "pods")
	NamespaceRes = fixtureRM.Get("v1", "namespaces")
	WidgetRes    = fixtureRM.Get("apps.ex.com/v1", "widgets")
	// the same kinds at their second served version
	ThingV2Res  = fixtureRM.Get("ex.com/v2", "things")
	WidgetV2Res = fixtureRM.Get("apps.ex.com/v2", "widgets")
)

func AllResources() []*dynamicdiscovery.APIResource {
	return []*dynamicdiscovery.APIResource{ThingRes, ClusterThingRes, NoStatusRes, ConfigMapRes, PodRes, NamespaceRes, WidgetRes}
}

// NewResourceMap runs the real discovery refresh over the fixture document.
func NewResourceMap() *dynamicdiscovery.ResourceMap {
	return dynamicdiscovery.VerifNewResourceMap(fakeDiscovery{})
}

// World bundles a server, discovery and the real dynamic Clientset over them.
type World struct {
	Srv *Server
	RM  *dynamicdiscovery.ResourceMap
	Dyn *dynamicclientset.Clientset
}

func NewWorld() *World {
	srv := NewServer()
	for _, r := range AllResources() {
		if HasStatusSubresource(r.Name) {
			srv.StatusSub[r.Name] = true
		}
	}
	rm := NewResourceMap()
	return &World{Srv: srv, RM: rm, Dyn: dynamicclientset.NewClientset(&rest.Config{}, rm, srv)}
}

// Obj builds an object. uid == "" means "not yet created" (no uid / resourceVersion).
func Obj(apiVersion, kind, ns, name, uid string) *unstructured.Unstructured {
	md := map[string]interface{}{"name": name}
	if ns != "" {
		md["namespace"] = ns
	}
	if uid != "" {
		md["uid"] = uid
		md["resourceVersion"] = "7"
		md["generation"] = int64(1)
	}
	return &unstructured.Unstructured{Object: map[string]interface{}{"apiVersion": apiVersion, "kind": kind, "metadata": md}}
}

func ConfigMap(ns, name, uid, val string) *unstructured.Unstructured {
	o := Obj("v1", "ConfigMap", ns, name, uid)
	o.Object["data"] = map[string]interface{}{"k": val}
	return o
}

func Thing(ns, name, uid string) *unstructured.Unstructured {
	o := Obj("ex.com/v1", "Thing", ns, name, uid)
	o.Object["spec"] = map[string]interface{}{"x": "1"}
	return o
}

// ControllerRef returns an owner reference map as stored in unstructured metadata.
func OwnerRefMap(apiVersion, kind, name, uid string, controller bool) map[string]interface{} {
	m := map[string]interface{}{"apiVersion": apiVersion, "kind": kind, "name": name, "uid": uid}
	if controller {
		m["controller"] = true
		m["blockOwnerDeletion"] = true
	}
	return m
}

func AddOwnerRef(o *unstructured.Unstructured, ref map[string]interface{}) {
	md := o.Object["metadata"].(map[string]interface{})
	refs, _ := md["ownerReferences"].([]interface{})
	md["ownerReferences"] = append(refs, ref)
}

func SetLabel(o *unstructured.Unstructured, k, v string) {
	md := o.Object["metadata"].(map[string]interface{})
	l, _ := md["labels"].(map[string]interface{})
	if l == nil {
		l = map[string]interface{}{}
		md["labels"] = l
	}
	l[k] = v
}

func SetAnnotation(o *unstructured.Unstructured, k, v string) {
	md := o.Object["metadata"].(map[string]interface{})
	l, _ := md["annotations"].(map[string]interface{})
	if l == nil {
		l = map[string]interface{}{}
		md["annotations"] = l
	}
	l[k] = v
}

func MarkDeleting(o *unstructured.Unstructured) {
	o.Object["metadata"].(map[string]interface{})["deletionTimestamp"] = "2024-01-01T00:00:00Z"
}

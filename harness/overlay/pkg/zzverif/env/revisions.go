package env

import (
	"fmt"
	"sync"
	"time"

	corev1 "k8s.io/api/core/v1"
	apierrors "k8s.io/apimachinery/pkg/api/errors"
	metav1 "k8s.io/apimachinery/pkg/apis/meta/v1"
	"k8s.io/apimachinery/pkg/labels"
	"k8s.io/apimachinery/pkg/runtime"
	"k8s.io/apimachinery/pkg/runtime/schema"
	"k8s.io/apimachinery/pkg/types"
	"k8s.io/client-go/discovery"
	"k8s.io/client-go/rest"

	"metacontroller/pkg/apis/metacontroller/v1alpha1"
	mcclientset "metacontroller/pkg/client/generated/clientset/internalclientset"
	mcv1alpha1 "metacontroller/pkg/client/generated/clientset/internalclientset/typed/metacontroller/v1alpha1"
	mclisters "metacontroller/pkg/client/generated/lister/metacontroller/v1alpha1"
)

// ---- ControllerRevisions live in the same Server (same request log, same
// fault injection) as typed objects.

type RevReq struct {
	Rev    *v1alpha1.ControllerRevision // body sent (deep copy)
	PreRev *v1alpha1.ControllerRevision // stored object before the request
}

var revGR = schema.GroupResource{Group: "metacontroller.k8s.io", Resource: "controllerrevisions"}

type revStored struct {
	ns, name string
	obj      *v1alpha1.ControllerRevision
}

func (s *Server) findRev(ns, name string) int {
	for i, r := range s.revs {
		if r.ns == ns && r.name == name {
			return i
		}
	}
	return -1
}

// PutRev seeds a ControllerRevision.
func (s *Server) PutRev(cr *v1alpha1.ControllerRevision) {
	c := cr.DeepCopy()
	if i := s.findRev(c.Namespace, c.Name); i >= 0 {
		s.revs[i].obj = c
		return
	}
	s.revs = append(s.revs, &revStored{c.Namespace, c.Name, c})
}

// Revs returns deep copies of all stored ControllerRevisions.
func (s *Server) Revs() []*v1alpha1.ControllerRevision {
	var out []*v1alpha1.ControllerRevision
	for _, r := range s.revs {
		out = append(out, r.obj.DeepCopy())
	}
	return out
}

func (s *Server) beginRev(verb, ns, name string) (*Req, error) {
	c := &rc{s: s, gvr: schema.GroupVersionResource{Group: "metacontroller.k8s.io", Version: "v1alpha1", Resource: "controllerrevisions"}, ns: ns}
	req, err := c.begin(verb, name, "")
	if i := s.findRev(ns, name); i >= 0 {
		req.PreRev = s.revs[i].obj.DeepCopy()
	}
	return req, err
}

func (s *Server) RevCreate(ns string, cr *v1alpha1.ControllerRevision) (*v1alpha1.ControllerRevision, error) {
	s.Mu.Lock()
	defer s.Mu.Unlock()
	req, err := s.beginRev("create", ns, cr.Name)
	req.Rev = cr.DeepCopy()
	if err != nil {
		return nil, err
	}
	if req.PreRev != nil {
		req.Err = apierrors.NewAlreadyExists(revGR, cr.Name)
		return nil, req.Err
	}
	o := cr.DeepCopy()
	o.Namespace = ns
	s.nuid++
	o.UID = types.UID(fmt.Sprintf("srv-rev-uid-%d", s.nuid))
	o.ResourceVersion = "1"
	s.revs = append(s.revs, &revStored{ns, o.Name, o})
	req.Accepted = true
	return o.DeepCopy(), nil
}

func revControllerRefs(cr *v1alpha1.ControllerRevision) int {
	n := 0
	for _, r := range cr.OwnerReferences {
		if r.Controller != nil && *r.Controller {
			n++
		}
	}
	return n
}

func (s *Server) RevUpdate(ns string, cr *v1alpha1.ControllerRevision) (*v1alpha1.ControllerRevision, error) {
	s.Mu.Lock()
	defer s.Mu.Unlock()
	req, err := s.beginRev("update", ns, cr.Name)
	req.Rev = cr.DeepCopy()
	if err != nil {
		return nil, err
	}
	if req.PreRev == nil {
		req.Err = apierrors.NewNotFound(revGR, cr.Name)
		return nil, req.Err
	}
	cur := req.PreRev
	if cr.ResourceVersion != "" && cr.ResourceVersion != cur.ResourceVersion {
		req.Err = apierrors.NewConflict(revGR, cr.Name, fmt.Errorf("the object has been modified"))
		return nil, req.Err
	}
	if cr.UID != "" && cr.UID != cur.UID {
		req.Err = apierrors.NewConflict(revGR, cr.Name, fmt.Errorf("uid precondition failed"))
		return nil, req.Err
	}
	if revControllerRefs(cr) > 1 {
		req.Err = apierrors.NewInvalid(schema.GroupKind{Group: revGR.Group, Kind: "ControllerRevision"}, cr.Name, nil)
		return nil, req.Err
	}
	o := cr.DeepCopy()
	o.UID = cur.UID
	o.ResourceVersion = cur.ResourceVersion + "+"
	s.revs[s.findRev(ns, cr.Name)].obj = o
	req.Accepted = true
	return o.DeepCopy(), nil
}

func (s *Server) RevDelete(ns, name string, opts metav1.DeleteOptions) error {
	s.Mu.Lock()
	defer s.Mu.Unlock()
	req, err := s.beginRev("delete", ns, name)
	if opts.Preconditions != nil && opts.Preconditions.UID != nil {
		u := *opts.Preconditions.UID
		req.UIDPre = &u
	}
	if opts.PropagationPolicy != nil {
		req.Propagation = string(*opts.PropagationPolicy)
	}
	if err != nil {
		return err
	}
	if req.PreRev == nil {
		req.Err = apierrors.NewNotFound(revGR, name)
		return req.Err
	}
	if req.UIDPre != nil && *req.UIDPre != req.PreRev.UID {
		req.Err = apierrors.NewConflict(revGR, name, fmt.Errorf("uid precondition failed"))
		return req.Err
	}
	i := s.findRev(ns, name)
	s.revs = append(s.revs[:i:i], s.revs[i+1:]...)
	req.Accepted = true
	return nil
}

func (s *Server) RevGet(ns, name string) (*v1alpha1.ControllerRevision, error) {
	s.Mu.Lock()
	defer s.Mu.Unlock()
	req, err := s.beginRev("get", ns, name)
	if err != nil {
		return nil, err
	}
	if req.PreRev == nil {
		req.Err = apierrors.NewNotFound(revGR, name)
		return nil, req.Err
	}
	req.Accepted = true
	return req.PreRev.DeepCopy(), nil
}

// RevList is the uncached LIST of the ControllerRevisions of a namespace (a read:
// counted for fault injection like a get). The label selector is ignored.
func (s *Server) RevList(ns string, labelSelector string) (*v1alpha1.ControllerRevisionList, error) {
	s.Mu.Lock()
	defer s.Mu.Unlock()
	req, err := s.beginRev("get", ns, "")
	req.List = true
	if err != nil {
		return nil, err
	}
	// (metacontroller lists "everything" and filters by owner and selector itself;
	// the selector string is not interpreted here)
	_ = labelSelector
	out := &v1alpha1.ControllerRevisionList{}
	for _, r := range s.revs {
		if r.obj.Namespace == ns {
			out.Items = append(out.Items, *r.obj.DeepCopy())
		}
	}
	req.Accepted = true
	return out, nil
}

// ---- mcclientset.Interface over the Server ----

type MCClient struct{ S *Server }

func (c *MCClient) Discovery() discovery.DiscoveryInterface { return nil }
func (c *MCClient) MetacontrollerV1alpha1() mcv1alpha1.MetacontrollerV1alpha1Interface {
	return &mcV1{c.S}
}

type mcV1 struct{ s *Server }

func (m *mcV1) RESTClient() rest.Interface { return nil }
func (m *mcV1) ControllerRevisions(ns string) mcv1alpha1.ControllerRevisionInterface {
	return mcv1alpha1.VerifNewControllerRevisions(m.s, ns)
}

var _ mcclientset.Interface = &MCClient{}

// ---- ControllerRevision lister over a snapshot ----

type RevLister struct {
	Items []*v1alpha1.ControllerRevision
}

func (l *RevLister) List(selector labels.Selector) ([]*v1alpha1.ControllerRevision, error) {
	var out []*v1alpha1.ControllerRevision
	for _, r := range l.Items {
		if selector.Matches(labels.Set(r.Labels)) {
			out = append(out, r)
		}
	}
	return out, nil
}

func (l *RevLister) ControllerRevisions(ns string) mclisters.ControllerRevisionNamespaceLister {
	return &revNSLister{l, ns}
}

type revNSLister struct {
	l  *RevLister
	ns string
}

func (n *revNSLister) List(selector labels.Selector) ([]*v1alpha1.ControllerRevision, error) {
	var out []*v1alpha1.ControllerRevision
	for _, r := range n.l.Items {
		if r.Namespace == n.ns && selector.Matches(labels.Set(r.Labels)) {
			out = append(out, r)
		}
	}
	return out, nil
}

func (n *revNSLister) Get(name string) (*v1alpha1.ControllerRevision, error) {
	for _, r := range n.l.Items {
		if r.Namespace == n.ns && r.Name == name {
			return r, nil
		}
	}
	return nil, apierrors.NewNotFound(revGR, name)
}

// ---- work queue and event recorder stubs ----

type QueueOp struct {
	Op    string // add | add-after | add-rate-limited | forget | done
	Key   string
	Delay time.Duration
}

type Queue struct {
	mu    sync.Mutex
	Ops   []QueueOp
	Items []interface{}
}

func keyString(item interface{}) string {
	if s, ok := item.(string); ok {
		return s
	}
	return fmt.Sprint(item)
}

func (q *Queue) Add(item interface{}) {
	q.mu.Lock()
	defer q.mu.Unlock()
	q.Ops = append(q.Ops, QueueOp{Op: "add", Key: keyString(item)})
	q.Items = append(q.Items, item)
}
func (q *Queue) Len() int { return len(q.Items) }
func (q *Queue) Get() (interface{}, bool) {
	q.mu.Lock()
	defer q.mu.Unlock()
	if len(q.Items) == 0 {
		return nil, true
	}
	it := q.Items[0]
	q.Items = q.Items[1:]
	return it, false
}
func (q *Queue) Done(item interface{}) {
	q.Ops = append(q.Ops, QueueOp{Op: "done", Key: keyString(item)})
}
func (q *Queue) ShutDown()          {}
func (q *Queue) ShutDownWithDrain() {}
func (q *Queue) ShuttingDown() bool { return false }
func (q *Queue) AddAfter(item interface{}, d time.Duration) {
	q.mu.Lock()
	defer q.mu.Unlock()
	q.Ops = append(q.Ops, QueueOp{Op: "add-after", Key: keyString(item), Delay: d})
}
func (q *Queue) AddRateLimited(item interface{}) {
	q.mu.Lock()
	defer q.mu.Unlock()
	q.Ops = append(q.Ops, QueueOp{Op: "add-rate-limited", Key: keyString(item)})
}
func (q *Queue) Forget(item interface{}) {
	q.mu.Lock()
	defer q.mu.Unlock()
	q.Ops = append(q.Ops, QueueOp{Op: "forget", Key: keyString(item)})
}
func (q *Queue) NumRequeues(item interface{}) int { return 0 }

// Count returns how many recorded operations have the given op.
func (q *Queue) Count(op string) int {
	n := 0
	for _, o := range q.Ops {
		if o.Op == op {
			n++
		}
	}
	return n
}

type Recorder struct {
	mu     sync.Mutex
	Events int
}

func (r *Recorder) inc() {
	r.mu.Lock()
	defer r.mu.Unlock()
	r.Events++
}
func (r *Recorder) Event(object runtime.Object, eventtype, reason, message string) { r.inc() }
func (r *Recorder) Eventf(object runtime.Object, eventtype, reason, messageFmt string, args ...interface{}) {
	r.inc()
}
func (r *Recorder) AnnotatedEventf(object runtime.Object, annotations map[string]string, eventtype, reason, messageFmt string, args ...interface{}) {
	r.inc()
}

var _ = corev1.EventTypeNormal

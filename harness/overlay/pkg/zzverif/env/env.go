// Package env is the simulated API server, listers and recording stubs the
// verification harnesses run metacontroller's real code against. It is plain
// Go: interpreted symbolically by /verif/engine and compiled natively for
// replay.
package env

import (
	"context"
	"encoding/json"
	"fmt"
	"sync"

	apierrors "k8s.io/apimachinery/pkg/api/errors"
	metav1 "k8s.io/apimachinery/pkg/apis/meta/v1"
	"k8s.io/apimachinery/pkg/apis/meta/v1/unstructured"
	"k8s.io/apimachinery/pkg/labels"
	"k8s.io/apimachinery/pkg/runtime"
	"k8s.io/apimachinery/pkg/runtime/schema"
	"k8s.io/apimachinery/pkg/types"
	"k8s.io/apimachinery/pkg/watch"
	"k8s.io/client-go/dynamic"
	"k8s.io/client-go/dynamic/dynamiclister"
)

// Error kinds for fault injection.
const (
	FaultNone = iota
	FaultNotFound
	FaultAlreadyExists
	FaultConflict
	FaultGone
	FaultInvalid
	FaultInternal
	FaultTimeout
	FaultCrash
	NumFaultKinds
)

// FaultForbidden (RBAC, an admission webhook) stands outside the enumerated
// range: harnesses that draw "every kind" keep their size, those for which a
// 403 is a case of its own name it.
const FaultForbidden = 50

// Crash is the sentinel panic raised by FaultCrash.
type Crash struct{ AfterRequests int }

func MakeError(kind int, gr schema.GroupResource, name string) error {
	switch kind {
	case FaultNotFound:
		return apierrors.NewNotFound(gr, name)
	case FaultAlreadyExists:
		return apierrors.NewAlreadyExists(gr, name)
	case FaultConflict:
		return apierrors.NewConflict(gr, name, fmt.Errorf("injected conflict"))
	case FaultGone:
		return apierrors.NewGone("injected gone")
	case FaultInvalid:
		return apierrors.NewInvalid(schema.GroupKind{Group: gr.Group, Kind: gr.Resource}, name, nil)
	case FaultInternal:
		return apierrors.NewInternalError(fmt.Errorf("injected internal error"))
	case FaultTimeout:
		return apierrors.NewTimeoutError("injected timeout", 1)
	case FaultForbidden:
		return apierrors.NewForbidden(gr, name, fmt.Errorf("injected forbidden"))
	}
	return nil
}

// Req is one logged API request.
type Req struct {
	Seq          int
	Verb         string // get | create | update | delete | patch
	Resource     string
	Group        string
	NS, Name     string
	Sub          string // "" | "status"
	PatchType    string // "json" | "apply"
	PatchData    string
	FieldManager string
	Force        bool
	UIDPre       *types.UID
	Propagation  string
	Body         *unstructured.Unstructured // deep copy of what was sent
	Pre          *unstructured.Unstructured // deep copy of the stored target before the request (nil = absent)
	Err          error                      // outcome
	RevReq                                  // ControllerRevision requests carry typed bodies
	Accepted     bool                       // the store was changed / the verb succeeded
	List         bool                       // a LIST (Verb "get", empty Name)
}

func (r *Req) IsWrite() bool { return r.Verb != "get" }

type stored struct {
	res, ns, name string
	obj           *unstructured.Unstructured
}

// Server is a tiny Kubernetes-like object store implementing dynamic.Interface.
type Server struct {
	objs []*stored
	revs []*revStored
	Log  []Req
	seq  int
	nuid int

	// StatusSub lists resources with a status subresource: a main-resource
	// update ignores .status, a status update takes only .status.
	StatusSub map[string]bool

	// Fault injection: the request with sequence number FaultAt (counting
	// every request including gets when FaultCountsGets) fails with FaultKind.
	FaultAt         int
	FaultKind       int
	FaultCountsGets bool
	faultSeq        int
	// FaultOnlyResource restricts injection to one resource ("" = any).
	FaultOnlyResource string
	// optional second fault of the same run (FaultKind2 == FaultNone: none)
	FaultAt2, FaultKind2 int

	// FaultPlan (optional): the n-th counted request fails with FaultPlan[n]
	// (FaultNone = goes through); counted like FaultAt. OnFault, when set, runs
	// after each planned fault (e.g. "another writer gets in").
	FaultPlan []int
	OnFault   func(n int)
	// OnResource (optional) runs whenever a resource client is built on top of
	// this server (dynamic.Interface.Resource): a hook for "something else
	// happens while the caller constructs its client".
	OnResource func(gvr schema.GroupVersionResource)

	// Mu serialises the requests (the verbs may be called from several
	// goroutines: concurrent syncs, per-revision hook calls).
	Mu sync.Mutex
}

func NewServer() *Server {
	return &Server{FaultAt: -1, StatusSub: map[string]bool{}}
}

// ArmFault schedules one fault: the at-th request from now on (counting
// only requests to onlyResource when non-empty, and gets only when countGets)
// fails with kind.
func (s *Server) ArmFault(at, kind int, onlyResource string, countGets bool) {
	s.faultSeq = 0
	s.FaultAt, s.FaultKind, s.FaultOnlyResource, s.FaultCountsGets = at, kind, onlyResource, countGets
}

func (s *Server) DisarmFault() { s.FaultKind, s.FaultKind2 = FaultNone, FaultNone }

func (s *Server) find(res, ns, name string) int {
	for i, o := range s.objs {
		if o.res == res && o.ns == ns && o.name == name {
			return i
		}
	}
	return -1
}

// Put seeds the store (no logging, no defaulting).
func (s *Server) Put(res string, o *unstructured.Unstructured) {
	c := o.DeepCopy()
	if i := s.find(res, c.GetNamespace(), c.GetName()); i >= 0 {
		s.objs[i].obj = c
		return
	}
	s.objs = append(s.objs, &stored{res, c.GetNamespace(), c.GetName(), c})
}

// Remove deletes an object from the store without logging (external actor).
func (s *Server) Remove(res, ns, name string) {
	if i := s.find(res, ns, name); i >= 0 {
		s.objs = append(s.objs[:i:i], s.objs[i+1:]...)
	}
}

// Peek returns the stored object (not a copy) or nil.
func (s *Server) Peek(res, ns, name string) *unstructured.Unstructured {
	if i := s.find(res, ns, name); i >= 0 {
		return s.objs[i].obj
	}
	return nil
}

// All returns deep copies of all stored objects of a resource, in store order.
func (s *Server) All(res string) []*unstructured.Unstructured {
	var out []*unstructured.Unstructured
	for _, o := range s.objs {
		if o.res == res {
			out = append(out, o.obj.DeepCopy())
		}
	}
	return out
}

// Writes returns the logged non-get requests.
func (s *Server) Writes() []Req {
	var out []Req
	for _, r := range s.Log {
		if r.IsWrite() {
			out = append(out, r)
		}
	}
	return out
}

func (s *Server) ResetLog() { s.Log = nil }

func (s *Server) Resource(gvr schema.GroupVersionResource) dynamic.NamespaceableResourceInterface {
	if f := s.OnResource; f != nil {
		f(gvr)
	}
	return &rc{s: s, gvr: gvr}
}

type rc struct {
	s   *Server
	gvr schema.GroupVersionResource
	ns  string
}

func (c *rc) Namespace(ns string) dynamic.ResourceInterface {
	return &rc{s: c.s, gvr: c.gvr, ns: ns}
}
func (c *rc) gr() schema.GroupResource { return c.gvr.GroupResource() }

func (c *rc) begin(verb, name, sub string) (*Req, error) {
	s := c.s
	r := Req{Seq: s.seq, Verb: verb, Resource: c.gvr.Resource, Group: c.gvr.Group, NS: c.ns, Name: name, Sub: sub}
	s.seq++
	if i := s.find(c.gvr.Resource, c.ns, name); i >= 0 {
		r.Pre = s.objs[i].obj.DeepCopy()
	}
	s.Log = append(s.Log, r)
	req := &s.Log[len(s.Log)-1]
	if verb != "get" || s.FaultCountsGets {
		if s.FaultOnlyResource == "" || s.FaultOnlyResource == c.gvr.Resource {
			n := s.faultSeq
			s.faultSeq++
			if n < len(s.FaultPlan) && s.FaultPlan[n] != FaultNone {
				req.Err = MakeError(s.FaultPlan[n], c.gr(), name)
				if s.OnFault != nil {
					s.OnFault(n)
				}
				return req, req.Err
			}
			if s.FaultKind2 != FaultNone && n == s.FaultAt2 {
				req.Err = MakeError(s.FaultKind2, c.gr(), name)
				return req, req.Err
			}
			if s.FaultKind != FaultNone && n == s.FaultAt {
				if s.FaultKind == FaultCrash {
					panic(Crash{AfterRequests: n})
				}
				req.Err = MakeError(s.FaultKind, c.gr(), name)
				return req, req.Err
			}
		}
	}
	return req, nil
}

func controllerRefCount(o *unstructured.Unstructured) int {
	n := 0
	for _, ref := range o.GetOwnerReferences() {
		if ref.Controller != nil && *ref.Controller {
			n++
		}
	}
	return n
}

func (c *rc) Create(ctx context.Context, obj *unstructured.Unstructured, options metav1.CreateOptions, subresources ...string) (*unstructured.Unstructured, error) {
	c.s.Mu.Lock()
	defer c.s.Mu.Unlock()
	req, err := c.begin("create", obj.GetName(), "")
	req.Body = obj.DeepCopy()
	if err != nil {
		return nil, err
	}
	if req.Pre != nil {
		req.Err = apierrors.NewAlreadyExists(c.gr(), obj.GetName())
		return nil, req.Err
	}
	if obj.GetName() == "" {
		// "name or generateName is required"
		req.Err = apierrors.NewInvalid(schema.GroupKind{Group: c.gvr.Group, Kind: obj.GetKind()}, "", nil)
		return nil, req.Err
	}
	if controllerRefCount(obj) > 1 {
		req.Err = apierrors.NewInvalid(schema.GroupKind{Group: c.gvr.Group, Kind: obj.GetKind()}, obj.GetName(), nil)
		return nil, req.Err
	}
	o := obj.DeepCopy()
	o.SetNamespace(c.ns)
	if c.s.StatusSub[c.gvr.Resource] {
		// a resource with a status subresource ignores .status on create
		delete(o.Object, "status")
	}
	c.s.nuid++
	o.SetUID(types.UID(fmt.Sprintf("srv-uid-%d", c.s.nuid)))
	o.SetResourceVersion("1")
	o.SetGeneration(1)
	c.s.objs = append(c.s.objs, &stored{c.gvr.Resource, c.ns, o.GetName(), o})
	req.Accepted = true
	return o.DeepCopy(), nil
}

func (c *rc) update(obj *unstructured.Unstructured, sub string) (*unstructured.Unstructured, error) {
	c.s.Mu.Lock()
	defer c.s.Mu.Unlock()
	req, err := c.begin("update", obj.GetName(), sub)
	req.Body = obj.DeepCopy()
	if err != nil {
		return nil, err
	}
	if req.Pre == nil {
		req.Err = apierrors.NewNotFound(c.gr(), obj.GetName())
		return nil, req.Err
	}
	cur := req.Pre
	if rv := obj.GetResourceVersion(); rv != "" && rv != cur.GetResourceVersion() {
		req.Err = apierrors.NewConflict(c.gr(), obj.GetName(), fmt.Errorf("the object has been modified"))
		return nil, req.Err
	}
	if uid := obj.GetUID(); uid != "" && uid != cur.GetUID() {
		req.Err = apierrors.NewConflict(c.gr(), obj.GetName(), fmt.Errorf("uid precondition failed"))
		return nil, req.Err
	}
	var o *unstructured.Unstructured
	if sub == "status" {
		o = cur.DeepCopy()
		if st, ok := obj.Object["status"]; ok {
			o.Object["status"] = runtime.DeepCopyJSONValue(st)
		} else {
			delete(o.Object, "status")
		}
	} else {
		if controllerRefCount(obj) > 1 {
			req.Err = apierrors.NewInvalid(schema.GroupKind{Group: c.gvr.Group, Kind: obj.GetKind()}, obj.GetName(), nil)
			return nil, req.Err
		}
		o = obj.DeepCopy()
		if c.s.StatusSub[c.gvr.Resource] {
			if st, ok := cur.Object["status"]; ok {
				o.Object["status"] = runtime.DeepCopyJSONValue(st)
			} else {
				delete(o.Object, "status")
			}
		}
		// system fields cannot be changed by a client
		o.SetUID(cur.GetUID())
		o.SetGeneration(cur.GetGeneration())
		if dt, ok, _ := unstructured.NestedString(cur.Object, "metadata", "deletionTimestamp"); ok {
			unstructured.SetNestedField(o.Object, dt, "metadata", "deletionTimestamp")
		}
		if !jsonEqual(o.Object["spec"], cur.Object["spec"]) {
			o.SetGeneration(cur.GetGeneration() + 1)
		}
	}
	o.SetResourceVersion(cur.GetResourceVersion() + "+")
	i := c.s.find(c.gvr.Resource, c.ns, obj.GetName())
	if dt, _, _ := unstructured.NestedString(o.Object, "metadata", "deletionTimestamp"); dt != "" && len(o.GetFinalizers()) == 0 {
		c.s.objs = append(c.s.objs[:i:i], c.s.objs[i+1:]...)
	} else {
		c.s.objs[i].obj = o
	}
	req.Accepted = true
	return o.DeepCopy(), nil
}

func jsonEqual(a, b interface{}) bool { return deepEqualJSON(a, b) }

func (c *rc) Update(ctx context.Context, obj *unstructured.Unstructured, options metav1.UpdateOptions, subresources ...string) (*unstructured.Unstructured, error) {
	return c.update(obj, "")
}
func (c *rc) UpdateStatus(ctx context.Context, obj *unstructured.Unstructured, options metav1.UpdateOptions) (*unstructured.Unstructured, error) {
	return c.update(obj, "status")
}

func (c *rc) Delete(ctx context.Context, name string, options metav1.DeleteOptions, subresources ...string) error {
	c.s.Mu.Lock()
	defer c.s.Mu.Unlock()
	req, err := c.begin("delete", name, "")
	if options.Preconditions != nil && options.Preconditions.UID != nil {
		u := *options.Preconditions.UID
		req.UIDPre = &u
	}
	if options.PropagationPolicy != nil {
		req.Propagation = string(*options.PropagationPolicy)
	}
	if err != nil {
		return err
	}
	if req.Pre == nil {
		req.Err = apierrors.NewNotFound(c.gr(), name)
		return req.Err
	}
	if req.UIDPre != nil && *req.UIDPre != req.Pre.GetUID() {
		req.Err = apierrors.NewConflict(c.gr(), name, fmt.Errorf("uid precondition failed"))
		return req.Err
	}
	i := c.s.find(c.gvr.Resource, c.ns, name)
	if len(req.Pre.GetFinalizers()) > 0 {
		o := req.Pre.DeepCopy()
		if dt, _, _ := unstructured.NestedString(o.Object, "metadata", "deletionTimestamp"); dt == "" {
			unstructured.SetNestedField(o.Object, "2024-01-01T00:00:00Z", "metadata", "deletionTimestamp")
			o.SetResourceVersion(o.GetResourceVersion() + "+")
		}
		c.s.objs[i].obj = o
	} else {
		c.s.objs = append(c.s.objs[:i:i], c.s.objs[i+1:]...)
	}
	req.Accepted = true
	return nil
}

func (c *rc) DeleteCollection(ctx context.Context, options metav1.DeleteOptions, listOptions metav1.ListOptions) error {
	panic("env: DeleteCollection not modelled")
}

func (c *rc) Get(ctx context.Context, name string, options metav1.GetOptions, subresources ...string) (*unstructured.Unstructured, error) {
	c.s.Mu.Lock()
	defer c.s.Mu.Unlock()
	req, err := c.begin("get", name, "")
	if err != nil {
		return nil, err
	}
	if req.Pre == nil {
		req.Err = apierrors.NewNotFound(c.gr(), name)
		return nil, req.Err
	}
	req.Accepted = true
	return req.Pre.DeepCopy(), nil
}

func (c *rc) List(ctx context.Context, opts metav1.ListOptions) (*unstructured.UnstructuredList, error) {
	panic("env: List not modelled (listers read snapshots)")
}
func (c *rc) Watch(ctx context.Context, opts metav1.ListOptions) (watch.Interface, error) {
	panic("env: Watch not modelled")
}

const LastAppliedAnnotation = "metacontroller.k8s.io/last-applied-configuration"

func (c *rc) Patch(ctx context.Context, name string, pt types.PatchType, data []byte, options metav1.PatchOptions, subresources ...string) (*unstructured.Unstructured, error) {
	c.s.Mu.Lock()
	defer c.s.Mu.Unlock()
	req, err := c.begin("patch", name, "")
	req.FieldManager = options.FieldManager
	req.Force = options.Force != nil && *options.Force
	switch pt {
	case types.JSONPatchType:
		req.PatchType = "json"
		req.PatchData = string(data)
	case types.ApplyPatchType:
		req.PatchType = "apply"
		body := map[string]interface{}{}
		if uerr := json.Unmarshal(data, &body); uerr == nil {
			req.Body = &unstructured.Unstructured{Object: body}
		}
	case types.MergePatchType:
		req.PatchType = "merge"
		req.PatchData = string(data)
	default:
		req.PatchType = string(pt)
	}
	if err != nil {
		return nil, err
	}
	switch req.PatchType {
	case "merge":
		// RFC 7386 on the stored object. A resourceVersion in the patch is the
		// optimistic lock, as in a full update. req.Body is the object the patch
		// asks for (so that oracles can treat it like the body of an update).
		if req.Pre == nil {
			req.Err = apierrors.NewNotFound(c.gr(), name)
			return nil, req.Err
		}
		patch := map[string]interface{}{}
		if uerr := json.Unmarshal(data, &patch); uerr != nil {
			req.Err = apierrors.NewBadRequest("undecodable merge patch")
			return nil, req.Err
		}
		o := req.Pre.DeepCopy()
		mergePatch(o.Object, patch)
		req.Body = o.DeepCopy()
		if md, ok := patch["metadata"].(map[string]interface{}); ok {
			if rv, has := md["resourceVersion"]; has && rv != interface{}(req.Pre.GetResourceVersion()) {
				req.Err = apierrors.NewConflict(c.gr(), name, nil)
				return nil, req.Err
			}
		}
		if controllerRefCount(o) > 1 {
			req.Err = apierrors.NewInvalid(schema.GroupKind{Group: c.gvr.Group, Kind: o.GetKind()}, name, nil)
			return nil, req.Err
		}
		// immutable / server-owned
		o.SetUID(req.Pre.GetUID())
		o.SetGeneration(req.Pre.GetGeneration())
		if c.s.StatusSub[c.gvr.Resource] {
			if st, had := req.Pre.Object["status"]; had {
				o.Object["status"] = st
			} else {
				delete(o.Object, "status")
			}
		}
		if !jsonEqual(o.Object["spec"], req.Pre.Object["spec"]) {
			o.SetGeneration(req.Pre.GetGeneration() + 1)
		}
		o.SetResourceVersion(req.Pre.GetResourceVersion())
		if !deepEqualJSON(o.Object, req.Pre.Object) {
			o.SetResourceVersion(req.Pre.GetResourceVersion() + "+")
		}
		c.s.objs[c.s.find(c.gvr.Resource, c.ns, name)].obj = o
		req.Accepted = true
		return o.DeepCopy(), nil
	case "json":
		// the only JSON patch metacontroller sends removes its last-applied annotation
		if req.Pre == nil {
			req.Err = apierrors.NewNotFound(c.gr(), name)
			return nil, req.Err
		}
		o := req.Pre.DeepCopy()
		ann := o.GetAnnotations()
		if _, ok := ann[LastAppliedAnnotation]; !ok {
			req.Err = apierrors.NewInvalid(schema.GroupKind{Group: c.gvr.Group}, name, nil)
			return nil, req.Err
		}
		delete(ann, LastAppliedAnnotation)
		o.SetAnnotations(ann)
		o.SetResourceVersion(o.GetResourceVersion() + "+")
		c.s.objs[c.s.find(c.gvr.Resource, c.ns, name)].obj = o
		req.Accepted = true
		return o.DeepCopy(), nil
	case "apply":
		if req.Body == nil {
			req.Err = apierrors.NewBadRequest("undecodable apply body")
			return nil, req.Err
		}
		if req.Pre == nil {
			o := req.Body.DeepCopy()
			o.SetNamespace(c.ns)
			o.SetName(name)
			c.s.nuid++
			o.SetUID(types.UID(fmt.Sprintf("srv-uid-%d", c.s.nuid)))
			o.SetResourceVersion("1")
			o.SetGeneration(1)
			c.s.objs = append(c.s.objs, &stored{c.gvr.Resource, c.ns, name, o})
			req.Accepted = true
			return o.DeepCopy(), nil
		}
		o := req.Pre.DeepCopy()
		overlay(o.Object, req.Body.Object)
		// metadata.ownerReferences is an associative list keyed by uid: entries
		// of other managers stay
		mergeOwnerRefs(o, req.Pre, req.Body)
		if controllerRefCount(o) > 1 {
			req.Err = apierrors.NewInvalid(schema.GroupKind{Group: c.gvr.Group, Kind: o.GetKind()}, name, nil)
			return nil, req.Err
		}
		o.SetUID(req.Pre.GetUID())
		o.SetGeneration(req.Pre.GetGeneration())
		if !jsonEqual(o.Object["spec"], req.Pre.Object["spec"]) {
			o.SetGeneration(req.Pre.GetGeneration() + 1)
		}
		if !deepEqualJSON(o.Object, req.Pre.Object) {
			o.SetResourceVersion(req.Pre.GetResourceVersion() + "+")
		}
		c.s.objs[c.s.find(c.gvr.Resource, c.ns, name)].obj = o
		req.Accepted = true
		return o.DeepCopy(), nil
	}
	panic("env: patch type not modelled: " + string(pt))
}

func (c *rc) Apply(ctx context.Context, name string, obj *unstructured.Unstructured, options metav1.ApplyOptions, subresources ...string) (*unstructured.Unstructured, error) {
	panic("env: Apply not modelled")
}
func (c *rc) ApplyStatus(ctx context.Context, name string, obj *unstructured.Unstructured, options metav1.ApplyOptions) (*unstructured.Unstructured, error) {
	panic("env: ApplyStatus not modelled")
}

func mergeOwnerRefs(dst, pre, body *unstructured.Unstructured) {
	preRefs, _, _ := unstructured.NestedSlice(pre.Object, "metadata", "ownerReferences")
	bodyRefs, has, _ := unstructured.NestedSlice(body.Object, "metadata", "ownerReferences")
	if !has {
		if len(preRefs) > 0 {
			unstructured.SetNestedSlice(dst.Object, preRefs, "metadata", "ownerReferences")
		}
		return
	}
	out := []interface{}{}
	for _, p := range preRefs {
		pm, _ := p.(map[string]interface{})
		replaced := false
		for _, b := range bodyRefs {
			bm, _ := b.(map[string]interface{})
			if pm != nil && bm != nil && pm["uid"] == bm["uid"] {
				replaced = true
			}
		}
		if !replaced {
			out = append(out, p)
		}
	}
	out = append(out, bodyRefs...)
	unstructured.SetNestedSlice(dst.Object, out, "metadata", "ownerReferences")
}

// mergePatch applies a JSON merge patch (RFC 7386) to dst in place.
func mergePatch(dst, patch map[string]interface{}) {
	for k, v := range patch {
		if v == nil {
			delete(dst, k)
			continue
		}
		if pm, ok := v.(map[string]interface{}); ok {
			dm, isMap := dst[k].(map[string]interface{})
			if !isMap {
				dm = map[string]interface{}{}
				dst[k] = dm
			}
			mergePatch(dm, pm)
			continue
		}
		dst[k] = v
	}
}

// IsObjectWrite: the request asks for a whole object state of an existing
// object (an update, or a merge patch - Body is then the patched object).
func (r *Req) IsObjectWrite() bool {
	return r.Verb == "update" || (r.Verb == "patch" && r.PatchType == "merge")
}

// overlay writes src over dst recursively (maps merged, everything else replaced).
func overlay(dst, src map[string]interface{}) {
	for k, v := range src {
		if sm, ok := v.(map[string]interface{}); ok {
			if dm, ok := dst[k].(map[string]interface{}); ok {
				overlay(dm, sm)
				continue
			}
		}
		dst[k] = runtime.DeepCopyJSONValue(v)
	}
}

// deepEqualJSON compares two JSON trees structurally.
func deepEqualJSON(a, b interface{}) bool {
	switch x := a.(type) {
	case map[string]interface{}:
		y, ok := b.(map[string]interface{})
		if !ok || len(x) != len(y) {
			return false
		}
		for k, v := range x {
			w, ok := y[k]
			if !ok || !deepEqualJSON(v, w) {
				return false
			}
		}
		return true
	case []interface{}:
		y, ok := b.([]interface{})
		if !ok || len(x) != len(y) {
			return false
		}
		for i := range x {
			if !deepEqualJSON(x[i], y[i]) {
				return false
			}
		}
		return true
	case string:
		y, ok := b.(string)
		return ok && x == y
	case bool:
		y, ok := b.(bool)
		return ok && x == y
	case int64:
		y, ok := b.(int64)
		return ok && x == y
	case float64:
		y, ok := b.(float64)
		return ok && x == y
	case nil:
		return b == nil
	}
	return false
}

// ---- listers over a snapshot ----

type Lister struct {
	Items []*unstructured.Unstructured
	ns    string
	all   bool
}

func NewLister(items ...*unstructured.Unstructured) *Lister { return &Lister{Items: items, all: true} }

func (l *Lister) List(selector labels.Selector) ([]*unstructured.Unstructured, error) {
	var out []*unstructured.Unstructured
	for _, o := range l.Items {
		if !l.all && o.GetNamespace() != l.ns {
			continue
		}
		if selector.Matches(labels.Set(o.GetLabels())) {
			out = append(out, o)
		}
	}
	return out, nil
}

func (l *Lister) Get(name string) (*unstructured.Unstructured, error) {
	for _, o := range l.Items {
		if (l.all && o.GetNamespace() == "" || !l.all && o.GetNamespace() == l.ns) && o.GetName() == name {
			return o, nil
		}
	}
	return nil, apierrors.NewNotFound(schema.GroupResource{}, name)
}

func (l *Lister) Namespace(ns string) dynamiclister.NamespaceLister {
	return &Lister{Items: l.Items, ns: ns}
}

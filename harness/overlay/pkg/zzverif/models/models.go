package models

import (
	apierrors "k8s.io/apimachinery/pkg/api/errors"
	"k8s.io/apimachinery/pkg/util/wait"
	"errors"
	"k8s.io/apimachinery/pkg/labels"
	metav1 "k8s.io/apimachinery/pkg/apis/meta/v1"
	"k8s.io/apimachinery/pkg/apis/meta/v1/unstructured"
)

func Unstructured_SetOwnerReferences(u *unstructured.Unstructured, references []metav1.OwnerReference) {
	if references == nil {
		unstructured.RemoveNestedField(u.Object, "metadata", "ownerReferences")
		return
	}
	newReferences := make([]interface{}, 0, len(references))
	for _, r := range references {
		m := map[string]interface{}{"apiVersion": r.APIVersion, "kind": r.Kind, "name": r.Name, "uid": string(r.UID)}
		if r.Controller != nil {
			m["controller"] = *r.Controller
		}
		if r.BlockOwnerDeletion != nil {
			m["blockOwnerDeletion"] = *r.BlockOwnerDeletion
		}
		newReferences = append(newReferences, m)
	}
	if u.Object == nil {
		u.Object = map[string]interface{}{}
	}
	md, ok := u.Object["metadata"].(map[string]interface{})
	if !ok {
		md = map[string]interface{}{}
		u.Object["metadata"] = md
	}
	md["ownerReferences"] = newReferences
}

func Unstructured_GetDeletionTimestamp(u *unstructured.Unstructured) *metav1.Time {
	s, _, _ := unstructured.NestedString(u.Object, "metadata", "deletionTimestamp")
	if s == "" {
		return nil
	}
	return &metav1.Time{}
}

type req struct {
	key, op string
	vals    []string
}

type Sel struct {
	reqs    []req
	nothing bool
}

func (s *Sel) Matches(l labels.Labels) bool {
	if s.nothing {
		return false
	}
	for _, r := range s.reqs {
		has := l.Has(r.key)
		in := false
		if has {
			v := l.Get(r.key)
			for _, x := range r.vals {
				if x == v {
					in = true
				}
			}
		}
		switch r.op {
		case "in":
			if !has || !in {
				return false
			}
		case "notin":
			if has && in {
				return false
			}
		case "exists":
			if !has {
				return false
			}
		case "!":
			if has {
				return false
			}
		}
	}
	return true
}
func (s *Sel) Empty() bool                                  { return !s.nothing && len(s.reqs) == 0 }
func (s *Sel) String() string                               { return "sel" }
func (s *Sel) Add(r ...labels.Requirement) labels.Selector  { panic("Sel.Add") }
func (s *Sel) Requirements() (labels.Requirements, bool)    { panic("Sel.Requirements") }
func (s *Sel) DeepCopySelector() labels.Selector            { return s }
func (s *Sel) RequiresExactMatch(label string) (string, bool) { panic("Sel.RequiresExactMatch") }

func Labels_Everything() labels.Selector { return &Sel{} }
func Labels_Nothing() labels.Selector    { return &Sel{nothing: true} }

func LabelSelectorAsSelector(ps *metav1.LabelSelector) (labels.Selector, error) {
	if ps == nil {
		return &Sel{nothing: true}, nil
	}
	if len(ps.MatchLabels)+len(ps.MatchExpressions) == 0 {
		return &Sel{}, nil
	}
	s := &Sel{}
	for k, v := range ps.MatchLabels {
		s.reqs = append(s.reqs, req{k, "in", []string{v}})
	}
	for _, e := range ps.MatchExpressions {
		switch e.Operator {
		case metav1.LabelSelectorOpIn:
			if len(e.Values) == 0 {
				return nil, errors.New("values required")
			}
			s.reqs = append(s.reqs, req{e.Key, "in", e.Values})
		case metav1.LabelSelectorOpNotIn:
			if len(e.Values) == 0 {
				return nil, errors.New("values required")
			}
			s.reqs = append(s.reqs, req{e.Key, "notin", e.Values})
		case metav1.LabelSelectorOpExists:
			if len(e.Values) != 0 {
				return nil, errors.New("values forbidden")
			}
			s.reqs = append(s.reqs, req{e.Key, "exists", nil})
		case metav1.LabelSelectorOpDoesNotExist:
			if len(e.Values) != 0 {
				return nil, errors.New("values forbidden")
			}
			s.reqs = append(s.reqs, req{e.Key, "!", nil})
		default:
			return nil, errors.New("bad operator")
		}
	}
	return s, nil
}

// RetryOnError models retry.OnError: fn is attempted backoff.Steps times (as
// wait.ExponentialBackoff does; no sleeping, no jitter), a nil error or one
// that is not retriable ends it, and after the last attempt the last error is
// returned.
func RetryOnError(backoff wait.Backoff, retriable func(error) bool, fn func() error) error {
	steps := backoff.Steps
	if steps < 1 {
		steps = 1
	}
	var last error
	for i := 0; i < steps; i++ {
		err := fn()
		if err == nil {
			return nil
		}
		if !retriable(err) {
			return err
		}
		last = err
	}
	return last
}

func RetryOnConflict(backoff wait.Backoff, fn func() error) error {
	return RetryOnError(backoff, apierrors.IsConflict, fn)
}

func Unstructured_GetCreationTimestamp(u *unstructured.Unstructured) metav1.Time {
	return metav1.Time{}
}

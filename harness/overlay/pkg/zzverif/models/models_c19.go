package models

// Models for C19 / C20(a) (pkg/hooks).

import (
	"io"
	"net/http"

	"github.com/prometheus/client_golang/prometheus"
	pph "github.com/prometheus/client_golang/prometheus/promhttp"
)

// HTTP_NewRequest models net/http.NewRequest: method validation (httpguts
// token table) and URL parsing are not executed; the request carries the
// method, an empty header map and the body.  Assumes a valid method and a
// parsable URL (both are constants / configuration in pkg/hooks).
func HTTP_NewRequest(method, url string, body io.Reader) (*http.Request, error) {
	var rc io.ReadCloser
	if body != nil {
		if c, ok := body.(io.ReadCloser); ok {
			rc = c
		} else {
			rc = io.NopCloser(body)
		}
	}
	return &http.Request{
		Method:     method,
		Proto:      "HTTP/1.1",
		ProtoMajor: 1,
		ProtoMinor: 1,
		Header:     make(http.Header),
		Body:       rc,
	}, nil
}

// The four promhttp round-tripper decorators: pass-through (what they add is
// bookkeeping in prometheus collectors).
func Pph_InFlight(gauge prometheus.Gauge, next http.RoundTripper) pph.RoundTripperFunc {
	return func(r *http.Request) (*http.Response, error) { return next.RoundTrip(r) }
}
func Pph_Counter(counter *prometheus.CounterVec, next http.RoundTripper, opts ...pph.Option) pph.RoundTripperFunc {
	return func(r *http.Request) (*http.Response, error) { return next.RoundTrip(r) }
}
func Pph_Trace(it *pph.InstrumentTrace, next http.RoundTripper) pph.RoundTripperFunc {
	return func(r *http.Request) (*http.Response, error) { return next.RoundTrip(r) }
}
func Pph_Duration(obs prometheus.ObserverVec, next http.RoundTripper, opts ...pph.Option) pph.RoundTripperFunc {
	return func(r *http.Request) (*http.Response, error) { return next.RoundTrip(r) }
}

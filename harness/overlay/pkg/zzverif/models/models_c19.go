package models

// Models for C19 / C20(a) (pkg/hooks).

import (
	"io"
	"net/http"
)

// HTTP_NewRequest models net/http.NewRequest: method validation (httpguts
// token table) and URL parsing are not executed; the request carries the
// method, an empty header map and the body.  Assumes a valid method and a
// parsable URL (both are constants / configuration in pkg/hooks).
func HTTP_NewRequest(method, url string, body io.Reader) (*http.Request, error) {
	var rc io.ReadCloser
	if body != nil {
		if c, ok := body.(io.ReadCloser); ok {
			rc = c
		} else {
			rc = io.NopCloser(body)
		}
	}
	return &http.Request{
		Method:     method,
		Proto:      "HTTP/1.1",
		ProtoMajor: 1,
		ProtoMinor: 1,
		Header:     make(http.Header),
		Body:       rc,
	}, nil
}

// Metrics_InstrumentClient models metrics.InstrumentClientWithConstLabels:
// the prometheus round-tripper decoration is skipped, the client is returned
// as it is and registration never fails.  (controllerType / hookType are the
// string-kinded common.ControllerType / common.HookType; this package must not
// import pkg/controller/common.)
func Metrics_InstrumentClient(controllerName string, controllerType string, hookType string, c *http.Client, url string) (*http.Client, error) {
	return c, nil
}

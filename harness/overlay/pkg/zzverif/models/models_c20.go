package models

// C20 (b)/(c) — models of the client-go machinery that hosted controllers use
// in Start()/Stop(). Wired by harness/engine.d/c20.json (redirect table); they
// exist only under the symbolic executor, the native replay runs the real
// client-go functions (real goroutines, real work queue).
//
// The executor runs a goroutine INLINE to completion at its `go` statement and
// has one schedule. Start() spawns a goroutine that waits for the caches,
// starts the workers and waits for them; Stop() does `<-doneCh`, so that
// goroutine has to run to completion inline:
//
//   cache.WaitForNamedCacheSync   -> engine intrinsic (threads.go): waits
//                                    cooperatively until all sync functions
//                                    are true or the stop channel is closed
//   wait.Until                    -> returns at once if stopCh is closed, else
//                                    calls f exactly once and returns (no
//                                    period, no second round)
//   workqueue.NewTypedRateLimitingQueueWithConfig[any]
//                                 -> C20Queue: FIFO without delays/rate limits;
//                                    Get() on an empty queue reports shutdown
//                                    (so a worker started inline drains what
//                                    is queued and exits instead of blocking);
//                                    ShutDown() only sets a flag
//   workqueue.DefaultTypedControllerRateLimiter[any] -> nil (never consulted by
//                                    C20Queue)
//
// Consequence (stated in props.d/C20.json): under the executor the workers of
// a hosted controller have already exited when Start() returns; whatever is
// enqueued later is not processed. Nothing the C20 harnesses assert or observe
// depends on worker activity (the stub informers are empty, nothing is ever
// enqueued).

import (
	"time"

	"k8s.io/client-go/tools/cache"
	"k8s.io/client-go/util/workqueue"
)

func Cache_WaitForNamedCacheSync(controllerName string, stopCh <-chan struct{}, cacheSyncs ...cache.InformerSynced) bool {
	all := true
	for _, f := range cacheSyncs {
		if !f() {
			all = false
		}
	}
	return all
}

func Wait_Until(f func(), period time.Duration, stopCh <-chan struct{}) {
	select {
	case <-stopCh:
		return
	default:
	}
	f()
}

// C20Queue is the model work queue.
type C20Queue struct {
	Items    []any
	Shut     bool
	Adds     int
	Requeues int
}

func (q *C20Queue) Add(item any) {
	if q.Shut {
		return
	}
	q.Adds++
	for _, it := range q.Items {
		if it == item {
			return
		}
	}
	q.Items = append(q.Items, item)
}
func (q *C20Queue) Len() int { return len(q.Items) }
func (q *C20Queue) Get() (any, bool) {
	if len(q.Items) == 0 {
		return nil, true
	}
	it := q.Items[0]
	q.Items = q.Items[1:]
	return it, false
}
func (q *C20Queue) Done(item any)                       {}
func (q *C20Queue) ShutDown()                           { q.Shut = true }
func (q *C20Queue) ShutDownWithDrain()                  { q.Shut = true }
func (q *C20Queue) ShuttingDown() bool                  { return q.Shut }
func (q *C20Queue) AddAfter(item any, d time.Duration)  { q.Requeues++ }
func (q *C20Queue) AddRateLimited(item any)             { q.Requeues++ }
func (q *C20Queue) Forget(item any)                     {}
func (q *C20Queue) NumRequeues(item any) int            { return 0 }

func Workqueue_NewTypedRateLimitingQueueWithConfig(rateLimiter workqueue.TypedRateLimiter[any], config workqueue.TypedRateLimitingQueueConfig[any]) workqueue.TypedRateLimitingInterface[any] {
	return &C20Queue{}
}

func Workqueue_DefaultTypedControllerRateLimiter() workqueue.TypedRateLimiter[any] {
	return nil
}

package models

// C18 — models of the two client-go constructors the shared informer factory
// depends on:
//
//	k8s.io/client-go/tools/cache.NewSharedIndexInformer  -> Cache_NewSharedIndexInformer
//	k8s.io/client-go/dynamic/dynamiclister.New           -> Dynamiclister_New
//
// Under the symbolic executor they are wired by harness/engine.d/c18.json
// (redirect table). A redirect does not exist in the native (replay) build, so
// the C18 harnesses install the very same stub constructors through the test
// seam of the overlaid pkg/dynamic/informer/informer.go
// (informer.VerifNewSharedIndexInformer / informer.VerifNewLister); engine and
// native runs then execute the same stub, never the real reflector.
//
// The implementation lives in the leaf package zzverif/informerstub because
// the in-package informer harness cannot import this package (import cycle
// through the controller packages other models need).

import (
	"time"

	"k8s.io/apimachinery/pkg/runtime"
	"k8s.io/apimachinery/pkg/runtime/schema"
	"k8s.io/client-go/dynamic/dynamiclister"
	"k8s.io/client-go/tools/cache"

	"metacontroller/pkg/zzverif/informerstub"
)

// Cache_NewSharedIndexInformer models cache.NewSharedIndexInformer: a recording
// stub (Run(stopCh) counted and stopCh remembered, AddEventHandler stores the
// handler, GetIndexer returns a stub indexer, HasSynced true).
func Cache_NewSharedIndexInformer(lw cache.ListerWatcher, exampleObject runtime.Object, defaultEventHandlerResyncPeriod time.Duration, indexers cache.Indexers) cache.SharedIndexInformer {
	return informerstub.NewSharedIndexInformer(lw, exampleObject, defaultEventHandlerResyncPeriod, indexers)
}

// Dynamiclister_New models dynamiclister.New: a lister over the harness-owned
// Items of the stub indexer.
func Dynamiclister_New(indexer cache.Indexer, gvr schema.GroupVersionResource) dynamiclister.Lister {
	return informerstub.NewLister(indexer, gvr)
}

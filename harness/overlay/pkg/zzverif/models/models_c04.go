package models

import "time"

// Time_String models (time.Time).String, which only ever ends up in error and
// log texts (RecheckDeletionTimestamp formats the parent's deletionTimestamp
// with %v): the text is irrelevant to every property, the real formatter needs
// package time's initialised tables.
func Time_String(t time.Time) string { return "<time>" }

package models

// sync.Map for the symbolic executor. The real implementation compares entry
// pointers with a package-level sentinel (`sync.expunged`) that the executor
// does not initialise (package sync's initialiser is not run), so any use of a
// sync.Map made a path inconclusive. The model keeps one ordered association
// list per *sync.Map (deterministic iteration, keys compared with ==, so a
// comparison of symbolic keys is an ordinary branch) behind one mutex - the
// race detector of the executor sees the accesses as ordered by that lock,
// which is what sync.Map guarantees. Natively the real sync.Map runs.

import "sync"

type syncMapState struct {
	keys []any
	vals []any
}

var (
	syncMapMu sync.Mutex
	syncMaps  = map[*sync.Map]*syncMapState{}
)

func syncMapOf(m *sync.Map) *syncMapState {
	s := syncMaps[m]
	if s == nil {
		s = &syncMapState{}
		syncMaps[m] = s
	}
	return s
}

func (s *syncMapState) find(key any) int {
	for i, k := range s.keys {
		if k == key {
			return i
		}
	}
	return -1
}

func SyncMap_Load(m *sync.Map, key any) (any, bool) {
	syncMapMu.Lock()
	defer syncMapMu.Unlock()
	s := syncMapOf(m)
	if i := s.find(key); i >= 0 {
		return s.vals[i], true
	}
	return nil, false
}

func SyncMap_Store(m *sync.Map, key, value any) {
	syncMapMu.Lock()
	defer syncMapMu.Unlock()
	s := syncMapOf(m)
	if i := s.find(key); i >= 0 {
		s.vals[i] = value
		return
	}
	s.keys = append(s.keys, key)
	s.vals = append(s.vals, value)
}

func SyncMap_Swap(m *sync.Map, key, value any) (any, bool) {
	syncMapMu.Lock()
	defer syncMapMu.Unlock()
	s := syncMapOf(m)
	if i := s.find(key); i >= 0 {
		old := s.vals[i]
		s.vals[i] = value
		return old, true
	}
	s.keys = append(s.keys, key)
	s.vals = append(s.vals, value)
	return nil, false
}

func SyncMap_LoadOrStore(m *sync.Map, key, value any) (any, bool) {
	syncMapMu.Lock()
	defer syncMapMu.Unlock()
	s := syncMapOf(m)
	if i := s.find(key); i >= 0 {
		return s.vals[i], true
	}
	s.keys = append(s.keys, key)
	s.vals = append(s.vals, value)
	return value, false
}

func SyncMap_LoadAndDelete(m *sync.Map, key any) (any, bool) {
	syncMapMu.Lock()
	defer syncMapMu.Unlock()
	s := syncMapOf(m)
	i := s.find(key)
	if i < 0 {
		return nil, false
	}
	v := s.vals[i]
	s.keys = append(s.keys[:i:i], s.keys[i+1:]...)
	s.vals = append(s.vals[:i:i], s.vals[i+1:]...)
	return v, true
}

func SyncMap_Delete(m *sync.Map, key any) { SyncMap_LoadAndDelete(m, key) }

func SyncMap_CompareAndSwap(m *sync.Map, key, old, new any) bool {
	syncMapMu.Lock()
	defer syncMapMu.Unlock()
	s := syncMapOf(m)
	if i := s.find(key); i >= 0 && s.vals[i] == old {
		s.vals[i] = new
		return true
	}
	return false
}

func SyncMap_CompareAndDelete(m *sync.Map, key, old any) bool {
	syncMapMu.Lock()
	s := syncMapOf(m)
	i := s.find(key)
	ok := i >= 0 && s.vals[i] == old
	syncMapMu.Unlock()
	if ok {
		SyncMap_LoadAndDelete(m, key)
	}
	return ok
}

func SyncMap_Range(m *sync.Map, f func(key, value any) bool) {
	syncMapMu.Lock()
	s := syncMapOf(m)
	keys := append([]any(nil), s.keys...)
	vals := append([]any(nil), s.vals...)
	syncMapMu.Unlock()
	for i := range keys {
		if !f(keys[i], vals[i]) {
			return
		}
	}
}

func SyncMap_Clear(m *sync.Map) {
	syncMapMu.Lock()
	defer syncMapMu.Unlock()
	delete(syncMaps, m)
}

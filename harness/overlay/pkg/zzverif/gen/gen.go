// Package gen builds symbolic JSON trees and holds the independent reference
// predicates ("laws") the harnesses assert.  Every leaf comparison is a
// separate rt.Assert so that the solver decides it without the harness
// branching on it.
package gen

import (
	"fmt"

	rt "metacontroller/pkg/zzverif/rt"
)

// Kinds of JSON value.
const (
	KAbsent = "absent"
	KNull   = "null"
	KString = "string"
	KInt    = "int"
	KBool   = "bool"
	KMap    = "map"
	KList   = "list"
	KLMap   = "listmap"
)

func Kind(v interface{}, present bool) string {
	if !present {
		return KAbsent
	}
	switch x := v.(type) {
	case nil:
		return KNull
	case string:
		return KString
	case int64:
		return KInt
	case bool:
		return KBool
	case map[string]interface{}:
		return KMap
	case []interface{}:
		for _, it := range x {
			if _, ok := it.(map[string]interface{}); !ok {
				return KList
			}
		}
		if len(x) > 0 {
			return KLMap
		}
		return KList
	}
	return fmt.Sprintf("%T", v)
}

// Shape configures Value.
type Shape struct {
	Depth     int      // remaining nesting depth for maps
	Keys      []string // keys a map may have at each level
	SubKeys   []string // keys of nested maps (default: Keys)
	Nulls     bool
	Ints      bool
	Bools     bool
	Lists     int // max length of plain lists (0 = no lists)
	ListMaps  int // max items of list-maps (0 = none)
	MergeKeys []string
}

// Value returns a symbolic JSON value (present=false means the slot is absent).
func Value(tag string, sh Shape) (v interface{}, present bool) {
	kinds := []string{KAbsent, KString}
	if sh.Nulls {
		kinds = append(kinds, KNull)
	}
	if sh.Ints {
		kinds = append(kinds, KInt)
	}
	if sh.Bools {
		kinds = append(kinds, KBool)
	}
	if sh.Depth > 0 {
		kinds = append(kinds, KMap)
	}
	if sh.Lists > 0 {
		kinds = append(kinds, KList)
	}
	if sh.ListMaps > 0 && sh.Depth > 0 {
		kinds = append(kinds, KLMap)
	}
	switch kinds[rt.Choice(tag+".kind", len(kinds))] {
	case KAbsent:
		return nil, false
	case KNull:
		return nil, true
	case KString:
		return rt.String(tag + ".s"), true
	case KInt:
		return rt.Int64(tag + ".i"), true
	case KBool:
		return rt.Bool(tag + ".b"), true
	case KMap:
		return Map(tag, sh), true
	case KList:
		n := rt.Choice(tag+".len", sh.Lists+1)
		l := make([]interface{}, 0, n)
		for i := 0; i < n; i++ {
			l = append(l, rt.String(fmt.Sprintf("%s[%d]", tag, i)))
		}
		return l, true
	case KLMap:
		n := 1 + rt.Choice(tag+".items", sh.ListMaps)
		l := make([]interface{}, 0, n)
		mk := sh.MergeKeys[rt.Choice(tag+".mk", len(sh.MergeKeys))]
		for i := 0; i < n; i++ {
			it := map[string]interface{}{}
			itag := fmt.Sprintf("%s<%d>", tag, i)
			if mk != "" {
				if mk == "port" {
					it[mk] = rt.Int64(itag + ".key")
				} else {
					it[mk] = rt.String(itag + ".key")
				}
			}
			if rt.Bool(itag + ".hasv") {
				it["v"] = rt.String(itag + ".v")
			}
			l = append(l, it)
		}
		return l, true
	}
	panic("unreachable")
}

// Map returns a map whose keys are a symbolic subset of sh.Keys.
func Map(tag string, sh Shape) map[string]interface{} {
	m := map[string]interface{}{}
	sub := sh
	sub.Depth = sh.Depth - 1
	if sh.SubKeys != nil {
		sub.Keys = sh.SubKeys
	}
	for _, k := range sh.Keys {
		if v, ok := Value(tag+"."+k, sub); ok {
			m[k] = v
		}
	}
	return m
}

// EqLeaf asserts that two scalar (or null) JSON leaves are equal.
func EqLeaf(got, want interface{}, label string) {
	switch w := want.(type) {
	case nil:
		rt.Assert(IsNull(got), label)
	case string:
		g, ok := got.(string)
		rt.Assert(ok, label)
		if ok {
			rt.Assert(g == w, label)
		}
	case int64:
		g, ok := got.(int64)
		rt.Assert(ok, label)
		if ok {
			rt.Assert(g == w, label)
		}
	case bool:
		g, ok := got.(bool)
		rt.Assert(ok, label)
		if ok {
			rt.Assert(g == w, label)
		}
	default:
		rt.Assert(false, label+"/unexpected-leaf-type")
	}
}

// Equal asserts deep equality of two JSON trees (shape concretely, leaves by solver).
func Equal(got, want interface{}, label string) {
	switch w := want.(type) {
	case map[string]interface{}:
		g, ok := got.(map[string]interface{})
		rt.Assert(ok, label)
		if !ok {
			return
		}
		rt.Assert(len(g) == len(w), label)
		for k, wv := range w {
			gv, has := g[k]
			rt.Assert(has, label)
			if has {
				Equal(gv, wv, label)
			}
		}
	case []interface{}:
		g, ok := got.([]interface{})
		rt.Assert(ok, label)
		if !ok {
			return
		}
		rt.Assert(len(g) == len(w), label)
		if len(g) == len(w) {
			for i := range w {
				Equal(g[i], w[i], label)
			}
		}
	default:
		EqLeaf(got, want, label)
	}
}

// DeepCopy copies a JSON tree.
func DeepCopy(v interface{}) interface{} {
	switch x := v.(type) {
	case map[string]interface{}:
		m := make(map[string]interface{}, len(x))
		for k, e := range x {
			m[k] = DeepCopy(e)
		}
		return m
	case []interface{}:
		l := make([]interface{}, len(x))
		for i, e := range x {
			l[i] = DeepCopy(e)
		}
		return l
	}
	return v
}

// IsNull: JSON null, including typed nil maps/slices (which marshal to null).
func IsNull(v interface{}) bool {
	switch x := v.(type) {
	case nil:
		return true
	case map[string]interface{}:
		return x == nil
	case []interface{}:
		return x == nil
	}
	return false
}

// Same reports deep equality of two JSON trees (a value, not an assertion:
// comparing symbolic leaves makes the caller's `if` a symbolic decision).
func Same(a, b interface{}) bool {
	switch x := a.(type) {
	case map[string]interface{}:
		y, ok := b.(map[string]interface{})
		if !ok || len(x) != len(y) || (x == nil) != (y == nil) {
			return false
		}
		for k, xv := range x {
			yv, has := y[k]
			if !has || !Same(xv, yv) {
				return false
			}
		}
		return true
	case []interface{}:
		y, ok := b.([]interface{})
		if !ok || len(x) != len(y) {
			return false
		}
		for i := range x {
			if !Same(x[i], y[i]) {
				return false
			}
		}
		return true
	case string:
		y, ok := b.(string)
		return ok && x == y
	case int64:
		y, ok := b.(int64)
		return ok && x == y
	case float64:
		y, ok := b.(float64)
		return ok && x == y
	case bool:
		y, ok := b.(bool)
		return ok && x == y
	case nil:
		return b == nil
	}
	return false
}

// Package informerstub holds the recording stand-ins for the client-go shared
// informer and dynamic lister used by property C18. It is a leaf package
// (client-go + rt only) so that the in-package harness of
// metacontroller/pkg/dynamic/informer can import it without an import cycle
// (zzverif/models imports controller packages which import the informer
// package). zzverif/models/models_c18.go forwards the redirect targets here.
//
// StubInformer is a *recording* stub: it never lists, never watches, never
// delivers anything by itself.  The harness plays the role of the reflector:
// it edits Indexer.Items (the "cache") and calls the stored handler.
package informerstub

import (
	"sync"
	"time"

	apierrors "k8s.io/apimachinery/pkg/api/errors"
	"k8s.io/apimachinery/pkg/apis/meta/v1/unstructured"
	"k8s.io/apimachinery/pkg/labels"
	"k8s.io/apimachinery/pkg/runtime"
	"k8s.io/apimachinery/pkg/runtime/schema"
	"k8s.io/client-go/dynamic/dynamiclister"
	"k8s.io/client-go/tools/cache"

	rt "metacontroller/pkg/zzverif/rt"
)

// StubInformer implements cache.SharedIndexInformer. Methods that are not
// overridden below are promoted from the embedded nil interface and panic
// (nil dereference) if anything calls them.
type StubInformer struct {
	cache.SharedIndexInformer

	mu sync.Mutex
	// Seq is the creation index in the registry (0,1,2,...).
	Seq int
	// GVR is filled in when a lister is built over this informer's indexer.
	GVR schema.GroupVersionResource
	// Runs counts Run() calls; StopChs remembers the argument of each.
	Runs    int
	StopChs []<-chan struct{}
	// Handlers are the handlers registered with AddEventHandler, in order.
	Handlers []cache.ResourceEventHandler
	// Resync is the defaultEventHandlerResyncPeriod the informer was built with.
	Resync time.Duration
	// ListerWatcher / Indexers: what the code under test passed in.
	ListerWatcher cache.ListerWatcher
	IndexerFuncs  cache.Indexers
	// Indexer is the stub cache returned by GetIndexer.
	Indexer *StubIndexer
	// Unsynced: the initial LIST never completes (HasSynced stays false).
	Unsynced bool
}

// NextUnsynced makes every stub informer created from now on report
// HasSynced() == false (its initial LIST is still pending). Reset clears it.
var NextUnsynced bool

// StubIndexer implements cache.Indexer just far enough for NewLister.
type StubIndexer struct {
	cache.Indexer
	mu    sync.Mutex
	Owner *StubInformer
	// Items is the harness-owned "cache" content.
	Items []*unstructured.Unstructured
	// AfterSnapshot, when set, runs ONCE right after the next read of the cache
	// content (List of the store or of a lister over it) took its snapshot: the
	// harness plays "the informer stores and announces an object at this very
	// moment", however the code under test reads its cache.
	AfterSnapshot func()
}

type stubRegistration struct{}

func (stubRegistration) HasSynced() bool { return true }

var (
	regMu    sync.Mutex
	registry []*StubInformer
)

// Reset forgets every stub informer created so far.
func Reset() {
	regMu.Lock()
	defer regMu.Unlock()
	registry = nil
	NextUnsynced = false
}

// Stubs returns the stub informers created since the last reset, in
// creation order.
func Stubs() []*StubInformer {
	regMu.Lock()
	defer regMu.Unlock()
	return append([]*StubInformer(nil), registry...)
}

// TotalRuns is the number of Run() calls over all stub informers.
func TotalRuns() int {
	n := 0
	for _, s := range Stubs() {
		n += s.RunCount()
	}
	return n
}

// Settle lets goroutines started with `go informer.Run(stopCh)` reach the
// stub. Under the executor goroutines run inline at the go statement, so the
// expected count is already there and nothing is waited for; natively it waits
// (bounded) until `want` Run calls were recorded and then yields a little more
// so that a surplus Run would show as well.
func Settle(want int) {
	for i := 0; i < 400; i++ {
		if TotalRuns() >= want {
			break
		}
		time.Sleep(5 * time.Millisecond)
	}
	if !rt.Symbolic() {
		time.Sleep(3 * time.Millisecond)
	}
}

// NewSharedIndexInformer models cache.NewSharedIndexInformer.
func NewSharedIndexInformer(lw cache.ListerWatcher, exampleObject runtime.Object, defaultEventHandlerResyncPeriod time.Duration, indexers cache.Indexers) cache.SharedIndexInformer {
	s := &StubInformer{Resync: defaultEventHandlerResyncPeriod, ListerWatcher: lw, IndexerFuncs: indexers}
	s.Indexer = &StubIndexer{Owner: s}
	s.Unsynced = NextUnsynced
	regMu.Lock()
	s.Seq = len(registry)
	registry = append(registry, s)
	regMu.Unlock()
	return s
}

// Run records the call and returns immediately (the real one blocks until
// stopCh is closed; nothing in the code under test waits for it to return).
func (s *StubInformer) Run(stopCh <-chan struct{}) {
	s.mu.Lock()
	defer s.mu.Unlock()
	s.Runs++
	s.StopChs = append(s.StopChs, stopCh)
}

func (s *StubInformer) RunCount() int {
	s.mu.Lock()
	defer s.mu.Unlock()
	return s.Runs
}

// StopCh returns the stop channel of the i-th Run call (nil if none).
func (s *StubInformer) StopCh(i int) <-chan struct{} {
	s.mu.Lock()
	defer s.mu.Unlock()
	if i >= len(s.StopChs) {
		return nil
	}
	return s.StopChs[i]
}

// Stopped reports whether Run was called and every stop channel handed to Run
// has been closed.
func (s *StubInformer) Stopped() bool {
	s.mu.Lock()
	defer s.mu.Unlock()
	if len(s.StopChs) == 0 {
		return false
	}
	for _, ch := range s.StopChs {
		if !Closed(ch) {
			return false
		}
	}
	return true
}

// Closed reports whether ch is closed (nothing is ever sent on it).
func Closed(ch <-chan struct{}) bool {
	if ch == nil {
		return false
	}
	select {
	case <-ch:
		return true
	default:
		return false
	}
}

func (s *StubInformer) AddEventHandler(handler cache.ResourceEventHandler) (cache.ResourceEventHandlerRegistration, error) {
	s.mu.Lock()
	defer s.mu.Unlock()
	s.Handlers = append(s.Handlers, handler)
	return stubRegistration{}, nil
}

func (s *StubInformer) AddEventHandlerWithResyncPeriod(handler cache.ResourceEventHandler, resyncPeriod time.Duration) (cache.ResourceEventHandlerRegistration, error) {
	return s.AddEventHandler(handler)
}

func (s *StubInformer) RemoveEventHandler(handle cache.ResourceEventHandlerRegistration) error {
	return nil
}

func (s *StubInformer) HandlerCount() int {
	s.mu.Lock()
	defer s.mu.Unlock()
	return len(s.Handlers)
}

// Handler returns the i-th registered handler.
func (s *StubInformer) Handler(i int) cache.ResourceEventHandler {
	s.mu.Lock()
	defer s.mu.Unlock()
	return s.Handlers[i]
}

func (s *StubInformer) GetStore() cache.Store     { return s.Indexer }
func (s *StubInformer) GetIndexer() cache.Indexer { return s.Indexer }
func (s *StubInformer) HasSynced() bool {
	s.mu.Lock()
	defer s.mu.Unlock()
	return !s.Unsynced
}
func (s *StubInformer) LastSyncResourceVersion() string { return "" }
func (s *StubInformer) IsStopped() bool                 { return s.Stopped() }
func (s *StubInformer) AddIndexers(indexers cache.Indexers) error {
	return nil
}
func (s *StubInformer) SetWatchErrorHandler(handler cache.WatchErrorHandler) error { return nil }
func (s *StubInformer) SetTransform(handler cache.TransformFunc) error             { return nil }

// ---- indexer: only List is meaningful ----

func (x *StubIndexer) List() []interface{} {
	items := x.snapshot()
	out := make([]interface{}, 0, len(items))
	for _, o := range items {
		out = append(out, o)
	}
	return out
}

func (x *StubIndexer) snapshot() []*unstructured.Unstructured {
	x.mu.Lock()
	items := append([]*unstructured.Unstructured(nil), x.Items...)
	f := x.AfterSnapshot
	x.AfterSnapshot = nil
	x.mu.Unlock()
	if f != nil {
		f()
	}
	return items
}

// CompleteList plays "the initial LIST arrives": the cache content appears and
// the informer reports synced (safe to call while other goroutines read).
func (s *StubInformer) CompleteList(items ...*unstructured.Unstructured) {
	s.Indexer.mu.Lock()
	s.Indexer.Items = append(s.Indexer.Items, items...)
	s.Indexer.mu.Unlock()
	s.mu.Lock()
	s.Unsynced = false
	s.mu.Unlock()
}

// ---- lister over the stub indexer's Items ----

type stubLister struct {
	indexer *StubIndexer
	gvr     schema.GroupVersionResource
	ns      string
	all     bool
}

// NewLister models dynamiclister.New: a lister over the objects
// currently in the stub indexer's Items (read at every call, like the real
// lister reads the live indexer).
func NewLister(indexer cache.Indexer, gvr schema.GroupVersionResource) dynamiclister.Lister {
	x, _ := indexer.(*StubIndexer)
	if x == nil {
		x = &StubIndexer{}
	}
	if x.Owner != nil {
		x.Owner.GVR = gvr
	}
	return &stubLister{indexer: x, gvr: gvr, all: true}
}

func (l *stubLister) List(selector labels.Selector) ([]*unstructured.Unstructured, error) {
	var out []*unstructured.Unstructured
	for _, o := range l.indexer.snapshot() {
		if !l.all && o.GetNamespace() != l.ns {
			continue
		}
		if selector.Matches(labels.Set(o.GetLabels())) {
			out = append(out, o)
		}
	}
	return out, nil
}

func (l *stubLister) Get(name string) (*unstructured.Unstructured, error) {
	for _, o := range l.indexer.snapshot() {
		if (l.all && o.GetNamespace() == "" || !l.all && o.GetNamespace() == l.ns) && o.GetName() == name {
			return o, nil
		}
	}
	return nil, apierrors.NewNotFound(l.gvr.GroupResource(), name)
}

func (l *stubLister) Namespace(ns string) dynamiclister.NamespaceLister {
	return &stubLister{indexer: l.indexer, gvr: l.gvr, ns: ns}
}

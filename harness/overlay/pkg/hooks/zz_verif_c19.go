package hooks

// C19 — hook transport: only 200 / a valid 304|412 is an answer; cached bodies
// match their ETag; 429 carries Retry-After; strict / loose decoding.
//
// Real code: (*webhookExecutor).Call, webhookExecutorPlain, webhookExecutorEtag
// (enrichHeaders, isStatusSupported, adjustResponse), newWebhookExecutor,
// pkg/cache over zcache.  Stubbed: the HTTP client (HttpClientInterface).

import (
	"errors"
	"io"
	"net/http"
	kjson "sigs.k8s.io/json"
	"strconv"
	"time"

	"k8s.io/apimachinery/pkg/apis/meta/v1/unstructured"

	"metacontroller/pkg/apis/metacontroller/v1alpha1"
	"metacontroller/pkg/cache"
	"metacontroller/pkg/controller/common"
	"metacontroller/pkg/logging"
	"metacontroller/pkg/zzverif/logsink"
	rt "metacontroller/pkg/zzverif/rt"
)

// ---------------------------------------------------------------- fixtures

// Response texts.  They are real JSON handled by the real strict parser when
// the harness runs natively; under the executor sigs.k8s.io/json.UnmarshalStrict
// is modelled (engine/sinterp/intrinsics_c19.go).
const (
	// (numbers travel as the hook wrote them: integral ones stay integers, exactly)
	verifBodyFresh   = `{"status":{"n":"fresh","i":3,"big":1696400000123456789}}`
	verifBodyCached  = `{"status":{"n":"cached"}}`
	verifBodyUnknown = `{"status":{"n":"fresh"},"bogus":1}`
	verifBodyDup     = `{"status":{},"status":{"n":"fresh"}}`
	verifBodyInvalid = `{`
	// a cached answer that carries an unknown field
	verifBodyCachedUnknown = `{"status":{"n":"cached"},"bogus":1}`
)

var (
	errVerifTransport = errors.New("verif: transport failure / timeout")
	errVerifRead      = errors.New("verif: body read failure")
)

type verifReq struct {
	Parent *unstructured.Unstructured `json:"parent"`
}

func (r *verifReq) GetRootObject() *unstructured.Unstructured { return r.Parent }

type verifResp struct {
	Status map[string]interface{} `json:"status"`
}

// verifNumbersExact: the integers of the fresh body arrive as integers with
// their exact value, in every decoding mode (the status is compared with and
// written to the parent as decoded: a float where the API server holds an
// integer never compares equal, and a large one is rounded).
func verifNumbersExact(r *verifResp, mode string) {
	i, okI := r.Status["i"].(int64)
	rt.Assert(okI && i == 3, mode+"/integer-in-status-not-decoded-as-integer")
	big, okB := r.Status["big"].(int64)
	rt.Assert(okB && big == 1696400000123456789, mode+"/large-integer-in-status-not-exact")
}

func (r *verifResp) n() string {
	if r.Status == nil {
		return "<no status>"
	}
	s, ok := r.Status["n"].(string)
	if !ok {
		return "<no n>"
	}
	return s
}

func verifParent(name string) *unstructured.Unstructured {
	return &unstructured.Unstructured{Object: map[string]interface{}{
		"apiVersion": "ex.com/v1",
		"kind":       "Thing",
		"metadata":   map[string]interface{}{"namespace": "ns", "name": name},
	}}
}

func verifKey(name string) eTagKey { return eTagKey{kind: "Thing", namespace: "ns", name: name} }

type verifBody struct {
	data   []byte
	off    int
	fail   bool
	closed bool
}

func (b *verifBody) Read(p []byte) (int, error) {
	if b.fail {
		return 0, errVerifRead
	}
	if b.off >= len(b.data) {
		return 0, io.EOF
	}
	n := copy(p, b.data[b.off:])
	b.off += n
	return n, nil
}

func (b *verifBody) Close() error { b.closed = true; return nil }

// verifClient is the scripted HTTP client: it records what was sent and
// answers with a prepared response (or a transport error).
type verifClient struct {
	calls   int
	inmSent bool   // an If-None-Match header was present in the last request
	inm     string // its value
	ctype   string
	fail    bool
	resp    *http.Response
	// hook invoked inside the round trip (nested-call harness)
	during func()
}

func (c *verifClient) Do(req *http.Request) (*http.Response, error) {
	c.calls++
	v, ok := req.Header["If-None-Match"]
	c.inmSent = ok
	c.inm = ""
	if ok && len(v) > 0 {
		c.inm = v[0]
	}
	if ct := req.Header["Content-Type"]; len(ct) > 0 {
		c.ctype = ct[0]
	}
	if c.during != nil {
		c.during()
	}
	if c.fail {
		return nil, errVerifTransport
	}
	return c.resp, nil
}

func verifMode(sel int) (*v1alpha1.ResponseUnmarshallMode, bool) {
	switch sel {
	case 1:
		m := v1alpha1.ResponseUnmarshallModeLoose
		return &m, false
	case 2:
		m := v1alpha1.ResponseUnmarshallModeStrict
		return &m, true
	}
	return nil, false
}

func verifNow() time.Time {
	t, _ := time.Parse(time.RFC3339, "2015-10-21T07:27:00Z")
	return t
}

// ---------------------------------------------------------------- status gate

// VerifC19_StatusGate: one real Call with a symbolic status code, symbolic
// ETag header, every body outcome, strict / loose / default mode, plain or
// ETag executor with the cache entry absent / present / expired.
func VerifC19_StatusGate() {
	// the branches that log request and response bodies at verbosity 6 are code
	// of the transport too
	if rt.Bool("log-verbosity-6") {
		rt.Cover("verbose")
		saved := logging.Logger
		defer func() { logging.Logger = saved }()
		logging.Logger = logsink.Verbose()
	}
	etagMode := rt.Bool("etag-mode")
	mode, strict := verifMode(rt.Choice("unmarshal-mode", 3))

	parent := verifParent("p")
	key := verifKey("p")

	var abstract webhookAbstract = &webhookExecutorPlain{}
	var etagExec *webhookExecutorEtag
	var entryBefore *eTagEntry
	cacheState := 0 // 0 absent, 1 present, 2 expired
	cachedEtag := ""
	cachedBody := verifBodyCached
	cachedStrictErrs := false
	if etagMode {
		cacheState = rt.Choice("cache-state", 3)
		if cacheState != 0 {
			cachedEtag = rt.String("cached-etag")
			rt.Assume(cachedEtag != "") // the only writer never stores an empty ETag
			if rt.Bool("cached-has-unknown-field") {
				cachedBody = verifBodyCachedUnknown
				cachedStrictErrs = true
			}
		}
		entry := &eTagEntry{Etag: cachedEtag, Response: []byte(cachedBody)}
		entryBefore = entry
		switch cacheState {
		case 0:
			etagExec = &webhookExecutorEtag{etagCache: cache.New[eTagKey, *eTagEntry](0, 0)}
		case 1:
			etagExec = &webhookExecutorEtag{etagCache: cache.New[eTagKey, *eTagEntry](0, 0)}
			etagExec.etagCache.Set(key, entry)
		case 2:
			etagExec = &webhookExecutorEtag{etagCache: cache.VerifNewWithExpired[eTagKey, *eTagEntry](time.Hour, map[eTagKey]*eTagEntry{key: entry})}
		}
		abstract = etagExec
	}

	// the scripted answer
	code := int(rt.Int64("code"))
	rt.Assume(code >= 100)
	rt.Assume(code <= 599)
	hdr := http.Header{}
	respEtag := ""
	if rt.Bool("resp-has-etag") {
		respEtag = rt.String("resp-etag")
		hdr["Etag"] = []string{respEtag}
	}
	bodyKind := rt.Choice("body", 6)
	body := &verifBody{}
	decodable, strictErrs := true, false
	switch bodyKind {
	case 5:
		// "any byte sequence as body": junk of a length around the powers of two
		// at which code that quotes or abbreviates bodies tends to cut
		n := []int{0, 1, 255, 256, 511, 512, 513, 1023, 1024, 1025}[rt.Choice("junk-length", 10)]
		junk := make([]byte, n)
		for i := range junk {
			junk[i] = 'x'
		}
		body.data = junk
		decodable = false
		rt.Cover("junk-body-of-boundary-length")
	case 0:
		body.data = []byte(verifBodyFresh)
	case 1:
		body.data = []byte(verifBodyUnknown)
		strictErrs = true
	case 2:
		body.data = []byte(verifBodyDup)
		strictErrs = true
	case 3:
		body.data = []byte(verifBodyInvalid)
		decodable = false
	case 4:
		body.fail = true
		decodable = false
	}
	client := &verifClient{
		fail: rt.Bool("transport-error"),
		resp: &http.Response{StatusCode: code, Header: hdr, Body: body},
	}

	w := newWebhookExecutor(client, "http://hook.ns/sync", common.SyncHook, mode, abstract, verifNow)
	var resp verifResp
	err := w.Call(&verifReq{Parent: parent}, &resp)

	rt.Observe("err", err != nil)
	rt.Assert(client.calls == 1, "call/not-exactly-one-round-trip")
	rt.Assert(client.ctype == "application/json", "call/content-type")

	// what was sent
	if etagMode && cacheState == 1 {
		rt.Assert(client.inmSent, "etag/if-none-match-not-sent-despite-entry")
		rt.Assert(client.inm == cachedEtag, "etag/if-none-match-differs-from-cached-etag")
	} else {
		rt.Assert(!client.inmSent, "etag/if-none-match-sent-without-entry")
	}

	if client.fail {
		rt.Cover("transport-error")
		rt.Assert(err != nil, "call/nil-on-transport-error")
		return
	}
	if code == 429 {
		rt.Cover("429")
		rt.Assert(err != nil, "429/nil")
		var tmr *TooManyRequestError
		isTMR := errors.As(err, &tmr)
		rt.Assert(isTMR, "429/not-TooManyRequestError")
		if isTMR {
			rt.Assert(tmr.AfterSecond == 0, "429/delay-without-retry-after")
		}
		return
	}
	// an error that is not 429 must not look like one
	var tmr *TooManyRequestError
	rt.Assert(!errors.As(err, &tmr), "call/TooManyRequestError-without-429")

	fromCache := false
	statusOK := false
	if code == 200 {
		statusOK = true
	} else if code == 304 {
		fromCache = true
	} else if code == 412 {
		fromCache = true
	}
	if fromCache {
		// usable only with ETag support on, If-None-Match sent, entry present
		if etagMode && client.inmSent && cacheState == 1 {
			statusOK = true
		}
	}
	if !statusOK {
		rt.Cover("unsupported-status")
		rt.Assert(err != nil, "call/nil-on-unsupported-status")
		// a rejected answer leaves no trace: only accepted answers are cached
		if etagMode {
			e, ok := etagExec.etagCache.Get(key)
			if cacheState == 1 {
				rt.Assert(ok && e == entryBefore, "etag/rejected-answer-replaced-the-cached-entry")
			} else {
				rt.Assert(!ok, "etag/rejected-answer-was-cached")
			}
		}
		return
	}
	if body.fail {
		// the transport failed while the answer was read: like a timeout
		rt.Cover("body-read-error")
		rt.Assert(err != nil, "call/nil-on-body-read-error")
		return
	}
	if fromCache {
		decodable, strictErrs = true, cachedStrictErrs
	}
	want := "fresh"
	if fromCache {
		want = "cached"
	}
	switch {
	case !decodable:
		rt.Cover("undecodable-body")
		rt.Assert(err != nil, "call/nil-on-undecodable-body")
	case strict && strictErrs:
		rt.Cover("strict-rejects-malformed")
		rt.Assert(err != nil, "strict/accepted-unknown-or-duplicate-field")
	case strict:
		rt.Cover("strict-wellformed")
		rt.Assert(err == nil, "strict/rejected-well-formed")
		if err == nil && !fromCache {
			verifNumbersExact(&resp, "strict")
		}
	case strictErrs:
		rt.Cover("loose-accepts-malformed")
		rt.Assert(err == nil, "loose/rejected-unknown-or-duplicate-field")
		if err == nil {
			rt.Assert(resp.n() == want, "loose/decoded-body-differs")
		}
	default:
		if fromCache {
			rt.Cover("answered-from-cache")
		} else {
			rt.Cover("answered-200")
		}
		rt.Assert(err == nil, "call/rejected-good-answer")
		if err == nil {
			rt.Assert(resp.n() == want, "call/decoded-body-differs")
			if !fromCache {
				verifNumbersExact(&resp, "loose")
			}
		}
	}
	// a fresh answer carrying an ETag is remembered together with that ETag
	if etagMode && err == nil && code == 200 && respEtag != "" {
		e, ok := etagExec.etagCache.Get(key)
		rt.Assert(ok, "etag/fresh-answer-not-cached")
		if ok {
			rt.Assert(e.Etag == respEtag, "etag/cached-under-other-etag")
			rt.Assert(string(e.Response) == string(body.data), "etag/cached-body-differs")
		}
	}
}

// ---------------------------------------------------------------- 429 / Retry-After

// VerifC19_RetryAfter: a 429 answer yields *TooManyRequestError whose delay is
// the numeric Retry-After (unsigned decimal, symbolic), the distance to an
// HTTP date (concrete dates, injected clock), 0 when absent or garbage.
func VerifC19_RetryAfter() {
	var abstract webhookAbstract = &webhookExecutorPlain{}
	if rt.Bool("etag-mode") {
		abstract = &webhookExecutorEtag{etagCache: cache.New[eTagKey, *eTagEntry](0, 0)}
	}
	mode, _ := verifMode(rt.Choice("unmarshal-mode", 3))
	hdr := http.Header{}
	now := verifNow // 2015-10-21 07:27:00 UTC
	want := 0
	wantNonPositive := false
	symbolicWant := false
	var wantSym int64
	switch rt.Choice("retry-after", 7) {
	case 6:
		rt.Cover("retry-after-seconds-leading-zeros")
		hdr["Retry-After"] = []string{"0120"}
		want = 120
	case 0:
		rt.Cover("retry-after-absent")
	case 1:
		rt.Cover("retry-after-seconds")
		n := rt.Int64("seconds")
		rt.Assume(n >= 0)
		rt.Assume(n <= 999999999)
		hdr["Retry-After"] = []string{strconv.Itoa(int(n))}
		symbolicWant, wantSym = true, n
	case 2:
		rt.Cover("retry-after-garbage")
		switch rt.Choice("garbage", 5) {
		case 0:
			hdr["Retry-After"] = []string{""}
		case 1:
			hdr["Retry-After"] = []string{"soon"}
		case 2:
			hdr["Retry-After"] = []string{"1.5"}
		case 3:
			hdr["Retry-After"] = []string{"12s"}
		case 4:
			// any text that starts with a letter
			hdr["Retry-After"] = []string{"x" + rt.String("garbage-tail")}
		}
	case 3:
		rt.Cover("retry-after-date")
		hdr["Retry-After"] = []string{"Wed, 21 Oct 2015 07:28:00 GMT"}
		want = 60
	case 4:
		rt.Cover("retry-after-date-fraction")
		hdr["Retry-After"] = []string{"Wed, 21 Oct 2015 07:28:00 GMT"}
		now = func() time.Time {
			t, _ := time.Parse(time.RFC3339Nano, "2015-10-21T07:27:00.5Z")
			return t
		}
		want = 60 // 59.5 s rounded up
	case 5:
		rt.Cover("retry-after-date-in-the-past")
		hdr["Retry-After"] = []string{"Wed, 21 Oct 2015 07:26:00 GMT"}
		wantNonPositive = true
	}
	client := &verifClient{resp: &http.Response{StatusCode: 429, Header: hdr, Body: &verifBody{data: []byte(verifBodyFresh)}}}
	w := newWebhookExecutor(client, "http://hook.ns/sync", common.SyncHook, mode, abstract, now)
	var resp verifResp
	err := w.Call(&verifReq{Parent: verifParent("p")}, &resp)

	rt.Assert(err != nil, "429/nil")
	var tmr *TooManyRequestError
	isTMR := errors.As(err, &tmr)
	rt.Assert(isTMR, "429/not-TooManyRequestError")
	if !isTMR {
		return
	}
	rt.Observe("after", tmr.AfterSecond)
	switch {
	case symbolicWant:
		rt.Assert(int64(tmr.AfterSecond) == wantSym, "429/delay-differs-from-retry-after-seconds")
	case wantNonPositive:
		rt.Assert(tmr.AfterSecond <= 0, "429/positive-delay-for-past-date")
	default:
		rt.Assert(tmr.AfterSecond == want, "429/delay-differs-from-retry-after")
	}
}

// ---------------------------------------------------------------- interleavings

// verifServer is the scripted hook server of the interleaving harnesses: every
// state r of the resource it serves has the entity tag verifTag(r) and the
// body verifVersion(r).  A conditional request carrying the tag of the state
// it is answered in gets 304 with no body, anything else 200 with tag + body.
func verifTag(r int) string { return [...]string{"e0", "e1", "e2"}[r] }
func verifVersion(r int) string {
	return [...]string{`{"status":{"n":"v0"}}`, `{"status":{"n":"v1"}}`, `{"status":{"n":"v2"}}`}[r]
}

// verifBodyOfTag is the server's association tag -> body.
func verifBodyOfTag(tag string) string {
	for r := 0; r < 3; r++ {
		if verifTag(r) == tag {
			return verifVersion(r)
		}
	}
	return "<no such tag>"
}

func verifAnswer(req *http.Request, r int) (*http.Response, []byte, string, bool) {
	inm := ""
	sent := false
	if v, ok := req.Header["If-None-Match"]; ok && len(v) > 0 {
		inm, sent = v[0], true
	}
	if sent && inm == verifTag(r) {
		return &http.Response{StatusCode: 304, Header: http.Header{"Etag": []string{verifTag(r)}}}, []byte{}, inm, sent
	}
	return &http.Response{StatusCode: 200, Header: http.Header{"Etag": []string{verifTag(r)}}}, []byte(verifVersion(r)), inm, sent
}

type verifCallState struct {
	pc      int // 0 enrich, 1 round trip, 2 adjust, 3 done
	req     *http.Request
	wreq    *verifReq
	resp    *http.Response
	body    []byte
	sentTag string
	sent    bool
}

// VerifC19_Interleave runs the real enrichHeaders / isStatusSupported /
// adjustResponse of 2 (quick) or 3 (thorough) calls about the same parent in
// every order of their three steps; the state of the served resource at each
// round trip is symbolic (it may differ per call: other revision of the parent,
// or the resource changed meanwhile).
func VerifC19_Interleave() {
	n := 2
	states := 2 // "the state whose tag was sent" / "another state"; tag e2 is spare
	if rt.Tier() == 1 {
		n = 3
	}
	w := &webhookExecutorEtag{etagCache: cache.New[eTagKey, *eTagEntry](0, 0)}
	if rt.Bool("cache-warm") {
		r0 := rt.Choice("cached-state", states)
		w.etagCache.Set(verifKey("p"), &eTagEntry{Etag: verifTag(r0), Response: []byte(verifVersion(r0))})
	}
	calls := make([]*verifCallState, n)
	for i := range calls {
		calls[i] = &verifCallState{
			req:  &http.Request{Method: "POST", Header: http.Header{}},
			wreq: &verifReq{Parent: verifParent("p")},
		}
	}
	served304, served200 := 0, 0
	for step := 0; step < 3*n; step++ {
		var runnable []int
		for i, c := range calls {
			if c.pc < 3 {
				runnable = append(runnable, i)
			}
		}
		k := runnable[0]
		// the calls are interchangeable: the very first step is call 0's
		if step > 0 && len(runnable) > 1 {
			k = runnable[rt.Choice("next", len(runnable))]
		}
		c := calls[k]
		switch c.pc {
		case 0:
			w.enrichHeaders(c.req, c.wreq)
		case 1:
			r := rt.Choice("resource-state", states)
			c.resp, c.body, c.sentTag, c.sent = verifAnswer(c.req, r)
			rt.Assert(w.isStatusSupported(c.req, c.resp), "interleave/answer-refused")
		case 2:
			// the cached entry may have expired (TTL) since the request was sent
			if c.resp.StatusCode == 304 && rt.Bool("entry-expired-before-the-answer-arrived") {
				rt.Cover("entry-expired-meanwhile")
				w.etagCache.VerifExpire(verifKey("p"))
			}
			pre, preOK := w.etagCache.Get(verifKey("p"))
			got, err := w.adjustResponse(c.req, c.wreq, c.body, c.resp)
			if c.resp.StatusCode == 304 {
				served304++
				if err != nil {
					// refusing a 304 is acceptable only when the entry that was
					// cached with the sent tag is gone
					rt.Cover("304-refused")
					if preOK {
						rt.Assert(pre.Etag != c.sentTag, "interleave/304-refused-although-entry-with-sent-etag-present")
					}
				} else {
					rt.Assert(string(got) == verifBodyOfTag(c.sentTag), "interleave/304-body-not-the-one-cached-with-sent-etag")
				}
			} else {
				served200++
				rt.Assert(err == nil, "interleave/200-error")
				if err == nil {
					rt.Assert(string(got) == string(c.body), "interleave/200-body-not-the-fresh-one")
				}
			}
		}
		c.pc++
	}
	if served304 > 0 {
		rt.Cover("some-304")
	}
	if served200 > 0 {
		rt.Cover("some-200")
	}
	// afterwards the cache pairs a tag with the body of that tag
	if e, ok := w.etagCache.Get(verifKey("p")); ok {
		rt.Cover("entry-at-end")
		rt.Assert(string(e.Response) == verifBodyOfTag(e.Etag), "interleave/cache-pairs-tag-with-other-body")
	}
}

// VerifC19_NestedCall: the same through the real Call — a complete call B
// happens inside call A's round trip (A's answer computed before or after B).
func VerifC19_NestedCall() {
	w := &webhookExecutorEtag{etagCache: cache.New[eTagKey, *eTagEntry](0, 0)}
	if rt.Bool("cache-warm") {
		r0 := rt.Choice("cached-state", 2)
		w.etagCache.Set(verifKey("p"), &eTagEntry{Etag: verifTag(r0), Response: []byte(verifVersion(r0))})
	}
	mode, _ := verifMode(rt.Choice("unmarshal-mode", 2)) // default or loose
	rA := rt.Choice("resource-state-A", 2)
	rB := rt.Choice("resource-state-B", 2)
	var exec *webhookExecutor
	var respB verifResp
	var errB error
	inner := &verifNestedClient{r: rB}
	outer := &verifNestedClient{r: rA}
	outer.during = func() {
		exec.client = inner
		errB = exec.Call(&verifReq{Parent: verifParent("p")}, &respB)
		exec.client = outer
	}
	exec = newWebhookExecutor(outer, "http://hook.ns/sync", common.SyncHook, mode, w, verifNow)
	var respA verifResp
	errA := exec.Call(&verifReq{Parent: verifParent("p")}, &respA)

	// nothing interferes with the inner call
	rt.Assert(errB == nil, "nested/inner-call-failed")
	if errB == nil {
		rt.Assert(verifStatusText(inner, respB.n()), "nested/inner-call-got-other-body")
	}
	textA := `{"status":{"n":"` + respA.n() + `"}}`
	if outer.code == 304 {
		rt.Cover("outer-304")
		if errA != nil {
			// refusing is acceptable only when the entry cached with the sent tag
			// is gone (the outer call's adjustment is the last cache access)
			rt.Cover("outer-304-refused")
			if e, ok := w.etagCache.Get(verifKey("p")); ok {
				rt.Assert(e.Etag != outer.sentTag, "nested/304-refused-although-entry-with-sent-etag-present")
			}
		} else {
			rt.Assert(textA == verifBodyOfTag(outer.sentTag), "nested/304-body-not-the-one-cached-with-sent-etag")
		}
	} else {
		rt.Cover("outer-200")
		rt.Assert(errA == nil, "nested/outer-200-failed")
		if errA == nil {
			rt.Assert(textA == verifVersion(rA), "nested/200-body-not-the-fresh-one")
		}
	}
}

func verifStatusText(c *verifNestedClient, n string) bool {
	text := `{"status":{"n":"` + n + `"}}`
	if c.code == 304 {
		return text == verifBodyOfTag(c.sentTag)
	}
	return text == verifVersion(c.r)
}

type verifNestedClient struct {
	r       int
	during  func()
	code    int
	sentTag string
}

func (c *verifNestedClient) Do(req *http.Request) (*http.Response, error) {
	if c.during != nil {
		c.during()
	}
	resp, body, tag, _ := verifAnswer(req, c.r)
	c.code, c.sentTag = resp.StatusCode, tag
	resp.Body = &verifBody{data: body}
	return resp, nil
}

// VerifC19_CacheIntegrity: a cached body stays what it was when it was cached.
// Whole real Calls, one after the other: parent p is answered 200 (tag + body
// cached), then OTHER hook traffic passes through the same executor (another
// parent, 1-2 calls, bodies of other lengths), then p is asked again and the
// server answers 304: p must get exactly the body that was cached with the tag
// it sent - not bytes of a later response that reuse the same memory.
func VerifC19_CacheIntegrity() {
	w := &webhookExecutorEtag{etagCache: cache.New[eTagKey, *eTagEntry](0, 0)}
	mode, _ := verifMode(rt.Choice("unmarshal-mode", 2))
	rP := rt.Choice("resource-state-p", 2)
	client := &verifNestedClient{r: rP}
	exec := newWebhookExecutor(client, "http://hook.ns/sync", common.SyncHook, mode, w, verifNow)

	var first verifResp
	err := exec.Call(&verifReq{Parent: verifParent("p")}, &first)
	rt.Assert(err == nil && client.code == 200, "integrity/first-call-not-answered-200")
	rt.Assert(first.n() == "v"+string(rune('0'+rP)), "integrity/first-call-got-other-body")

	// other traffic: parent q, state 2 (another text), once or twice
	others := 1 + rt.Choice("calls-in-between", 2)
	for i := 0; i < others; i++ {
		client.r = 2
		var other verifResp
		errO := exec.Call(&verifReq{Parent: verifParent("q")}, &other)
		rt.Assert(errO == nil, "integrity/other-call-failed")
		rt.Assert(other.n() == "v2", "integrity/other-call-got-other-body")
	}

	// p again; the resource has not changed: 304
	client.r = rP
	var again verifResp
	err = exec.Call(&verifReq{Parent: verifParent("p")}, &again)
	rt.Assert(client.code == 304, "integrity/second-call-not-conditional")
	rt.Assert(err == nil, "integrity/304-refused-although-entry-with-sent-etag-present")
	if err == nil {
		rt.Cover("integrity/answered-from-cache")
		rt.Assert(again.n() == first.n(), "integrity/304-body-differs-from-what-was-cached-with-the-etag")
	}
	if e, ok := w.etagCache.Get(verifKey("p")); ok {
		rt.Assert(string(e.Response) == verifBodyOfTag(e.Etag), "integrity/cache-pairs-tag-with-other-body")
	}
}

// ---------------------------------------------------------------- decode model

// VerifC19_DecodeModel pins the agreed meaning of every response text used
// above and, being a single concrete path that is always replayed natively,
// cross-checks the executor's model of sigs.k8s.io/json.UnmarshalStrict
// against the real parser on exactly these texts (observations must agree).
func VerifC19_DecodeModel() {
	type c struct {
		text   string
		bad    bool
		strict int
		n      string
	}
	for _, k := range []c{
		{verifBodyFresh, false, 0, "fresh"},
		{verifBodyCached, false, 0, "cached"},
		{verifBodyUnknown, false, 1, "fresh"},
		{verifBodyCachedUnknown, false, 1, "cached"},
		{verifBodyDup, false, 1, "fresh"},
		{verifBodyInvalid, true, 0, "<no status>"},
		{"", true, 0, "<no status>"},
		{verifVersion(0), false, 0, "v0"},
		{verifVersion(1), false, 0, "v1"},
		{verifVersion(2), false, 0, "v2"},
	} {
		var r verifResp
		strictErrs, err := kjson.UnmarshalStrict([]byte(k.text), &r)
		rt.Observe("err", err != nil)
		rt.Observe("strict", len(strictErrs))
		rt.Observe("n", r.n())
		rt.Assert((err != nil) == k.bad, "decode-model/error-outcome")
		rt.Assert(len(strictErrs) == k.strict, "decode-model/strict-error-count")
		rt.Assert(r.n() == k.n, "decode-model/decoded-value")
	}
	rt.Cover("decode-model-checked")
}

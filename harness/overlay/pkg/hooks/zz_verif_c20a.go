package hooks

// C20 (a) — hook constructors with every optional field of v1alpha1.Webhook,
// ServiceReference and WebhookEtagConfig nil or set: NewHook /
// NewWebhookExecutor / webhookURL / webhookTimeout / isEtagEnabled return a
// value or an error and never panic ("unusable webhook settings ... does not
// take the process down"), URL precedence and defaults, timeout default.
//
// Real code: all of the above, newWebhookExecutor, cache.New over zcache.
// Modelled inside pkg/metrics: getOrCreateMetrics (no prometheus collectors) and
// the promhttp round-tripper decorators (pass-through); the rest is real.

import (
	"net/http"
	"strconv"
	"time"

	metav1 "k8s.io/apimachinery/pkg/apis/meta/v1"

	"metacontroller/pkg/apis/metacontroller/v1alpha1"
	"metacontroller/pkg/controller/common"
	rt "metacontroller/pkg/zzverif/rt"
)

// verifPanics runs f and reports whether it panicked.
func verifPanics(f func()) (panicked bool) {
	defer func() {
		if r := recover(); r != nil {
			panicked = true
		}
	}()
	f()
	return false
}

type verifURLShape struct {
	hasURL, hasPath, hasService, hasPort, hasProtocol bool
	url, path, name, namespace, protocol              string
	port                                              int32
}

// verifURLFields fills the URL related fields of wh symbolically.
func verifURLFields(wh *v1alpha1.Webhook) verifURLShape {
	var s verifURLShape
	if s.hasURL = rt.Bool("has-url"); s.hasURL {
		s.url = rt.String("url")
		wh.URL = &s.url
	}
	if s.hasPath = rt.Bool("has-path"); s.hasPath {
		s.path = rt.String("path")
		wh.Path = &s.path
	}
	if s.hasService = rt.Bool("has-service"); s.hasService {
		s.name = rt.String("service-name")
		s.namespace = rt.String("service-namespace")
		svc := &v1alpha1.ServiceReference{Name: s.name, Namespace: s.namespace}
		if s.hasPort = rt.Bool("has-port"); s.hasPort {
			s.port = rt.Int32("port")
			svc.Port = &s.port
		}
		if s.hasProtocol = rt.Bool("has-protocol"); s.hasProtocol {
			s.protocol = rt.String("protocol")
			svc.Protocol = &s.protocol
		}
		wh.Service = svc
	}
	return s
}

// verifSeconds picks a representative number of seconds (the executor has no
// symbolic multiplication): 0, a positive value, and in the thorough tier a
// negative one.
func verifSeconds(tag string, positive int32) int32 {
	n := 2
	if rt.Tier() == 1 {
		n = 3
	}
	switch rt.Choice(tag, n) {
	case 1:
		return positive
	case 2:
		return -1
	}
	return 0
}

// verifExpectURL is the rule of the documentation: a full url overrides
// everything; otherwise service (with name and namespace) and path are
// required; port defaults to 80, protocol to http.
func verifExpectURL(s verifURLShape) (url string, ok bool) {
	if s.hasURL {
		return s.url, true
	}
	if !s.hasService || !s.hasPath {
		return "", false
	}
	if s.name == "" {
		return "", false
	}
	if s.namespace == "" {
		return "", false
	}
	port := "80"
	if s.hasPort {
		port = strconv.Itoa(int(s.port))
	}
	protocol := "http"
	if s.hasProtocol {
		protocol = s.protocol
	}
	return protocol + "://" + s.name + "." + s.namespace + ":" + port + s.path, true
}

func VerifC20a_URL() {
	wh := &v1alpha1.Webhook{}
	s := verifURLFields(wh)
	var got string
	var err error
	panicked := verifPanics(func() { got, err = webhookURL(wh) })
	rt.Assert(!panicked, "url/panic")
	if panicked {
		return
	}
	want, ok := verifExpectURL(s)
	rt.Observe("err", err != nil)
	if !ok {
		rt.Cover("url-invalid")
		rt.Assert(err != nil, "url/no-error-for-unusable-settings")
		return
	}
	rt.Assert(err == nil, "url/error-for-usable-settings")
	rt.Assert(got == want, "url/differs-from-documented-rule")
	switch {
	case s.hasURL:
		rt.Cover("url-full")
	case s.hasPort && s.hasProtocol:
		rt.Cover("url-service-explicit")
	case !s.hasPort && !s.hasProtocol:
		rt.Cover("url-service-defaults")
	}
}

// verifTimeoutField: nil, or a symbolic duration.
func verifTimeoutField(wh *v1alpha1.Webhook) (has bool, d int64) {
	if has = rt.Bool("has-timeout"); has {
		d = rt.Int64("timeout-ns")
		wh.Timeout = &metav1.Duration{Duration: time.Duration(d)}
	}
	return
}

func verifExpectTimeout(has bool, d int64) int64 {
	if !has {
		return int64(10 * time.Second)
	}
	if d <= 0 {
		return int64(10 * time.Second)
	}
	return d
}

func VerifC20a_Timeout() {
	wh := &v1alpha1.Webhook{}
	has, d := verifTimeoutField(wh)
	var got time.Duration
	panicked := verifPanics(func() { got, _ = webhookTimeout(wh) })
	rt.Assert(!panicked, "timeout/panic")
	if panicked {
		return
	}
	want := verifExpectTimeout(has, d)
	rt.Assert(int64(got) == want, "timeout/differs-from-documented-rule")
	rt.Assert(int64(got) > 0, "timeout/not-positive")
	if int64(got) == int64(10*time.Second) {
		rt.Cover("timeout-default")
	} else {
		rt.Cover("timeout-given")
	}
}

// VerifC20a_Constructor: NewHook -> NewWebhookExecutor over the whole option
// space.
func VerifC20a_Constructor() {
	ctrlName := rt.String("controller-name")
	ctrlType := common.ControllerType(rt.String("controller-type"))
	thorough := rt.Tier() == 1
	hookType := common.SyncHook

	var hook *v1alpha1.Hook
	var wh *v1alpha1.Webhook
	var us verifURLShape
	hasTimeout, timeout := false, int64(0)
	hasEtag, hasEnabled, enabled, hasCTS, hasCCS := false, false, false, false, false
	hasMode := false
	var modeVal v1alpha1.ResponseUnmarshallMode
	if rt.Bool("has-hook") {
		hook = &v1alpha1.Hook{}
		if thorough && rt.Bool("has-version") {
			v := v1alpha1.HookVersion(rt.String("version"))
			hook.Version = &v
		}
		if rt.Bool("has-webhook") {
			wh = &v1alpha1.Webhook{}
			hook.Webhook = wh
			us = verifURLFields(wh)
			hasTimeout, timeout = verifTimeoutField(wh)
			if hasEtag = rt.Bool("has-etag"); hasEtag {
				wh.Etag = &v1alpha1.WebhookEtagConfig{}
				if hasEnabled = rt.Bool("has-etag-enabled"); hasEnabled {
					enabled = rt.Bool("etag-enabled")
					wh.Etag.Enabled = &enabled
				}
				if hasCTS = rt.Bool("has-cache-timeout"); hasCTS {
					v := verifSeconds("cache-timeout-s", 300)
					wh.Etag.CacheTimeoutSeconds = &v
				}
				if hasCCS = rt.Bool("has-cache-cleanup"); hasCCS {
					v := verifSeconds("cache-cleanup-s", 30)
					wh.Etag.CacheCleanupSeconds = &v
				}
			}
			if hasMode = rt.Bool("has-mode"); hasMode {
				// any text: nothing at construction time depends on its value
				modeVal = v1alpha1.ResponseUnmarshallMode(rt.String("mode"))
				wh.ResponseUnmarshallMode = &modeVal
			}
		}
	}

	var h Hook
	var err error
	panicked := verifPanics(func() { h, err = NewHook(hook, ctrlName, ctrlType, hookType) })
	if panicked {
		// label by the (concrete) shape of the configuration
		switch {
		case hasEtag && hasEnabled && hasCTS && !hasCCS:
			rt.Assert(false, "ctor/panic/cache-timeout-set-cleanup-interval-unset")
		default:
			rt.Assert(false, "ctor/panic/other-configuration")
		}
		return
	}
	rt.Observe("err", err != nil)
	// a value or an error, not both, not neither
	if err != nil {
		rt.Assert(h == nil, "ctor/value-and-error")
	} else {
		rt.Assert(h != nil, "ctor/neither-value-nor-error")
	}
	if wh == nil {
		rt.Cover("no-webhook")
		rt.Assert(err == nil, "ctor/error-without-webhook")
		if err == nil && h != nil {
			rt.Assert(!h.IsEnabled(), "ctor/enabled-without-webhook")
		}
		return
	}
	wantURL, urlOK := verifExpectURL(us)
	if !urlOK {
		rt.Cover("unusable-url-settings")
		rt.Assert(err != nil, "ctor/no-error-for-unusable-settings")
		return
	}
	rt.Assert(err == nil, "ctor/error-for-usable-settings")
	if err != nil || h == nil {
		return
	}
	rt.Assert(h.IsEnabled(), "ctor/not-enabled-with-webhook")
	impl, isImpl := h.(*hookExecutorImpl)
	rt.Assert(isImpl, "ctor/unexpected-hook-type")
	if !isImpl {
		return
	}
	ex, isEx := impl.webhookExecutor.(*webhookExecutor)
	rt.Assert(isEx, "ctor/unexpected-executor-type")
	if !isEx {
		return
	}
	rt.Assert(ex.url == wantURL, "ctor/url-differs-from-documented-rule")
	rt.Assert(ex.hookType == "sync", "ctor/hook-type")
	cl, isCl := ex.client.(*http.Client)
	rt.Assert(isCl && cl != nil, "ctor/no-http-client")
	if isCl && cl != nil {
		rt.Assert(int64(cl.Timeout) == verifExpectTimeout(hasTimeout, timeout), "ctor/timeout-differs-from-documented-rule")
	}
	if hasMode {
		rt.Assert(ex.responseUnmarshallMode == modeVal, "ctor/unmarshal-mode-not-taken")
	} else {
		rt.Assert(ex.responseUnmarshallMode == v1alpha1.ResponseUnmarshallModeLoose, "ctor/unmarshal-mode-default-not-loose")
	}
	wantEtag := hasEtag && hasEnabled && enabled
	_, isEtag := ex.webhookAbstract.(*webhookExecutorEtag)
	_, isPlain := ex.webhookAbstract.(*webhookExecutorPlain)
	if wantEtag {
		rt.Cover("etag-executor")
		rt.Assert(isEtag, "ctor/etag-enabled-but-plain-executor")
		rt.Assert(isEtagEnabled(wh), "ctor/isEtagEnabled-false")
	} else {
		rt.Cover("plain-executor")
		rt.Assert(isPlain, "ctor/etag-not-enabled-but-etag-executor")
		rt.Assert(!isEtagEnabled(wh), "ctor/isEtagEnabled-true")
	}
}

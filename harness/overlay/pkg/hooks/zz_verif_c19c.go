package hooks

// C19 — "with ETag support off a 304/412 is an error and no If-None-Match is
// sent", decided on an executor that the REAL constructor built from a webhook
// configuration (the other C19 harnesses assemble the plain / ETag executor by
// hand). The `etag` block ranges over: absent, present without `enabled`,
// enabled false / true, each with or without the two cache durations. The
// executor's HTTP client is then replaced by a scripted one and two calls for
// the same parent are made: the first is answered 200 with an ETag, the second
// 304 (or 412, or 200 again).

import (
	"net/http"

	"metacontroller/pkg/apis/metacontroller/v1alpha1"
	"metacontroller/pkg/controller/common"
	rt "metacontroller/pkg/zzverif/rt"
)

func VerifC19_EtagSwitch() {
	url := "http://hook.ns/sync"
	wh := &v1alpha1.Webhook{URL: &url}
	want := false
	switch rt.Choice("etag-block", 4) {
	case 0:
		rt.Cover("switch/no-etag-block")
	case 1:
		rt.Cover("switch/etag-block-without-enabled")
		wh.Etag = &v1alpha1.WebhookEtagConfig{}
	case 2:
		rt.Cover("switch/enabled-false")
		off := false
		wh.Etag = &v1alpha1.WebhookEtagConfig{Enabled: &off}
	case 3:
		rt.Cover("switch/enabled-true")
		on := true
		wh.Etag = &v1alpha1.WebhookEtagConfig{Enabled: &on}
		want = true
	}
	if wh.Etag != nil {
		if rt.Bool("has-cache-timeout") {
			v := int32(300)
			wh.Etag.CacheTimeoutSeconds = &v
		}
		if rt.Bool("has-cache-cleanup") {
			v := int32(30)
			wh.Etag.CacheCleanupSeconds = &v
		}
	}
	kind := common.CompositeController
	if rt.Bool("decorator") {
		kind = common.DecoratorController
	}
	we, err := NewWebhookExecutor(wh, "cc", kind, common.SyncHook)
	rt.Assert(err == nil && we != nil, "switch/executor-not-built")
	if err != nil || we == nil {
		return
	}
	ex, ok := we.(*webhookExecutor)
	rt.Assert(ok, "switch/executor-type")
	if !ok {
		return
	}
	tag := rt.String("etag")
	rt.Assume(tag != "")
	client := &verifClient{resp: &http.Response{StatusCode: 200, Header: http.Header{"Etag": []string{tag}}, Body: &verifBody{data: []byte(verifBodyCached)}}}
	ex.client = client

	var first verifResp
	err1 := ex.Call(&verifReq{Parent: verifParent("p")}, &first)
	rt.Assert(err1 == nil, "switch/first-call/200-rejected")
	rt.Assert(!client.inmSent, "switch/first-call/if-none-match-sent-with-nothing-cached")
	rt.Assert(first.n() == "cached", "switch/first-call/answer-is-not-the-body")

	second := rt.Choice("second-answer", 3)
	code := []int{304, 412, 200}[second]
	body := &verifBody{data: []byte{}}
	if code == 200 {
		body = &verifBody{data: []byte(verifBodyFresh)}
	}
	client.resp = &http.Response{StatusCode: code, Header: http.Header{"Etag": []string{tag}}, Body: body}
	var resp verifResp
	err2 := ex.Call(&verifReq{Parent: verifParent("p")}, &resp)
	rt.Observe("err2", err2 != nil)
	rt.Assert(client.calls == 2, "switch/second-call/not-exactly-one-request")
	if !want {
		rt.Assert(!client.inmSent, "switch/etag-off/if-none-match-sent")
		if code == 200 {
			rt.Assert(err2 == nil, "switch/etag-off/200-rejected")
			rt.Assert(resp.n() == "fresh", "switch/etag-off/200-answer-is-not-the-body")
		} else {
			rt.Cover("switch/etag-off/304-412-is-an-error")
			rt.Assert(err2 != nil, "switch/etag-off/304-or-412-taken-for-an-answer")
		}
		return
	}
	rt.Assert(client.inmSent, "switch/etag-on/if-none-match-not-sent")
	rt.Assert(client.inm == tag, "switch/etag-on/if-none-match-is-not-the-cached-etag")
	switch code {
	case 304:
		rt.Cover("switch/etag-on/304-answered-from-cache")
		rt.Assert(err2 == nil, "switch/etag-on/valid-304-rejected")
		rt.Assert(resp.n() == "cached", "switch/etag-on/304-answer-is-not-the-cached-body")
	case 412:
		// 412 Precondition Failed: documented like 304 for the ETag executor
		rt.Cover("switch/etag-on/412")
		if err2 == nil {
			rt.Assert(resp.n() == "cached", "switch/etag-on/412-answer-is-not-the-cached-body")
		}
	default:
		rt.Assert(err2 == nil, "switch/etag-on/200-rejected")
		rt.Assert(resp.n() == "fresh", "switch/etag-on/200-answer-is-not-the-body")
	}
}

// VerifC19_DecodedNumbers: the lemma the controllers' "is the status already
// what the hook wants" comparisons stand on (decorator: DeepEqual of the stored
// status and the answer's status, C16; composite: the same inside
// updateParentStatus, C11) - in every unmarshal mode, through the plain and the
// ETag executor, for a fresh 200 and for a 304 answered from the cache, the
// integral numbers of the body arrive as int64 with their exact value (what the
// API server's own decoder produces for the stored object), never as float64.
func VerifC19_DecodedNumbers() {
	mode, _ := verifMode(rt.Choice("unmarshal-mode", 3))
	modeName := []string{"default", "loose", "strict"}[0]
	if mode != nil {
		modeName = string(*mode)
	}
	url := "http://hook.ns/sync"
	wh := &v1alpha1.Webhook{URL: &url, ResponseUnmarshallMode: mode}
	etag := rt.Bool("etag")
	if etag {
		on := true
		wh.Etag = &v1alpha1.WebhookEtagConfig{Enabled: &on}
	}
	we, err := NewWebhookExecutor(wh, "cc", common.DecoratorController, common.SyncHook)
	rt.Assert(err == nil && we != nil, "numbers/executor-not-built")
	if err != nil || we == nil {
		return
	}
	ex, ok := we.(*webhookExecutor)
	if !ok {
		rt.Assert(false, "numbers/executor-type")
		return
	}
	client := &verifClient{resp: &http.Response{StatusCode: 200, Header: http.Header{"Etag": []string{"t1"}}, Body: &verifBody{data: []byte(verifBodyFresh)}}}
	ex.client = client
	var first verifResp
	err1 := ex.Call(&verifReq{Parent: verifParent("p")}, &first)
	rt.Assert(err1 == nil, "numbers/200-rejected")
	if err1 != nil {
		return
	}
	rt.Cover("numbers/fresh")
	verifNumbersExact(&first, "numbers/"+modeName+"/fresh")
	if !etag {
		return
	}
	client.resp = &http.Response{StatusCode: 304, Header: http.Header{"Etag": []string{"t1"}}, Body: &verifBody{data: []byte{}}}
	var second verifResp
	err2 := ex.Call(&verifReq{Parent: verifParent("p")}, &second)
	rt.Assert(err2 == nil, "numbers/valid-304-rejected")
	if err2 != nil {
		return
	}
	rt.Cover("numbers/from-cache")
	verifNumbersExact(&second, "numbers/"+modeName+"/from-cache")
}

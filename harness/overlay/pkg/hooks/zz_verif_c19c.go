package hooks

// C19 — "with ETag support off a 304/412 is an error and no If-None-Match is
// sent", decided on an executor that the REAL constructor built from a webhook
// configuration (the other C19 harnesses assemble the plain / ETag executor by
// hand). The `etag` block ranges over: absent, present without `enabled`,
// enabled false / true, each with or without the two cache durations. The
// executor's HTTP client is then replaced by a scripted one and two calls for
// the same parent are made: the first is answered 200 with an ETag, the second
// 304 (or 412, or 200 again).

import (
	"net/http"

	"metacontroller/pkg/apis/metacontroller/v1alpha1"
	"metacontroller/pkg/controller/common"
	rt "metacontroller/pkg/zzverif/rt"
)

func VerifC19_EtagSwitch() {
	url := "http://hook.ns/sync"
	wh := &v1alpha1.Webhook{URL: &url}
	want := false
	switch rt.Choice("etag-block", 4) {
	case 0:
		rt.Cover("switch/no-etag-block")
	case 1:
		rt.Cover("switch/etag-block-without-enabled")
		wh.Etag = &v1alpha1.WebhookEtagConfig{}
	case 2:
		rt.Cover("switch/enabled-false")
		off := false
		wh.Etag = &v1alpha1.WebhookEtagConfig{Enabled: &off}
	case 3:
		rt.Cover("switch/enabled-true")
		on := true
		wh.Etag = &v1alpha1.WebhookEtagConfig{Enabled: &on}
		want = true
	}
	if wh.Etag != nil {
		if rt.Bool("has-cache-timeout") {
			v := int32(300)
			wh.Etag.CacheTimeoutSeconds = &v
		}
		if rt.Bool("has-cache-cleanup") {
			v := int32(30)
			wh.Etag.CacheCleanupSeconds = &v
		}
	}
	kind := common.CompositeController
	if rt.Bool("decorator") {
		kind = common.DecoratorController
	}
	we, err := NewWebhookExecutor(wh, "cc", kind, common.SyncHook)
	rt.Assert(err == nil && we != nil, "switch/executor-not-built")
	if err != nil || we == nil {
		return
	}
	ex, ok := we.(*webhookExecutor)
	rt.Assert(ok, "switch/executor-type")
	if !ok {
		return
	}
	tag := rt.String("etag")
	rt.Assume(tag != "")
	client := &verifClient{resp: &http.Response{StatusCode: 200, Header: http.Header{"Etag": []string{tag}}, Body: &verifBody{data: []byte(verifBodyCached)}}}
	ex.client = client

	var first verifResp
	err1 := ex.Call(&verifReq{Parent: verifParent("p")}, &first)
	rt.Assert(err1 == nil, "switch/first-call/200-rejected")
	rt.Assert(!client.inmSent, "switch/first-call/if-none-match-sent-with-nothing-cached")
	rt.Assert(first.n() == "cached", "switch/first-call/answer-is-not-the-body")

	second := rt.Choice("second-answer", 3)
	code := []int{304, 412, 200}[second]
	body := &verifBody{data: []byte{}}
	if code == 200 {
		body = &verifBody{data: []byte(verifBodyFresh)}
	}
	client.resp = &http.Response{StatusCode: code, Header: http.Header{"Etag": []string{tag}}, Body: body}
	var resp verifResp
	err2 := ex.Call(&verifReq{Parent: verifParent("p")}, &resp)
	rt.Observe("err2", err2 != nil)
	rt.Assert(client.calls == 2, "switch/second-call/not-exactly-one-request")
	if !want {
		rt.Assert(!client.inmSent, "switch/etag-off/if-none-match-sent")
		if code == 200 {
			rt.Assert(err2 == nil, "switch/etag-off/200-rejected")
			rt.Assert(resp.n() == "fresh", "switch/etag-off/200-answer-is-not-the-body")
		} else {
			rt.Cover("switch/etag-off/304-412-is-an-error")
			rt.Assert(err2 != nil, "switch/etag-off/304-or-412-taken-for-an-answer")
		}
		return
	}
	rt.Assert(client.inmSent, "switch/etag-on/if-none-match-not-sent")
	rt.Assert(client.inm == tag, "switch/etag-on/if-none-match-is-not-the-cached-etag")
	switch code {
	case 304:
		rt.Cover("switch/etag-on/304-answered-from-cache")
		rt.Assert(err2 == nil, "switch/etag-on/valid-304-rejected")
		rt.Assert(resp.n() == "cached", "switch/etag-on/304-answer-is-not-the-cached-body")
	case 412:
		// 412 Precondition Failed: documented like 304 for the ETag executor
		rt.Cover("switch/etag-on/412")
		if err2 == nil {
			rt.Assert(resp.n() == "cached", "switch/etag-on/412-answer-is-not-the-cached-body")
		}
	default:
		rt.Assert(err2 == nil, "switch/etag-on/200-rejected")
		rt.Assert(resp.n() == "fresh", "switch/etag-on/200-answer-is-not-the-body")
	}
}

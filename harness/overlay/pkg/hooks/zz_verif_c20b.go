package hooks

// C20 — "changing its spec ... starts a new one with the new configuration",
// hook side: a controller instance builds its hooks with NewHook; when the
// CompositeController / DecoratorController is changed (or deleted and created
// again) a NEW instance builds NEW hooks under the same controller name, hook
// type and - typically - URL. Everything the new spec says about the webhook
// (timeout, ETag mode, unmarshal mode) has to be in the new hook, whatever the
// process remembered about the old one (instrumentation is cached per
// name/type/url for the life of the process).

import (
	"net/http"
	"time"

	metav1 "k8s.io/apimachinery/pkg/apis/meta/v1"

	"metacontroller/pkg/apis/metacontroller/v1alpha1"
	"metacontroller/pkg/controller/common"
	rt "metacontroller/pkg/zzverif/rt"
)

func verifC20bHook(url string, seconds int, etag bool, strict bool) *v1alpha1.Hook {
	wh := &v1alpha1.Webhook{URL: &url}
	if seconds > 0 {
		wh.Timeout = &metav1.Duration{Duration: time.Duration(seconds) * time.Second}
	}
	if etag {
		on := true
		wh.Etag = &v1alpha1.WebhookEtagConfig{Enabled: &on}
	}
	if strict {
		m := v1alpha1.ResponseUnmarshallModeStrict
		wh.ResponseUnmarshallMode = &m
	}
	return &v1alpha1.Hook{Webhook: wh}
}

func VerifC20_RestartedHookUsesNewSettings() {
	secs := []int{0, 3, 30} // 0 = not set (default 10 s)
	t1 := secs[rt.Choice("first-timeout", 3)]
	t2 := secs[rt.Choice("second-timeout", 3)]
	etag1, etag2 := rt.Bool("first-etag"), rt.Bool("second-etag")
	strict1, strict2 := rt.Bool("first-strict"), rt.Bool("second-strict")
	sameURL := rt.Bool("same-url")
	url1, url2 := "http://hook.ns/sync", "http://hook.ns/sync"
	if !sameURL {
		url2 = "http://hook.ns/sync-v2"
	}
	kind := common.CompositeController
	if rt.Bool("decorator") {
		kind = common.DecoratorController
	}
	h1, err1 := NewHook(verifC20bHook(url1, t1, etag1, strict1), "cc", kind, common.SyncHook)
	rt.Assert(err1 == nil && h1 != nil, "restart/first-hook-not-built")
	h2, err2 := NewHook(verifC20bHook(url2, t2, etag2, strict2), "cc", kind, common.SyncHook)
	rt.Assert(err2 == nil && h2 != nil, "restart/second-hook-not-built")
	if err1 != nil || err2 != nil || h1 == nil || h2 == nil {
		return
	}
	rt.Cover("restart/both-built")
	check := func(h Hook, url string, seconds int, etag, strict bool, what string) {
		impl, ok := h.(*hookExecutorImpl)
		rt.Assert(ok && impl.webhookExecutor != nil, what+"/not-a-webhook-hook")
		if !ok || impl.webhookExecutor == nil {
			return
		}
		w, ok := impl.webhookExecutor.(*webhookExecutor)
		rt.Assert(ok, what+"/executor-type")
		if !ok {
			return
		}
		rt.Assert(w.url == url, what+"/url-is-not-the-configured-one")
		want := 10 * time.Second
		if seconds > 0 {
			want = time.Duration(seconds) * time.Second
		}
		c, isClient := w.client.(*http.Client)
		rt.Assert(isClient && c != nil, what+"/client-type")
		if isClient && c != nil {
			rt.Assert(c.Timeout == want, what+"/timeout-is-not-the-configured-one")
		}
		_, isEtag := w.webhookAbstract.(*webhookExecutorEtag)
		rt.Assert(isEtag == etag, what+"/etag-mode-is-not-the-configured-one")
		wantMode := v1alpha1.ResponseUnmarshallModeLoose
		if strict {
			wantMode = v1alpha1.ResponseUnmarshallModeStrict
		}
		rt.Assert(w.responseUnmarshallMode == wantMode, what+"/unmarshal-mode-is-not-the-configured-one")
	}
	check(h1, url1, t1, etag1, strict1, "restart/first")
	check(h2, url2, t2, etag2, strict2, "restart/second")
	// the two instances share nothing a call could go through
	i1, i2 := h1.(*hookExecutorImpl), h2.(*hookExecutorImpl)
	rt.Assert(i1.webhookExecutor != i2.webhookExecutor, "restart/executor-shared-between-instances")
}

package customize

// C13 (customize hook part) — a malformed customize response must not panic
// the sync (GetRelatedObjects) nor the related-object event handlers
// (findRelatedParents), which run on informer goroutines.

import (
	metav1 "k8s.io/apimachinery/pkg/apis/meta/v1"
	"k8s.io/apimachinery/pkg/apis/meta/v1/unstructured"

	"metacontroller/pkg/apis/metacontroller/v1alpha1"
	dynamicdiscovery "metacontroller/pkg/dynamic/discovery"
	"metacontroller/pkg/zzverif/env"
	rt "metacontroller/pkg/zzverif/rt"
)

func VerifC13_CustomizeResponse() {
	var rules []*v1alpha1.RelatedResourceRule
	good := &v1alpha1.RelatedResourceRule{ResourceRule: v1alpha1.ResourceRule{APIVersion: "v1", Resource: "configmaps"}}
	what := ""
	switch rt.Choice("malformed-rule", 6) {
	case 0:
		what = "valid"
		rules = append(rules, good)
	case 1:
		what = "null-rule"
		rules = append(rules, nil)
	case 2:
		what = "null-rule-after-valid"
		rules = append(rules, good, nil)
	case 3:
		what = "unknown-resource"
		// (a resource unknown to discovery; a known-but-not-yet-watched resource would
		// need the lazily created informer, which is outside this harness)
		rules = append(rules, &v1alpha1.RelatedResourceRule{ResourceRule: v1alpha1.ResourceRule{APIVersion: rt.OneOf(rt.String("apiVersion"), "v1", "nosuch/v1"), Resource: "nosuchresources"}})
	case 4:
		what = "bad-selector-operator"
		rules = append(rules, &v1alpha1.RelatedResourceRule{ResourceRule: good.ResourceRule,
			LabelSelector: &metav1.LabelSelector{MatchExpressions: []metav1.LabelSelectorRequirement{{Key: "k", Operator: metav1.LabelSelectorOperator(rt.String("operator")), Values: []string{"v"}}}}})
	default:
		what = "empty-rule"
		rules = append(rules, &v1alpha1.RelatedResourceRule{})
	}
	f := verifC15NewFixture([]*dynamicdiscovery.APIResource{env.ThingRes}, env.ConfigMapRes, rules)
	p := env.Thing("ns", "p", "puid")
	f.parentListers["things"].Items = []*unstructured.Unstructured{p}
	rel := env.ConfigMap("ns", "r", "ruid", "v")
	f.relLister.Items = []*unstructured.Unstructured{rel}

	_, err := f.mgr.GetRelatedObjects(p)
	rt.Observe("err", err != nil)
	if what == "valid" {
		rt.Assert(err == nil, "customize/valid-response-rejected")
		rt.Cover("valid")
	} else {
		rt.Cover("malformed")
	}
	// the event path shares the cached response
	f.mgr.onRelatedAdd(rel)
	rt.Cover("event-delivered")
}

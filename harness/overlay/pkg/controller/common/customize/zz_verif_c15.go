package customize

// C15 — related objects: the hook gets exactly what its customize rules select
// (and the related-object part of C14: every listed object wakes the parent).
//
// Real code: (*Manager).GetRelatedObjects, getCustomizeHookResponse,
// getCachedCustomizeHookResponse, getRelatedClient (informer already present),
// determineSelectionType, toSelector, listObjects, matchesRelatedRule,
// findRelatedParents, notifyRelatedParents, onRelatedAdd/Update/Delete,
// UniformObjectMap.{InitGroup,Insert,InsertAll,List,Convert},
// RelativeObjectMap.{InitGroup,Insert,InsertAll}, the real response cache
// (pkg/cache over zgo.at/zcache), the real dynamic Clientset / discovery map.
// Stubs: the customize hook (returns harness-chosen rules, counts calls), the
// informers' listers (snapshot listers of package env), enqueueParent
// (records its argument).

import (
	"strings"
	"sync"
	"time"

	metav1 "k8s.io/apimachinery/pkg/apis/meta/v1"
	"k8s.io/apimachinery/pkg/apis/meta/v1/unstructured"
	"k8s.io/apimachinery/pkg/runtime/schema"
	clientgo_cache "k8s.io/client-go/tools/cache"

	"metacontroller/pkg/apis/metacontroller/v1alpha1"
	"metacontroller/pkg/cache"
	"metacontroller/pkg/controller/common/api"
	v1 "metacontroller/pkg/controller/common/customize/api/v1"
	dynamicdiscovery "metacontroller/pkg/dynamic/discovery"
	dynamicinformer "metacontroller/pkg/dynamic/informer"
	"metacontroller/pkg/zzverif/env"
	rt "metacontroller/pkg/zzverif/rt"
)

// ---------------------------------------------------------------- fixture

// verifC15Hook stands for the user's customize webhook: it answers every call
// with the same harness-chosen rules and counts the calls.
type verifC15Hook struct {
	mu    sync.Mutex // the hook may be called from several goroutines (C17)
	rules []*v1alpha1.RelatedResourceRule
	calls int
	fail  int // the first `fail` calls return an error
}

type verifC15HookError struct{}

func (verifC15HookError) Error() string { return "customize hook failed" }

func (h *verifC15Hook) IsEnabled() bool { return true }
func (h *verifC15Hook) Call(request api.WebhookRequest, response interface{}) error {
	h.mu.Lock()
	defer h.mu.Unlock()
	h.calls++
	if h.calls <= h.fail {
		return verifC15HookError{}
	}
	response.(*v1.CustomizeHookResponse).RelatedResourceRules = h.rules
	return nil
}

type verifC15Fixture struct {
	w             *env.World
	mgr           *Manager
	hook          *verifC15Hook
	enq           []interface{}
	relRes        *dynamicdiscovery.APIResource
	parentListers map[string]*env.Lister // by parent resource name
	relLister     *env.Lister
}

func verifC15GVR(r *dynamicdiscovery.APIResource) schema.GroupVersionResource {
	return schema.GroupVersionResource{Group: r.Group, Version: r.Version, Resource: r.Name}
}

func verifC15GVK(r *dynamicdiscovery.APIResource) api.GroupVersionKind {
	return api.GroupVersionKind{GroupVersionKind: schema.GroupVersionKind{Group: r.Group, Version: r.Version, Kind: r.Kind}}
}

// verifC15NewFixture assembles a real Manager by hand (NewCustomizeManager
// would build a webhook client and needs a live SharedInformerFactory): one
// parent informer per parent resource, the related informer already present.
func verifC15NewFixture(parentRes []*dynamicdiscovery.APIResource, relRes *dynamicdiscovery.APIResource, rules []*v1alpha1.RelatedResourceRule) *verifC15Fixture {
	f := &verifC15Fixture{w: env.NewWorld(), relRes: relRes, parentListers: map[string]*env.Lister{}}
	f.hook = &verifC15Hook{rules: rules}
	f.relLister = env.NewLister()
	f.mgr, _ = VerifNewManager(f.w.Dyn, dynamicinformer.NewSharedInformerFactory(f.w.Dyn, 0), func(o interface{}) { f.enq = append(f.enq, o) }, f.hook)
	f.mgr.relatedInformers.Set(verifC15GVR(relRes), dynamicinformer.VerifNewResourceInformer(f.relLister))
	for _, r := range parentRes {
		l := env.NewLister()
		f.parentListers[r.Name] = l
		f.mgr.parentKinds.Set(schema.GroupKind{Group: r.Group, Kind: r.Kind}, r)
		f.mgr.parentInformers.Set(verifC15GVR(r), dynamicinformer.VerifNewResourceInformer(l))
	}
	return f
}

func verifC15NoSlash(s string) { rt.Assume(!strings.Contains(s, "/")) }

// ---------------------------------------------------------------- parents

type verifC15Parent struct {
	namespaced bool
	ns         string
	res        *dynamicdiscovery.APIResource
	obj        *unstructured.Unstructured
}

func verifC15ParentRes(namespaced bool) *dynamicdiscovery.APIResource {
	if namespaced {
		return env.ThingRes
	}
	return env.ClusterThingRes
}

func verifC15NewParent(namespaced bool, ns, name, uid string) *verifC15Parent {
	p := &verifC15Parent{namespaced: namespaced, res: verifC15ParentRes(namespaced)}
	if namespaced {
		p.ns = ns
		p.obj = env.Thing(ns, name, uid)
	} else {
		p.obj = env.Obj("ex.com/v1", "ClusterThing", "", name, uid)
	}
	return p
}

// ---------------------------------------------------------------- rules

const (
	verifC15StyleLabels = iota
	verifC15StyleNames
	verifC15StyleMixed
)

const (
	verifC15SelAbsent      = iota // no labelSelector at all
	verifC15SelEmpty              // labelSelector: {}
	verifC15SelMatchLabels        // matchLabels: {key: val}
	verifC15SelIn                 // matchExpressions: [{key, In, [val]}]
	verifC15SelNotIn
	verifC15SelExists
	verifC15SelDoesNotExist
	verifC15NumSel
)

// verifC15Rule is one related rule together with the plain facts it was built
// from (the oracle reads only these facts, never the rule's code paths).
type verifC15Rule struct {
	rule    *v1alpha1.RelatedResourceRule
	style   int
	selKind int
	key     string // concrete: "app" (the key objects may carry) or "zone"
	val     string // symbolic
	ns      string // symbolic, may be ""
	names   []string
}

// narrow: fewer selector shapes (the selector key is always the one objects
// carry; a mixed rule's selector is {} or matchLabels).
func verifC15NewRule(style int, relRes *dynamicdiscovery.APIResource, tag string, narrow bool) *verifC15Rule {
	d := &verifC15Rule{style: style}
	d.rule = &v1alpha1.RelatedResourceRule{ResourceRule: v1alpha1.ResourceRule{APIVersion: relRes.APIVersion, Resource: relRes.Name}}
	switch style {
	case verifC15StyleLabels:
		d.selKind = rt.Choice(tag+"selector-shape", verifC15NumSel)
	case verifC15StyleMixed:
		if narrow {
			d.selKind = 1 + rt.Choice(tag+"selector-shape", 2)
		} else {
			d.selKind = 1 + rt.Choice(tag+"selector-shape", verifC15NumSel-1) // a selector is present
		}
	}
	if d.selKind >= verifC15SelMatchLabels {
		d.key = "app"
		if !narrow && rt.Bool(tag+"selector-key-is-foreign") {
			d.key = "zone"
		}
	}
	if d.selKind >= verifC15SelMatchLabels && d.selKind <= verifC15SelNotIn {
		d.val = rt.String(tag + "selector-value")
	}
	switch d.selKind {
	case verifC15SelEmpty:
		d.rule.LabelSelector = &metav1.LabelSelector{}
	case verifC15SelMatchLabels:
		d.rule.LabelSelector = &metav1.LabelSelector{MatchLabels: map[string]string{d.key: d.val}}
	case verifC15SelIn:
		d.rule.LabelSelector = &metav1.LabelSelector{MatchExpressions: []metav1.LabelSelectorRequirement{{Key: d.key, Operator: metav1.LabelSelectorOpIn, Values: []string{d.val}}}}
	case verifC15SelNotIn:
		d.rule.LabelSelector = &metav1.LabelSelector{MatchExpressions: []metav1.LabelSelectorRequirement{{Key: d.key, Operator: metav1.LabelSelectorOpNotIn, Values: []string{d.val}}}}
	case verifC15SelExists:
		d.rule.LabelSelector = &metav1.LabelSelector{MatchExpressions: []metav1.LabelSelectorRequirement{{Key: d.key, Operator: metav1.LabelSelectorOpExists}}}
	case verifC15SelDoesNotExist:
		d.rule.LabelSelector = &metav1.LabelSelector{MatchExpressions: []metav1.LabelSelectorRequirement{{Key: d.key, Operator: metav1.LabelSelectorOpDoesNotExist}}}
	}
	if style != verifC15StyleLabels {
		d.ns = rt.String(tag + "rule-namespace")
		n := rt.Choice(tag+"rule-names", 3)
		for i := 0; i < n; i++ {
			d.names = append(d.names, rt.String(tag+"rule-name"))
		}
		if n == 0 {
			rt.Assume(d.ns != "") // otherwise it is not a namespace/names rule
		}
		d.rule.Namespace = d.ns
		d.rule.Names = d.names
	}
	return d
}

// ---------------------------------------------------------------- related objects

type verifC15Obj struct {
	ns, name string
	hasLabel bool
	labelVal string
	obj      *unstructured.Unstructured
}

func verifC15Build(relRes *dynamicdiscovery.APIResource, d *verifC15Obj, uid string) {
	d.obj = env.Obj(relRes.APIVersion, relRes.Kind, d.ns, d.name, uid)
	if d.hasLabel {
		env.SetLabel(d.obj, "app", d.labelVal)
	}
}

// verifC15NewObj: symbolic namespace (non-empty iff the resource is
// namespaced), name symbolic when symName, one optional label app=<symbolic>
// when withLabel.
func verifC15NewObj(relRes *dynamicdiscovery.APIResource, tag string, symName, withLabel bool) *verifC15Obj {
	d := &verifC15Obj{}
	if relRes.Namespaced {
		d.ns = rt.String(tag + "-namespace")
		rt.Assume(d.ns != "")
		verifC15NoSlash(d.ns)
	}
	d.name = tag
	if symName {
		d.name = rt.String(tag + "-name")
		rt.Assume(d.name != "")
		verifC15NoSlash(d.name)
	}
	if withLabel {
		d.hasLabel = rt.Bool(tag + "-has-label")
		if d.hasLabel {
			d.labelVal = rt.String(tag + "-label-value")
		}
	}
	verifC15Build(relRes, d, "uid-"+tag)
	return d
}

// ---------------------------------------------------------------- oracle (from the property statement)

// verifC15LabelsSelect: does the rule's label selector select the object?
func verifC15LabelsSelect(r *verifC15Rule, o *verifC15Obj) bool {
	if r.selKind == verifC15SelAbsent || r.selKind == verifC15SelEmpty {
		return true
	}
	has := o.hasLabel && r.key == "app"
	switch r.selKind {
	case verifC15SelMatchLabels, verifC15SelIn:
		if !has {
			return false
		}
		return o.labelVal == r.val
	case verifC15SelNotIn:
		if !has {
			return true
		}
		return o.labelVal != r.val
	case verifC15SelExists:
		return has
	}
	return !has
}

// verifC15NamesSelect: does the rule's namespace / names list select the object?
func verifC15NamesSelect(r *verifC15Rule, o *verifC15Obj) bool {
	if r.ns != "" {
		if o.ns != r.ns {
			return false
		}
	}
	if len(r.names) == 0 {
		return true
	}
	for _, n := range r.names {
		if o.name == n {
			return true
		}
	}
	return false
}

// verifC15RuleSelects: selection by the rule alone (no confinement).
func verifC15RuleSelects(r *verifC15Rule, o *verifC15Obj) bool {
	switch r.style {
	case verifC15StyleLabels:
		return verifC15LabelsSelect(r, o)
	case verifC15StyleNames:
		return verifC15NamesSelect(r, o)
	}
	return false
}

// verifC15Sent: must the object be in the `related` map sent for this parent?
func verifC15Sent(r *verifC15Rule, p *verifC15Parent, o *verifC15Obj) bool {
	if p.namespaced {
		if o.ns != p.ns {
			return false
		}
	}
	return verifC15RuleSelects(r, o)
}

// verifC15RuleIsError: mixed styles, or a foreign namespace for a namespaced parent.
func verifC15RuleIsError(r *verifC15Rule, p *verifC15Parent) bool {
	if r.style == verifC15StyleMixed {
		return true
	}
	if r.style == verifC15StyleNames && p.namespaced && r.ns != "" {
		return r.ns != p.ns
	}
	return false
}

func verifC15Holds(group map[string]*unstructured.Unstructured, o *unstructured.Unstructured) bool {
	for _, x := range group {
		if x == o {
			return true
		}
	}
	return false
}

// ---------------------------------------------------------------- (a) (b) (c): selection

// verifC15Selection runs the real GetRelatedObjects -> Convert for one rule of
// the given style and compares with the oracle.
func verifC15Selection(style int) {
	parentNamespaced := rt.Bool("parent-namespaced")
	relRes := env.ConfigMapRes
	if rt.Bool("related-cluster-scoped") {
		relRes = env.NamespaceRes
	}
	var pns string
	if parentNamespaced {
		pns = rt.String("parent-namespace")
		rt.Assume(pns != "")
		verifC15NoSlash(pns)
	}
	parent := verifC15NewParent(parentNamespaced, pns, "p", "puid")
	rule := verifC15NewRule(style, relRes, "", false)

	n := 2
	if rt.Tier() > 0 {
		n = 3
	}
	if style == verifC15StyleMixed {
		n = 1
	}
	var objs []*verifC15Obj
	for i := 0; i < n; i++ {
		tag := "o" + string(rune('0'+i))
		o := verifC15NewObj(relRes, tag, style != verifC15StyleLabels, style != verifC15StyleNames)
		// the API server never holds two objects of one resource with the same namespace and name
		for _, prev := range objs {
			rt.Assume(prev.ns+"/"+prev.name != o.ns+"/"+o.name)
		}
		objs = append(objs, o)
	}

	f := verifC15NewFixture([]*dynamicdiscovery.APIResource{parent.res}, relRes, []*v1alpha1.RelatedResourceRule{rule.rule})
	for _, o := range objs {
		f.relLister.Items = append(f.relLister.Items, o.obj)
	}

	raw, err := f.mgr.GetRelatedObjects(parent.obj)
	rt.Observe("err", err != nil)
	rt.Assert(f.hook.calls == 1, "select/customize-hook-not-asked-exactly-once")

	if verifC15RuleIsError(rule, parent) {
		if style == verifC15StyleMixed {
			rt.Cover("mixed-styles-rejected")
			rt.Assert(err != nil, "mixed/label-selector-with-namespace-or-names-accepted")
			ok, merr := matchesRelatedRule(parentNamespaced, parent.obj, objs[0].obj, rule.rule, relRes.Kind)
			rt.Assert(merr != nil, "mixed/trigger-predicate-accepts-mixed-rule")
			rt.Assert(!ok, "mixed/trigger-predicate-matches-mixed-rule")
		} else {
			rt.Cover("foreign-namespace-rejected")
			rt.Assert(err != nil, "foreign-namespace/accepted-for-namespaced-parent")
		}
		rt.Assert(len(raw) == 0, "error/objects-returned-with-error")
		return
	}
	rt.Assert(err == nil, "select/error-for-valid-rule")
	if err != nil {
		return
	}
	gvk := verifC15GVK(relRes)
	rawGroup := raw[gvk]
	rt.Assert(rawGroup != nil, "select/group-missing-in-result")
	rt.Assert(len(raw) == 1, "select/unexpected-groups-in-result")

	sent := raw.Convert(parent.obj)
	sentGroup := sent[gvk]
	rt.Assert(sentGroup != nil, "select/group-missing-in-related-sent")
	rt.Assert(len(sent) == 1, "select/unexpected-groups-in-related-sent")

	want := 0
	for _, o := range objs {
		inRaw := verifC15Holds(rawGroup, o.obj)
		inSent := verifC15Holds(sentGroup, o.obj)
		if verifC15Sent(rule, parent, o) {
			want++
			rt.Cover("object-selected")
			rt.Assert(inRaw, "select/selected-object-not-listed")
			rt.Assert(inSent, "select/selected-object-not-sent")
			// keyed the way hooks expect: namespace/name only for a cluster-scoped parent
			key := o.name
			if !parentNamespaced && o.ns != "" {
				key = o.ns + "/" + o.name
			}
			rt.Assert(sentGroup[key] == o.obj, "select/selected-object-under-wrong-key")
		} else {
			rt.Cover("object-not-selected")
			rt.Assert(!inSent, "select/unselected-object-sent")
			if !verifC15RuleSelects(rule, o) {
				rt.Assert(!inRaw, "select/object-not-matching-rule-listed")
			} else if inRaw {
				// selected by the rule, outside the parent's namespace: an implementation may list it and filter it on the wire (not a required cover: listing per namespace is just as good)
				rt.Cover("foreign-namespace-object-listed-then-filtered")
			}
		}
		// (c) agreement: listed for the hook => the trigger predicate fires
		if inSent {
			ok, merr := matchesRelatedRule(parentNamespaced, parent.obj, o.obj, rule.rule, relRes.Kind)
			rt.Assert(merr == nil, "agree/trigger-predicate-errors-for-listed-object")
			rt.Assert(ok, "agree/listed-object-does-not-trigger")
		}
	}
	rt.Assert(len(sentGroup) == want, "select/related-sent-size-differs-from-selection")
	rt.Observe("sent", len(sentGroup))
	if want == 0 {
		rt.Cover("empty-group-still-present")
	}
}

func VerifC15_SelectByLabels()         { verifC15Selection(verifC15StyleLabels) }
func VerifC15_SelectByNamespaceNames() { verifC15Selection(verifC15StyleNames) }
func VerifC15_MixedStylesRejected()    { verifC15Selection(verifC15StyleMixed) }

// ---------------------------------------------------------------- several rules for one resource

// VerifC15_TwoRules: a label rule and a namespace/names rule for the same
// resource: the related map is the union.
func VerifC15_TwoRules() {
	parentNamespaced := rt.Bool("parent-namespaced")
	relRes := env.ConfigMapRes
	var pns string
	if parentNamespaced {
		pns = rt.String("parent-namespace")
		rt.Assume(pns != "")
		verifC15NoSlash(pns)
	}
	parent := verifC15NewParent(parentNamespaced, pns, "p", "puid")
	r1 := verifC15NewRule(verifC15StyleLabels, relRes, "r1-", rt.Tier() == 0)
	r2 := verifC15NewRule(verifC15StyleNames, relRes, "r2-", false)
	rt.Assume(!verifC15RuleIsError(r2, parent))
	rules := []*v1alpha1.RelatedResourceRule{r1.rule, r2.rule}
	if rt.Bool("names-rule-first") {
		rules = []*v1alpha1.RelatedResourceRule{r2.rule, r1.rule}
	}
	o := verifC15NewObj(relRes, "o0", true, true)
	f := verifC15NewFixture([]*dynamicdiscovery.APIResource{parent.res}, relRes, rules)
	f.relLister.Items = []*unstructured.Unstructured{o.obj}

	raw, err := f.mgr.GetRelatedObjects(parent.obj)
	rt.Assert(err == nil, "two-rules/error")
	if err != nil {
		return
	}
	rt.Assert(f.hook.calls == 1, "two-rules/customize-hook-not-asked-exactly-once")
	sentGroup := raw.Convert(parent.obj)[verifC15GVK(relRes)]
	rt.Assert(sentGroup != nil, "two-rules/group-missing-in-related-sent")
	inSent := verifC15Holds(sentGroup, o.obj)
	by1 := verifC15Sent(r1, parent, o)
	by2 := verifC15Sent(r2, parent, o)
	if by1 || by2 {
		rt.Cover("selected-by-either")
		rt.Assert(inSent, "two-rules/object-selected-by-one-rule-not-sent")
		rt.Assert(len(sentGroup) == 1, "two-rules/related-sent-size")
	} else {
		rt.Cover("selected-by-neither")
		rt.Assert(!inSent, "two-rules/unselected-object-sent")
		rt.Assert(len(sentGroup) == 0, "two-rules/related-sent-size")
	}
	rt.Observe("sent", len(sentGroup))
}

// ---------------------------------------------------------------- (c) events

const (
	verifC15EvAdd = iota
	verifC15EvAddDeleting
	verifC15EvUpdate
	verifC15EvDelete
	verifC15EvTombstone
	verifC15NumEv
)

// verifC15Listed: is the object in what the hook would be sent for the parent
// when the related informer holds exactly `o`? (real GetRelatedObjects -> Convert)
func verifC15Listed(f *verifC15Fixture, p *verifC15Parent, o *verifC15Obj) bool {
	f.relLister.Items = []*unstructured.Unstructured{o.obj}
	raw, err := f.mgr.GetRelatedObjects(p.obj)
	if err != nil {
		return false
	}
	return verifC15Holds(raw.Convert(p.obj)[verifC15GVK(f.relRes)], o.obj)
}

func verifC15Count(enq []interface{}, p *unstructured.Unstructured) int {
	n := 0
	for _, x := range enq {
		if x == interface{}(p) {
			n++
		}
	}
	return n
}

// VerifC15_Events: an event on a related object through the real
// onRelatedAdd/Update/Delete -> findRelatedParents -> matchesRelatedRule.
func VerifC15_Events() {
	style := rt.Choice("rule-style", 3)
	parentNamespaced := rt.Bool("parent-namespaced")
	relRes := env.ConfigMapRes
	if rt.Tier() > 0 && rt.Bool("related-cluster-scoped") {
		relRes = env.NamespaceRes
	}
	var pns string
	if parentNamespaced {
		pns = rt.String("parent-namespace")
		rt.Assume(pns != "")
	}
	parents := []*verifC15Parent{verifC15NewParent(parentNamespaced, pns, "p", "puid")}
	parentRes := []*dynamicdiscovery.APIResource{parents[0].res}
	if rt.Bool("parent-is-being-finalized") {
		// pending deletion, held by the controller's finalizer: its finalize hook is
		// sent the related objects too, so their changes must wake it as well
		rt.Cover("finalizing-parent")
		env.MarkDeleting(parents[0].obj)
		parents[0].obj.SetFinalizers([]string{"metacontroller.k8s.io/compositecontroller-cc"})
	}
	{
		// a second parent of the same kind (quick tier: only that), or (as with a
		// decorator watching several resources) of the kind with the other scope:
		// an object that several parents select wakes every one of them
		second := rt.Choice("second-parent", 2+rt.Tier())
		if second > 0 {
			rt.Cover("second-parent")
			qNamespaced := parentNamespaced
			if second == 2 {
				qNamespaced = !parentNamespaced
			}
			var qns string
			if qNamespaced && rt.Tier() == 0 {
				qns = pns // quick tier: a sibling in the same namespace
			} else if qNamespaced {
				qns = rt.String("second-parent-namespace")
				rt.Assume(qns != "")
			}
			q := verifC15NewParent(qNamespaced, qns, "q", "quid")
			parents = append(parents, q)
			if second == 2 {
				parentRes = append(parentRes, q.res)
			}
		}
	}
	rule := verifC15NewRule(style, relRes, "", style == verifC15StyleMixed || rt.Tier() == 0)

	// the object before and after the event: same identity, labels may change
	old := verifC15NewObj(relRes, "obj", style != verifC15StyleLabels, style != verifC15StyleNames)
	cur := old
	ev := rt.Choice("event", verifC15NumEv)
	sameRV := false
	if ev == verifC15EvUpdate {
		cur = &verifC15Obj{ns: old.ns, name: old.name}
		if style != verifC15StyleNames {
			cur.hasLabel = rt.Bool("new-has-label")
			if cur.hasLabel {
				cur.labelVal = rt.String("new-label-value")
			}
		}
		verifC15Build(relRes, cur, "uid-obj")
		rv := rt.String("new-resource-version")
		cur.obj.SetResourceVersion(rv)
		sameRV = rv == old.obj.GetResourceVersion()
	}
	if ev == verifC15EvAddDeleting {
		env.MarkDeleting(old.obj)
	}

	f := verifC15NewFixture(parentRes, relRes, []*v1alpha1.RelatedResourceRule{rule.rule})
	for _, p := range parents {
		l := f.parentListers[p.res.Name]
		l.Items = append(l.Items, p.obj)
	}

	// what each parent's hook is sent before / after the event (real code)
	listed := make([]bool, len(parents))
	for i, p := range parents {
		if verifC15Listed(f, p, old) {
			listed[i] = true
		}
		if cur != old {
			if verifC15Listed(f, p, cur) {
				listed[i] = true
			}
		}
	}
	rt.Assert(f.hook.calls == len(parents), "event/customize-hook-not-asked-once-per-parent-while-listing")
	rt.Assert(len(f.enq) == 0, "event/listing-enqueued-a-parent")

	switch ev {
	case verifC15EvAdd, verifC15EvAddDeleting:
		f.mgr.onRelatedAdd(old.obj)
	case verifC15EvUpdate:
		f.mgr.onRelatedUpdate(old.obj, cur.obj)
	case verifC15EvDelete:
		f.mgr.onRelatedDelete(old.obj)
	case verifC15EvTombstone:
		f.mgr.onRelatedDelete(clientgo_cache.DeletedFinalStateUnknown{Key: "k", Obj: old.obj})
	}

	rt.Observe("enqueued", len(f.enq))
	rt.Assert(f.hook.calls == len(parents), "event/customize-hook-asked-again-although-cached")
	if sameRV {
		rt.Cover("resync-ignored")
		rt.Assert(len(f.enq) == 0, "event/resync-with-unchanged-resourceVersion-enqueued")
		return
	}
	total := 0
	for i, p := range parents {
		n := verifC15Count(f.enq, p.obj)
		total += n
		rt.Assert(n <= 1, "event/parent-enqueued-more-than-once")
		// agreement of the two real code paths
		if listed[i] {
			rt.Cover("listed-object-wakes-parent")
			rt.Assert(n == 1, "event/object-listed-for-hook-did-not-wake-parent")
		}
		// independent oracle
		if verifC15RuleIsError(rule, p) {
			rt.Cover("event-with-rejected-rule")
			rt.Assert(!listed[i], "event/object-listed-under-rejected-rule")
			continue
		}
		wantOld := verifC15Sent(rule, p, old)
		wantNew := wantOld
		if cur != old {
			wantNew = verifC15Sent(rule, p, cur)
		}
		if wantOld {
			rt.Cover("old-state-selected")
			rt.Assert(n == 1, "event/selected-old-state-did-not-wake-parent")
		}
		if wantNew {
			rt.Cover("new-state-selected")
			rt.Assert(n == 1, "event/selected-new-state-did-not-wake-parent")
		}
		selOld := verifC15RuleSelects(rule, old)
		selNew := selOld
		if cur != old {
			selNew = verifC15RuleSelects(rule, cur)
		}
		if !selOld && !selNew {
			rt.Cover("unselected-object-ignored")
			rt.Assert(n == 0, "event/object-matching-no-rule-woke-parent")
		}
	}
	rt.Assert(total == len(f.enq), "event/something-other-than-a-listed-parent-enqueued")
}

// ---------------------------------------------------------------- (d) cache

func verifC15SetGeneration(o *unstructured.Unstructured, gen int64) {
	o.Object["metadata"].(map[string]interface{})["generation"] = gen
}

// VerifC15_HookAskedOncePerGeneration: the customize hook is asked at most
// once per (UID, generation) while the answer is cached and again after the
// generation (or the UID) changed; a failed call is not cached; an expired
// entry is not served.
func VerifC15_HookAskedOncePerGeneration() {
	uid := rt.String("uid")
	rt.Assume(uid != "")
	gen := rt.Int64("generation")
	// drawn up-front: a replay must not ask for inputs after a failed assertion
	gen2 := rt.Int64("next-generation")
	uid3 := rt.String("recreated-uid")
	rt.Assume(uid3 != "")
	before := rt.Choice("before", 3)
	parent := env.Thing("ns", "p", uid)
	verifC15SetGeneration(parent, gen)
	rule := &v1alpha1.RelatedResourceRule{ResourceRule: v1alpha1.ResourceRule{APIVersion: "v1", Resource: "configmaps"}, Names: []string{"a"}}
	f := verifC15NewFixture([]*dynamicdiscovery.APIResource{env.ThingRes}, env.ConfigMapRes, []*v1alpha1.RelatedResourceRule{rule})
	cm := env.ConfigMap("ns", "a", "cmuid", "x")
	f.relLister.Items = []*unstructured.Unstructured{cm}
	f.parentListers["things"].Items = []*unstructured.Unstructured{parent}

	stale := &v1.CustomizeHookResponse{}
	base := 0
	switch before {
	case 0:
		rt.Cover("cold-cache")
	case 1:
		// an answer for this very key whose TTL has run out
		rt.Cover("expired-entry")
		f.mgr.customizeCache = cache.VerifNewWithExpired[customizeKey, *v1.CustomizeHookResponse](20*time.Minute,
			map[customizeKey]*v1.CustomizeHookResponse{{uid: parent.GetUID(), parentGeneration: gen}: stale})
	case 2:
		// the webhook fails once: the failure must not be remembered as an answer
		rt.Cover("hook-fails-first")
		f.hook.fail = 1
		r0, err0 := f.mgr.getCustomizeHookResponse(parent)
		rt.Assert(err0 != nil, "cache/hook-error-swallowed")
		rt.Assert(r0 == nil, "cache/response-returned-with-error")
		base = 1
	}

	r1, err := f.mgr.getCustomizeHookResponse(parent)
	rt.Assert(err == nil, "cache/first-request-error")
	if err != nil {
		return
	}
	rt.Assert(r1 != stale, "cache/expired-entry-served")
	rt.Assert(f.hook.calls == base+1, "cache/first-request-did-not-ask-hook-once")
	rt.Assert(len(r1.RelatedResourceRules) == 1 && r1.RelatedResourceRules[0] == rule, "cache/response-is-not-the-hook-answer")

	r2, err := f.mgr.getCustomizeHookResponse(parent)
	rt.Assert(err == nil, "cache/second-request-error")
	rt.Assert(f.hook.calls == base+1, "cache/hook-asked-again-for-same-uid-and-generation")
	rt.Assert(r2 == r1, "cache/second-answer-differs-from-cached")

	// a sync and a related-object event share the cached answer
	rel, err := f.mgr.GetRelatedObjects(parent)
	rt.Assert(err == nil, "cache/sync-error")
	rt.Assert(len(rel[verifC15GVK(env.ConfigMapRes)]) == 1, "cache/sync-did-not-list-related-object")
	f.mgr.onRelatedAdd(cm)
	rt.Assert(len(f.enq) == 1, "cache/event-did-not-wake-parent")
	rt.Assert(f.hook.calls == base+1, "cache/hook-asked-again-by-sync-or-event")

	// the parent's spec changes (or not): generation gen2
	p2 := parent.DeepCopy()
	verifC15SetGeneration(p2, gen2)
	_, err = f.mgr.getCustomizeHookResponse(p2)
	rt.Assert(err == nil, "cache/next-generation-request-error")
	calls := base + 1
	if gen2 != gen {
		rt.Cover("generation-changed")
		calls++
		rt.Assert(f.hook.calls == calls, "cache/hook-not-asked-again-after-generation-change")
	} else {
		rt.Cover("generation-unchanged")
		rt.Assert(f.hook.calls == calls, "cache/hook-asked-again-for-same-uid-and-generation")
	}

	// a re-created parent: same name and generation, another UID
	p3 := env.Thing("ns", "p", uid3)
	verifC15SetGeneration(p3, gen)
	_, err = f.mgr.getCustomizeHookResponse(p3)
	rt.Assert(err == nil, "cache/recreated-parent-request-error")
	if uid3 != uid {
		rt.Cover("uid-changed")
		calls++
		rt.Assert(f.hook.calls == calls, "cache/hook-not-asked-again-for-recreated-parent")
	} else {
		rt.Assert(f.hook.calls == calls, "cache/hook-asked-again-for-same-uid-and-generation")
	}
	rt.Observe("calls", f.hook.calls)

	// ANOTHER controller with a customize hook of its own (or this controller
	// restarted with a re-pointed webhook) looks at the very same parent, same
	// UID and generation: it asks ITS hook and works with ITS rules - answers are
	// remembered per manager, never across controllers
	rule2 := &v1alpha1.RelatedResourceRule{ResourceRule: v1alpha1.ResourceRule{APIVersion: "v1", Resource: "configmaps"}, Names: []string{"b"}}
	f2 := verifC15NewFixture([]*dynamicdiscovery.APIResource{env.ThingRes}, env.ConfigMapRes, []*v1alpha1.RelatedResourceRule{rule2})
	r4, err := f2.mgr.getCustomizeHookResponse(parent)
	rt.Assert(err == nil, "cache/second-controller-request-error")
	rt.Assert(f2.hook.calls == 1, "cache/second-controller-did-not-ask-its-own-hook")
	if err == nil && r4 != nil {
		rt.Assert(len(r4.RelatedResourceRules) == 1 && r4.RelatedResourceRules[0] == rule2, "cache/answer-of-another-controllers-hook-served")
	}
	rt.Assert(f.hook.calls == calls, "cache/first-controllers-hook-asked-on-behalf-of-the-second")
}

package customize

import (
	"sync"

	"metacontroller/pkg/apis/metacontroller/v1alpha1"
	"metacontroller/pkg/controller/common/api"
	v1 "metacontroller/pkg/controller/common/customize/api/v1"
	"metacontroller/pkg/hooks"
)

// VerifSetHook replaces the customize webhook of a Manager that was built by
// the real NewCustomizeManager (inside the real controller constructors) with a
// harness stub. Everything else of the Manager stays as constructed.
func (rm *Manager) VerifSetHook(h hooks.Hook) { rm.customizeHook = h }

// VerifHook stands for the user's customize webhook in harnesses of other
// packages: it answers every call with the same rules and counts the calls.
type VerifHook struct {
	mu    sync.Mutex
	Rules []*v1alpha1.RelatedResourceRule
	calls int
}

func (h *VerifHook) IsEnabled() bool { return true }
func (h *VerifHook) Call(request api.WebhookRequest, response interface{}) error {
	h.mu.Lock()
	defer h.mu.Unlock()
	h.calls++
	response.(*v1.CustomizeHookResponse).RelatedResourceRules = h.Rules
	return nil
}
func (h *VerifHook) Calls() int {
	h.mu.Lock()
	defer h.mu.Unlock()
	return h.calls
}

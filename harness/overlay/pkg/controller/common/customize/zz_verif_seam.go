package customize

import (
	"sync"

	"github.com/go-logr/logr"

	"metacontroller/pkg/controller/common"
	dynamicclientset "metacontroller/pkg/dynamic/clientset"
	dynamicinformer "metacontroller/pkg/dynamic/informer"

	"metacontroller/pkg/apis/metacontroller/v1alpha1"
	"metacontroller/pkg/controller/common/api"
	v1 "metacontroller/pkg/controller/common/customize/api/v1"
	"metacontroller/pkg/hooks"
)

// VerifSetHook replaces the customize webhook of a Manager that was built by
// the real NewCustomizeManager (inside the real controller constructors) with a
// harness stub. Everything else of the Manager stays as constructed.
func (rm *Manager) VerifSetHook(h hooks.Hook) { rm.customizeHook = h }

// VerifHook stands for the user's customize webhook in harnesses of other
// packages: it answers every call with the same rules and counts the calls.
type VerifHook struct {
	mu    sync.Mutex
	Rules []*v1alpha1.RelatedResourceRule
	calls int
}

func (h *VerifHook) IsEnabled() bool { return true }
func (h *VerifHook) Call(request api.WebhookRequest, response interface{}) error {
	h.mu.Lock()
	defer h.mu.Unlock()
	h.calls++
	response.(*v1.CustomizeHookResponse).RelatedResourceRules = h.Rules
	return nil
}
func (h *VerifHook) Calls() int {
	h.mu.Lock()
	defer h.mu.Unlock()
	return h.calls
}

// VerifNewManager builds a Manager through the REAL NewCustomizeManager (a field
// a later version adds and initialises there is initialised here too) for a
// CompositeController "cc" with a customize hook, then swaps in the harness's
// hook stub. The caller fills parentKinds / parentInformers (they are the maps
// the Manager holds) and may pre-register related informers.
func VerifNewManager(dyn *dynamicclientset.Clientset, factory *dynamicinformer.SharedInformerFactory, enqueue func(interface{}), hook hooks.Hook) (*Manager, *v1alpha1.CompositeController) {
	cc := &v1alpha1.CompositeController{}
	cc.Name = "cc"
	cc.Spec.Hooks = &v1alpha1.CompositeControllerHooks{Customize: &v1alpha1.Hook{}}
	mgr, err := NewCustomizeManager("cc", enqueue, cc, dyn, factory, common.InformerMap{}, common.GroupKindMap{}, logr.Discard(), common.CompositeController)
	if err != nil {
		panic(err)
	}
	mgr.customizeHook = hook
	return mgr, cc
}

package customize

// C20 — the related-resource informers a customize Manager subscribes to
// lazily are released when the hosting controller stops, whatever happened
// while they were being set up; after the stop a related-object event reaches
// neither the customize hook nor the queue.
//
// Real code: Manager.GetRelatedObjects -> getRelatedClient (factory.Resource,
// AddEventHandler, WaitForNamedCacheSync), Manager.Stop, the whole
// SharedInformerFactory / sharedEventHandler / informerWrapper layer. Stubbed:
// the client-go informer behind the factory (zzverif/informerstub through the
// test seam), the customize webhook.

import (
	"sync"
	"time"

	"k8s.io/apimachinery/pkg/apis/meta/v1/unstructured"
	"k8s.io/apimachinery/pkg/runtime/schema"

	"metacontroller/pkg/apis/metacontroller/v1alpha1"
	commonv2 "metacontroller/pkg/controller/common/api/v2"
	dynamicdiscovery "metacontroller/pkg/dynamic/discovery"
	dynamicinformer "metacontroller/pkg/dynamic/informer"
	"metacontroller/pkg/zzverif/env"
	stub "metacontroller/pkg/zzverif/informerstub"
	rt "metacontroller/pkg/zzverif/rt"
)

func VerifC20_RelatedInformerLifecycle() {
	stub.Reset()
	dynamicinformer.VerifNewSharedIndexInformer = stub.NewSharedIndexInformer
	dynamicinformer.VerifNewLister = stub.NewLister

	w := env.NewWorld()
	factory := dynamicinformer.NewSharedInformerFactory(w.Dyn, 0)
	rules := []*v1alpha1.RelatedResourceRule{{ResourceRule: v1alpha1.ResourceRule{APIVersion: "v1", Resource: "configmaps"}, Names: []string{"a"}, Namespace: "ns"}}
	twoResources := rt.Bool("two-related-resources")
	if twoResources {
		rules = append(rules, &v1alpha1.RelatedResourceRule{ResourceRule: v1alpha1.ResourceRule{APIVersion: "v1", Resource: "pods"}, Names: []string{"x"}, Namespace: "ns"})
	}
	hook := &verifC15Hook{rules: rules}
	var enq []interface{}
	parentLister := env.NewLister()
	mgr, _ := VerifNewManager(w.Dyn, factory, func(o interface{}) { enq = append(enq, o) }, hook)
	mgr.parentKinds.Set(schema.GroupKind{Group: env.ThingRes.Group, Kind: env.ThingRes.Kind}, env.ThingRes)
	mgr.parentInformers.Set(verifC15GVR(env.ThingRes), dynamicinformer.VerifNewResourceInformer(parentLister))
	stopCh := make(chan struct{})
	// the composite controller hands the manager its stop channel (Start); the
	// decorator controller never calls Start - its manager works with a nil
	// channel and is stopped by Stop() alone
	started := rt.Bool("hosting-controller-called-start")
	if started {
		mgr.Start(stopCh)
	} else {
		rt.Cover("related/manager-never-started")
	}

	p1 := env.Thing("ns", "p1", "u1")
	p2 := env.Thing("ns", "p2", "u2")
	parentLister.Items = []*unstructured.Unstructured{p1, p2}

	// the controller may be told to stop while the first related informer is
	// still waiting for its initial LIST
	stoppedWhileWaiting := started && rt.Bool("stopped-while-related-cache-syncs")
	if stoppedWhileWaiting {
		stub.NextUnsynced = true
		close(stopCh)
	}
	_, err1 := mgr.GetRelatedObjects(p1)
	rt.Observe("err1", err1 != nil)
	if !stoppedWhileWaiting {
		rt.Assert(err1 == nil, "related/first-sync-error")
		// a second parent shares the subscriptions
		_, err2 := mgr.GetRelatedObjects(p2)
		rt.Assert(err2 == nil, "related/second-sync-error")
		rt.Assert(factory.VerifRefCount("v1", "configmaps") == 1, "related/more-than-one-subscription-per-resource")
		rt.Assert(hook.calls == 2, "related/hook-not-asked-once-per-parent")
		close(stopCh)
	}
	nRes := 1
	if twoResources {
		nRes = 2
	}
	// whatever was subscribed is known to the factory now
	subscribed := factory.VerifRunning()
	rt.Assert(subscribed <= nRes, "related/more-shared-informers-than-resources")
	if !stoppedWhileWaiting {
		rt.Assert(subscribed == nRes, "related/informer-not-created")
	}

	// the hosting controller stops
	mgr.Stop()
	rt.Cover("related/stopped")
	rt.Assert(factory.VerifRunning() == 0, "related/shared-informer-still-held-after-stop")
	rt.Assert(factory.VerifRefCount("v1", "configmaps") == 0, "related/subscription-leaked-after-stop")
	rt.Assert(factory.VerifRefCount("v1", "pods") == 0, "related/subscription-leaked-after-stop")
	stubs := stub.Stubs()
	stub.Settle(len(stubs))
	for _, s := range stubs {
		rt.Assert(s.Stopped(), "related/client-go-informer-still-running-after-stop")
	}
	// a late event (the LIST completes, or an object changes) reaches nobody
	calls := hook.calls
	cm := env.ConfigMap("ns", "a", "cmuid", "x")
	for _, s := range stubs {
		for i := 0; i < s.HandlerCount(); i++ {
			s.Handler(i).OnAdd(cm, false)
		}
	}
	rt.Assert(hook.calls == calls, "related/customize-hook-called-after-stop")
	rt.Assert(len(enq) == 0, "related/parent-enqueued-after-stop")
}

var _ = dynamicdiscovery.APIResource{}

// VerifC17_ConcurrentRelated — two workers (or the parallel per-revision hook
// calls of a rolling update) ask the same customize Manager for the related
// objects of two distinct parents at the same time. Decided: the happens-before
// race detector of the executor (every access to a Go map is checked against
// the vector clocks of the goroutines) plus the sequential-equivalence oracle:
// both calls succeed, one subscription per related resource, released on stop.
func VerifC17_ConcurrentRelated() {
	stub.Reset()
	dynamicinformer.VerifNewSharedIndexInformer = stub.NewSharedIndexInformer
	dynamicinformer.VerifNewLister = stub.NewLister

	w := env.NewWorld()
	factory := dynamicinformer.NewSharedInformerFactory(w.Dyn, 0)
	rules := []*v1alpha1.RelatedResourceRule{{ResourceRule: v1alpha1.ResourceRule{APIVersion: "v1", Resource: "configmaps"}, Names: []string{"a"}, Namespace: "ns"}}
	hook := &verifC15Hook{rules: rules}
	parentLister := env.NewLister()
	var enqMu sync.Mutex
	var enq []interface{}
	mgr, _ := VerifNewManager(w.Dyn, factory, func(o interface{}) {
		enqMu.Lock()
		defer enqMu.Unlock()
		enq = append(enq, o)
	}, hook)
	mgr.parentKinds.Set(schema.GroupKind{Group: env.ThingRes.Group, Kind: env.ThingRes.Kind}, env.ThingRes)
	mgr.parentInformers.Set(verifC15GVR(env.ThingRes), dynamicinformer.VerifNewResourceInformer(parentLister))
	stopCh := make(chan struct{})
	mgr.Start(stopCh)
	p1 := env.Thing("ns", "p1", "u1")
	p2 := env.Thing("ns", "p2", "u2")
	parentLister.Items = []*unstructured.Unstructured{p1, p2}
	// the related informer may exist already (an earlier sync created it) or not
	warm := rt.Bool("related-informer-already-created")
	if warm {
		_, err := mgr.GetRelatedObjects(p1)
		rt.Assert(err == nil, "concurrent-related/warm-up-error")
	}

	cm := env.ConfigMap("ns", "a", "cmuid", "x")
	if warm {
		stub.Stubs()[0].CompleteList(cm)
	}
	// the very first LIST of the related resource may still be in flight when
	// the second worker arrives
	slow := !warm && rt.Bool("first-list-of-the-related-resource-is-slow")
	if slow {
		rt.Cover("concurrent-related/slow-first-list")
		stub.NextUnsynced = true
	}
	var wg sync.WaitGroup
	var err1, err2 error
	var n1, n2 int
	count := func(m commonv2.UniformObjectMap) int {
		n := 0
		for _, group := range m {
			n += len(group)
		}
		return n
	}
	wg.Add(2)
	go func() {
		defer wg.Done()
		rel, err := mgr.GetRelatedObjects(p1)
		err1, n1 = err, count(rel)
	}()
	go func() {
		defer wg.Done()
		rel, err := mgr.GetRelatedObjects(p2)
		err2, n2 = err, count(rel)
	}()
	if slow {
		time.Sleep(30 * time.Millisecond) // both workers are under way
		stubs := stub.Stubs()
		rt.Assert(len(stubs) == 1, "concurrent-related/not-exactly-one-informer-created")
		if len(stubs) == 1 {
			stubs[0].CompleteList(cm) // the LIST arrives
		}
	}
	wg.Wait()
	rt.Assert(err1 == nil, "concurrent-related/first-error")
	rt.Assert(err2 == nil, "concurrent-related/second-error")
	if warm || slow {
		// same result as running the two syncs one after the other
		// (one label: which of the two workers comes second is up to the scheduler)
		rt.Assert(n1 == 1 && n2 == 1, "concurrent-related/a-worker-got-other-related-objects-than-a-lone-sync")
	}
	rt.Assert(factory.VerifRefCount("v1", "configmaps") == 1, "concurrent-related/not-exactly-one-subscription")
	close(stopCh)
	mgr.Stop()
	rt.Assert(factory.VerifRefCount("v1", "configmaps") == 0, "concurrent-related/subscription-leaked-after-stop")
	rt.Assert(factory.VerifRunning() == 0, "concurrent-related/shared-informer-still-held-after-stop")
	rt.Cover("concurrent-related/done")
}

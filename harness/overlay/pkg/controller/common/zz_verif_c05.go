package common

// C05 (ApplyUpdate level) — system metadata and status stay exactly as
// observed, the last-applied record becomes the new desired state (with
// metacontroller's own annotation stripped from it), foreign fields survive,
// and re-applying the same desired state to its own result changes nothing —
// also for a hook that ECHOES the observed child's annotations back.

import (
	"reflect"

	"k8s.io/apimachinery/pkg/apis/meta/v1/unstructured"

	dynamicapply "metacontroller/pkg/dynamic/apply"
	"metacontroller/pkg/zzverif/env"
	"metacontroller/pkg/zzverif/gen"
	rt "metacontroller/pkg/zzverif/rt"
)

// verifDesiredFromHook builds what a hook returns for child "a"; when echo is
// set the hook copies the annotations of the child it was shown.
func verifDesiredFromHook(val string, extraKey bool, extraVal string, setsSystem bool, echoFrom *unstructured.Unstructured) *unstructured.Unstructured {
	d := env.ConfigMap("ns", "a", "", val)
	if extraKey {
		d.Object["data"].(map[string]interface{})["extra"] = extraVal
	}
	env.SetAnnotation(d, "hook/own", "1")
	if echoFrom != nil {
		for k, v := range echoFrom.GetAnnotations() {
			env.SetAnnotation(d, k, v)
		}
	}
	if setsSystem {
		d.Object["status"] = map[string]interface{}{"phase": "hook"}
		md := d.Object["metadata"].(map[string]interface{})
		md["resourceVersion"] = "999"
		md["uid"] = "hook-uid"
		md["generation"] = int64(42)
		md["creationTimestamp"] = "1999-01-01T00:00:00Z"
	}
	return d
}

// verifWithoutOwnAnnotation: a copy of o's content without the last-applied
// annotation (and without an annotations map that holds nothing else).
func verifWithoutOwnAnnotation(o *unstructured.Unstructured) map[string]interface{} {
	c := o.DeepCopy()
	ann := c.GetAnnotations()
	delete(ann, dynamicapply.LastAppliedAnnotation)
	if len(ann) == 0 {
		unstructured.RemoveNestedField(c.Object, "metadata", "annotations")
	} else {
		c.SetAnnotations(ann)
	}
	return c.Object
}

func VerifC05_ApplyUpdate() {
	parent := env.Thing("ns", "p", "puid")
	obsVal, desVal := rt.String("obsVal"), rt.String("desVal")
	hadExtra, wantExtra := rt.Bool("previously-applied-extra-key"), rt.Bool("desired-extra-key")
	extraOld, extraNew := rt.String("extraOld"), rt.String("extraNew")
	setsSystem := rt.Bool("hook-sets-system-fields")
	// (the hook of the EARLIER sync may have echoed system fields although the
	// one of this sync does not, and the other way round: the last-applied
	// record then mentions them and the desired state does not)
	setSystemBefore := setsSystem
	if rt.Bool("the-earlier-hook-answer-differed-in-that") {
		setSystemBefore = !setsSystem
	}
	echo := rt.Bool("hook-echoes-annotations")
	foreign := rt.Bool("foreign-fields")
	hasStatus := rt.Bool("observed-has-status")
	phase, foreignVal := rt.String("phase"), rt.String("foreignVal")

	observed := verifApplied(verifDesiredFromHook(obsVal, hadExtra, extraOld, setSystemBefore, nil), parent, "uid-a")
	// an object metacontroller never applied (adopted, or so far managed through
	// server-side apply) has no annotations at all
	bare := !echo && rt.Bool("observed-has-no-annotations-at-all")
	if bare {
		rt.Cover("observed-without-annotations")
		unstructured.RemoveNestedField(observed.Object, "metadata", "annotations")
	}
	if foreign {
		observed.Object["data"].(map[string]interface{})["other"] = foreignVal
		env.SetAnnotation(observed, "someone/else", foreignVal)
		env.SetLabel(observed, "added-by", "someone")
	}
	if hasStatus {
		observed.Object["status"] = map[string]interface{}{"phase": phase}
	}
	observed0 := observed.DeepCopy()
	var echoFrom *unstructured.Unstructured
	if echo {
		echoFrom = observed
	}
	desired := verifDesiredFromHook(desVal, wantExtra, extraNew, setsSystem, echoFrom)
	// what the last-applied record must become: the desired state without
	// metacontroller's own annotation
	wantRecord := desired.DeepCopy()
	ann := wantRecord.GetAnnotations()
	delete(ann, dynamicapply.LastAppliedAnnotation)
	wantRecord.SetAnnotations(ann)

	desired0 := desired.DeepCopy()
	res, err := ApplyUpdate(observed, desired)
	rt.Assert(err == nil, "apply/error")
	if err != nil {
		return
	}
	rt.Cover("applied")
	// L6: the observed (cached) object is never mutated
	gen.Equal(observed.Object, observed0.Object, "L6-purity/observed-mutated-by-ApplyUpdate")
	// ... nor the desired one (the hook's answer) - except that metacontroller's
	// OWN annotation, which an echoing hook copied into it, may be taken out
	if !gen.Same(desired.Object, desired0.Object) {
		gen.Equal(desired.Object, verifWithoutOwnAnnotation(desired0), "L6-purity/desired-mutated-by-ApplyUpdate")
	}
	// L4: system metadata and status exactly as observed
	rm, om := res.Object["metadata"].(map[string]interface{}), observed0.Object["metadata"].(map[string]interface{})
	for _, f := range []string{"uid", "resourceVersion", "generation", "creationTimestamp", "deletionTimestamp", "selfLink"} {
		ov, oHas := om[f]
		rv, rHas := rm[f]
		rt.Assert(oHas == rHas, "L4-system-metadata/"+f+"-presence-changed")
		if oHas && rHas {
			gen.Equal(rv, ov, "L4-system-metadata/"+f+"-changed")
		}
	}
	ost, oHas := observed0.Object["status"]
	rst, rHas := res.Object["status"]
	rt.Assert(oHas == rHas, "L4-status/presence-changed")
	if oHas && rHas {
		gen.Equal(rst, ost, "L4-status/changed")
	}
	// L1/L2/L3 on the owned data
	rd, _ := res.Object["data"].(map[string]interface{})
	gen.EqLeaf(rd["k"], desVal, "L1-containment/owned-field")
	if wantExtra {
		gen.EqLeaf(rd["extra"], extraNew, "L1-containment/new-owned-field")
	} else if !bare {
		_, still := rd["extra"]
		rt.Assert(!still, "L2-removal/previously-applied-field-not-removed")
	}
	if foreign {
		gen.EqLeaf(rd["other"], foreignVal, "L3-preservation/foreign-field")
		gen.EqLeaf(res.GetAnnotations()["someone/else"], foreignVal, "L3-preservation/foreign-annotation")
		rt.Assert(res.GetLabels()["added-by"] == "someone", "L3-preservation/foreign-label")
	}
	// L4: the last-applied record becomes the new desired (own annotation stripped)
	rec, rerr := dynamicapply.GetLastApplied(res)
	rt.Assert(rerr == nil && rec != nil, "L4-last-applied/missing-or-unreadable")
	if rec != nil {
		gen.Equal(rec, wantRecord.Object, "L4-last-applied/record-is-not-the-desired-state")
	}
	// L5: re-applying the same desired state to its own result changes nothing
	// (the hook sees the result now, and echoes ITS annotations if it echoes)
	var echo2 *unstructured.Unstructured
	if echo {
		echo2 = res
	}
	desired2 := verifDesiredFromHook(desVal, wantExtra, extraNew, setsSystem, echo2)
	res2, err2 := ApplyUpdate(res, desired2)
	rt.Assert(err2 == nil, "L5-idempotence/error")
	if err2 == nil {
		rt.Assert(reflect.DeepEqual(res2.Object, res.Object), "L5-idempotence/reapplying-the-same-desired-state-changes-the-object")
	}
}

// VerifC05_ApplyUpdate_NumericListKeys: the removal clause for entries of a
// list-map whose merge key is a NUMBER (ports, numeric names), with the
// last-applied record going through its real path - marshalled into the
// annotation by the previous apply and decoded from it by this one. The decoded
// record must identify the same entries as the observed and desired objects do,
// whatever the magnitude of the number (large integers print differently when a
// decoder hands them out as floating point).
func VerifC05_ApplyUpdate_NumericListKeys() {
	parent := env.Thing("ns", "p", "puid")
	key := "port"
	if rt.Bool("keyed-by-name") {
		key = "name"
	}
	nums := []int64{80, 1000000, 20240101, 9007199254740993}
	k1 := nums[rt.Choice("first-key", len(nums))]
	k2 := nums[rt.Choice("second-key", len(nums))]
	rt.Assume(k1 != k2)
	mk := func(entries ...map[string]interface{}) *unstructured.Unstructured {
		o := env.Obj("apps.ex.com/v1", "Widget", "ns", "a", "")
		l := []interface{}{}
		for _, e := range entries {
			l = append(l, e)
		}
		o.Object["spec"] = map[string]interface{}{"ports": l}
		return o
	}
	e1 := func(v string) map[string]interface{} { return map[string]interface{}{key: k1, "v": v} }
	e2 := func(v string, extra bool) map[string]interface{} {
		m := map[string]interface{}{key: k2, "v": v}
		if extra {
			m["opt"] = "set-earlier"
		}
		return m
	}
	// applied earlier: both entries, the second one with an optional field
	observed := verifApplied(mk(e1("old"), e2("old", true)), parent, "uid-a")
	// somebody else appended an entry of their own
	third := map[string]interface{}{key: int64(7), "v": "theirs"}
	sp := observed.Object["spec"].(map[string]interface{})
	sp["ports"] = append(sp["ports"].([]interface{}), third)

	dropFirst := rt.Bool("hook-drops-the-first-entry")
	var desired *unstructured.Unstructured
	if dropFirst {
		desired = mk(e2("new", false))
	} else {
		desired = mk(e1("new"), e2("new", false))
	}
	res, err := ApplyUpdate(observed, desired)
	rt.Assert(err == nil, "numeric-keys/error")
	if err != nil {
		return
	}
	rt.Cover("numeric-keys/applied")
	ports, _ := res.Object["spec"].(map[string]interface{})["ports"].([]interface{})
	find := func(k int64) map[string]interface{} {
		for _, p := range ports {
			if m, ok := p.(map[string]interface{}); ok && m[key] == interface{}(k) {
				return m
			}
		}
		return nil
	}
	if dropFirst {
		rt.Assert(find(k1) == nil, "L2-removal/numeric-key-entry-applied-earlier-not-removed")
	} else {
		m := find(k1)
		rt.Assert(m != nil && m["v"] == "new", "L1-containment/numeric-key-entry")
	}
	m2 := find(k2)
	rt.Assert(m2 != nil && m2["v"] == "new", "L1-containment/numeric-key-entry")
	if m2 != nil {
		_, still := m2["opt"]
		rt.Assert(!still, "L2-removal/field-of-numeric-key-entry-applied-earlier-not-removed")
	}
	m3 := find(7)
	rt.Assert(m3 != nil && m3["v"] == "theirs", "L3-preservation/foreign-entry-of-numeric-key-list")
	want := 3
	if dropFirst {
		want = 2
	}
	rt.Assert(len(ports) == want, "numeric-keys/entry-count")
}

package common

// C13 — a hook answer that gives a field of an EXISTING child another JSON
// type than the object the live child holds there (a string, number, bool or
// list where `spec` / `data` / `metadata.annotations` is an object; null is not
// in this universe: what an explicit null means is C05's subject): the answer
// is rejected for that child with an error that the sync reports, and NO write
// for the child follows on the strength of it - under every update method.

import (
	"k8s.io/apimachinery/pkg/apis/meta/v1/unstructured"

	"metacontroller/pkg/apis/metacontroller/v1alpha1"
	commonv2 "metacontroller/pkg/controller/common/api/v2"
	"metacontroller/pkg/zzverif/env"
	rt "metacontroller/pkg/zzverif/rt"
)

func VerifC13_MistypedFieldOfExistingChild() {
	w := env.NewWorld()
	parent := env.Thing("ns", "p", "puid")
	named := rt.Bool("named-group")
	method := rt.OneOf(rt.String("method"), "OnDelete", "Recreate", "RollingRecreate", "InPlace", "RollingInPlace")
	rt.Assume(method == "OnDelete" || method == "Recreate" || method == "RollingRecreate" || method == "InPlace" || method == "RollingInPlace")
	val := rt.String("value")
	obs := verifApplied(verifChild(named, "ns", "a", "", val), parent, "uid-a")
	w.Srv.Put(verifChildRes(named), obs)
	des := verifChild(named, "ns", "a", "", val)
	field := "data"
	if named {
		field = "spec"
	}
	var wrong interface{}
	switch rt.Choice("wrong-type", 4) {
	case 0:
		wrong = rt.String("wrong-string")
	case 1:
		wrong = rt.Int64("wrong-int")
	case 2:
		wrong = rt.Bool("wrong-bool")
	default:
		wrong = []interface{}{rt.String("wrong-item")}
	}
	if rt.Bool("in-metadata-annotations") {
		// the live child has an annotations object (it carries the last-applied record)
		des.Object["metadata"].(map[string]interface{})["annotations"] = wrong
	} else {
		des.Object[field] = wrong
	}
	observed := commonv2.MakeUniformObjectMap(parent, []*unstructured.Unstructured{obs})
	desired := commonv2.MakeUniformObjectMap(parent, []*unstructured.Unstructured{des})
	err := ManageChildren(w.Dyn, verifStrategy{v1alpha1.ChildUpdateMethod(method)}, parent, observed, desired, &ApplyOptions{Strategy: ApplyStrategyDynamicApply})
	rt.Observe("err", err != nil)
	rt.Cover("mistyped/done")
	rt.Assert(err != nil, "mistyped/answer-with-a-mistyped-object-field-accepted")
	rt.Assert(len(w.Srv.Writes()) == 0, "mistyped/child-written-on-the-strength-of-a-rejected-answer")
}

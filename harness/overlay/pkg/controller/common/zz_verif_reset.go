package common

// VerifResetSSAMemo clears the process-wide server-side-apply memo so that
// natively replayed cases (many per process) start like a fresh process, as
// every symbolically executed path does.
func VerifResetSSAMemo() {
	cacheLock.Lock()
	defer cacheLock.Unlock()
	lastUpdatedCache = make(map[string]*lastUpdate)
}

package common

// C06 — each child type is changed only by the method its update strategy
// allows; also the create / delete-undesired / pending-deletion rules.
// Real code: ManageChildren, deleteChildren, updateChildren, ApplyUpdate,
// Merge, MakeControllerRef, the real dynamic Clientset over the simulated
// API server.

import (
	metav1 "k8s.io/apimachinery/pkg/apis/meta/v1"
	"k8s.io/apimachinery/pkg/apis/meta/v1/unstructured"
	k8sjson "k8s.io/apimachinery/pkg/util/json"

	"metacontroller/pkg/apis/metacontroller/v1alpha1"
	commonv2 "metacontroller/pkg/controller/common/api/v2"
	"metacontroller/pkg/zzverif/env"
	"metacontroller/pkg/zzverif/gen"
	rt "metacontroller/pkg/zzverif/rt"
)

type verifStrategy struct{ m v1alpha1.ChildUpdateMethod }

func (s verifStrategy) GetMethod(apiGroup, kind string) v1alpha1.ChildUpdateMethod { return s.m }

// verifChild builds a child of the chosen kind carrying one owned field.
func verifChild(named bool, ns, name, uid, val string) *unstructured.Unstructured {
	var o *unstructured.Unstructured
	if named {
		o = env.Obj("apps.ex.com/v1", "Widget", ns, name, uid)
		o.Object["spec"] = map[string]interface{}{"k": val}
	} else {
		o = env.ConfigMap(ns, name, uid, val)
	}
	return o
}

func verifChildRes(named bool) string {
	if named {
		return "widgets"
	}
	return "configmaps"
}

// verifApplied returns the observed form of a child that was previously
// created from `applied` by the parent: the applied fields, a last-applied
// record, a controller reference, server-populated metadata.
func verifApplied(applied *unstructured.Unstructured, parent *unstructured.Unstructured, uid string) *unstructured.Unstructured {
	o := applied.DeepCopy()
	// the server never takes status or system metadata from the parent's writes
	delete(o.Object, "status")
	md := o.Object["metadata"].(map[string]interface{})
	md["uid"] = uid
	md["resourceVersion"] = "7"
	md["generation"] = int64(1)
	md["creationTimestamp"] = "2023-01-01T00:00:00Z"
	b, _ := k8sjson.Marshal(applied.Object)
	env.SetAnnotation(o, "metacontroller.k8s.io/last-applied-configuration", string(b))
	env.AddOwnerRef(o, env.OwnerRefMap(parent.GetAPIVersion(), parent.GetKind(), parent.GetName(), string(parent.GetUID()), true))
	return o
}

func VerifC06_UpdateStrategy() {
	w := env.NewWorld()
	named := rt.Bool("named-group")
	res := verifChildRes(named)
	parent := env.Thing("ns", "p", "puid")
	parentKind := "Thing"
	if rt.Bool("parent-cluster-scoped") {
		// a cluster-scoped parent with namespaced children: every child request
		// still has to go to the CHILD's namespace
		rt.Cover("cluster-scoped-parent")
		parentKind = "ClusterThing"
		parent = env.Obj("ex.com/v1", parentKind, "", "p", "puid")
	}
	method := rt.OneOf(rt.String("method"), "", "OnDelete", "Recreate", "RollingRecreate", "InPlace", "RollingInPlace")
	uid := rt.String("uid")
	rt.Assume(uid != "")
	obsVal := rt.String("obsVal")
	desVal := rt.String("desVal")

	exists := rt.Bool("exists")
	wanted := rt.Bool("wanted")
	rt.Assume(exists || wanted)
	deleting := false
	var observedList, desiredList []*unstructured.Unstructured
	var obs *unstructured.Unstructured
	// a hook that (wrongly) sets status and system metadata does so on every call
	hookSetsSystem := rt.Bool("hook-sets-system-fields")
	// a hook that writes an explicitly EMPTY list (of objects) on every call, to
	// which somebody else adds an item on the live child ("foreign-field")
	emptyList := exists && wanted && rt.Bool("hook-lists-an-explicitly-empty-list")
	if emptyList {
		rt.Cover("explicitly-empty-list")
	}
	withSystem := func(des *unstructured.Unstructured) *unstructured.Unstructured {
		if emptyList {
			des.Object["items"] = []interface{}{}
		}
		if hookSetsSystem {
			des.Object["status"] = map[string]interface{}{"phase": "hook"}
			md := des.Object["metadata"].(map[string]interface{})
			md["resourceVersion"] = "999"
			md["uid"] = "hook-uid"
			md["generation"] = int64(42)
		}
		return des
	}
	if exists {
		obs = verifApplied(withSystem(verifChild(named, "ns", "a", "", obsVal)), parent, uid)
		if wanted && rt.Bool("third-party-changed-the-owned-field-after-it-was-applied") {
			// the child was applied from the CURRENT desired state (the last-applied
			// record says desVal) and then somebody else changed the owned field
			rt.Cover("drift-by-third-party")
			obs = verifApplied(withSystem(verifChild(named, "ns", "a", "", desVal)), parent, uid)
			key := "data"
			if named {
				key = "spec"
			}
			obs.Object[key].(map[string]interface{})["k"] = obsVal
		}
		if rt.Bool("foreign-field") {
			// someone else added a field and a label
			key := "data"
			if named {
				key = "spec"
			}
			obs.Object[key].(map[string]interface{})["other"] = rt.String("foreign")
			env.SetLabel(obs, "added-by", "someone")
			if emptyList {
				obs.Object["items"] = []interface{}{map[string]interface{}{"name": rt.String("foreign-item"), "v": "x"}}
			}
		}
		if rt.Bool("has-status") {
			obs.Object["status"] = map[string]interface{}{"phase": rt.String("phase")}
		}
		deleting = rt.Bool("deleting")
		if deleting {
			env.MarkDeleting(obs)
		}
		w.Srv.Put(res, obs)
		observedList = append(observedList, obs)
	}
	// a hook may echo the annotations of the child it was shown (incl. our
	// last-applied record); that must not make a matching child look different
	echo := exists && wanted && rt.Bool("hook-echoes-annotations")
	if wanted {
		// differences only in status or system metadata must count as equal
		des := withSystem(verifChild(named, "ns", "a", "", desVal))
		if echo {
			rt.Cover("echo")
			for k, v := range obs.GetAnnotations() {
				env.SetAnnotation(des, k, v)
			}
		}
		desiredList = append(desiredList, des)
	}
	observed := commonv2.MakeUniformObjectMap(parent, observedList)
	desired := commonv2.MakeUniformObjectMap(parent, desiredList)
	if !wanted {
		// the controller always initialises the groups it manages
		desired.InitGroup(observedList[0].GroupVersionKind())
	}

	err := ManageChildren(w.Dyn, verifStrategy{v1alpha1.ChildUpdateMethod(method)}, parent, observed, desired, &ApplyOptions{Strategy: ApplyStrategyDynamicApply})

	wr := w.Srv.Writes()
	rt.Observe("writes", len(wr))
	rt.Observe("err", err != nil)
	for _, r := range wr {
		rt.Assert(r.Resource == res && r.NS == "ns" && r.Name == "a", "write-to-unexpected-target")
	}
	inPlace := method == "InPlace" || method == "RollingInPlace"
	recreate := method == "Recreate" || method == "RollingRecreate"
	onDelete := method == "OnDelete" || method == ""
	switch {
	case !exists:
		rt.Cover("create")
		rt.Assert(err == nil, "create/error")
		rt.Assert(len(wr) == 1, "create/exactly-one-request")
		if len(wr) == 1 {
			r := wr[0]
			rt.Assert(r.Verb == "create", "create/verb")
			if r.Verb == "create" {
				ref := metav1.GetControllerOf(r.Body)
				rt.Assert(ref != nil, "create/controller-reference-missing")
				if ref != nil {
					rt.Assert(ref.UID == "puid" && ref.Name == "p" && ref.Kind == parentKind && ref.APIVersion == "ex.com/v1", "create/controller-reference-wrong")
				}
				rt.Assert(r.Body.GetAnnotations()["metacontroller.k8s.io/last-applied-configuration"] != "", "create/last-applied-missing")
			}
		}
	case !wanted:
		if deleting {
			rt.Cover("undesired-but-pending-deletion")
			rt.Assert(len(wr) == 0, "pending-deletion/write")
			rt.Assert(err == nil, "pending-deletion/error")
		} else {
			rt.Cover("delete-undesired")
			rt.Assert(err == nil, "delete-undesired/error")
			rt.Assert(len(wr) == 1, "delete-undesired/exactly-one-request")
			if len(wr) == 1 {
				verifAssertDelete(wr[0], uid, "delete-undesired")
			}
		}
	default:
		differs := obsVal != desVal
		switch {
		case !differs:
			rt.Cover("matches")
			rt.Assert(len(wr) == 0, "matches/write-although-equal")
			rt.Assert(err == nil, "matches/error")
		case deleting:
			rt.Cover("differs-but-pending-deletion")
			rt.Assert(len(wr) == 0, "pending-deletion/write")
			rt.Assert(err == nil, "pending-deletion/error")
		case onDelete:
			rt.Cover("ondelete")
			rt.Assert(len(wr) == 0, "ondelete/write")
			rt.Assert(err == nil, "ondelete/error")
		case recreate:
			rt.Cover("recreate")
			rt.Assert(err == nil, "recreate/error")
			rt.Assert(len(wr) == 1, "recreate/exactly-one-request")
			if len(wr) == 1 {
				rt.Assert(wr[0].Verb != "update", "recreate/updated-in-place")
				verifAssertDelete(wr[0], uid, "recreate")
			}
		case inPlace:
			rt.Cover("inplace")
			rt.Assert(err == nil, "inplace/error")
			rt.Assert(len(wr) == 1, "inplace/exactly-one-request")
			if len(wr) == 1 {
				r := wr[0]
				rt.Assert(r.Verb != "delete", "inplace/deleted")
				rt.Assert(r.Verb == "update" && r.Sub == "", "inplace/verb")
				if r.Verb == "update" {
					rt.Assert(string(r.Body.GetUID()) == uid, "inplace/body-uid")
					rt.Assert(r.Body.GetResourceVersion() == "7", "inplace/body-resourceVersion")
					rt.Assert(r.Accepted, "inplace/rejected-by-server")
					// the update records what was applied NOW (the next three-way merge
					// starts from it): the last-applied record equals the desired child
					rec := map[string]interface{}{}
					ann := r.Body.GetAnnotations()["metacontroller.k8s.io/last-applied-configuration"]
					rt.Assert(ann != "", "inplace/last-applied-record-missing")
					if ann != "" && k8sjson.Unmarshal([]byte(ann), &rec) == nil {
						// (the desired child as the hook returned it, minus metacontroller's
						// own annotation, which a hook that echoes annotations sends back)
						want := desiredList[0].DeepCopy()
						wa := want.GetAnnotations()
						delete(wa, "metacontroller.k8s.io/last-applied-configuration")
						if len(wa) == 0 {
							unstructured.RemoveNestedField(want.Object, "metadata", "annotations")
						} else {
							want.SetAnnotations(wa)
						}
						gen.Equal(rec, want.Object, "inplace/last-applied-record-is-not-the-desired-state-just-applied")
					}
				}
			}
		default:
			rt.Cover("unknown-method")
			rt.Assert(err != nil, "unknown-method/no-error")
			rt.Assert(len(wr) == 0, "unknown-method/write")
		}
	}
}

func verifAssertDelete(r env.Req, uid string, what string) {
	rt.Assert(r.Verb == "delete", what+"/verb")
	if r.Verb != "delete" {
		return
	}
	rt.Assert(r.UIDPre != nil, what+"/no-uid-precondition")
	if r.UIDPre != nil {
		rt.Assert(string(*r.UIDPre) == uid, what+"/uid-precondition-differs-from-observed")
	}
	rt.Assert(r.Propagation == "Background", what+"/propagation-not-background")
	rt.Assert(r.Accepted, what+"/rejected-by-server")
}

// ---- thorough: two children of two kinds in one pass ----

type verifC06Kid struct {
	named            bool
	name, res        string
	exists, wanted   bool
	deleting         bool
	uid              string
	obsVal, desVal   string
}

// verifC06Expected returns the verb the strategy allows for this child ("" = no request).
func verifC06Expected(k *verifC06Kid, method string) (verb string, wantErr bool) {
	switch {
	case !k.exists:
		return "create", false
	case !k.wanted:
		if k.deleting {
			return "", false
		}
		return "delete", false
	case k.obsVal == k.desVal, k.deleting:
		return "", false
	case method == "OnDelete" || method == "":
		return "", false
	case method == "Recreate" || method == "RollingRecreate":
		return "delete", false
	case method == "InPlace" || method == "RollingInPlace":
		return "update", false
	}
	return "", true
}

func VerifC06_TwoChildren() {
	w := env.NewWorld()
	parent := env.Thing("ns", "p", "puid")
	method := rt.OneOf(rt.String("method"), "", "OnDelete", "Recreate", "RollingRecreate", "InPlace", "RollingInPlace")
	kids := []*verifC06Kid{{named: false, name: "a", res: "configmaps"}, {named: true, name: "b", res: "widgets"}}
	var observedList, desiredList []*unstructured.Unstructured
	for _, k := range kids {
		k.exists = rt.Bool("exists-" + k.name)
		k.wanted = rt.Bool("wanted-" + k.name)
		rt.Assume(k.exists || k.wanted)
		k.uid = rt.String("uid-" + k.name)
		rt.Assume(k.uid != "")
		k.obsVal, k.desVal = rt.String("obsVal-"+k.name), rt.String("desVal-"+k.name)
		if k.exists {
			k.deleting = rt.Bool("deleting-" + k.name)
		}
	}
	for _, k := range kids {
		if k.exists {
			obs := verifApplied(verifChild(k.named, "ns", k.name, "", k.obsVal), parent, k.uid)
			if k.deleting {
				env.MarkDeleting(obs)
			}
			w.Srv.Put(k.res, obs)
			observedList = append(observedList, obs)
		}
		if k.wanted {
			desiredList = append(desiredList, verifChild(k.named, "ns", k.name, "", k.desVal))
		}
	}
	observed := commonv2.MakeUniformObjectMap(parent, observedList)
	desired := commonv2.MakeUniformObjectMap(parent, desiredList)
	for _, o := range observedList {
		desired.InitGroup(o.GroupVersionKind())
	}
	// the first child request of the sync may be refused by the API server (RBAC,
	// an admission webhook, a 500): every OTHER child still gets the write its
	// strategy asks for
	if rt.Bool("the-first-child-request-is-refused") {
		rt.Cover("two-children/first-request-refused")
		kind := env.FaultInternal
		if rt.Bool("refused-as-422-invalid") {
			// (an immutable field, a failed CRD validation: still no reason to
			// answer with another verb - an InPlace child is never deleted)
			rt.Cover("two-children/first-request-refused-as-invalid")
			kind = env.FaultInvalid
		}
		w.Srv.ArmFault(0, kind, "", false)
	}
	err := ManageChildren(w.Dyn, verifStrategy{v1alpha1.ChildUpdateMethod(method)}, parent, observed, desired, &ApplyOptions{Strategy: ApplyStrategyDynamicApply})
	anyErr := false
	for _, r := range w.Srv.Log {
		if r.Err != nil {
			anyErr = true
		}
	}
	for _, k := range kids {
		want, wantErr := verifC06Expected(k, method)
		if wantErr {
			anyErr = true
		}
		n := 0
		for _, r := range w.Srv.Writes() {
			if r.Resource != k.res || r.Name != k.name {
				continue
			}
			n++
			rt.Assert(want != "", "two-children/"+k.name+"/request-although-none-allowed")
			if want != "" {
				rt.Assert(r.Verb == want, "two-children/"+k.name+"/wrong-verb-for-strategy")
			}
			if r.Verb == "delete" {
				rt.Assert(r.UIDPre != nil && string(*r.UIDPre) == k.uid, "two-children/"+k.name+"/delete-uid-precondition")
				rt.Assert(r.Propagation == "Background", "two-children/"+k.name+"/delete-propagation")
			}
		}
		if want != "" {
			rt.Assert(n == 1, "two-children/"+k.name+"/expected-exactly-one-request")
		}
	}
	for _, r := range w.Srv.Writes() {
		rt.Assert((r.Resource == "configmaps" && r.Name == "a") || (r.Resource == "widgets" && r.Name == "b"), "two-children/write-to-unexpected-target")
	}
	rt.Assert((err != nil) == anyErr, "two-children/error-iff-unknown-method-applies")
	rt.Cover("two-children")
}

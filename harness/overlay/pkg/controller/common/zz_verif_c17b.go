package common

// C17 (cache purity, verbose logging) — with log verbosity 5 updateChildren
// renders a JSON merge patch between the observed (cached!) child and the
// merged object for the log. Rendering a diff must not edit the cached child
// either: code that only runs for debugging output is still code that runs in
// production when somebody turns the verbosity up.

import (
	"k8s.io/apimachinery/pkg/apis/meta/v1/unstructured"

	"metacontroller/pkg/apis/metacontroller/v1alpha1"
	commonv2 "metacontroller/pkg/controller/common/api/v2"
	"metacontroller/pkg/logging"
	"metacontroller/pkg/zzverif/env"
	"metacontroller/pkg/zzverif/gen"
	"metacontroller/pkg/zzverif/logsink"
	rt "metacontroller/pkg/zzverif/rt"
)

func VerifC17_VerboseDiffPurity() {
	saved := logging.Logger
	defer func() { logging.Logger = saved }()
	if rt.Bool("log-verbosity-5") {
		rt.Cover("verbose")
		logging.Logger = logsink.Verbose()
	}
	w := env.NewWorld()
	parent := env.Thing("ns", "p", "puid")
	method := rt.OneOf(rt.String("method"), "OnDelete", "Recreate", "InPlace")
	rt.Assume(method == "OnDelete" || method == "Recreate" || method == "InPlace")
	obsVal, desVal := rt.String("obsVal"), rt.String("desVal")
	applied := verifChild(false, "ns", "a", "", obsVal)
	des := verifChild(false, "ns", "a", "", desVal)
	// the child may carry a list of keyed items at the TOP level (subjects of a
	// RoleBinding, secrets of a ServiceAccount, webhooks of a webhook
	// configuration): the merge goes INTO the items of such a list, so a copy of
	// the cached child that is not deep all the way down is written through
	if rt.Bool("child-has-a-top-level-list-of-keyed-items") {
		rt.Cover("top-level-list-map")
		applied.Object["subjects"] = []interface{}{map[string]interface{}{"name": "s", "namespace": obsVal}, map[string]interface{}{"name": "t", "namespace": "fixed"}}
		des.Object["subjects"] = []interface{}{map[string]interface{}{"name": "s", "namespace": desVal}, map[string]interface{}{"name": "t", "namespace": "fixed"}}
	}
	obs := verifApplied(applied, parent, "uid-a")
	if rt.Bool("update-meets-a-conflict") {
		// a swallowed conflict: no write follows that would refresh the cache entry
		w.Srv.ArmFault(0, env.FaultConflict, "configmaps", false)
	}
	w.Srv.Put("configmaps", obs)
	before := gen.DeepCopy(obs.Object)
	observed := commonv2.MakeUniformObjectMap(parent, []*unstructured.Unstructured{obs})
	desired := commonv2.MakeUniformObjectMap(parent, []*unstructured.Unstructured{des})
	err := ManageChildren(w.Dyn, verifStrategy{v1alpha1.ChildUpdateMethod(method)}, parent, observed, desired, &ApplyOptions{Strategy: ApplyStrategyDynamicApply})
	rt.Observe("err", err != nil)
	if obsVal != desVal {
		rt.Cover("differs")
	}
	gen.Equal(obs.Object, before, "C17/cached-child-mutated-by-manage-children")
}

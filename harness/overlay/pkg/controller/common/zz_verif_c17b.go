package common

// C17 (cache purity, verbose logging) — with log verbosity 5 updateChildren
// renders a JSON merge patch between the observed (cached!) child and the
// merged object for the log. Rendering a diff must not edit the cached child
// either: code that only runs for debugging output is still code that runs in
// production when somebody turns the verbosity up.

import (
	"k8s.io/apimachinery/pkg/apis/meta/v1/unstructured"

	"metacontroller/pkg/apis/metacontroller/v1alpha1"
	commonv2 "metacontroller/pkg/controller/common/api/v2"
	"metacontroller/pkg/logging"
	"metacontroller/pkg/zzverif/env"
	"metacontroller/pkg/zzverif/gen"
	"metacontroller/pkg/zzverif/logsink"
	rt "metacontroller/pkg/zzverif/rt"
)

func VerifC17_VerboseDiffPurity() {
	saved := logging.Logger
	defer func() { logging.Logger = saved }()
	if rt.Bool("log-verbosity-5") {
		rt.Cover("verbose")
		logging.Logger = logsink.Verbose()
	}
	w := env.NewWorld()
	parent := env.Thing("ns", "p", "puid")
	method := rt.OneOf(rt.String("method"), "OnDelete", "Recreate", "InPlace")
	rt.Assume(method == "OnDelete" || method == "Recreate" || method == "InPlace")
	obsVal, desVal := rt.String("obsVal"), rt.String("desVal")
	obs := verifApplied(verifChild(false, "ns", "a", "", obsVal), parent, "uid-a")
	if rt.Bool("update-meets-a-conflict") {
		// a swallowed conflict: no write follows that would refresh the cache entry
		w.Srv.ArmFault(0, env.FaultConflict, "configmaps", false)
	}
	w.Srv.Put("configmaps", obs)
	before := gen.DeepCopy(obs.Object)
	observed := commonv2.MakeUniformObjectMap(parent, []*unstructured.Unstructured{obs})
	desired := commonv2.MakeUniformObjectMap(parent, []*unstructured.Unstructured{verifChild(false, "ns", "a", "", desVal)})
	err := ManageChildren(w.Dyn, verifStrategy{v1alpha1.ChildUpdateMethod(method)}, parent, observed, desired, &ApplyOptions{Strategy: ApplyStrategyDynamicApply})
	rt.Observe("err", err != nil)
	if obsVal != desVal {
		rt.Cover("differs")
	}
	gen.Equal(obs.Object, before, "C17/cached-child-mutated-by-manage-children")
}

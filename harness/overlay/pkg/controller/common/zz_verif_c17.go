package common

// C17 (concurrency half) — two queue workers reconcile the children of two
// distinct parents at the same time (ManageChildren on both, sharing the
// process-wide server-side-apply memo). Decided on every explored path: the
// executor's happens-before check of every Go map access (vector clocks over
// go statements, mutexes, wait groups, channels), and the sequential-equivalence
// oracle: the store ends up as if the two reconciliations had run one after the
// other. A reported race is confirmed natively by `go test -race`.

import (
	"sync"

	"k8s.io/apimachinery/pkg/apis/meta/v1/unstructured"

	"metacontroller/pkg/apis/metacontroller/v1alpha1"
	commonv2 "metacontroller/pkg/controller/common/api/v2"
	"metacontroller/pkg/zzverif/env"
	rt "metacontroller/pkg/zzverif/rt"
)

func VerifC17_ConcurrentManageChildren() {
	VerifResetSSAMemo()
	w := env.NewWorld()
	ssa := rt.Bool("server-side-apply")
	opts := &ApplyOptions{Strategy: ApplyStrategyDynamicApply}
	if ssa {
		opts = &ApplyOptions{Strategy: ApplyStrategyServerSideApply, FieldManager: "metacontroller"}
	}
	method := rt.OneOf(rt.String("method"), "InPlace", "Recreate", "OnDelete")
	rt.Assume(method == "InPlace" || method == "Recreate" || method == "OnDelete")
	val := rt.String("desired-value")

	type job struct {
		parent            *unstructured.Unstructured
		observed, desired commonv2.UniformObjectMap
		err               error
	}
	mk := func(i int) *job {
		sfx := string(rune('1' + i))
		parent := env.Thing("ns", "p"+sfx, "puid"+sfx)
		w.Srv.Put("things", parent)
		j := &job{parent: parent, observed: commonv2.UniformObjectMap{}, desired: commonv2.UniformObjectMap{}}
		// an owned child that is no longer desired (deleted), one that changes, one that is new
		old := verifApplied(env.ConfigMap("ns", "old"+sfx, "", "x"), parent, "uid-old"+sfx)
		keep := verifApplied(env.ConfigMap("ns", "keep"+sfx, "", "before"), parent, "uid-keep"+sfx)
		w.Srv.Put("configmaps", old)
		w.Srv.Put("configmaps", keep)
		j.observed.Insert(parent, old)
		j.observed.Insert(parent, keep)
		j.desired.Insert(parent, env.ConfigMap("ns", "keep"+sfx, "", val))
		j.desired.Insert(parent, env.ConfigMap("ns", "new"+sfx, "", val))
		return j
	}
	jobs := []*job{mk(0), mk(1)}
	strategy := verifStrategy{v1alpha1.ChildUpdateMethod(method)}
	var wg sync.WaitGroup
	for _, j := range jobs {
		wg.Add(1)
		go func(j *job) {
			defer wg.Done()
			j.err = ManageChildren(w.Dyn, strategy, j.parent, j.observed, j.desired, opts)
		}(j)
	}
	wg.Wait()
	for i, j := range jobs {
		sfx := string(rune('1' + i))
		rt.Assert(j.err == nil, "concurrent/manage-children-error")
		rt.Assert(w.Srv.Peek("configmaps", "ns", "old"+sfx) == nil, "concurrent/undesired-child-not-deleted")
		n := w.Srv.Peek("configmaps", "ns", "new"+sfx)
		rt.Assert(n != nil, "concurrent/new-child-not-created")
		if n != nil {
			d, _ := n.Object["data"].(map[string]interface{})
			rt.Assert(d["k"] == val, "concurrent/new-child-value")
		}
		k := w.Srv.Peek("configmaps", "ns", "keep"+sfx)
		if method == "InPlace" || ssa {
			rt.Assert(k != nil, "concurrent/kept-child-missing")
			if k != nil {
				d, _ := k.Object["data"].(map[string]interface{})
				rt.Assert(d["k"] == val, "concurrent/kept-child-not-updated")
			}
		}
	}
	rt.Cover("concurrent/done")
}

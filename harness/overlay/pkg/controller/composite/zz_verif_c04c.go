package composite

// C04 — "never creates a child it would immediately orphan", for the
// ControllerRevisions a rolling controller creates itself: the revision that
// the real newControllerRevision builds for a parent is one that the real
// claimRevisions of the NEXT sync keeps (owned and matching its own selector) -
// for parents of a named API group and of the legacy core group (whose group
// name is empty), namespaced and cluster-scoped, with a generated selector or
// the parent's own.

import (
	"k8s.io/apimachinery/pkg/apis/meta/v1/unstructured"
	"k8s.io/apimachinery/pkg/types"

	"metacontroller/pkg/apis/metacontroller/v1alpha1"
	dynamicdiscovery "metacontroller/pkg/dynamic/discovery"
	"metacontroller/pkg/zzverif/env"
	rt "metacontroller/pkg/zzverif/rt"
)

func VerifC04_CreatedRevisionIsClaimable() {
	w := env.NewWorld()
	var res *dynamicdiscovery.APIResource
	ns := "ns"
	switch rt.Choice("parent-resource", 3) {
	case 0:
		res = env.ThingRes
		rt.Cover("created-revision/named-group")
	case 1:
		res = env.PodRes
		rt.Cover("created-revision/core-group")
	default:
		res = env.ClusterThingRes
		ns = ""
		rt.Cover("created-revision/cluster-scoped")
	}
	gensel := rt.Bool("generateSelector")
	selVal := rt.String("selector-value")
	rt.Assume(selVal != "")
	parent := env.Obj(res.APIVersion, res.Kind, ns, "p", "puid")
	spec := map[string]interface{}{"x": rt.String("spec-x")}
	if !gensel || rt.Bool("selector-present-anyway") {
		spec["selector"] = map[string]interface{}{"matchLabels": map[string]interface{}{"app": selVal}}
		spec["template"] = map[string]interface{}{"metadata": map[string]interface{}{"labels": map[string]interface{}{"app": selVal}}}
	}
	parent.Object["spec"] = spec
	w.Srv.Put(res.Name, parent)
	pc := verifNewPC(w, verifPCConfig{
		ParentRes: res, GenerateSelector: gensel,
		Children: []verifChildRule{{Res: env.ConfigMapRes, Strategy: verifStrategyOf("RollingInPlace")}},
	})

	rev, err := pc.newControllerRevision(parent, map[string]interface{}{"spec": map[string]interface{}{"x": "old"}})
	rt.Assert(err == nil && rev != nil, "created-revision/not-built")
	if err != nil || rev == nil {
		return
	}
	rt.Assert(rev.Namespace == ns, "created-revision/namespace-is-not-the-parents")
	// what the API server hands back after the create
	stored := rev.DeepCopy()
	stored.UID = types.UID("ruid")
	stored.ResourceVersion = "5"
	w.Srv.PutRev(stored.DeepCopy())
	pc.Snapshot([]*unstructured.Unstructured{parent}, map[string][]*unstructured.Unstructured{}, []*v1alpha1.ControllerRevision{stored})
	before := len(w.Srv.Log)

	got, err := pc.claimRevisions(parent)
	rt.Assert(err == nil, "created-revision/claim-fails")
	rt.Assert(len(got) == 1, "created-revision/not-claimed-by-the-next-sync")
	for _, r := range w.Srv.Log[before:] {
		rt.Assert(!r.IsWrite(), "created-revision/written-by-the-next-sync(released)")
	}
	live := w.Srv.Revs()
	rt.Assert(len(live) == 1, "created-revision/store-changed")
	if len(live) == 1 {
		rt.Assert(len(live[0].OwnerReferences) == 1, "created-revision/owner-reference-lost")
	}
}

package composite

// C13 — a hook answer that, in the MIDDLE of a rolling update, leaves out (or
// lists null in place of) a child that a ControllerRevision still claims: whole
// real syncs never panic, the answer is acted upon like any other (the child
// that is no longer desired is deleted, the others keep rolling) and no
// revision keeps a claim on a child nobody desires.

import (
	"metacontroller/pkg/zzverif/env"
	rt "metacontroller/pkg/zzverif/rt"
)

func VerifC13_RolloutAnswerDropsClaimedChild() {
	r := verifNewRollWorld(true, verifRollMethod(), []string{"a", "b", "c"}, "1")
	rt.Assert(r.sync() == nil, "drop/first-sync-error")
	r.markHealthy()
	r.setSpec("2")
	// one or two rollout steps: the latest revision claims a (and b), the old one the rest
	steps := 1 + rt.Choice("rollout-syncs-before-the-answer-changes", 2)
	for i := 0; i < steps; i++ {
		rt.Assert(r.sync() == nil, "drop/rollout-sync-error")
		r.markHealthy()
	}
	// from now on the hook omits / nulls one child
	victim := []string{"a", "b", "c"}[rt.Choice("child-left-out", 3)]
	how := 1 + rt.Choice("listed-as-null", 2)
	r.omit = map[string]int{victim: how}
	if how == 2 {
		rt.Cover("drop/null-entry")
	} else {
		rt.Cover("drop/omitted")
	}
	for i := 0; i < 6; i++ {
		err := r.sync()
		rt.Assert(err == nil, "drop/sync-error-after-the-answer-changed")
		r.markHealthy()
	}
	_, there := r.childValue(victim)
	rt.Assert(!there, "drop/child-no-longer-desired-still-exists")
	rt.Assert(r.claimCount(victim) == 0, "drop/revision-keeps-a-claim-on-a-child-nobody-desires")
	for _, n := range r.names {
		if n == victim {
			continue
		}
		v, ok := r.childValue(n)
		rt.Assert(ok && v == "2", "drop/remaining-child-not-at-the-latest-state")
	}
	rt.Assert(len(r.w.Srv.Revs()) == 1, "drop/old-revision-not-pruned")
	_ = env.FaultNone
}

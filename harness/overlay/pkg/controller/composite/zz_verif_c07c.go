package composite

// C07 / C08, Level B — a rolling update over TWO child kinds at once
// (ConfigMaps a1,a2 and Widgets w1,w2, both with a rolling strategy). Whole real
// syncs in a fair environment; after a spec change every sync moves at most one
// child, in the order of the hook's response, every other child keeps the value
// of the revision it is assigned to, each child is claimed by exactly one
// revision, and the rollout completes and prunes the old revision.

import (
	"k8s.io/apimachinery/pkg/apis/meta/v1/unstructured"

	v1 "metacontroller/pkg/controller/composite/api/v1"
	"metacontroller/pkg/zzverif/env"
	rt "metacontroller/pkg/zzverif/rt"
)

type verifTwoKinds struct {
	pods   bool // the second kind is Pod (core group, like ConfigMap) instead of Widget
	stanza bool // desired children carry an empty status stanza; nobody writes child status
	w      *env.World
	pc     *verifPC
	order  []string // hook order of the four children
}

func verifTwoKindsIsWidget(n string) bool { return n[0] == 'w' }

func (t *verifTwoKinds) mk(n, x string) *unstructured.Unstructured {
	var o *unstructured.Unstructured
	if verifTwoKindsIsWidget(n) && t.pods {
		o = env.Obj("v1", "Pod", "ns", n, "")
		o.Object["spec"] = map[string]interface{}{"k": x}
	} else if verifTwoKindsIsWidget(n) {
		o = env.Obj("apps.ex.com/v1", "Widget", "ns", n, "")
		o.Object["spec"] = map[string]interface{}{"k": x}
	} else {
		o = env.ConfigMap("ns", n, "", x)
	}
	env.SetLabel(o, "app", "x")
	if t.stanza {
		// what hooks written with typed structs emit; the API server drops it on
		// create for kinds with a status subresource (Widget), keeps it otherwise
		o.Object["status"] = map[string]interface{}{}
	}
	return o
}

func (t *verifTwoKinds) value(n string) (string, bool) {
	if verifTwoKindsIsWidget(n) {
		o := t.w.Srv.Peek(t.res2(), "ns", n)
		if o == nil {
			return "", false
		}
		sp, _ := o.Object["spec"].(map[string]interface{})
		s, _ := sp["k"].(string)
		return s, true
	}
	o := t.w.Srv.Peek("configmaps", "ns", n)
	if o == nil {
		return "", false
	}
	d, _ := o.Object["data"].(map[string]interface{})
	s, _ := d["k"].(string)
	return s, true
}

func (t *verifTwoKinds) res2() string {
	if t.pods {
		return "pods"
	}
	return "widgets"
}

func (t *verifTwoKinds) markHealthy() {
	if t.stanza {
		return
	}
	for _, res := range []string{"configmaps", t.res2()} {
		for _, o := range t.w.Srv.All(res) {
			o.Object["status"] = map[string]interface{}{"observedGeneration": o.GetGeneration()}
			t.w.Srv.Put(res, o)
		}
	}
}

func (t *verifTwoKinds) sync() error {
	t.pc.SnapshotFromStore()
	return t.pc.syncParentObject(t.pc.W.Srv.All("things")[0])
}

func (t *verifTwoKinds) claims(n string) int {
	c := 0
	for _, rev := range t.w.Srv.Revs() {
		for _, ck := range rev.Children {
			if (ck.Kind == "Widget" || ck.Kind == "Pod") != verifTwoKindsIsWidget(n) {
				continue
			}
			for _, x := range ck.Names {
				if x == n {
					c++
				}
			}
		}
	}
	return c
}

func VerifC07_TwoKinds() {
	t := &verifTwoKinds{w: env.NewWorld()}
	parent := env.Thing("ns", "p", "puid")
	parent.Object["spec"] = map[string]interface{}{
		"x":        "1",
		"selector": map[string]interface{}{"matchLabels": map[string]interface{}{"app": "x"}},
		"template": map[string]interface{}{"metadata": map[string]interface{}{"labels": map[string]interface{}{"app": "x"}}},
	}
	t.w.Srv.Put("things", parent)
	// the hook lists the two kinds in either order, or interleaved
	switch rt.Choice("hook-order", 3) {
	case 0:
		t.order = []string{"a1", "a2", "w1", "w2"}
	case 1:
		t.order = []string{"w1", "w2", "a1", "a2"}
	default:
		t.order = []string{"a1", "w1", "a2", "w2"}
	}
	// each kind rolls in place, rolls by recreation, or is not rolling at all
	// (plain InPlace: all its children change at once) - at least one kind rolls
	methods := []string{"RollingInPlace", "RollingRecreate", "InPlace"}
	mA := methods[rt.Choice("configmaps-method", 3)]
	nW := 3
	if mA == "InPlace" {
		nW = 2
	}
	mW := methods[rt.Choice("widgets-method", nW)]
	rolling := func(n string) bool {
		if verifTwoKindsIsWidget(n) {
			return mW != "InPlace"
		}
		return mA != "InPlace"
	}
	nRolling := 0
	if mA != "InPlace" {
		nRolling += 2
	}
	if mW != "InPlace" {
		nRolling += 2
	}
	if nRolling == 2 {
		rt.Cover("twokinds/one-kind-not-rolling")
	}
	hook := &verifHook{enabled: true, fn: func(req *v1.CompositeHookRequest) (*v1.CompositeHookResponse, error) {
		x, _, _ := unstructured.NestedString(req.Parent.Object, "spec", "x")
		var kids []*unstructured.Unstructured
		for _, n := range t.order {
			kids = append(kids, t.mk(n, x))
		}
		return &v1.CompositeHookResponse{Children: kids, Status: map[string]interface{}{"phase": "ok"}}, nil
	}}
	// the declaration order of the child resources is independent of the hook order
	// the two kinds may live in different API groups (ConfigMap + Widget) or in
	// the same one (ConfigMap + Pod); explored for the first hook order only
	res2 := env.WidgetRes
	if len(t.order) == 4 && t.order[0] == "a1" && t.order[1] == "a2" && rt.Bool("both-kinds-in-the-same-api-group") {
		rt.Cover("twokinds/same-api-group")
		t.pods = true
		res2 = env.PodRes
	}
	rules := []verifChildRule{{Res: env.ConfigMapRes, Strategy: verifStrategyOf(mA)}, {Res: res2, Strategy: verifStrategyOf(mW)}}
	declaredFirst := rt.Bool("widgets-declared-first")
	if declaredFirst {
		rules[0], rules[1] = rules[1], rules[0]
	}
	t.pc = verifNewPC(t.w, verifPCConfig{ParentRes: env.ThingRes, Children: rules, Sync: hook})

	// (explored for the interleaved hook order and the default declaration order only)
	if len(t.order) == 4 && t.order[1] == "w1" && !declaredFirst && rt.Bool("desired-children-carry-a-status-stanza-and-nobody-writes-child-status") {
		rt.Cover("twokinds/status-stanza")
		t.stanza = true
	}
	// the order of the kind groups inside a ControllerRevision comes from ranging
	// over a Go map: explore insertion order and its reverse
	if rt.Bool("maps-reversed") {
		rt.ReverseMaps(true)
	}
	rt.Assert(t.sync() == nil, "twokinds/first-sync-error")
	for _, n := range t.order {
		v, ok := t.value(n)
		rt.Assert(ok && v == "1", "twokinds/first-sync-child-not-created")
	}
	rt.Assert(len(t.w.Srv.Revs()) == 1, "twokinds/first-sync-not-exactly-one-revision")
	t.markHealthy()
	// the user edits the parent
	p := t.w.Srv.Peek("things", "ns", "p").DeepCopy()
	p.Object["spec"].(map[string]interface{})["x"] = "2"
	p.SetGeneration(p.GetGeneration() + 1)
	p.SetResourceVersion(p.GetResourceVersion() + "+")
	t.w.Srv.Put("things", p)

	// A move under RollingRecreate takes two syncs: delete, then create.
	moved := 0
	for step := 0; step < 9; step++ {
		before := map[string]string{}
		for _, n := range t.order {
			before[n] = "gone"
			if v, ok := t.value(n); ok {
				before[n] = v
			}
		}
		err := t.sync()
		rt.Assert(err == nil, "twokinds/sync-error-during-rollout")
		left := 0
		for i, n := range t.order {
			after := "gone"
			if v, ok := t.value(n); ok {
				after = v
			}
			recreate := mA == "RollingRecreate"
			if verifTwoKindsIsWidget(n) {
				recreate = mW == "RollingRecreate"
			}
			if after == "gone" {
				rt.Assert(recreate, "twokinds/child-missing-during-in-place-rollout")
			} else {
				rt.Assert(after == "1" || after == "2", "twokinds/child-has-a-value-of-no-revision")
			}
			if before[n] == "2" {
				rt.Assert(after == "2", "twokinds/child-on-latest-moved-back")
			}
			if !rolling(n) {
				// not a rolling kind: follows the parent at once, is claimed by no revision
				rt.Assert(after == "2", "twokinds/non-rolling-child-not-updated-at-once")
				rt.Assert(t.claims(n) == 0, "twokinds/non-rolling-child-claimed-by-a-revision")
				continue
			}
			if before[n] == "1" && after != "1" {
				left++
				// hook order: every ROLLING child in front of it has left the old revision already
				for _, m := range t.order[:i] {
					if rolling(m) {
						rt.Assert(before[m] != "1", "twokinds/child-moved-out-of-hook-order")
					}
				}
			}
			rt.Assert(t.claims(n) == 1, "twokinds/child-not-claimed-by-exactly-one-revision")
		}
		rt.Assert(left <= 1, "twokinds/more-than-one-child-moved-in-one-sync")
		moved += left
		t.markHealthy()
	}
	for _, n := range t.order {
		v, ok := t.value(n)
		rt.Assert(ok && v == "2", "twokinds/rollout-did-not-complete-in-9-syncs")
	}
	rt.Assert(moved == nRolling, "twokinds/not-every-rolling-child-moved-exactly-once")
	rt.Assert(len(t.w.Srv.Revs()) == 1, "twokinds/old-revision-not-pruned")
	st, _ := t.w.Srv.Peek("things", "ns", "p").Object["status"].(map[string]interface{})
	_, cstatus, reason, _ := verifC07UpdatedCondition(st)
	rt.Assert(cstatus == "True" && reason == "OnLatestRevision", "twokinds/completion-not-reported")
	rt.Cover("twokinds/completed")
}

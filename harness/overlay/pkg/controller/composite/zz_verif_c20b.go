package composite

// C20 — "stops the old instance completely: ... after a stop no further hook
// call or API write is made on its behalf". Stop() is what the reconciler calls
// before it reports the controller stopped or starts the replacement; it has to
// WAIT for a sync that is in flight. The controller comes out of the real
// constructor, Start() is the real one (handlers, cache-sync wait, workers);
// the sync hook blocks on a gate the harness holds, Stop() runs on a goroutine
// of its own, and the harness looks at whether it returned while the hook was
// still blocked.

import (
	"k8s.io/apimachinery/pkg/apis/meta/v1/unstructured"

	v1 "metacontroller/pkg/controller/composite/api/v1"
	"metacontroller/pkg/zzverif/env"
	stub "metacontroller/pkg/zzverif/informerstub"
	rt "metacontroller/pkg/zzverif/rt"
)

func VerifC20_StopWaitsForInFlightSync() {
	stub.Reset()
	w := env.NewWorld()
	parent := env.Thing("ns", "p", "puid")
	w.Srv.Put("things", parent)
	gate := make(chan struct{})
	entered := make(chan struct{}, 4)
	hook := &verifHook{enabled: true, fn: func(req *v1.CompositeHookRequest) (*v1.CompositeHookResponse, error) {
		entered <- struct{}{}
		<-gate // the webhook is slow
		return &v1.CompositeHookResponse{Children: []*unstructured.Unstructured{env.ConfigMap("ns", "c", "", "v")}, Status: map[string]interface{}{"phase": "ok"}}, nil
	}}
	pc := verifNewPC(w, verifPCConfig{
		ParentRes: env.ThingRes, GenerateSelector: true,
		Children: []verifChildRule{{Res: env.ConfigMapRes, Strategy: verifStrategyOf("InPlace")}},
		Sync:     hook, KeepConstructorInformers: true,
	})
	for _, s := range stub.Stubs() {
		if s.GVR.Resource == "things" {
			s.CompleteList(parent)
		} else {
			s.CompleteList()
		}
	}
	pc.Queue.Items = append(pc.Queue.Items, "ns/p")
	pc.Start()
	rt.FireTickers()
	rt.FireTickers()
	inFlight := false
	select {
	case <-entered:
		inFlight = true
	default:
	}
	rt.Assert(inFlight, "stop/setup/no-sync-in-flight")
	if !inFlight {
		close(gate)
		pc.Stop()
		return
	}
	rt.Cover("stop/sync-in-flight")
	stopped := make(chan struct{})
	go func() {
		pc.Stop()
		close(stopped)
	}()
	rt.FireTickers()
	rt.Assert(!stub.Closed(stopped), "stop/returned-while-a-sync-was-still-in-flight")
	writesBefore := len(w.Srv.Writes())
	close(gate) // the webhook answers
	rt.FireTickers()
	rt.FireTickers()
	rt.Assert(stub.Closed(stopped), "stop/never-returned-after-the-sync-finished")
	if stub.Closed(stopped) {
		<-stopped
	}
	rt.Observe("writes-of-the-last-sync", len(w.Srv.Writes())-writesBefore)
	rt.Cover("stop/done")
}

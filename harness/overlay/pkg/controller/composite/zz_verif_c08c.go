package composite

// C08, Level B — the update strategy of one child kind is switched away from
// rolling in the MIDDLE of a rollout (the CompositeController is edited, the
// controller instance is rebuilt with the new strategy map over the same
// cluster contents; the ControllerRevisions written so far still carry claims
// for that kind). In a fair environment the rollout of the kind that still
// rolls completes, the old revision is pruned and completion is reported; the
// children of the switched kind are claimed by no revision from the first sync
// after the switch and follow the latest parent the way their new method says.

import (
	"k8s.io/apimachinery/pkg/apis/meta/v1/unstructured"

	v1 "metacontroller/pkg/controller/composite/api/v1"
	"metacontroller/pkg/zzverif/env"
	rt "metacontroller/pkg/zzverif/rt"
)

func VerifC08_StrategySwitchMidRollout() {
	t := &verifTwoKinds{w: env.NewWorld()}
	parent := env.Thing("ns", "p", "puid")
	parent.Object["spec"] = map[string]interface{}{
		"x":        "1",
		"selector": map[string]interface{}{"matchLabels": map[string]interface{}{"app": "x"}},
		"template": map[string]interface{}{"metadata": map[string]interface{}{"labels": map[string]interface{}{"app": "x"}}},
	}
	t.w.Srv.Put("things", parent)
	if rt.Bool("widgets-first-in-hook-order") {
		t.order = []string{"w1", "w2", "a1", "a2"}
	} else {
		t.order = []string{"a1", "a2", "w1", "w2"}
	}
	hook := &verifHook{enabled: true, fn: func(req *v1.CompositeHookRequest) (*v1.CompositeHookResponse, error) {
		x, _, _ := unstructured.NestedString(req.Parent.Object, "spec", "x")
		var kids []*unstructured.Unstructured
		for _, n := range t.order {
			kids = append(kids, t.mk(n, x))
		}
		return &v1.CompositeHookResponse{Children: kids, Status: map[string]interface{}{"phase": "ok"}}, nil
	}}
	mA, mW := "RollingInPlace", "RollingInPlace"
	build := func() {
		rules := []verifChildRule{{Res: env.ConfigMapRes, Strategy: verifStrategyOf(mA)}, {Res: env.WidgetRes, Strategy: verifStrategyOf(mW)}}
		t.pc = verifNewPC(t.w, verifPCConfig{ParentRes: env.ThingRes, Children: rules, Sync: hook})
	}
	build()
	rt.Assert(t.sync() == nil, "switch/first-sync-error")
	t.markHealthy()
	p := t.w.Srv.Peek("things", "ns", "p").DeepCopy()
	p.Object["spec"].(map[string]interface{})["x"] = "2"
	p.SetGeneration(p.GetGeneration() + 1)
	p.SetResourceVersion(p.GetResourceVersion() + "+")
	t.w.Srv.Put("things", p)

	// the rollout runs for one or two syncs (one or two children moved) ...
	before := 1 + rt.Choice("rollout-syncs-before-the-switch", 2)
	for i := 0; i < before; i++ {
		rt.Assert(t.sync() == nil, "switch/sync-error-before-the-switch")
		t.markHealthy()
	}
	rt.Assert(len(t.w.Srv.Revs()) == 2, "switch/rollout-not-in-progress-at-the-switch")
	// ... then one kind stops rolling
	newMethod := []string{"InPlace", "Recreate", "OnDelete"}[rt.Choice("new-method", 3)]
	switchedWidgets := rt.Bool("widgets-are-switched")
	if switchedWidgets {
		mW = newMethod
	} else {
		mA = newMethod
	}
	switched := func(n string) bool { return verifTwoKindsIsWidget(n) == switchedWidgets }
	build()
	rt.Cover("switch/" + newMethod)

	for step := 0; step < 8; step++ {
		err := t.sync()
		rt.Assert(err == nil, "switch/sync-error-after-the-switch")
		for _, n := range t.order {
			if switched(n) {
				rt.Assert(t.claims(n) == 0, "switch/child-of-a-kind-that-no-longer-rolls-still-claimed-by-a-revision")
			} else {
				rt.Assert(t.claims(n) == 1, "switch/rolling-child-not-claimed-by-exactly-one-revision")
			}
		}
		t.markHealthy()
	}
	for _, n := range t.order {
		v, ok := t.value(n)
		if switched(n) && newMethod == "OnDelete" {
			// OnDelete: never touched while it exists; whatever revision it was at stays
			rt.Assert(ok, "switch/on-delete-child-removed")
			continue
		}
		rt.Assert(ok && v == "2", "switch/child-not-at-the-latest-state-8-syncs-after-the-switch")
	}
	rt.Assert(len(t.w.Srv.Revs()) == 1, "switch/old-revision-not-pruned")
	st, _ := t.w.Srv.Peek("things", "ns", "p").Object["status"].(map[string]interface{})
	_, cstatus, reason, _ := verifC07UpdatedCondition(st)
	rt.Assert(cstatus == "True" && reason == "OnLatestRevision", "switch/completion-not-reported")
}

package composite

// C17 (concurrency half) — two queue workers sync two distinct parents of one
// CompositeController at the same time: same parentController, same child and
// revision informers, same process-wide state. Whole real syncParentObject on
// both (claimChildren, syncRevisions with its parallel per-revision hook
// calls, ManageChildren, status update). Decided on every explored path: the
// executor's race check of every Go map access (race.go) and the
// sequential-equivalence oracle (each parent's children end up exactly as a
// lone sync would leave them). The cache-fingerprint oracle stays on.

import (
	"sync"

	"k8s.io/apimachinery/pkg/apis/meta/v1/unstructured"

	"metacontroller/pkg/controller/common"
	v1 "metacontroller/pkg/controller/composite/api/v1"
	"metacontroller/pkg/zzverif/env"
	rt "metacontroller/pkg/zzverif/rt"
)

func VerifC17_ConcurrentSyncs() {
	common.VerifResetSSAMemo()
	w := env.NewWorld()
	ssa := rt.Bool("server-side-apply")
	method := rt.OneOf(rt.String("method"), "InPlace", "Recreate", "RollingInPlace")
	rt.Assume(method == "InPlace" || method == "Recreate" || method == "RollingInPlace")
	val := rt.String("desired-value")
	// (three workers: the memory-cell race detector exempts what the FIRST goroutine
	// does to a cell before anybody else touches it - see race.go - so an
	// unsynchronised shared field shows between the second and the third)
	parents := []*unstructured.Unstructured{env.Thing("ns", "p1", "puid1"), env.Thing("ns2", "p2", "puid2"), env.Thing("ns3", "p3", "puid3")}
	// (each in a namespace of its own: the controller's clients are shared by the
	// workers and re-scoped per request)
	nss := []string{"ns", "ns2", "ns3"}
	for _, p := range parents {
		w.Srv.Put("things", p)
	}
	// per parent: a stale owned child (to delete) and an owned child that changes
	for i, p := range parents {
		sfx := string(rune('1' + i))
		old := env.ConfigMap(nss[i], "old"+sfx, "", "x")
		env.SetLabel(old, "controller-uid", string(p.GetUID()))
		w.Srv.Put("configmaps", verifAppliedChild(old, p, "uid-old"+sfx))
		keep := env.ConfigMap(nss[i], "keep"+sfx, "", "before")
		env.SetLabel(keep, "controller-uid", string(p.GetUID()))
		w.Srv.Put("configmaps", verifAppliedChild(keep, p, "uid-keep"+sfx))
	}
	hook := &verifHook{enabled: true, fn: func(req *v1.CompositeHookRequest) (*v1.CompositeHookResponse, error) {
		sfx := req.Parent.GetName()[1:]
		return &v1.CompositeHookResponse{
			Children: []*unstructured.Unstructured{env.ConfigMap(req.Parent.GetNamespace(), "keep"+sfx, "", val), env.ConfigMap(req.Parent.GetNamespace(), "new"+sfx, "", val)},
			Status:   map[string]interface{}{"phase": "ok"},
		}, nil
	}}
	pc := verifNewPC(w, verifPCConfig{
		ParentRes: env.ThingRes, GenerateSelector: true, SSA: ssa,
		Children: []verifChildRule{{Res: env.ConfigMapRes, Strategy: verifStrategyOf(method)}},
		Sync:     hook,
	})
	pc.SnapshotFromStore()
	fp := verifFingerprint(verifListerItems(pc), nil)
	cached := pc.W.Srv.All("things")

	var wg sync.WaitGroup
	errs := make([]error, len(cached))
	start := make(chan struct{}) // the workers set off together (matters for the native -race replay)
	for i := range cached {
		wg.Add(1)
		go func(i int) {
			defer wg.Done()
			<-start
			errs[i] = pc.syncParentObject(cached[i])
		}(i)
	}
	close(start)
	wg.Wait()

	for i := range parents {
		sfx := string(rune('1' + i))
		rt.Assert(errs[i] == nil, "concurrent-syncs/sync-error")
		rt.Assert(w.Srv.Peek("configmaps", nss[i], "old"+sfx) == nil, "concurrent-syncs/undesired-child-not-deleted")
		n := w.Srv.Peek("configmaps", nss[i], "new"+sfx)
		rt.Assert(n != nil, "concurrent-syncs/new-child-not-created")
		if n != nil {
			d, _ := n.Object["data"].(map[string]interface{})
			rt.Assert(d["k"] == val, "concurrent-syncs/new-child-value")
			cu, has := verifControllerUID(n)
			rt.Assert(has && cu == "puid"+sfx, "concurrent-syncs/new-child-owned-by-the-wrong-parent")
		}
		if method == "InPlace" || (ssa && method != "RollingInPlace") {
			k := w.Srv.Peek("configmaps", nss[i], "keep"+sfx)
			rt.Assert(k != nil, "concurrent-syncs/kept-child-missing")
			if k != nil {
				d, _ := k.Object["data"].(map[string]interface{})
				rt.Assert(d["k"] == val, "concurrent-syncs/kept-child-not-updated")
			}
		}
		p := w.Srv.Peek("things", nss[i], "p"+sfx)
		st, _ := p.Object["status"].(map[string]interface{})
		rt.Assert(st["phase"] == "ok", "concurrent-syncs/status-not-written")
	}
	fp.AssertUnchanged("C17/cache-object-mutated-by-concurrent-syncs")
	rt.Cover("concurrent-syncs/done")
}

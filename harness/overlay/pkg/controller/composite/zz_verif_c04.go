package composite

// C04 — adoption, release and creation obey the ControllerRef rules.
//
// VerifC04_ClaimChildren   real pc.claimChildren (makeSelector, canAdoptFunc,
//                          UnstructuredManager.ClaimChildren, ClaimObject,
//                          adoptChild/releaseChild, AtomicUpdate, the real
//                          dynamic Clientset) over the simulated API server
//                          whose LIVE state may differ from the cache.
// VerifC04_RevisionClaims  the same for ControllerRevisions: real
//                          pc.claimRevisions (ControllerRevisionManager,
//                          UpdateWithRetries) over the typed revision store.
// VerifC04_LabelInvariant  Level B: one whole pc.syncParentObject; desired
//                          child labels vs parent selector, controller-uid
//                          injection, empty selector refused.
//
// Choice stated for the task: the ClaimChildren harness lives here (not in
// package controllerref) so that the REAL parentController.canAdoptFunc and
// claimChildren are executed instead of a copy of the closure.

import (
	apierrors "k8s.io/apimachinery/pkg/api/errors"
	metav1 "k8s.io/apimachinery/pkg/apis/meta/v1"
	"k8s.io/apimachinery/pkg/apis/meta/v1/unstructured"
	"k8s.io/apimachinery/pkg/runtime"
	"k8s.io/apimachinery/pkg/runtime/schema"
	"k8s.io/apimachinery/pkg/types"

	"metacontroller/pkg/apis/metacontroller/v1alpha1"
	"metacontroller/pkg/controller/common/api"
	"metacontroller/pkg/zzverif/env"
	"metacontroller/pkg/zzverif/gen"
	rt "metacontroller/pkg/zzverif/rt"
)

const (
	verifC04Ours    = 0
	verifC04Orphan  = 1
	verifC04Foreign = 2

	verifC04LiveSame     = 0
	verifC04LiveReplaced = 1
	verifC04LiveGone     = 2
	verifC04LiveRival    = 3 // meanwhile another controller adopted it (cached orphan) or took it over (cached as ours)

	verifC04ParentSame     = 0
	verifC04ParentDeleting = 1
	verifC04ParentReplaced = 2
	verifC04ParentGone     = 3
)

var verifC04Num = []string{"0", "1", "2", "3"}

// verifC04Pick draws a value in [0,n) and makes it concrete on every path.
func verifC04Pick(tag string, n int) int {
	c := rt.Choice(tag, n)
	for i := 0; i < n-1; i++ {
		if c == i {
			return i
		}
	}
	return n - 1
}

// verifC04Kid is one cached child (or revision) and what the server holds under its name.
type verifC04Kid struct {
	name       string
	owner      int
	extra      bool // non-controller owners before and after the controller reference
	hasLabel   bool
	labVal     string
	typeLabels bool // revisions only: the apiGroup/resource labels are right
	match      bool // the labels satisfy the parent's selector
	canary     bool // carries track=canary, which a selector with the NotIn expression excludes
	plainOurs  bool // foreign-controlled object that also lists our parent with an explicit controller:false, first
	foreignUID string
	deleting   bool
	live       int
	late       bool // since the cache was filled somebody added a further (non-controller) owner to the live object
}

// verifC04DrawKid draws one object. full=false restricts the variety (used for
// the 2nd/3rd object to keep the product small). Dimensions that cannot
// influence anything the property talks about are not varied: the live state
// of an object is drawn only when an adoption or release of it is due.
func verifC04DrawKid(i int, full bool, revision bool, selVal string, cachedDeleting bool, byExpr bool) *verifC04Kid {
	n := verifC04Num[i]
	k := &verifC04Kid{name: "c" + n, hasLabel: true, typeLabels: true}
	k.owner = verifC04Pick("owner"+n, 3)
	// thorough tier: the further revisions also vary deletion and the type labels
	medium := !full && revision && rt.Tier() > 0
	if full {
		if !revision || rt.Tier() > 0 {
			k.extra = rt.Bool("extra-owners" + n)
		}
	}
	if full || medium {
		k.deleting = rt.Bool("deleting" + n)
	}
	if k.owner == verifC04Foreign {
		k.labVal = rt.String("label" + n)
		k.foreignUID = rt.String("foreign-uid" + n)
		rt.Assume(k.foreignUID != "puid")
		if full {
			// the object may ALSO list our parent as a plain owner, written out as
			// `controller: false` and placed first: that is not a controller reference
			if k.plainOurs = rt.Bool("also-lists-the-parent-with-controller-false" + n); k.plainOurs {
				rt.Cover("foreign/lists-parent-as-plain-owner")
			}
		}
		return k
	}
	if full {
		k.hasLabel = rt.Bool("has-label" + n)
	}
	if revision && (full || medium) {
		k.typeLabels = rt.Bool("type-labels" + n)
	}
	if k.hasLabel {
		k.labVal = rt.String("label" + n)
		if k.typeLabels {
			k.match = k.labVal == selVal
		}
	}
	if byExpr && full {
		// the selector also carries `track NotIn (canary)`: an object that has the
		// labels but fails the expression does NOT match
		if k.canary = rt.Bool("fails-the-selector-expression" + n); k.canary {
			rt.Cover("has-the-labels-fails-the-expression")
			k.match = false
		}
	}
	due := false
	if !cachedDeleting {
		if k.owner == verifC04Ours {
			due = !k.match
		} else if k.match {
			due = !k.deleting
		}
	}
	if due {
		switch {
		case !full:
			k.live = verifC04Pick("live"+n, 2)
		case k.owner == verifC04Orphan:
			k.live = verifC04Pick("live"+n, 4)
		case !revision:
			// an owned child due for release: since the cache was filled it may also
			// have been released by someone else and taken over by another controller
			k.live = verifC04Pick("live"+n, 4)
		default:
			k.live = verifC04Pick("live"+n, 3)
		}
		if full && k.live == verifC04LiveSame {
			k.late = rt.Bool("late-owner" + n)
		}
	}
	return k
}

// owner references as the harness put them (the independent expectation)
func verifC04Refs(k *verifC04Kid, withOurs, withRival bool) []metav1.OwnerReference {
	t, f := true, false
	var out []metav1.OwnerReference
	if k.plainOurs {
		out = append(out, metav1.OwnerReference{APIVersion: "ex.com/v1", Kind: "Thing", Name: "p", UID: "puid", Controller: &f})
	}
	if k.extra {
		out = append(out, metav1.OwnerReference{APIVersion: "v1", Kind: "Other", Name: "x", UID: "xuid"})
	}
	switch {
	case k.owner == verifC04Foreign:
		out = append(out, metav1.OwnerReference{APIVersion: "ex.com/v1", Kind: "Thing", Name: "q", UID: types.UID(k.foreignUID), Controller: &t, BlockOwnerDeletion: &t})
	case withRival:
		out = append(out, metav1.OwnerReference{APIVersion: "ex.com/v1", Kind: "Thing", Name: "rival", UID: "rival-uid", Controller: &t, BlockOwnerDeletion: &t})
	}
	if k.owner == verifC04Ours && withOurs {
		out = append(out, metav1.OwnerReference{APIVersion: "ex.com/v1", Kind: "Thing", Name: "p", UID: "puid", Controller: &t, BlockOwnerDeletion: &t})
	}
	if k.extra {
		out = append(out, metav1.OwnerReference{APIVersion: "v1", Kind: "Other", Name: "y", UID: "yuid", Controller: &f})
	}
	if k.owner == verifC04Orphan && withOurs {
		// adoption appends
		out = append(out, metav1.OwnerReference{APIVersion: "ex.com/v1", Kind: "Thing", Name: "p", UID: "puid", Controller: &t, BlockOwnerDeletion: &t})
	}
	return out
}

// verifC04LiveRefs: the owner references the LIVE object has (withOurs as in
// verifC04Refs): the cached ones plus, when k.late, an owner somebody added later.
func verifC04LiveRefs(k *verifC04Kid, withOurs bool) []metav1.OwnerReference {
	refs := verifC04Refs(k, withOurs, false)
	if !k.late {
		return refs
	}
	lateRef := metav1.OwnerReference{APIVersion: "v1", Kind: "Other", Name: "z", UID: "zuid"}
	if k.owner == verifC04Orphan && withOurs {
		// adoption appends our reference after everything that is there
		n := len(refs)
		out := append([]metav1.OwnerReference{}, refs[:n-1]...)
		out = append(out, lateRef, refs[n-1])
		return out
	}
	return append(refs, lateRef)
}

func verifC04RefMaps(refs []metav1.OwnerReference) []interface{} {
	var out []interface{}
	for _, r := range refs {
		m := map[string]interface{}{"apiVersion": r.APIVersion, "kind": r.Kind, "name": r.Name, "uid": string(r.UID)}
		if r.Controller != nil {
			m["controller"] = *r.Controller
		}
		if r.BlockOwnerDeletion != nil {
			m["blockOwnerDeletion"] = *r.BlockOwnerDeletion
		}
		out = append(out, m)
	}
	return out
}

// verifC04RefsEqual: got holds exactly the references of want — matched by UID
// (the fixture's UIDs are distinct constants), in ANY order: the property fixes
// which owner references an object has, not where in the list they stand.
func verifC04RefsEqual(got, want []metav1.OwnerReference, what string) {
	rt.Assert(len(got) == len(want), what+"/count")
	if len(got) != len(want) {
		return
	}
	for i := range want {
		var g *metav1.OwnerReference
		for j := range got {
			if got[j].UID == want[i].UID {
				g = &got[j]
			}
		}
		rt.Assert(g != nil, what+"/uid")
		if g == nil {
			continue
		}
		rt.Assert(g.Name == want[i].Name, what+"/name")
		rt.Assert(g.Kind == want[i].Kind, what+"/kind")
		rt.Assert(g.APIVersion == want[i].APIVersion, what+"/apiVersion")
		gc := g.Controller != nil && *g.Controller
		wc := want[i].Controller != nil && *want[i].Controller
		rt.Assert(gc == wc, what+"/controller-flag")
		gb := g.BlockOwnerDeletion != nil && *g.BlockOwnerDeletion
		wb := want[i].BlockOwnerDeletion != nil && *want[i].BlockOwnerDeletion
		rt.Assert(gb == wb, what+"/blockOwnerDeletion-flag")
	}
}

func verifC04CountControllers(refs []metav1.OwnerReference) int {
	n := 0
	for _, r := range refs {
		if r.Controller != nil && *r.Controller {
			n++
		}
	}
	return n
}

// the unstructured child as cached (withRival=false) or as adopted by a rival
func verifC04Child(k *verifC04Kid, uid string, withRival bool) *unstructured.Unstructured {
	o := env.ConfigMap("ns", k.name, uid, "v")
	env.SetLabel(o, "unrelated", "x")
	if k.hasLabel {
		env.SetLabel(o, "app", k.labVal)
	}
	if k.canary {
		env.SetLabel(o, "track", "canary")
	}
	// (a rival takes an object over: our controller reference is gone then)
	if refs := verifC04RefMaps(verifC04Refs(k, k.owner == verifC04Ours && !withRival, withRival)); len(refs) > 0 {
		o.Object["metadata"].(map[string]interface{})["ownerReferences"] = refs
	}
	if k.deleting {
		env.MarkDeleting(o)
		o.SetFinalizers([]string{"someone/else"})
	}
	if withRival {
		o.SetResourceVersion("8")
	}
	return o
}

func verifC04WithoutRefs(o *unstructured.Unstructured) map[string]interface{} {
	c := o.DeepCopy()
	unstructured.RemoveNestedField(c.Object, "metadata", "ownerReferences")
	return c.Object
}

type verifC04Exp struct {
	verb, res, name string
	// optional: a write the property does not demand (the adoption body that
	// would carry two controller references may be sent - the server refuses
	// it - or be held back by a client-side look at the live owner references)
	optional bool
}

// verifC04Parent draws the cached and the live parent.
func verifC04Parent(w *env.World, selVal string) (cached *unstructured.Unstructured, cachedDeleting bool, liveParent int, byExpr bool) {
	cached = env.Thing("ns", "p", "puid")
	sel := map[string]interface{}{"matchLabels": map[string]interface{}{"app": selVal}}
	if byExpr = rt.Bool("selector-also-has-a-matchExpression"); byExpr {
		sel["matchExpressions"] = []interface{}{map[string]interface{}{"key": "track", "operator": "NotIn", "values": []interface{}{"canary"}}}
	}
	cached.Object["spec"] = map[string]interface{}{"selector": sel}
	cachedDeleting = rt.Bool("cached-parent-deleting")
	if cachedDeleting {
		env.MarkDeleting(cached)
		cached.SetFinalizers([]string{"someone/else"})
		// a parent the cache already shows as being deleted is at best still being deleted
		liveParent = verifC04ParentDeleting
		if rt.Bool("live-parent-already-gone") {
			liveParent = verifC04ParentGone
		}
	} else {
		liveParent = verifC04Pick("live-parent", 4)
	}
	switch liveParent {
	case verifC04ParentSame:
		w.Srv.Put("things", cached)
	case verifC04ParentDeleting:
		l := cached.DeepCopy()
		env.MarkDeleting(l)
		l.SetFinalizers([]string{"someone/else"})
		l.SetResourceVersion("8")
		w.Srv.Put("things", l)
	case verifC04ParentReplaced:
		l := cached.DeepCopy()
		l.SetUID("puid-recreated")
		l.SetResourceVersion("1")
		w.Srv.Put("things", l)
	case verifC04ParentGone:
	}
	return
}

func verifC04RefusedCover(liveParent int) {
	switch liveParent {
	case verifC04ParentDeleting:
		rt.Cover("adopt/refused-live-parent-deleting")
	case verifC04ParentReplaced:
		rt.Cover("adopt/refused-live-parent-replaced")
	case verifC04ParentGone:
		rt.Cover("adopt/refused-live-parent-gone")
	}
}

func VerifC04_ClaimChildren() {
	w := env.NewWorld()
	selVal := rt.String("selector-value")
	parent, cachedDeleting, liveParent, byExpr := verifC04Parent(w, selVal)

	nKids := 1
	if !cachedDeleting {
		nKids = 1 + verifC04Pick("children", 2+rt.Tier())
	}
	var kids []*verifC04Kid
	var cached, live []*unstructured.Unstructured
	for i := 0; i < nKids; i++ {
		k := verifC04DrawKid(i, i == 0, false, selVal, cachedDeleting, byExpr)
		kids = append(kids, k)
		c := verifC04Child(k, "u"+verifC04Num[i], false)
		cached = append(cached, c)
		var l *unstructured.Unstructured
		switch k.live {
		case verifC04LiveSame:
			l = c.DeepCopy()
			if k.late {
				rt.Cover("live-has-a-later-owner")
				l.Object["metadata"].(map[string]interface{})["ownerReferences"] = verifC04RefMaps(verifC04LiveRefs(k, k.owner == verifC04Ours))
				l.SetResourceVersion("8")
			}
		case verifC04LiveReplaced:
			l = verifC04Child(k, "u"+verifC04Num[i]+"-recreated", false)
		case verifC04LiveRival:
			l = verifC04Child(k, "u"+verifC04Num[i], true)
		}
		if l != nil {
			w.Srv.Put("configmaps", l)
		}
		live = append(live, l)
	}

	pc := verifNewPC(w, verifPCConfig{
		ParentRes: env.ThingRes,
		Children:  []verifChildRule{{Res: env.ConfigMapRes, Strategy: verifStrategyOf("InPlace")}},
	})
	pc.Snapshot([]*unstructured.Unstructured{parent}, map[string][]*unstructured.Unstructured{"configmaps": cached}, nil)

	got, err := pc.claimChildren(parent)

	// ---- the expectation, from the property statement ----
	var exp []verifC04Exp
	recheckOK := liveParent == verifC04ParentSame
	rechecked := false
	wantErr := false
	// per child: "", "release", "adopt" = what was written (update accepted)
	written := make([]string, nKids)
	claimed := make([]bool, nKids)
	for i, k := range kids {
		switch k.owner {
		case verifC04Foreign:
			rt.Cover("foreign/untouched")
		case verifC04Ours:
			if k.match {
				rt.Cover("owned-matching")
				claimed[i] = true
				break
			}
			if cachedDeleting {
				rt.Cover("parent-deleting/no-release")
				break
			}
			exp = append(exp, verifC04Exp{"get", "configmaps", k.name, false})
			switch k.live {
			case verifC04LiveSame:
				rt.Cover("release/written")
				exp = append(exp, verifC04Exp{"update", "configmaps", k.name, false})
				written[i] = "release"
			case verifC04LiveReplaced:
				rt.Cover("release/live-child-replaced")
			case verifC04LiveGone:
				rt.Cover("release/live-child-gone")
			case verifC04LiveRival:
				// no longer ours: nothing to release, nothing is written
				rt.Cover("release/live-child-already-taken-over")
			}
		case verifC04Orphan:
			if cachedDeleting {
				rt.Cover("parent-deleting/no-adoption")
				break
			}
			if !(k.match) {
				rt.Cover("orphan-nonmatching")
				break
			}
			if k.deleting {
				rt.Cover("orphan-being-deleted")
				break
			}
			// adoption is attempted: exactly one live recheck per pass, before any adoption write
			if !rechecked {
				exp = append(exp, verifC04Exp{"get", "things", "p", false})
				rechecked = true
			}
			if !recheckOK {
				verifC04RefusedCover(liveParent)
				wantErr = true
				break
			}
			exp = append(exp, verifC04Exp{"get", "configmaps", k.name, false})
			switch k.live {
			case verifC04LiveSame:
				rt.Cover("adopt/written")
				exp = append(exp, verifC04Exp{"update", "configmaps", k.name, false})
				written[i] = "adopt"
				claimed[i] = true
			case verifC04LiveReplaced:
				rt.Cover("adopt/live-child-replaced")
			case verifC04LiveGone:
				rt.Cover("adopt/live-child-gone")
			case verifC04LiveRival:
				// the body carries two controller references; only the server's validation stops it
				rt.Cover("race/rival-adopted-first")
				exp = append(exp, verifC04Exp{"update", "configmaps", k.name, true})
				written[i] = "rejected"
				wantErr = true
			}
		}
	}

	// ---- request log ----
	log := w.Srv.Log
	rt.Observe("requests", len(log))
	rt.Observe("err", err != nil)
	// The property fixes WHAT is written and that a live read of the parent
	// precedes every adoption write; how often and when the implementation
	// reads (parent or child) is its own business, so only the writes are
	// compared position by position.
	var uexp []verifC04Exp
	for _, e := range exp {
		if e.verb == "update" {
			uexp = append(uexp, e)
		}
	}
	nUpd, extraWrites := 0, 0
	firstParentGet, firstAdoptWrite := -1, -1
	for j, r := range log {
		rt.Assert(r.NS == "ns", "requests/unexpected-namespace")
		if r.Resource == "things" {
			rt.Assert(r.Verb == "get", "parent/written-by-claim")
			if r.Verb == "get" && firstParentGet < 0 {
				firstParentGet = j
			}
		}
		if r.Verb == "update" {
			for nUpd < len(uexp) && uexp[nUpd].optional && !(r.Resource == uexp[nUpd].res && r.Name == uexp[nUpd].name) {
				nUpd++ // an optional write that was not sent
			}
			if nUpd < len(uexp) {
				rt.Assert(r.Resource == uexp[nUpd].res, "requests/unexpected-resource")
				rt.Assert(r.Name == uexp[nUpd].name, "requests/unexpected-target")
			} else {
				extraWrites++
			}
			nUpd++
		}
		rt.Assert(r.Verb == "get" || r.Verb == "update", "requests/verb-other-than-get-update")
		rt.Assert(r.Sub == "", "requests/subresource")
	}
	for nUpd < len(uexp) && uexp[nUpd].optional {
		nUpd++
	}
	rt.Assert(nUpd == len(uexp) && extraWrites == 0, "requests/writes-differ-from-expected")

	// every write: which child, what kind, body = live object with only ownerReferences changed
	for j, r := range log {
		if r.Verb != "update" {
			continue
		}
		idx := -1
		for i, k := range kids {
			if k.name == r.Name && r.Resource == "configmaps" {
				idx = i
			}
		}
		rt.Assert(idx >= 0, "write/unknown-target")
		if idx < 0 {
			continue
		}
		k := kids[idx]
		rt.Assert(k.owner != verifC04Foreign, "foreign/written")
		rt.Assert(written[idx] != "", "write/unexpected-for-this-child")
		rt.Assert(r.Pre != nil, "write/target-absent")
		if r.Pre == nil || written[idx] == "" {
			continue
		}
		rt.Assert(string(r.Body.GetUID()) == "u"+verifC04Num[idx], "write/replaced-object-written")
		rt.Assert(r.Body.GetUID() == r.Pre.GetUID(), "write/uid-differs-from-live")
		gen.Equal(verifC04WithoutRefs(r.Body), verifC04WithoutRefs(r.Pre), "write/body-differs-from-live-beyond-ownerReferences")
		switch written[idx] {
		case "adopt":
			if firstAdoptWrite < 0 {
				firstAdoptWrite = j
			}
			rt.Assert(r.Accepted, "adopt/rejected-by-server")
			verifC04RefsEqual(r.Body.GetOwnerReferences(), verifC04LiveRefs(k, true), "adopt/ownerReferences")
		case "release":
			rt.Assert(r.Accepted, "release/rejected-by-server")
			verifC04RefsEqual(r.Body.GetOwnerReferences(), verifC04LiveRefs(k, false), "release/ownerReferences")
		case "rejected":
			if firstAdoptWrite < 0 {
				firstAdoptWrite = j
			}
			rt.Assert(!r.Accepted, "race/two-controllers-accepted")
		}
	}
	if firstAdoptWrite >= 0 {
		rt.Assert(firstParentGet >= 0 && firstParentGet < firstAdoptWrite, "recheck/not-before-adoption-write")
	}
	for _, r := range log {
		if r.Err != nil && apierrors.IsInvalid(r.Err) {
			// a body with two controller references was sent
			k := -1
			for i := range kids {
				if kids[i].name == r.Name && written[i] == "rejected" {
					k = i
				}
			}
			rt.Assert(k >= 0, "two-controller-references-sent")
		}
	}

	// ---- store afterwards ----
	for i, k := range kids {
		st := w.Srv.Peek("configmaps", "ns", k.name)
		if live[i] == nil {
			rt.Assert(st == nil, "store/absent-child-created")
			continue
		}
		rt.Assert(st != nil, "store/child-vanished")
		if st == nil {
			continue
		}
		refs := st.GetOwnerReferences()
		rt.Assert(verifC04CountControllers(refs) <= 1, "store/two-controller-references")
		switch written[i] {
		case "adopt":
			verifC04RefsEqual(refs, verifC04LiveRefs(k, true), "store/adopted-ownerReferences")
		case "release":
			verifC04RefsEqual(refs, verifC04LiveRefs(k, false), "store/released-ownerReferences")
		default:
			gen.Equal(st.Object, live[i].Object, "store/untouched-child-changed")
		}
	}

	// ---- result ----
	if wantErr {
		rt.Assert(err != nil, "result/refused-adoption-not-reported")
		rt.Assert(got == nil, "result/children-returned-with-error")
		return
	}
	rt.Assert(err == nil, "result/unexpected-error")
	if err != nil {
		return
	}
	rt.Assert(len(got) == 1, "result/groups")
	grp, ok := got[api.GroupVersionKind{GroupVersionKind: schema.GroupVersionKind{Version: "v1", Kind: "ConfigMap"}}]
	rt.Assert(ok && grp != nil, "result/group-missing")
	nClaimed := 0
	for i, k := range kids {
		o, has := grp["ns/"+k.name]
		if claimed[i] {
			nClaimed++
			rt.Assert(has, "result/claimed-child-missing")
			rt.Assert(o == cached[i], "result/claimed-child-is-another-object")
		} else {
			rt.Assert(!has, "result/unclaimed-child-returned")
		}
	}
	rt.Assert(len(grp) == nClaimed, "result/count")
	rt.Observe("claimed", nClaimed)
}

// ---------------------------------------------------------------------------

func verifC04Revision(k *verifC04Kid, uid string, withRival bool) *v1alpha1.ControllerRevision {
	cr := &v1alpha1.ControllerRevision{}
	cr.Namespace, cr.Name, cr.UID, cr.ResourceVersion = "ns", k.name, types.UID(uid), "7"
	cr.Labels = map[string]string{labelKeyAPIGroup: "ex.com", labelKeyResource: "things"}
	if !k.typeLabels {
		cr.Labels[labelKeyResource] = "otherthings"
	}
	if k.hasLabel {
		cr.Labels["app"] = k.labVal
	}
	if k.canary {
		cr.Labels["track"] = "canary"
	}
	cr.OwnerReferences = verifC04Refs(k, k.owner == verifC04Ours, withRival)
	cr.ParentPatch = runtime.RawExtension{Raw: []byte(`{"spec":{"x":"1"}}`)}
	cr.Children = []v1alpha1.ControllerRevisionChildren{{APIGroup: "", Kind: "ConfigMap", Names: []string{"a"}}}
	if k.deleting {
		cr.DeletionTimestamp = &metav1.Time{}
		cr.Finalizers = []string{"someone/else"}
	}
	if withRival {
		cr.ResourceVersion = "8"
	}
	return cr
}

func verifC04RevSameButRefs(a, b *v1alpha1.ControllerRevision, what string) {
	rt.Assert(a.Name == b.Name && a.Namespace == b.Namespace, what+"/name")
	rt.Assert(a.UID == b.UID, what+"/uid")
	rt.Assert(a.ResourceVersion == b.ResourceVersion, what+"/resourceVersion")
	rt.Assert(string(a.ParentPatch.Raw) == string(b.ParentPatch.Raw), what+"/parentPatch")
	rt.Assert(len(a.Labels) == len(b.Labels), what+"/labels")
	for key, v := range b.Labels {
		av, has := a.Labels[key]
		rt.Assert(has, what+"/labels")
		if has {
			rt.Assert(av == v, what+"/labels")
		}
	}
	rt.Assert(len(a.Children) == len(b.Children), what+"/children")
	rt.Assert((a.DeletionTimestamp == nil) == (b.DeletionTimestamp == nil), what+"/deletionTimestamp")
	rt.Assert(len(a.Finalizers) == len(b.Finalizers), what+"/finalizers")
}

func VerifC04_RevisionClaims() {
	w := env.NewWorld()
	selVal := rt.String("selector-value")
	parent, cachedDeleting, liveParent, byExpr := verifC04Parent(w, selVal)

	nKids := 1
	if !cachedDeleting {
		nKids = 1 + verifC04Pick("revisions", 2)
	}
	var kids []*verifC04Kid
	var cached, live []*v1alpha1.ControllerRevision
	for i := 0; i < nKids; i++ {
		k := verifC04DrawKid(i, i == 0, true, selVal, cachedDeleting, byExpr)
		kids = append(kids, k)
		c := verifC04Revision(k, "u"+verifC04Num[i], false)
		cached = append(cached, c)
		var l *v1alpha1.ControllerRevision
		switch k.live {
		case verifC04LiveSame:
			l = c.DeepCopy()
			if k.late {
				rt.Cover("live-has-a-later-owner")
				l.OwnerReferences = verifC04LiveRefs(k, k.owner == verifC04Ours)
				l.ResourceVersion = "8"
			}
		case verifC04LiveReplaced:
			l = verifC04Revision(k, "u"+verifC04Num[i]+"-recreated", false)
		case verifC04LiveRival:
			l = verifC04Revision(k, "u"+verifC04Num[i], true)
		}
		if l != nil {
			w.Srv.PutRev(l)
		}
		live = append(live, l)
	}

	pc := verifNewPC(w, verifPCConfig{
		ParentRes: env.ThingRes,
		Children:  []verifChildRule{{Res: env.ConfigMapRes, Strategy: verifStrategyOf("RollingInPlace")}},
	})
	pc.Snapshot([]*unstructured.Unstructured{parent}, map[string][]*unstructured.Unstructured{}, cached)

	// the revisions come straight out of the shared lister cache: claiming -
	// adoption and release included - writes to the API server, never to them
	var preClaim []*v1alpha1.ControllerRevision
	for _, c := range cached {
		preClaim = append(preClaim, c.DeepCopy())
	}

	got, err := pc.claimRevisions(parent)

	for i, c := range cached {
		rt.Assert(c.ResourceVersion == preClaim[i].ResourceVersion, "C17/cached-revision-mutated-by-claim/resourceVersion")
		rt.Assert(len(c.OwnerReferences) == len(preClaim[i].OwnerReferences), "C17/cached-revision-mutated-by-claim/ownerReferences")
		rt.Assert(len(c.Labels) == len(preClaim[i].Labels), "C17/cached-revision-mutated-by-claim/labels")
		rt.Assert(len(c.Children) == len(preClaim[i].Children), "C17/cached-revision-mutated-by-claim/children")
	}

	var exp []verifC04Exp
	recheckOK := liveParent == verifC04ParentSame
	rechecked := false
	wantErr := false
	errFree := false // outcomes the property does not fix (adoption of a replaced revision surfaces Gone)
	written := make([]string, nKids)
	claimed := make([]bool, nKids)
	const rres = "controllerrevisions"
	for i, k := range kids {
		switch k.owner {
		case verifC04Foreign:
			rt.Cover("foreign/untouched")
		case verifC04Ours:
			if k.match {
				rt.Cover("owned-matching")
				claimed[i] = true
				break
			}
			if cachedDeleting {
				rt.Cover("parent-deleting/no-release")
				break
			}
			exp = append(exp, verifC04Exp{"get", rres, k.name, false})
			switch k.live {
			case verifC04LiveSame:
				rt.Cover("release/written")
				exp = append(exp, verifC04Exp{"update", rres, k.name, false})
				written[i] = "release"
			case verifC04LiveReplaced:
				rt.Cover("release/live-revision-replaced")
			case verifC04LiveGone:
				rt.Cover("release/live-revision-gone")
			}
		case verifC04Orphan:
			if cachedDeleting {
				rt.Cover("parent-deleting/no-adoption")
				break
			}
			if !(k.match) {
				rt.Cover("orphan-nonmatching")
				break
			}
			if k.deleting {
				rt.Cover("orphan-being-deleted")
				break
			}
			if !rechecked {
				exp = append(exp, verifC04Exp{"get", "things", "p", false})
				rechecked = true
			}
			if !recheckOK {
				verifC04RefusedCover(liveParent)
				wantErr = true
				break
			}
			exp = append(exp, verifC04Exp{"get", rres, k.name, false})
			switch k.live {
			case verifC04LiveSame:
				rt.Cover("adopt/written")
				exp = append(exp, verifC04Exp{"update", rres, k.name, false})
				written[i] = "adopt"
				claimed[i] = true
			case verifC04LiveReplaced:
				rt.Cover("adopt/live-revision-replaced")
				errFree = true
			case verifC04LiveGone:
				rt.Cover("adopt/live-revision-gone")
			case verifC04LiveRival:
				rt.Cover("race/rival-adopted-first")
				exp = append(exp, verifC04Exp{"update", rres, k.name, true})
				written[i] = "rejected"
				wantErr = true
			}
		}
	}

	log := w.Srv.Log
	rt.Observe("requests", len(log))
	rt.Observe("err", err != nil)
	// The property fixes WHAT is written and that a live read of the parent
	// precedes every adoption write; how often and when the implementation
	// reads (parent or child) is its own business, so only the writes are
	// compared position by position.
	var uexp []verifC04Exp
	for _, e := range exp {
		if e.verb == "update" {
			uexp = append(uexp, e)
		}
	}
	nUpd, extraWrites := 0, 0
	firstParentGet, firstAdoptWrite := -1, -1
	for j, r := range log {
		rt.Assert(r.NS == "ns", "requests/unexpected-namespace")
		if r.Resource == "things" {
			rt.Assert(r.Verb == "get", "parent/written-by-claim")
			if r.Verb == "get" && firstParentGet < 0 {
				firstParentGet = j
			}
		}
		if r.Verb == "update" {
			for nUpd < len(uexp) && uexp[nUpd].optional && !(r.Resource == uexp[nUpd].res && r.Name == uexp[nUpd].name) {
				nUpd++ // an optional write that was not sent
			}
			if nUpd < len(uexp) {
				rt.Assert(r.Resource == uexp[nUpd].res, "requests/unexpected-resource")
				rt.Assert(r.Name == uexp[nUpd].name, "requests/unexpected-target")
			} else {
				extraWrites++
			}
			nUpd++
		}
		rt.Assert(r.Verb == "get" || r.Verb == "update", "requests/verb-other-than-get-update")
	}
	for nUpd < len(uexp) && uexp[nUpd].optional {
		nUpd++
	}
	rt.Assert(nUpd == len(uexp) && extraWrites == 0, "requests/writes-differ-from-expected")
	for j, r := range log {
		if r.Verb != "update" {
			continue
		}
		idx := -1
		for i, k := range kids {
			if k.name == r.Name && r.Resource == rres {
				idx = i
			}
		}
		rt.Assert(idx >= 0, "write/unknown-target")
		if idx < 0 {
			continue
		}
		k := kids[idx]
		rt.Assert(k.owner != verifC04Foreign, "foreign/written")
		rt.Assert(written[idx] != "", "write/unexpected-for-this-revision")
		rt.Assert(r.PreRev != nil && r.Rev != nil, "write/target-absent")
		if r.PreRev == nil || r.Rev == nil || written[idx] == "" {
			continue
		}
		rt.Assert(string(r.Rev.UID) == "u"+verifC04Num[idx], "write/replaced-object-written")
		verifC04RevSameButRefs(r.Rev, r.PreRev, "write/body-differs-from-live-beyond-ownerReferences")
		switch written[idx] {
		case "adopt":
			if firstAdoptWrite < 0 {
				firstAdoptWrite = j
			}
			rt.Assert(r.Accepted, "adopt/rejected-by-server")
			verifC04RefsEqual(r.Rev.OwnerReferences, verifC04LiveRefs(k, true), "adopt/ownerReferences")
		case "release":
			rt.Assert(r.Accepted, "release/rejected-by-server")
			verifC04RefsEqual(r.Rev.OwnerReferences, verifC04LiveRefs(k, false), "release/ownerReferences")
		case "rejected":
			if firstAdoptWrite < 0 {
				firstAdoptWrite = j
			}
			rt.Assert(!r.Accepted, "race/two-controllers-accepted")
		}
	}
	if firstAdoptWrite >= 0 {
		rt.Assert(firstParentGet >= 0 && firstParentGet < firstAdoptWrite, "recheck/not-before-adoption-write")
	}
	for _, r := range log {
		if r.Err != nil && apierrors.IsInvalid(r.Err) {
			k := -1
			for i := range kids {
				if kids[i].name == r.Name && written[i] == "rejected" {
					k = i
				}
			}
			rt.Assert(k >= 0, "two-controller-references-sent")
		}
	}

	stored := w.Srv.Revs()
	for i, k := range kids {
		var st *v1alpha1.ControllerRevision
		for _, s := range stored {
			if s.Name == k.name {
				st = s
			}
		}
		if live[i] == nil {
			rt.Assert(st == nil, "store/absent-revision-created")
			continue
		}
		rt.Assert(st != nil, "store/revision-vanished")
		if st == nil {
			continue
		}
		rt.Assert(verifC04CountControllers(st.OwnerReferences) <= 1, "store/two-controller-references")
		switch written[i] {
		case "adopt":
			verifC04RefsEqual(st.OwnerReferences, verifC04LiveRefs(k, true), "store/adopted-ownerReferences")
		case "release":
			verifC04RefsEqual(st.OwnerReferences, verifC04LiveRefs(k, false), "store/released-ownerReferences")
		default:
			verifC04RefsEqual(st.OwnerReferences, live[i].OwnerReferences, "store/untouched-revision-changed")
			rt.Assert(st.ResourceVersion == live[i].ResourceVersion, "store/untouched-revision-changed/resourceVersion")
		}
	}

	if wantErr {
		rt.Assert(err != nil, "result/refused-adoption-not-reported")
		rt.Assert(got == nil, "result/revisions-returned-with-error")
		return
	}
	if errFree {
		return
	}
	rt.Assert(err == nil, "result/unexpected-error")
	if err != nil {
		return
	}
	nClaimed := 0
	for i := range kids {
		found := false
		for _, g := range got {
			if g == cached[i] {
				found = true
			}
		}
		if claimed[i] {
			nClaimed++
			rt.Assert(found, "result/claimed-revision-missing")
		} else {
			rt.Assert(!found, "result/unclaimed-revision-returned")
		}
	}
	rt.Assert(len(got) == nClaimed, "result/count")
	rt.Observe("claimed", nClaimed)
}

// ---------------------------------------------------------------------------

func verifC04ChildWrites(w *env.World) int {
	n := 0
	for _, r := range w.Srv.Writes() {
		if r.Resource != "things" {
			n++
		}
	}
	return n
}

func VerifC04_LabelInvariant() {
	w := env.NewWorld()
	puid := rt.String("parent-uid")
	rt.Assume(puid != "")
	selVal := rt.String("selector-value")
	genSel := rt.Bool("generate-selector")

	parent := env.Thing("ns", "p", puid)
	selKind := verifC04Pick("selector-kind", 3) // 0 matchLabels, 1 no .spec.selector, 2 empty selector
	switch selKind {
	case 0:
		parent.Object["spec"] = map[string]interface{}{"selector": map[string]interface{}{"matchLabels": map[string]interface{}{"app": selVal}}}
	case 2:
		// every way of writing "no criteria at all": {}, null, and the two fields
		// present but empty
		var sel interface{}
		switch verifC04Pick("empty-selector-shape", 5) {
		case 0:
			sel = map[string]interface{}{}
		case 1:
			sel = nil
		case 2:
			sel = map[string]interface{}{"matchLabels": map[string]interface{}{}}
		case 3:
			sel = map[string]interface{}{"matchExpressions": []interface{}{}}
		default:
			sel = map[string]interface{}{"matchLabels": map[string]interface{}{}, "matchExpressions": []interface{}{}}
		}
		parent.Object["spec"] = map[string]interface{}{"selector": sel}
	}
	w.Srv.Put("things", parent)

	// an owned, matching child the hook no longer wants: deleted by a sync that
	// gets as far as managing children
	old := env.ConfigMap("ns", "old", "uold", "v")
	env.SetLabel(old, "app", selVal)
	env.SetLabel(old, "controller-uid", puid)
	env.AddOwnerRef(old, env.OwnerRefMap("ex.com/v1", "Thing", "p", puid, true))
	w.Srv.Put("configmaps", old)

	nDes := 1 + verifC04Pick("desired", 2)
	existing := rt.Bool("the-first-desired-child-is-the-one-the-parent-has")
	var desired []*unstructured.Unstructured
	type des struct {
		hasApp, hasCU bool
		app, cu       string
	}
	var ds []des
	for i := 0; i < nDes; i++ {
		d := des{hasApp: rt.Bool("desired-has-app-label" + verifC04Num[i])}
		o := env.ConfigMap("ns", "d"+verifC04Num[i], "", "v")
		if i == 0 && existing {
			// the hook returns the child the parent HAS (owned, matching so far) with
			// whatever labels it now wants: the invariant holds for a child that is
			// updated as for one that is created
			o = env.ConfigMap("ns", "old", "", "v2")
		}
		if d.hasApp {
			d.app = rt.String("desired-app-label" + verifC04Num[i])
			env.SetLabel(o, "app", d.app)
		}
		if genSel {
			d.hasCU = rt.Bool("hook-sets-controller-uid" + verifC04Num[i])
			if d.hasCU {
				d.cu = rt.String("hook-controller-uid" + verifC04Num[i])
				env.SetLabel(o, "controller-uid", d.cu)
			}
		}
		ds = append(ds, d)
		desired = append(desired, o)
	}

	pc := verifNewPC(w, verifPCConfig{
		ParentRes: env.ThingRes, GenerateSelector: genSel,
		Children: []verifChildRule{{Res: env.ConfigMapRes, Strategy: verifStrategyOf("InPlace")}},
		Sync:     verifConstHook(desired, map[string]interface{}{"ok": "yes"}, false),
	})
	pc.SnapshotFromStore()
	err := pc.syncParentObject(pc.W.Srv.All("things")[0])

	rt.Observe("err", err != nil)
	rt.Observe("child-writes", verifC04ChildWrites(w))
	rt.Observe("hook-calls", len(pc.Cfg.Sync.Calls))

	if !genSel && selKind != 0 {
		rt.Cover("empty-selector/refused")
		rt.Assert(err != nil, "empty-selector/accepted")
		rt.Assert(verifC04ChildWrites(w) == 0, "empty-selector/child-written")
		rt.Assert(len(w.Srv.Writes()) == 0, "empty-selector/parent-written")
		return
	}
	// does every desired child satisfy the selector?
	ok := true
	for _, d := range ds {
		if genSel {
			if d.hasCU && d.cu != puid {
				ok = false
			}
		} else {
			if !d.hasApp || d.app != selVal {
				ok = false
			}
		}
		if !ok {
			break
		}
	}
	if !ok {
		rt.Cover("mismatch/rejected")
		rt.Assert(err != nil, "mismatch/no-error")
		rt.Assert(verifC04ChildWrites(w) == 0, "mismatch/child-written")
		rt.Assert(len(w.Srv.Writes()) == 0, "mismatch/parent-written")
		st := w.Srv.Peek("configmaps", "ns", "old")
		rt.Assert(st != nil, "mismatch/undesired-child-deleted")
		return
	}
	rt.Cover("match/reconciled")
	rt.Assert(err == nil, "match/error")
	if existing {
		// (the accounting below is about created children and the deleted one)
		rt.Cover("match/existing-child-kept")
		rt.Assert(w.Srv.Peek("configmaps", "ns", "old") != nil, "match/desired-existing-child-deleted")
		return
	}
	creates, deletes, others := 0, 0, 0
	for _, r := range w.Srv.Writes() {
		if r.Resource == "things" {
			continue
		}
		switch r.Verb {
		case "create":
			creates++
			rt.Assert(r.Accepted, "match/create-rejected")
			idx := -1
			for i := range ds {
				if r.Name == "d"+verifC04Num[i] {
					idx = i
				}
			}
			rt.Assert(idx >= 0, "match/create-unknown-child")
			if idx < 0 {
				continue
			}
			lab := r.Body.GetLabels()
			if genSel {
				if !ds[idx].hasCU {
					rt.Cover("generated/controller-uid-injected")
				} else {
					rt.Cover("generated/controller-uid-from-hook")
				}
				v, has := lab["controller-uid"]
				rt.Assert(has, "generated/controller-uid-label-missing")
				if has {
					rt.Assert(v == puid, "generated/controller-uid-label-is-not-parent-uid")
				}
			} else {
				_, has := lab["controller-uid"]
				rt.Assert(!has, "explicit/controller-uid-label-injected")
			}
			av, has := lab["app"]
			rt.Assert(has == ds[idx].hasApp, "match/app-label-presence-changed")
			if has && ds[idx].hasApp {
				rt.Assert(av == ds[idx].app, "match/app-label-changed")
			}
			ref := metav1.GetControllerOf(r.Body)
			rt.Assert(ref != nil, "match/created-without-controller-reference")
			if ref != nil {
				rt.Assert(string(ref.UID) == puid, "match/controller-reference-uid")
			}
		case "delete":
			deletes++
			rt.Assert(r.Name == "old", "match/delete-unexpected-target")
		default:
			others++
		}
	}
	rt.Assert(creates == nDes, "match/creates")
	rt.Assert(deletes == 1, "match/undesired-child-not-deleted")
	rt.Assert(others == 0, "match/other-child-writes")
}

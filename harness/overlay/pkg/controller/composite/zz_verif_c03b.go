package composite

// C03 — "one entry per declared child resource, keyed Kind.apiVersion": a
// controller that declares the SAME child resource at two served API versions
// (a multi-version CRD) has two informers, two claim passes and two entries in
// the hook request, each holding the children as that version delivers them.

import (
	"k8s.io/apimachinery/pkg/apis/meta/v1/unstructured"

	commonv2 "metacontroller/pkg/controller/common/api/v2"
	"metacontroller/pkg/zzverif/env"
	stub "metacontroller/pkg/zzverif/informerstub"
	rt "metacontroller/pkg/zzverif/rt"
)

func VerifC03_TwoVersionsOfOneKind() {
	w := env.NewWorld()
	genSel := rt.Bool("generate-selector")
	parent := env.Thing("ns", "p", "puid")
	selKey, selVal := "app", "sel"
	if genSel {
		selKey, selVal = "controller-uid", "puid"
	} else {
		parent.Object["spec"] = map[string]interface{}{"selector": map[string]interface{}{"matchLabels": map[string]interface{}{"app": "sel"}}}
	}
	w.Srv.Put("things", parent)
	v1res, v2res := env.WidgetRes, env.WidgetV2Res
	mk := func(apiVersion, name, uid string, owned bool) *unstructured.Unstructured {
		o := env.Obj(apiVersion, "Widget", "ns", name, uid)
		o.Object["spec"] = map[string]interface{}{"k": "v"}
		env.SetLabel(o, selKey, selVal)
		if owned {
			env.AddOwnerRef(o, env.OwnerRefMap("ex.com/v1", "Thing", "p", "puid", true))
		} else {
			env.AddOwnerRef(o, env.OwnerRefMap("ex.com/v1", "Thing", "q", "quid", true))
		}
		return o
	}
	// the same stored objects as each version's informer delivers them
	n := 1 + rt.Choice("owned-widgets", 2)
	var c1, c2 []*unstructured.Unstructured
	names := []string{"w0", "w1"}
	for i := 0; i < n; i++ {
		a, b := mk("apps.ex.com/v1", names[i], "u"+names[i], true), mk("apps.ex.com/v2", names[i], "u"+names[i], true)
		c1, c2 = append(c1, a), append(c2, b)
		w.Srv.Put("widgets", a)
	}
	if rt.Bool("a-widget-of-another-parent") {
		a, b := mk("apps.ex.com/v1", "other", "uother", false), mk("apps.ex.com/v2", "other", "uother", false)
		c1, c2 = append(c1, a), append(c2, b)
		w.Srv.Put("widgets", a)
	}
	v2First := rt.Bool("v2-declared-first")
	rules := []verifChildRule{{Res: v1res, Strategy: verifStrategyOf("InPlace")}, {Res: v2res, Strategy: verifStrategyOf("InPlace")}}
	if v2First {
		rules[0], rules[1] = rules[1], rules[0]
	}
	hook := verifConstHook(nil, nil, false)
	// the informers are the ones the REAL constructor subscribed to and registered
	// (a rule it wrongly takes for a duplicate of another is visible only then)
	stub.Reset()
	pc := verifNewPC(w, verifPCConfig{ParentRes: env.ThingRes, GenerateSelector: genSel, Children: rules, Sync: hook, KeepConstructorInformers: true})
	filled := 0
	for _, s := range stub.Stubs() {
		switch {
		case s.GVR.Resource == "things":
			s.CompleteList(parent)
		case s.GVR.Resource == "widgets" && s.GVR.Version == "v1":
			s.CompleteList(c1...)
			filled++
		case s.GVR.Resource == "widgets" && s.GVR.Version == "v2":
			s.CompleteList(c2...)
			filled++
		}
	}
	rt.Assert(filled == 2, "two-versions/not-one-informer-per-declared-version")

	observed, err := pc.claimChildren(parent)
	rt.Assert(err == nil, "two-versions/claim-error")
	if err != nil {
		return
	}
	_, err = pc.callHook(parent, observed, commonv2.UniformObjectMap{})
	rt.Assert(err == nil, "two-versions/hook-error")
	if err != nil || len(hook.Calls) != 1 {
		rt.Assert(err != nil || len(hook.Calls) == 1, "two-versions/hook-not-called-exactly-once")
		return
	}
	req := hook.Calls[0]
	rt.Assert(len(req.Children) == 2, "two-versions/group-count")
	g1, has1 := req.Children[verifC03GVK(v1res)]
	g2, has2 := req.Children[verifC03GVK(v2res)]
	rt.Assert(has1 && g1 != nil, "two-versions/declared-group-missing")
	rt.Assert(has2 && g2 != nil, "two-versions/declared-group-missing")
	rt.Assert(len(g1) == n, "two-versions/v1-entry-does-not-hold-the-owned-children")
	rt.Assert(len(g2) == n, "two-versions/v2-entry-does-not-hold-the-owned-children")
	for i := 0; i < n; i++ {
		rt.Assert(g1[names[i]] == c1[i], "two-versions/v1-entry-holds-another-object")
		rt.Assert(g2[names[i]] == c2[i], "two-versions/v2-entry-holds-another-object")
	}
	rt.Cover("two-versions/checked")
	for _, r := range w.Srv.Writes() {
		rt.Assert(false, "two-versions/write-during-claim:"+r.Verb)
	}
}

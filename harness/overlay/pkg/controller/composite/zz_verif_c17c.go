package composite

// C17 — the controller's parent client is ONE object shared by all queue
// workers; every request re-scopes it with the namespace of the parent at hand.
// Three workers do that at the same time for parents in three namespaces:
// every request reaches the namespace of ITS parent (the sequential result)
// and re-scoping involves no unsynchronised shared memory (memory-cell race
// check of the executor, confirmed natively by `go test -race`).

import (
	"context"
	"sync"

	metav1 "k8s.io/apimachinery/pkg/apis/meta/v1"
	"k8s.io/apimachinery/pkg/apis/meta/v1/unstructured"

	v1 "metacontroller/pkg/controller/composite/api/v1"
	"metacontroller/pkg/zzverif/env"
	rt "metacontroller/pkg/zzverif/rt"
)

func VerifC17_SharedParentClient() {
	w := env.NewWorld()
	nss := []string{"ns", "ns2", "ns3"}
	names := []string{"p1", "p2", "p3"}
	for i := range nss {
		w.Srv.Put("things", env.Thing(nss[i], names[i], "puid"+names[i][1:]))
	}
	hook := &verifHook{enabled: true, fn: func(req *v1.CompositeHookRequest) (*v1.CompositeHookResponse, error) {
		return &v1.CompositeHookResponse{}, nil
	}}
	pc := verifNewPC(w, verifPCConfig{
		ParentRes: env.ThingRes, GenerateSelector: true,
		Children: []verifChildRule{{Res: env.ConfigMapRes, Strategy: verifStrategyOf("InPlace")}},
		Sync:     hook,
	})
	pc.SnapshotFromStore()

	rounds := 1 + rt.Choice("requests-per-worker", 2)
	start := make(chan struct{})
	var wg sync.WaitGroup
	got := make([]*unstructured.Unstructured, len(nss))
	errs := make([]error, len(nss))
	for i := range nss {
		wg.Add(1)
		go func(i int) {
			defer wg.Done()
			<-start
			for k := 0; k < rounds; k++ {
				got[i], errs[i] = pc.parentClient.Namespace(nss[i]).Get(context.TODO(), names[i], metav1.GetOptions{})
			}
		}(i)
	}
	close(start)
	wg.Wait()

	for i := range nss {
		rt.Assert(errs[i] == nil, "shared-parent-client/request-failed")
		if got[i] != nil {
			rt.Assert(got[i].GetNamespace() == nss[i] && got[i].GetName() == names[i], "shared-parent-client/answer-for-another-parent")
		}
	}
	n := 0
	for _, r := range w.Srv.Log {
		if r.Resource != "things" || r.Verb != "get" {
			continue
		}
		n++
		for i := range names {
			if r.Name == names[i] {
				rt.Assert(r.NS == nss[i], "shared-parent-client/request-sent-to-another-namespace")
			}
		}
	}
	rt.Assert(n == rounds*len(nss), "shared-parent-client/request-count")
	rt.Cover("shared-parent-client/done")
}

package composite

// C07 (Level B) — children still assigned to an old parent revision keep being
// reconciled to THAT revision's desired state (incl. being recreated at it when
// they disappear), while parent fields outside the revision-history field
// paths take effect for all children at once.

import (
	k8sjson "k8s.io/apimachinery/pkg/util/json"

	rt "metacontroller/pkg/zzverif/rt"
)

// verifPatchHas: the revision's parent patch sets spec.template.v to v.
func verifPatchHas(raw []byte, v string) bool {
	m := map[string]interface{}{}
	if err := k8sjson.Unmarshal(raw, &m); err != nil {
		return false
	}
	sp, _ := m["spec"].(map[string]interface{})
	t, _ := sp["template"].(map[string]interface{})
	s, _ := t["v"].(string)
	return s == v
}

func (r *verifRollWorld) childField(name, field string) (string, bool) {
	o := r.w.Srv.Peek(r.childRes.Name, r.ns, name)
	if o == nil {
		return "", false
	}
	d, _ := o.Object["data"].(map[string]interface{})
	s, _ := d[field].(string)
	return s, true
}

func VerifC07_OldRevisionChildren() {
	namespaced := rt.Bool("namespaced")
	oldV, newV := rt.String("old-template"), rt.String("new-template")
	rt.Assume(oldV != newV)
	g1, g2 := rt.String("global-1"), rt.String("global-2")
	rt.Assume(g1 != "" && g2 != "" && g1 != g2)
	r := verifNewRollWorldNested(namespaced, true, "RollingRecreate", []string{"a", "b"}, oldV)
	if rt.Bool("in-place") {
		r.method = "RollingInPlace"
	}
	r.global = g1
	if rt.Bool("an-unset-field-path-is-listed-before-the-revisioned-one") {
		rt.Cover("unset-field-path-first")
		r.extraPath = true
	}
	// children never report Ready, so the rollout stays paused after the first
	// move and b stays assigned to the old revision for the rest of the scenario
	r.requireReady = true
	r.setSpec(oldV)
	r.newPC()
	rt.Assert(r.sync() == nil, "first-sync/error")
	r.markHealthy()
	// revisioned change: the rollout starts, one child moves (or is deleted for recreation)
	r.setSpec(newV)
	rt.Assert(r.sync() == nil, "rollout-sync/error")
	rt.Assert(len(r.w.Srv.Revs()) == 2, "setup/expected-two-live-revisions")
	// b is still assigned to the old revision
	vb, ok := r.childField("b", "k")
	rt.Assert(ok && vb == oldV, "setup/b-not-on-old-revision")
	// C09: nothing carries the new template without being on record for it
	for _, n := range []string{"a", "b"} {
		if v, ok := r.childField(n, "k"); ok && v == newV {
			found := false
			for _, rev := range r.w.Srv.Revs() {
				if string(rev.ParentPatch.Raw) != "" && verifRevLists(rev, n) && verifPatchHas(rev.ParentPatch.Raw, newV) {
					found = true
				}
			}
			rt.Assert(found, "rollout/child-ahead-of-its-recorded-revision")
		}
	}

	switch rt.Choice("event", 3) {
	case 2:
		// a SECOND revisioned edit while the first rollout is paused (A -> B -> C):
		// two superseded revisions exist at once, each child still has to carry the
		// template of the revision that lists it
		rt.Cover("second-revisioned-edit")
		thirdV := rt.String("third-template")
		rt.Assume(thirdV != oldV && thirdV != newV)
		r.setSpec(thirdV)
		for i := 0; i < 2; i++ {
			rt.Assert(r.sync() == nil, "second-edit-sync/error")
			for _, n := range []string{"a", "b"} {
				v, ok := r.childField(n, "k")
				if !ok {
					continue // RollingRecreate: deleted, recreated by the next sync
				}
				found := false
				for _, rev := range r.w.Srv.Revs() {
					if verifRevLists(rev, n) && verifPatchHas(rev.ParentPatch.Raw, v) {
						found = true
					}
				}
				rt.Assert(found, "second-revisioned-edit/child-"+n+"-carries-a-template-other-than-its-recorded-revisions")
			}
		}
		rt.Assert(len(r.w.Srv.Revs()) >= 2, "second-revisioned-edit/expected-superseded-revisions")
	case 0:
		// b disappears: it must be recreated at the OLD revision's desired state
		rt.Cover("old-child-disappears")
		r.w.Srv.Remove(r.childRes.Name, r.ns, "b")
		rt.Assert(r.sync() == nil, "recreate-sync/error")
		vb, ok = r.childField("b", "k")
		rt.Assert(ok, "old-revision-child/not-recreated-after-it-disappeared")
		if ok {
			rt.Assert(vb == oldV, "old-revision-child/recreated-at-the-wrong-revision")
		}
	case 1:
		// a non-revisioned parent field changes: it reaches ALL children at once,
		// b keeps the old revision's template
		rt.Cover("non-revisioned-edit")
		r.global = g2
		r.setSpec(newV)
		nrev := len(r.w.Srv.Revs())
		for i := 0; i < 2; i++ { // RollingRecreate: delete, then create
			rt.Assert(r.sync() == nil, "global-edit-sync/error")
		}
		rt.Assert(len(r.w.Srv.Revs()) == nrev, "non-revisioned-edit/created-a-new-revision")
		for _, n := range []string{"a", "b"} {
			if g, ok := r.childField(n, "g"); ok {
				rt.Assert(g == g2, "non-revisioned-edit/did-not-reach-child-"+n)
			}
		}
		if vb, ok := r.childField("b", "k"); ok {
			rt.Assert(vb == oldV, "non-revisioned-edit/old-revision-child-lost-its-template")
		}
	}
}

package composite

// C10 — the finalizer belongs to ONE controller: two CompositeControllers (two
// controller instances, both with a finalize hook) manage the same parent,
// which carries both finalizers and is being deleted. Controller 1's finalize
// hook answers finalized, controller 2's does not. After controller 1 synced,
// controller 2's finalizer is still on the parent ("removed only after an
// answer with finalized: true" - its hook never gave one), controller 2 still
// takes the parent for its own and calls its finalize hook. The controller
// names range over a short pair, a pair of LONG names that agree in their
// first 69 characters (object names may be 253 characters long) and a symbolic
// pair.

import (
	"metacontroller/pkg/zzverif/env"
	rt "metacontroller/pkg/zzverif/rt"
)

func VerifC10_FinalizerPerController() {
	w := env.NewWorld()
	n1, n2 := "", ""
	switch rt.Choice("controller-names", 3) {
	case 0:
		n1, n2 = "cc", "cd"
		rt.Cover("per-controller/short-names")
	case 1:
		long := "a-rather-long-controller-name-as-helm-charts-and-operators-generate-it"
		n1, n2 = long+"-blue", long+"-green"
		rt.Cover("per-controller/long-names-with-a-common-prefix")
	default:
		n1, n2 = rt.String("first-controller-name"), rt.String("second-controller-name")
		rt.Assume(n1 != "")
		rt.Assume(n2 != "")
		rt.Assume(n1 != n2)
		rt.Cover("per-controller/symbolic-names")
	}
	mk := func(name string, finalized bool) *verifPC {
		fh := verifConstHook(nil, map[string]interface{}{"by": "finalize"}, finalized)
		sh := verifConstHook(nil, map[string]interface{}{"by": "sync"}, false)
		return verifNewPC(w, verifPCConfig{Name: name, ParentRes: env.ThingRes, GenerateSelector: true, FinalizeEnabled: true, Sync: sh, Finalize: fh})
	}
	pc1, pc2 := mk(n1, true), mk(n2, false)
	f1, f2 := pc1.finalizer.Name, pc2.finalizer.Name
	rt.Assert(f1 != f2, "per-controller/two-controllers-share-one-finalizer-name")

	parent := env.Thing("ns", "p", "puid")
	verifSetFinalizers(parent, f1, f2)
	env.MarkDeleting(parent)
	w.Srv.Put("things", parent)

	pc1.SnapshotFromStore()
	err := pc1.syncParentObject(pc1.W.Srv.All("things")[0])
	rt.Assert(err == nil, "per-controller/first-controller-sync-error")
	rt.Assert(len(pc1.Cfg.Finalize.Calls) == 1, "per-controller/first-controller-finalize-hook-not-called")
	live := w.Srv.Peek("things", "ns", "p")
	rt.Assert(live != nil, "per-controller/parent-gone-although-second-controller-has-not-finalized")
	if live == nil {
		return
	}
	rt.Assert(!verifHasFinalizer(live, f1), "per-controller/finalized-controller-kept-its-finalizer")
	rt.Assert(verifHasFinalizer(live, f2), "per-controller/finalizer-of-a-controller-that-has-not-finalized-removed")

	pc2.SnapshotFromStore()
	err = pc2.syncParentObject(pc2.W.Srv.All("things")[0])
	rt.Assert(err == nil, "per-controller/second-controller-sync-error")
	rt.Assert(len(pc2.Cfg.Finalize.Calls) == 1, "per-controller/second-controller-finalize-hook-not-called")
	live = w.Srv.Peek("things", "ns", "p")
	rt.Assert(live != nil && verifHasFinalizer(live, f2), "per-controller/finalizer-removed-without-a-finalized-answer")
}

package composite

// C08 — a rolling update of healthy children always completes and cleans up.
// Level A lemmas:
//   progress: whenever some desired rolling child is still with an old
//     revision and every child with the latest revision is observed, up to
//     date and healthy, one real syncRollingUpdate call moves exactly one
//     child and does not answer RolloutWaiting;
//   cleanup: pruneParentRevisions drops exactly the drained non-latest
//     revisions, and the real manageRevisions over the simulated API server
//     deletes them (UID precondition), updates the changed ones, creates the
//     missing ones and leaves the unchanged ones alone.
// Shares the state builder of zz_verif_c07.go.

import (
	"k8s.io/apimachinery/pkg/types"
	k8sjson "k8s.io/apimachinery/pkg/util/json"

	"metacontroller/pkg/apis/metacontroller/v1alpha1"
	"metacontroller/pkg/zzverif/env"
	rt "metacontroller/pkg/zzverif/rt"
)

// VerifC08_Progress: the progress lemma, for namespaced and cluster-scoped
// parents.
func VerifC08_Progress() {
	o := verifRollOpts{progress: true, twoVersions: true, status: map[string]interface{}{}}
	verifRollTierOpts(&o)
	s := verifRollBuild(o)

	// the hypothesis of the lemma (health of the children with latest is
	// assumed while building)
	var pending []*verifRollChild
	for _, i := range s.hook {
		c := s.c[i]
		if !s.withLatestBefore(c) {
			pending = append(pending, c)
		}
	}
	rt.Assume(len(pending) > 0)

	s.run()

	lab := func(l string) string { return "progress/" + s.tag + "/" + l }
	rt.Assert(!s.panicked, lab("panic"))
	if s.panicked {
		return
	}
	rt.Cover("progress-" + s.tag)
	rt.Assert(s.err == nil, lab("error-returned"))
	moved := 0
	for _, c := range pending {
		if s.claimsIn(0, c) > 0 {
			moved++
		}
	}
	n, cstatus, reason, _ := verifC07UpdatedCondition(s.revs[0].syncResult.Status)
	rt.Observe("moved", moved)
	rt.Observe("cond-reason", reason)
	if moved == 0 {
		// every child with latest is observed, up to date and healthy, yet nothing moves
		rt.Assert(false, lab("waits-on-healthy-child"))
		return
	}
	rt.Assert(moved == 1, lab("moved-more-than-one-child"))
	rt.Assert(s.claimsIn(0, pending[0]) > 0, lab("moved-child-is-not-first-in-hook-order"))
	rt.Assert(n == 1, lab("not-exactly-one-updated-condition"))
	rt.Assert(reason != "RolloutWaiting", lab("answers-rollout-waiting-after-moving"))
	rt.Assert(cstatus == "False" && reason == "RolloutProgressing", lab("moved-but-not-progressing"))
}

// ---------------------------------------------------------------- cleanup

type verifCleanupRev struct {
	name     string
	observed *v1alpha1.ControllerRevision // as listed from the cache (nil: not on the server)
	pr       *parentRevision              // the working copy after syncRollingUpdate
	uid, rv  string
	want     string // "", "create", "update", "delete"
	keep     bool   // expected to survive pruning
}

func verifCleanupRevision(name, ns, uid, rv, patchVal string, names []string) *v1alpha1.ControllerRevision {
	cr := &v1alpha1.ControllerRevision{}
	cr.APIVersion = "metacontroller.k8s.io/v1alpha1"
	cr.Kind = "ControllerRevision"
	cr.Name = name
	cr.Namespace = ns
	cr.UID = types.UID(uid)
	cr.ResourceVersion = rv
	cr.Labels = map[string]string{"controller-uid": "puid"}
	raw, _ := k8sjson.Marshal(map[string]interface{}{"spec": map[string]interface{}{"x": patchVal}})
	cr.ParentPatch.Raw = raw
	if names != nil {
		cr.Children = []v1alpha1.ControllerRevisionChildren{{APIGroup: "", Kind: "ConfigMap", Names: names}}
	}
	return cr
}

// VerifC08_Cleanup: what happens to the ControllerRevisions after a rolling
// step: prune, then reconcile against the server.
func VerifC08_Cleanup() {
	w := env.NewWorld()
	scope := verifScopeNS
	if verifC07Bool("cluster-scoped-parent") {
		scope = verifScopeCluster
	}
	parent, parentRes := verifRollParent(scope)
	ns := parent.GetNamespace()
	pc := verifNewPC(w, verifPCConfig{
		ParentRes: parentRes, GenerateSelector: true,
		Children: []verifChildRule{{Res: env.ConfigMapRes, Strategy: verifStrategyOf(verifRollingInPlace)}},
	})

	var revs []*verifCleanupRev

	// latest
	{
		r := &verifCleanupRev{name: "rev-latest", keep: true}
		latestNames := []string(nil)
		if verifC07Bool("latest-has-children") {
			latestNames = []string{"a"}
		}
		switch rt.Choice("latest", 4) {
		case 0: // new revision, not on the server yet
			r.pr = &parentRevision{parent: parent, revision: verifCleanupRevision(r.name, ns, "", "", "new", latestNames)}
			r.want = "create"
		case 1: // observed, unchanged by this sync
			r.uid, r.rv = rt.String("latest-uid"), rt.String("latest-rv")
			r.observed = verifCleanupRevision(r.name, ns, r.uid, r.rv, "new", latestNames)
			r.pr = &parentRevision{parent: parent, revision: r.observed.DeepCopy()}
		case 2: // observed, a child was added to it
			r.uid, r.rv = rt.String("latest-uid"), rt.String("latest-rv")
			r.observed = verifCleanupRevision(r.name, ns, r.uid, r.rv, "new", latestNames)
			r.pr = &parentRevision{parent: parent, revision: r.observed.DeepCopy()}
			r.pr.revision.Children = []v1alpha1.ControllerRevisionChildren{{APIGroup: "", Kind: "ConfigMap", Names: []string{"a", "b"}}}
			r.want = "update"
		case 3: // a freshly built object whose name is already taken on the server
			r.uid, r.rv = rt.String("latest-uid"), rt.String("latest-rv")
			r.observed = verifCleanupRevision(r.name, ns, r.uid, r.rv, "new", latestNames)
			r.pr = &parentRevision{parent: parent, revision: verifCleanupRevision(r.name, ns, "", "", "new", []string{"a", "b"})}
			r.want = "update"
		}
		revs = append(revs, r)
	}
	// old revisions (always come from the server)
	nOld := 1 + rt.Tier()
	for i := 0; i < nOld; i++ {
		r := &verifCleanupRev{name: []string{"rev-old", "rev-old2"}[i]}
		r.uid, r.rv = rt.String(r.name+"-uid"), rt.String(r.name+"-rv")
		r.observed = verifCleanupRevision(r.name, ns, r.uid, r.rv, "old", []string{"b", "c"})
		r.pr = &parentRevision{parent: parent, revision: r.observed.DeepCopy()}
		switch rt.Choice(r.name, 4) {
		case 0: // all claims forgotten by syncRevisionClaims
			r.pr.revision.Children = nil
			r.want = "delete"
		case 1: // drained by removeChild: the group stays, without names
			r.pr.revision.Children[0].Names = []string{}
			r.want = "delete"
		case 2: // one child left
			r.pr.revision.Children[0].Names = []string{"c"}
			r.want, r.keep = "update", true
		case 3: // untouched
			r.keep = true
		}
		revs = append(revs, r)
	}
	for _, r := range revs {
		if r.observed != nil {
			rt.Assume(r.uid != "")
			rt.Assume(r.rv != "")
			w.Srv.PutRev(r.observed)
		}
	}

	var prs []*parentRevision
	var observedRevisions []*v1alpha1.ControllerRevision
	for _, r := range revs {
		prs = append(prs, r.pr)
		if r.observed != nil {
			observedRevisions = append(observedRevisions, r.observed)
		}
	}

	// --- prune
	pruned := pruneParentRevisions(prs)
	rt.Assert(len(pruned) > 0 && pruned[0] == revs[0].pr, "cleanup/prune/latest-not-first")
	k := 0
	for _, r := range revs {
		in := false
		for _, p := range pruned {
			if p == r.pr {
				in = true
			}
		}
		if r.keep {
			rt.Assert(in, "cleanup/prune/revision-with-children-or-latest-dropped")
			rt.Assert(k < len(pruned) && pruned[k] == r.pr, "cleanup/prune/order-changed")
			k++
		} else {
			rt.Cover("cleanup-pruned")
			rt.Assert(!in, "cleanup/prune/drained-revision-kept")
		}
	}
	rt.Assert(len(pruned) == k, "cleanup/prune/length")

	// --- reconcile (as syncRevisions does)
	var desired []*v1alpha1.ControllerRevision
	for _, p := range pruned {
		if p.revision != nil {
			desired = append(desired, p.revision)
		}
	}
	var err error
	panicked := verifC07Catch(func() { err = pc.manageRevisions(parent, observedRevisions, desired) })
	rt.Assert(!panicked, "cleanup/manage/panic")
	if panicked {
		return
	}
	rt.Assert(err == nil, "cleanup/manage/error")
	wr := w.Srv.Writes()
	total := 0
	for _, r := range revs {
		n := 0
		for _, q := range wr {
			rt.Assert(q.Resource == "controllerrevisions" && q.NS == ns, "cleanup/manage/write-to-unexpected-target")
			if q.Name != r.name {
				continue
			}
			n++
			rt.Assert(q.Verb == r.want, "cleanup/manage/"+r.want+"-expected-but-other-verb")
			if q.Verb != r.want {
				continue
			}
			rt.Assert(q.Accepted, "cleanup/manage/"+r.want+"-rejected-by-server")
			switch q.Verb {
			case "delete":
				rt.Cover("cleanup-delete")
				rt.Assert(q.UIDPre != nil, "cleanup/manage/delete-without-uid-precondition")
				if q.UIDPre != nil {
					rt.Assert(string(*q.UIDPre) == r.uid, "cleanup/manage/delete-uid-precondition-differs-from-observed")
				}
			case "update":
				rt.Cover("cleanup-update")
				rt.Assert(q.Rev != nil, "cleanup/manage/update-without-body")
				if q.Rev != nil {
					rt.Assert(q.Rev.ResourceVersion == r.rv, "cleanup/manage/update-body-resourceVersion-differs-from-observed")
					rt.Assert(verifC08NamesEqual(q.Rev, r.pr.revision), "cleanup/manage/update-body-children-differ-from-desired")
				}
			case "create":
				rt.Cover("cleanup-create")
				rt.Assert(q.Rev != nil, "cleanup/manage/create-without-body")
				if q.Rev != nil {
					rt.Assert(verifC08NamesEqual(q.Rev, r.pr.revision), "cleanup/manage/create-body-children-differ-from-desired")
				}
			}
		}
		if r.want == "" {
			rt.Cover("cleanup-unchanged")
			rt.Assert(n == 0, "cleanup/manage/request-for-unchanged-revision")
		} else {
			rt.Assert(n == 1, "cleanup/manage/not-exactly-one-"+r.want)
		}
		total += n
	}
	rt.Assert(len(wr) == total, "cleanup/manage/request-for-unknown-revision")

	// the store afterwards: exactly the revisions that were kept
	stored := w.Srv.Revs()
	for _, r := range revs {
		n := 0
		for _, cr := range stored {
			if cr.Name == r.name && cr.Namespace == ns {
				n++
				rt.Assert(verifC08NamesEqual(cr, r.pr.revision), "cleanup/store/children-differ-from-desired")
			}
		}
		if r.keep {
			rt.Assert(n == 1, "cleanup/store/kept-revision-missing")
		} else {
			rt.Assert(n == 0, "cleanup/store/drained-revision-still-stored")
		}
	}
	rt.Observe("err", err != nil)
	rt.Observe("writes", len(wr))
	rt.Observe("stored", len(stored))
}

// verifC08NamesEqual compares the children lists of two revisions (concrete).
func verifC08NamesEqual(a, b *v1alpha1.ControllerRevision) bool {
	flat := func(cr *v1alpha1.ControllerRevision) []string {
		var out []string
		for _, ck := range cr.Children {
			for _, n := range ck.Names {
				out = append(out, ck.Kind+"."+ck.APIGroup+"/"+n)
			}
		}
		return out
	}
	x, y := flat(a), flat(b)
	if len(x) != len(y) {
		return false
	}
	for i := range x {
		if x[i] != y[i] {
			return false
		}
	}
	return true
}

package composite

// C06 — the update method is looked up PER CHILD KIND: two child kinds with
// independent (symbolic) methods in one CompositeController; the real
// makeUpdateStrategyMap / updateStrategyMap.GetMethod feed the real
// ManageChildren. One observed child of each kind differs from its desired
// state in an owned field: each must be treated by the method of ITS kind
// (a core-group kind and a named-group kind, so that the map keys differ in
// shape).

import (
	"k8s.io/apimachinery/pkg/apis/meta/v1/unstructured"

	"metacontroller/pkg/controller/common"
	commonv2 "metacontroller/pkg/controller/common/api/v2"
	"metacontroller/pkg/zzverif/env"
	rt "metacontroller/pkg/zzverif/rt"
)

var verifC06Methods = []string{"", "OnDelete", "Recreate", "InPlace", "RollingRecreate", "RollingInPlace"}

func VerifC06_PerKindStrategy() {
	common.VerifResetSSAMemo()
	w := env.NewWorld()
	parent := env.Thing("ns", "p", "puid")
	w.Srv.Put("things", parent)
	mCM := verifC06Methods[rt.Choice("configmap-method", len(verifC06Methods))]
	mW := verifC06Methods[rt.Choice("widget-method", len(verifC06Methods))]
	noStrategyCM := mCM == "" && rt.Bool("configmap-rule-without-updateStrategy")
	rules := []verifChildRule{{Res: env.ConfigMapRes, Strategy: verifStrategyOf(mCM)}, {Res: env.WidgetRes, Strategy: verifStrategyOf(mW)}}
	if noStrategyCM {
		rules[0].Strategy = nil
	}
	pc := verifNewPC(w, verifPCConfig{ParentRes: env.ThingRes, GenerateSelector: true, Children: rules})

	des := rt.String("desired-value")
	obs := rt.String("observed-value")
	rt.Assume(des != obs)
	mkW := func(v string) *unstructured.Unstructured {
		o := env.Obj("apps.ex.com/v1", "Widget", "ns", "w", "")
		o.Object["spec"] = map[string]interface{}{"k": v}
		return o
	}
	observed, desired := commonv2.UniformObjectMap{}, commonv2.UniformObjectMap{}
	oc := verifAppliedChild(env.ConfigMap("ns", "c", "", obs), parent, "uid-c")
	ow := verifAppliedChild(mkW(obs), parent, "uid-w")
	w.Srv.Put("configmaps", oc)
	w.Srv.Put("widgets", ow)
	observed.Insert(parent, oc)
	observed.Insert(parent, ow)
	desired.Insert(parent, env.ConfigMap("ns", "c", "", des))
	desired.Insert(parent, mkW(des))

	err := common.ManageChildren(pc.dynClient, pc.updateStrategy, parent, observed, desired, pc.ssaOptions)
	rt.Assert(err == nil, "per-kind/error")
	check := func(res, name, method string) {
		var upd, del, cre int
		for _, r := range w.Srv.Writes() {
			if r.Resource != res {
				continue
			}
			switch r.Verb {
			case "update":
				upd++
			case "delete":
				del++
			case "create":
				cre++
			default:
				rt.Assert(false, "per-kind/"+res+"/unexpected-verb")
			}
		}
		rt.Assert(cre == 0, "per-kind/"+res+"/created")
		switch method {
		case "", "OnDelete":
			rt.Assert(upd == 0 && del == 0, "per-kind/"+res+"/touched-although-its-method-is-OnDelete")
		case "Recreate", "RollingRecreate":
			rt.Assert(del == 1 && upd == 0, "per-kind/"+res+"/not-deleted-for-recreation-although-its-method-says-so")
		case "InPlace", "RollingInPlace":
			rt.Assert(upd == 1 && del == 0, "per-kind/"+res+"/not-updated-in-place-although-its-method-says-so")
		}
	}
	check("configmaps", "c", mCM)
	check("widgets", "w", mW)
	rt.Cover("per-kind/done")
}

package composite

// C02 — only objects the parent controls are ever modified or deleted;
// deletes are UID-conditioned; everything created is born owned.
//
// One whole real syncParentObject (non-rolling) against the simulated API
// server, with an arbitrarily stale cache: each cached child has a symbolic
// role, and the live object may be the same, replaced under the same name, or
// gone. Every request in the log is judged against the store's pre-state.

import (
	"k8s.io/apimachinery/pkg/apis/meta/v1/unstructured"

	"metacontroller/pkg/zzverif/env"
	rt "metacontroller/pkg/zzverif/rt"
)

const (
	roleAbsent = iota
	roleOwnedMatching
	roleOwnedNonMatching
	roleOrphanMatching
	roleOrphanNonMatching
	roleForeignMatching
	numRoles
)

type verifC02Child struct {
	name    string
	role    int
	uid     string
	cached  *unstructured.Unstructured
	flagged bool // an accepted write on it was already reported
	live    int  // 0 same, 1 replaced under the same name by an unrelated object, 2 gone, 3 same object meanwhile taken over by another controller
}

func verifC02(ssa bool) {
	w := env.NewWorld()
	puid := rt.String("puid")
	rt.Assume(puid != "")
	parent := env.Thing("ns", "p", puid)
	// second child: drawn first because the quick tier explores some rarer
	// dimensions (selector with an expression, owner reference on a new child)
	// only when there is no second child (keeps the product small)
	nRolesB := 3
	if rt.Tier() == 1 {
		nRolesB = numRoles
	}
	roleB := rt.Choice("role-b", nRolesB)
	rare := rt.Tier() == 1 || roleB == 0
	gensel := rt.Bool("generateSelector")
	matchKey, matchVal := "controller-uid", puid
	// a selector may combine matchLabels with matchExpressions: an object that has
	// the labels but fails an expression does NOT match
	byExpression := false
	if !gensel {
		matchKey, matchVal = "app", "x"
		sel := map[string]interface{}{"matchLabels": map[string]interface{}{"app": "x"}}
		if byExpression = rare && rt.Bool("selector-also-has-a-matchExpression"); byExpression {
			rt.Cover("selector-with-expression")
			sel["matchExpressions"] = []interface{}{map[string]interface{}{"key": "track", "operator": "NotIn", "values": []interface{}{"canary"}}}
		}
		parent.Object["spec"].(map[string]interface{})["selector"] = sel
	}
	w.Srv.Put("things", parent)
	method := rt.OneOf(rt.String("method"), "InPlace", "Recreate", "OnDelete")
	rt.Assume(method == "InPlace" || method == "Recreate" || method == "OnDelete")
	otherUID := rt.String("otherOwnerUID")
	rt.Assume(otherUID != "" && otherUID != puid)

	names := []string{"a", "b"}
	nroles := []int{numRoles, 3}
	if rt.Tier() == 1 {
		nroles = []int{numRoles, numRoles}
	}
	var kids []*verifC02Child
	var cache []*unstructured.Unstructured
	for i, name := range names {
		k := &verifC02Child{name: name}
		// child b is restricted in the quick tier: absent / owned+matching / foreign
		var r int
		if i == 1 {
			r = roleB
		} else {
			r = rt.Choice("role-"+name, nroles[i])
		}
		if nroles[i] == 3 {
			r = []int{roleAbsent, roleOwnedMatching, roleForeignMatching}[r]
		}
		k.role = r
		kids = append(kids, k)
		if r == roleAbsent {
			continue
		}
		k.uid = rt.String("uid-" + name)
		rt.Assume(k.uid != "")
		obsVal := rt.String("obsVal-" + name)
		var o *unstructured.Unstructured
		switch r {
		case roleOwnedMatching, roleOwnedNonMatching:
			o = verifAppliedChild(env.ConfigMap("ns", name, "", obsVal), parent, k.uid)
		case roleOrphanMatching, roleOrphanNonMatching:
			o = env.ConfigMap("ns", name, k.uid, obsVal)
		case roleForeignMatching:
			o = env.ConfigMap("ns", name, k.uid, obsVal)
			env.AddOwnerRef(o, env.OwnerRefMap("ex.com/v1", "Thing", "q", otherUID, true))
		}
		if r == roleOwnedMatching || r == roleOrphanMatching || r == roleForeignMatching {
			env.SetLabel(o, matchKey, matchVal)
		} else if byExpression {
			// has the labels, fails the expression
			env.SetLabel(o, matchKey, matchVal)
			env.SetLabel(o, "track", "canary")
		} else {
			env.SetLabel(o, matchKey, "something-else")
		}
		k.cached = o
		cache = append(cache, o)
		nLive := 3
		if i == 0 || rt.Tier() == 1 {
			nLive = 4
		}
		k.live = rt.Choice("live-"+name, nLive)
		switch k.live {
		case 3:
			// same object (same UID), but since the cache was filled another
			// controller adopted it / took it over
			t := o.DeepCopy()
			refs, _ := t.Object["metadata"].(map[string]interface{})["ownerReferences"].([]interface{})
			var kept []interface{}
			for _, ref := range refs {
				if m, ok := ref.(map[string]interface{}); ok && m["controller"] == true {
					continue
				}
				kept = append(kept, ref)
			}
			if len(kept) == 0 {
				delete(t.Object["metadata"].(map[string]interface{}), "ownerReferences")
			} else {
				t.Object["metadata"].(map[string]interface{})["ownerReferences"] = kept
			}
			env.AddOwnerRef(t, env.OwnerRefMap("ex.com/v1", "Thing", "rival", "rival-uid", true))
			rt.Assume(puid != "rival-uid")
			t.SetResourceVersion("8")
			w.Srv.Put("configmaps", t)
		case 0:
			w.Srv.Put("configmaps", o)
		case 1:
			repl := env.ConfigMap("ns", name, "replacement-uid-"+name, "someone elses data")
			rt.Assume(k.uid != "replacement-uid-"+name)
			w.Srv.Put("configmaps", repl)
		}
	}

	// hook: wants "a" (symbolic value) and possibly a brand-new "c"
	desVal := rt.String("desVal")
	var desired []*unstructured.Unstructured
	wantA := rt.Bool("want-a")
	if wantA {
		d := env.ConfigMap("ns", "a", "", desVal)
		if !gensel {
			env.SetLabel(d, "app", "x")
		}
		desired = append(desired, d)
	}
	wantC := rt.Bool("want-c")
	if wantC {
		d := env.ConfigMap("ns", "c", "", "new")
		if !gensel {
			env.SetLabel(d, "app", "x")
		}
		if rare && rt.Bool("new-child-carries-a-plain-owner-reference-to-the-parent") {
			// a hand-written garbage-collection reference (controller flag absent)
			rt.Cover("desired-with-plain-owner-reference")
			env.AddOwnerRef(d, env.OwnerRefMap("ex.com/v1", "Thing", "p", puid, false))
		}
		desired = append(desired, d)
	}

	pc := verifNewPC(w, verifPCConfig{
		ParentRes: env.ThingRes, GenerateSelector: gensel, SSA: ssa,
		Children: []verifChildRule{{Res: env.ConfigMapRes, Strategy: verifStrategyOf(method)}},
		Sync:     verifConstHook(desired, map[string]interface{}{"ok": "yes"}, false),
	})
	pc.Snapshot([]*unstructured.Unstructured{parent}, map[string][]*unstructured.Unstructured{"configmaps": cache}, nil)
	fp := verifFingerprint(append([]*unstructured.Unstructured{parent}, cache...), nil)

	err := pc.syncParentObject(parent)
	rt.Observe("err", err != nil)

	find := func(name string) *verifC02Child {
		for _, k := range kids {
			if k.name == name {
				return k
			}
		}
		return nil
	}
	writes := verifChildWrites(w.Srv.Log, "things")
	rt.Observe("child-writes", len(writes))
	for _, r := range writes {
		rt.Assert(r.Resource == "configmaps" && r.NS == "ns", "write-outside-declared-child-types-or-namespace")
		k := find(r.Name)
		switch r.Verb {
		case "create":
			rt.Cover("create")
			rt.Assert((r.Name == "a" && wantA) || (r.Name == "c" && wantC), "create/of-undesired-name")
			cu, has := verifControllerUID(r.Body)
			rt.Assert(has, "create/born-without-controller-reference")
			if has {
				rt.Assert(cu == puid, "create/controller-reference-to-wrong-uid")
			}
		case "patch":
			rt.Cover("patch")
			rt.Assert(ssa, "patch/sent-with-dynamic-apply")
			if r.PatchType == "apply" && r.Body != nil {
				if r.Pre == nil {
					// the apply creates the object
					cu, has := verifControllerUID(r.Body)
					rt.Assert(has, "ssa-create/born-without-controller-reference")
					if has {
						rt.Assert(cu == puid, "ssa-create/controller-reference-to-wrong-uid")
					}
				} else if r.Accepted {
					pu, has := verifControllerUID(r.Pre)
					rt.Assert(has && pu == puid, "ssa-apply/accepted-on-object-not-controlled-by-parent")
				}
			} else if r.Accepted {
				pu, has := verifControllerUID(r.Pre)
				if k != nil && k.live == 3 {
					k.flagged = true
					rt.Assert(false, "ssa-jsonpatch/accepted-on-object-taken-over-by-another-controller-since-observed")
				} else {
					rt.Assert(has && pu == puid, "ssa-jsonpatch/accepted-on-object-not-controlled-by-parent")
				}
			}
		case "update":
			rt.Assert(k != nil && k.role != roleAbsent, "update/of-object-not-in-cache")
			if k == nil || k.role == roleAbsent {
				continue
			}
			rt.Assert(k.role != roleForeignMatching, "update/of-object-controlled-by-someone-else")
			rt.Assert(k.role != roleOrphanNonMatching, "update/of-non-matching-orphan")
			rt.Assert(string(r.Body.GetUID()) == k.uid, "update/body-uid-differs-from-observed")
			if r.Accepted {
				rt.Cover("update-accepted")
				pu, has := verifControllerUID(r.Pre)
				if k.role == roleOrphanMatching {
					// adoption: an ownership-only edit of a matching orphan
					rt.Cover("adoption")
					rt.Assert(!has, "adoption/of-object-that-has-a-controller")
					bu, bhas := verifControllerUID(r.Body)
					rt.Assert(bhas && bu == puid, "adoption/does-not-add-our-reference")
				} else {
					rt.Assert(has && pu == puid, "update/accepted-on-object-not-controlled-by-parent")
				}
				rt.Assert(string(r.Pre.GetUID()) == k.uid, "update/accepted-on-replaced-object")
				rt.Assert(k.live != 3, "update/accepted-on-object-taken-over-by-another-controller")
			}
		case "delete":
			rt.Cover("delete")
			rt.Assert(k != nil && k.role != roleAbsent, "delete/of-object-not-in-cache")
			if k == nil || k.role == roleAbsent {
				continue
			}
			rt.Assert(k.role == roleOwnedMatching || k.role == roleOrphanMatching, "delete/of-object-the-parent-does-not-own")
			rt.Assert(r.UIDPre != nil, "delete/no-uid-precondition")
			if r.UIDPre != nil {
				rt.Assert(string(*r.UIDPre) == k.uid, "delete/uid-precondition-differs-from-observed")
			}
			rt.Assert(r.Propagation == "Background", "delete/propagation-not-background")
			if r.Accepted {
				rt.Cover("delete-accepted")
				if k.live == 3 {
					// same UID, but the controller reference changed hands since the cache was filled
					k.flagged = true
					rt.Assert(false, "delete/accepted-on-object-taken-over-by-another-controller-since-observed")
				} else {
					rt.Assert(k.live == 0, "delete/accepted-on-replaced-object")
					pu, has := verifControllerUID(r.Pre)
					rt.Assert(has && pu == puid, "delete/accepted-on-object-not-controlled-by-parent")
				}
			} else if k.live == 1 {
				rt.Cover("delete-of-replaced-object-refused")
			}
		default:
			rt.Assert(false, "unexpected-verb")
		}
	}
	// objects controlled by someone else and non-matching orphans stay untouched in the store
	for _, k := range kids {
		if k.live == 3 && !k.flagged {
			rt.Cover("taken-over-by-rival")
			cur := w.Srv.Peek("configmaps", "ns", k.name)
			rt.Assert(cur != nil, "rival/object-removed")
			if cur != nil {
				rt.Assert(cur.GetResourceVersion() == "8", "rival/object-modified")
				cu, has := verifControllerUID(cur)
				rt.Assert(has && cu == "rival-uid", "rival/controller-reference-changed")
			}
		}
		if (k.role == roleForeignMatching || k.role == roleOrphanNonMatching) && k.live == 0 {
			cur := w.Srv.Peek("configmaps", "ns", k.name)
			pfx := ""
			if ssa {
				pfx = "ssa/"
			}
			rt.Assert(cur != nil, pfx+"foreign-object-removed")
			if cur != nil {
				rt.Assert(cur.GetResourceVersion() == "7", pfx+"foreign-object-modified")
			}
		}
	}
	fp.AssertUnchanged("C17/cache-object-mutated-by-sync")
}

func VerifC02_SyncWrites() { verifC02(false) }

// VerifC02_SSA: same scenario with the server-side-apply strategy.
func VerifC02_SSA() { verifC02(true) }

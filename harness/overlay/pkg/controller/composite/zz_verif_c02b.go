package composite

// C02 — nothing the controller process remembers about a parent may outlive
// the parent: a parent is deleted and another one is created under the SAME
// namespace/name (new UID, possibly the same generation number, another
// .spec.selector or the same) while the controller instance keeps running. An
// orphan in the namespace is written by the sync of the new parent only if it
// matches the NEW parent's selector; an orphan that only the deleted parent
// would have selected is never touched.

import (
	"metacontroller/pkg/zzverif/env"
	rt "metacontroller/pkg/zzverif/rt"
)

func VerifC02_RecreatedParent() {
	w := env.NewWorld()
	oldSel, newSel := rt.String("old-selector-value"), rt.String("new-selector-value")
	rt.Assume(oldSel != "")
	rt.Assume(newSel != "")
	mk := func(uid, sel string, gen int64) {
		p := env.Thing("ns", "p", uid)
		p.Object["spec"] = map[string]interface{}{
			"selector": map[string]interface{}{"matchLabels": map[string]interface{}{"app": sel}},
			"template": map[string]interface{}{"metadata": map[string]interface{}{"labels": map[string]interface{}{"app": sel}}},
		}
		p.SetGeneration(gen)
		w.Srv.Put("things", p)
	}
	mk("puid-1", oldSel, 1)
	pc := verifNewPC(w, verifPCConfig{
		ParentRes: env.ThingRes,
		Children:  []verifChildRule{{Res: env.ConfigMapRes, Strategy: verifStrategyOf("InPlace")}},
		Sync:      verifConstHook(nil, map[string]interface{}{"ok": "yes"}, false),
	})
	pc.SnapshotFromStore()
	rt.Assert(pc.syncParentObject(pc.W.Srv.All("things")[0]) == nil, "recreated-parent/first-sync-error")

	// the parent is deleted (its children orphaned) and created again
	w.Srv.Remove("things", "ns", "p")
	gen := int64(1)
	if rt.Bool("new-parent-has-another-generation") {
		gen = 2
	}
	mk("puid-2", newSel, gen)
	orphanApp := rt.String("orphan-app-label")
	orphan := env.ConfigMap("ns", "left-behind", "ouid", "v")
	env.SetLabel(orphan, "app", orphanApp)
	w.Srv.Put("configmaps", orphan)
	w.Srv.ResetLog()
	pc.SnapshotFromStore()
	err := pc.syncParentObject(pc.W.Srv.All("things")[0])
	rt.Assert(err == nil, "recreated-parent/second-sync-error")

	touched := false
	for _, r := range w.Srv.Writes() {
		if r.Resource == "configmaps" && r.Name == "left-behind" {
			touched = true
		}
	}
	if orphanApp == newSel {
		rt.Cover("recreated-parent/orphan-matches-the-new-parent")
		rt.Assert(touched, "recreated-parent/matching-orphan-not-adopted")
	} else {
		if orphanApp == oldSel {
			rt.Cover("recreated-parent/orphan-matches-only-the-deleted-parent")
		}
		rt.Assert(!touched, "recreated-parent/orphan-not-matching-the-new-parent-written")
	}
}

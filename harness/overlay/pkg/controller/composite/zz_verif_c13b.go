package composite

// C13 — the FINALIZE response type. A parent that is being deleted (and carries
// metacontroller's finalizer) is synced through the finalize hook; the decoded
// answer ranges over the same near-valid universe as the sync answer of
// VerifC13_MalformedResponse, combined with `finalized` true/false. One whole
// real syncParentObject processes it. A panic on any path is a violation; the
// finalizer goes only after an answer with finalized: true, and an answer
// rejected for its labels causes no child write.

import (
	"k8s.io/apimachinery/pkg/apis/meta/v1/unstructured"

	v1 "metacontroller/pkg/controller/composite/api/v1"
	"metacontroller/pkg/zzverif/env"
	rt "metacontroller/pkg/zzverif/rt"
)

func VerifC13_MalformedFinalizeResponse() {
	w := env.NewWorld()
	parent := env.Thing("ns", "p", "puid")
	verifSetFinalizers(parent, verifFinalizerName)
	env.MarkDeleting(parent)
	w.Srv.Put("things", parent)
	// one child the parent owns already: a finalize answer usually lists no children
	old := verifAppliedChild(env.ConfigMap("ns", "old", "", "x"), parent, "uid-old")
	env.SetLabel(old, "controller-uid", "puid")
	w.Srv.Put("configmaps", old)

	method := "InPlace"
	if rt.Bool("rolling") {
		method = "RollingInPlace"
	}
	finalized := rt.Bool("finalized")
	var children []*unstructured.Unstructured
	what := "no-children"
	if rt.Bool("has-children") {
		var bad *unstructured.Unstructured
		bad, what = verifMalformedChild("a")
		children = []*unstructured.Unstructured{bad}
		if rt.Bool("second-null") {
			children = append(children, nil)
		}
	}
	var status map[string]interface{}
	statusKind := rt.Choice("status", 3)
	switch statusKind {
	case 1:
		status = map[string]interface{}{"phase": rt.String("phase")}
	case 2:
		if rt.Bool("conditions-wrong-type") {
			status = map[string]interface{}{"conditions": rt.String("conditions-string")}
		} else {
			status = map[string]interface{}{"conditions": []interface{}{map[string]interface{}{"type": "Updated", "status": "True"}, rt.String("junk-condition")}}
		}
	}
	resync := []float64{0, -1, 1e300}[rt.Choice("resyncAfterSeconds", 3)]
	mk := func() *verifHook {
		return &verifHook{enabled: true, fn: func(req *v1.CompositeHookRequest) (*v1.CompositeHookResponse, error) {
			return &v1.CompositeHookResponse{Children: children, Status: status, ResyncAfterSeconds: resync, Finalized: finalized}, nil
		}}
	}
	sh, fh := mk(), mk()
	pc := verifNewPC(w, verifPCConfig{
		ParentRes: env.ThingRes, GenerateSelector: true, FinalizeEnabled: true,
		Children: []verifChildRule{{Res: env.ConfigMapRes, Strategy: verifStrategyOf(method)}},
		Sync:     sh, Finalize: fh,
	})
	pc.SnapshotFromStore()
	err := pc.syncParentObject(pc.W.Srv.All("things")[0])
	rt.Observe("err", err != nil)
	rt.Observe("what", what)
	rt.Assert(len(sh.Calls) == 0, "finalize/sync-hook-called-for-a-parent-being-deleted")
	rt.Assert(len(fh.Calls) == 1, "finalize/finalize-hook-not-called-exactly-once")
	cw := verifChildWrites(w.Srv.Log, "things")
	for _, r := range cw {
		rt.Assert(r.Resource == "configmaps", "finalize/write-to-undeclared-resource")
	}
	live := w.Srv.Peek("things", "ns", "p")
	if err != nil {
		rt.Cover("finalize/rejected")
		// Whether a rejected answer may already have released the parent is NOT
		// asserted: with finalized=true the real code removes the finalizer before
		// it validates the labels of the desired children, and neither C13 (no CHILD
		// write on the strength of a rejected answer) nor C10 (removed only after an
		// answer with finalized: true) forbids that (DESIGN section 8).
		if live == nil || !verifHasFinalizer(live, verifFinalizerName) {
			rt.Cover("finalize/rejected-after-release")
			rt.Assert(finalized, "finalize/finalizer-removed-although-not-finalized")
		}
	} else {
		rt.Cover("finalize/accepted")
		if finalized {
			rt.Cover("finalize/released")
			rt.Assert(live == nil || !verifHasFinalizer(live, verifFinalizerName), "finalize/finalizer-kept-although-finalized")
		} else {
			rt.Assert(live != nil, "finalize/parent-gone-although-not-finalized")
			if live != nil {
				rt.Assert(verifHasFinalizer(live, verifFinalizerName), "finalize/finalizer-removed-although-not-finalized")
			}
		}
	}
	if what == "metadata.labels" {
		rt.Cover("finalize/bad-labels")
		rt.Assert(err != nil, "finalize/bad-labels/accepted")
		rt.Assert(len(cw) == 0, "finalize/bad-labels/child-written-although-response-rejected")
	}
	if what == "no-children" || what == "valid" {
		if statusKind != 2 {
			rt.Assert(err == nil, "finalize/valid-response/error")
		}
	}
}

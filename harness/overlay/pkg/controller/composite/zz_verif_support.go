package composite

// Shared scaffolding for the composite-controller harnesses: a real
// parentController assembled from the simulated API server, snapshot listers,
// stub hooks, a recording work queue — everything else (finalizer manager,
// update strategy map, dynamic Clientset, customize manager) is the real code.

import (
	"sync"

	metav1 "k8s.io/apimachinery/pkg/apis/meta/v1"
	"k8s.io/apimachinery/pkg/apis/meta/v1/unstructured"
	"k8s.io/apimachinery/pkg/runtime/schema"

	"metacontroller/pkg/apis/metacontroller/v1alpha1"
	"metacontroller/pkg/controller/common"
	"metacontroller/pkg/controller/common/api"
	v1 "metacontroller/pkg/controller/composite/api/v1"
	dynamicdiscovery "metacontroller/pkg/dynamic/discovery"
	dynamicinformer "metacontroller/pkg/dynamic/informer"
	"metacontroller/pkg/hooks"
	"metacontroller/pkg/zzverif/env"
	stub "metacontroller/pkg/zzverif/informerstub"

	"github.com/go-logr/logr"
)

// verifHook is a deterministic, side-effect-free hook: a function of the request.
type verifHook struct {
	mu      sync.Mutex // hooks are called from parallel per-revision goroutines and concurrent syncs
	enabled bool
	fn      func(req *v1.CompositeHookRequest) (*v1.CompositeHookResponse, error)
	Calls   []*v1.CompositeHookRequest
}

func (h *verifHook) IsEnabled() bool { return h.enabled }
func (h *verifHook) Call(request api.WebhookRequest, response interface{}) error {
	req := request.(*v1.CompositeHookRequest)
	h.mu.Lock()
	h.Calls = append(h.Calls, req)
	h.mu.Unlock()
	resp, err := h.fn(req)
	if err != nil {
		return err
	}
	r := response.(*v1.CompositeHookResponse)
	r.Status = resp.Status
	r.Finalized = resp.Finalized
	r.ResyncAfterSeconds = resp.ResyncAfterSeconds
	r.Children = nil
	for _, c := range resp.Children {
		if c == nil {
			r.Children = append(r.Children, nil)
		} else {
			r.Children = append(r.Children, c.DeepCopy())
		}
	}
	return nil
}

type verifChildRule struct {
	Res      *dynamicdiscovery.APIResource
	Strategy *v1alpha1.CompositeControllerChildUpdateStrategy
}

type verifPCConfig struct {
	Name             string // name of the CompositeController object ("cc" when empty)
	ParentRes        *dynamicdiscovery.APIResource
	Children         []verifChildRule
	GenerateSelector bool
	ParentSelector   *metav1.LabelSelector // controller-level parent label selector (nil = all)
	FinalizeEnabled  bool
	SSA              bool
	FieldPaths       []string
	Sync, Finalize   *verifHook
	Customize        hooks.Hook // nil: the controller has no customize hook
	HooksViaService  bool       // the webhooks are given as a service reference + path instead of a url
	// KeepConstructorInformers: do not swap snapshot listers in; the harness fills
	// the stub informers the REAL constructor subscribed to (stub.Stubs(), by GVR)
	KeepConstructorInformers bool
}

type verifPC struct {
	*parentController
	W        *env.World
	Queue    *env.Queue
	Recorder *env.Recorder
	Cfg      verifPCConfig
	// identity-preserving cache (Resnapshot)
	cacheParents  []*unstructured.Unstructured
	cacheChildren map[string][]*unstructured.Unstructured
	cacheRV       map[*unstructured.Unstructured]string
}

const verifFinalizerName = "metacontroller.io/compositecontroller-cc"

// verifNewPC builds the controller through the REAL constructor
// (newParentController: strategy map, finalizer manager, customize manager,
// selector, clients, whatever a later change adds) over a SharedInformerFactory
// whose client-go informers are stubs, and then swaps in what a harness has to
// control: the hooks, the work queue, the listers (Snapshot) and the revision
// lister. Nothing else is filled in by hand, so a field added to
// parentController and initialised by the constructor is initialised here too.
func verifNewPC(w *env.World, cfg verifPCConfig) *verifPC {
	dynamicinformer.VerifNewSharedIndexInformer = stub.NewSharedIndexInformer
	dynamicinformer.VerifNewLister = stub.NewLister
	tr := true
	hookURL := "http://hook.ns/sync"
	hookPath := "/sync"
	goodHook := func() *v1alpha1.Hook {
		if cfg.HooksViaService {
			return &v1alpha1.Hook{Webhook: &v1alpha1.Webhook{Path: &hookPath, Service: &v1alpha1.ServiceReference{Name: "hook", Namespace: "ns"}}}
		}
		return &v1alpha1.Hook{Webhook: &v1alpha1.Webhook{URL: &hookURL}}
	}
	cc := &v1alpha1.CompositeController{}
	cc.Name = "cc"
	if cfg.Name != "" {
		cc.Name = cfg.Name
	}
	if cfg.GenerateSelector {
		cc.Spec.GenerateSelector = &tr
	}
	cc.Spec.ParentResource = v1alpha1.CompositeControllerParentResourceRule{
		ResourceRule:  v1alpha1.ResourceRule{APIVersion: cfg.ParentRes.APIVersion, Resource: cfg.ParentRes.Name},
		LabelSelector: cfg.ParentSelector,
	}
	if len(cfg.FieldPaths) > 0 {
		cc.Spec.ParentResource.RevisionHistory = &v1alpha1.CompositeControllerRevisionHistory{FieldPaths: cfg.FieldPaths}
	}
	for _, c := range cfg.Children {
		cc.Spec.ChildResources = append(cc.Spec.ChildResources, v1alpha1.CompositeControllerChildResourceRule{
			ResourceRule:   v1alpha1.ResourceRule{APIVersion: c.Res.APIVersion, Resource: c.Res.Name},
			UpdateStrategy: c.Strategy,
		})
	}
	cc.Spec.Hooks = &v1alpha1.CompositeControllerHooks{Sync: goodHook()}
	if cfg.FinalizeEnabled {
		cc.Spec.Hooks.Finalize = goodHook()
	}
	if cfg.Customize != nil {
		cc.Spec.Hooks.Customize = goodHook()
	}
	if cfg.Sync == nil {
		cfg.Sync = &verifHook{}
	}
	if cfg.Finalize == nil {
		cfg.Finalize = &verifHook{}
	}
	q := &env.Queue{}
	rec := &env.Recorder{}
	ssa := &common.ApplyOptions{Strategy: common.ApplyStrategyDynamicApply}
	if cfg.SSA {
		ssa = &common.ApplyOptions{Strategy: common.ApplyStrategyServerSideApply, FieldManager: "metacontroller"}
		// natively many replayed cases share one process: each starts with an
		// empty server-side-apply memo, as every symbolically executed path does
		common.VerifResetSSAMemo()
	}
	factory := dynamicinformer.NewSharedInformerFactory(w.Dyn, 0)
	pc, err := newParentController(w.RM, w.Dyn, factory, rec, &env.MCClient{S: w.Srv}, &env.RevLister{}, cc, 1, ssa, logr.Discard())
	if err != nil {
		panic(err)
	}
	pc.syncHook, pc.finalizeHook = cfg.Sync, cfg.Finalize
	if cfg.Customize != nil {
		pc.customize.VerifSetHook(cfg.Customize)
	}
	pc.queue = q
	p := &verifPC{parentController: pc, W: w, Queue: q, Recorder: rec, Cfg: cfg}
	if !cfg.KeepConstructorInformers {
		p.Snapshot(nil, nil, nil)
	}
	return p
}

func verifGVR(r *dynamicdiscovery.APIResource) schema.GroupVersionResource {
	gv, _ := schema.ParseGroupVersion(r.APIVersion)
	return gv.WithResource(r.Name)
}

// Snapshot points every informer at the given cache contents (objects are
// shared with the caller: they play the role of the shared informer cache).
func (p *verifPC) Snapshot(parents []*unstructured.Unstructured, children map[string][]*unstructured.Unstructured, revisions []*v1alpha1.ControllerRevision) {
	p.parentInformer = dynamicinformer.VerifNewResourceInformer(env.NewLister(parents...))
	for _, c := range p.Cfg.Children {
		// a list keyed "resource@apiVersion" wins over one keyed by the resource
		// name alone (two served versions of one kind have a cache each)
		list, versioned := children[c.Res.Name+"@"+c.Res.APIVersion]
		if !versioned {
			list = children[c.Res.Name]
		}
		p.childInformers.Set(verifGVR(c.Res), dynamicinformer.VerifNewResourceInformer(env.NewLister(list...)))
	}
	p.revisionLister = &env.RevLister{Items: revisions}
}

// SnapshotFromStore re-lists everything from the server (an up-to-date cache).
func (p *verifPC) SnapshotFromStore() {
	children := map[string][]*unstructured.Unstructured{}
	for _, c := range p.Cfg.Children {
		children[c.Res.Name] = p.W.Srv.All(c.Res.Name)
	}
	p.Snapshot(p.W.Srv.All(p.Cfg.ParentRes.Name), children, p.W.Srv.Revs())
}

// Resnapshot is what a real informer does between two syncs: objects whose
// stored version did not change keep their IDENTITY in the cache (the very same
// in-memory object is handed out again, including anything a sync wrongly
// wrote into it); changed or new ones are replaced by what the server holds.
func (p *verifPC) Resnapshot() {
	if p.cacheRV == nil {
		p.cacheRV = map[*unstructured.Unstructured]string{}
	}
	keep := func(old, cur []*unstructured.Unstructured) []*unstructured.Unstructured {
		out := make([]*unstructured.Unstructured, 0, len(cur))
		for _, c := range cur {
			var same *unstructured.Unstructured
			for _, o := range old {
				if o.GetUID() == c.GetUID() && o.GetNamespace() == c.GetNamespace() && o.GetName() == c.GetName() && p.cacheRV[o] == c.GetResourceVersion() {
					same = o
				}
			}
			if same != nil {
				out = append(out, same)
			} else {
				p.cacheRV[c] = c.GetResourceVersion()
				out = append(out, c)
			}
		}
		return out
	}
	children := map[string][]*unstructured.Unstructured{}
	for _, c := range p.Cfg.Children {
		children[c.Res.Name] = keep(p.cacheChildren[c.Res.Name], p.W.Srv.All(c.Res.Name))
	}
	parents := keep(p.cacheParents, p.W.Srv.All(p.Cfg.ParentRes.Name))
	p.cacheParents, p.cacheChildren = parents, children
	p.Snapshot(parents, children, p.W.Srv.Revs())
}

func verifStrategyOf(method string) *v1alpha1.CompositeControllerChildUpdateStrategy {
	return &v1alpha1.CompositeControllerChildUpdateStrategy{Method: v1alpha1.ChildUpdateMethod(method)}
}

// verifConstHook returns a hook answering with fixed children and status.
func verifConstHook(children []*unstructured.Unstructured, status map[string]interface{}, finalized bool) *verifHook {
	return &verifHook{enabled: true, fn: func(req *v1.CompositeHookRequest) (*v1.CompositeHookResponse, error) {
		return &v1.CompositeHookResponse{Children: children, Status: status, Finalized: finalized}, nil
	}}
}

package composite

// C20 (b)/(c) — hosted composite controllers follow their CompositeController
// objects.
//
// Real code: newParentController, (*parentController).Start / Stop,
// (*Metacontroller).Reconcile / reconcileCompositeController,
// makeUpdateStrategyMap, hooks.NewHook -> NewWebhookExecutor,
// customize.NewCustomizeManager / Start / Stop, finalizer.NewManager,
// common.HasStatusSubresource, the real dynamicinformer.SharedInformerFactory
// (Resource, closeFn, ResourceInformer.Close, sharedEventHandler add/remove),
// the real dynamic Clientset + discovery ResourceMap.
// Stubbed: the client-go shared informer and lister underneath the factory
// (zzverif/informerstub through the test seam), the controller-runtime client
// (harness-owned CompositeController / CRD objects), event recorder, typed
// ControllerRevision client and lister.
// Modelled under the executor only (zzverif/models/models_c20.go):
// cache.WaitForNamedCacheSync, wait.Until, the rate limiting work queue.

import (
	"context"
	"errors"
	"reflect"
	"sync"

	"github.com/go-logr/logr"
	apiextensionsv1 "k8s.io/apiextensions-apiserver/pkg/apis/apiextensions/v1"
	apierrors "k8s.io/apimachinery/pkg/api/errors"
	metav1 "k8s.io/apimachinery/pkg/apis/meta/v1"
	"k8s.io/apimachinery/pkg/runtime"
	"k8s.io/apimachinery/pkg/runtime/schema"
	"k8s.io/apimachinery/pkg/types"
	"sigs.k8s.io/controller-runtime/pkg/client"
	"sigs.k8s.io/controller-runtime/pkg/reconcile"

	"metacontroller/pkg/apis/metacontroller/v1alpha1"
	"metacontroller/pkg/controller/common"
	dynamicinformer "metacontroller/pkg/dynamic/informer"
	"metacontroller/pkg/events"
	"metacontroller/pkg/zzverif/env"
	stub "metacontroller/pkg/zzverif/informerstub"
	rt "metacontroller/pkg/zzverif/rt"
)

// ---------------------------------------------------------------------------
// scaffolding
// ---------------------------------------------------------------------------

func verifC20Install() {
	verifC20Failed = false
	stub.Reset()
	dynamicinformer.VerifNewSharedIndexInformer = stub.NewSharedIndexInformer
	dynamicinformer.VerifNewLister = stub.NewLister
}

// verifC20Assert: rt.Assert that also remembers a failure, so that a harness
// can stop before it draws further inputs (a counterexample records the
// inputs drawn up to the failed assertion only).
var verifC20Failed bool

func verifC20Assert(cond bool, label string) {
	rt.Assert(cond, label)
	if !cond {
		verifC20Failed = true
	}
}

// verifC20Recorder counts events per reason (the Start goroutine records
// concurrently in the native run).
type verifC20Recorder struct {
	mu sync.Mutex
	n  map[string]int
}

func (r *verifC20Recorder) add(reason string) {
	r.mu.Lock()
	defer r.mu.Unlock()
	if r.n == nil {
		r.n = map[string]int{}
	}
	r.n[reason]++
}
func (r *verifC20Recorder) Count(reason string) int {
	r.mu.Lock()
	defer r.mu.Unlock()
	return r.n[reason]
}
func (r *verifC20Recorder) Event(object runtime.Object, eventtype, reason, message string) {
	r.add(reason)
}
func (r *verifC20Recorder) Eventf(object runtime.Object, eventtype, reason, messageFmt string, args ...interface{}) {
	r.add(reason)
}
func (r *verifC20Recorder) AnnotatedEventf(object runtime.Object, annotations map[string]string, eventtype, reason, messageFmt string, args ...interface{}) {
	r.add(reason)
}

type verifC20Res struct{ apiVersion, resource string }

func (r verifC20Res) key() string { return r.resource + "." + r.apiVersion }

var (
	verifC20Things     = verifC20Res{"ex.com/v1", "things"}
	verifC20ConfigMaps = verifC20Res{"v1", "configmaps"}
	verifC20Pods       = verifC20Res{"v1", "pods"}
	verifC20Widgets    = verifC20Res{"apps.ex.com/v1", "widgets"}
	// not in discovery
	verifC20Gadgets = verifC20Res{"ex.com/v1", "gadgets"}
	verifC20Gizmos  = verifC20Res{"v1", "gizmos"}
)

func verifC20GoodHook(path string) *v1alpha1.Hook {
	u := "http://hooks.example.com/" + path
	return &v1alpha1.Hook{Webhook: &v1alpha1.Webhook{URL: &u}}
}

// verifC20BadHook: a webhook with neither url nor service+path.
func verifC20BadHook() *v1alpha1.Hook {
	return &v1alpha1.Hook{Webhook: &v1alpha1.Webhook{}}
}

func verifC20Child(r verifC20Res, method string) v1alpha1.CompositeControllerChildResourceRule {
	c := v1alpha1.CompositeControllerChildResourceRule{ResourceRule: v1alpha1.ResourceRule{APIVersion: r.apiVersion, Resource: r.resource}}
	if method != "" {
		c.UpdateStrategy = &v1alpha1.CompositeControllerChildUpdateStrategy{Method: v1alpha1.ChildUpdateMethod(method)}
	}
	return c
}

// Defects of a CompositeController that must make newParentController fail.
const (
	verifC20DefNone = iota
	verifC20DefUnknownParent
	verifC20DefUnknownChildFirst  // unknown child resource, 1st of two rules (no update strategy)
	verifC20DefUnknownChildSecond // unknown child resource, 2nd of two rules (no update strategy)
	verifC20DefNilHooks
	verifC20DefSyncUnusable
	verifC20DefFinalizeUnusable
	verifC20DefCustomizeUnusable
	verifC20DefBadSelector
	verifC20DefUnknownChildStrategy // unknown child resource with an update strategy (fails in makeUpdateStrategyMap)
	verifC20NumDefects
)

// verifC20Inject applies a defect to an otherwise valid controller and returns
// the child resources the (failing) constructor may have subscribed to.
func verifC20Inject(cc *v1alpha1.CompositeController, defect int) {
	switch defect {
	case verifC20DefUnknownParent:
		cc.Spec.ParentResource.ResourceRule = v1alpha1.ResourceRule{APIVersion: verifC20Gadgets.apiVersion, Resource: verifC20Gadgets.resource}
	case verifC20DefUnknownChildFirst:
		cc.Spec.ChildResources = []v1alpha1.CompositeControllerChildResourceRule{verifC20Child(verifC20Gizmos, ""), verifC20Child(verifC20ConfigMaps, "")}
	case verifC20DefUnknownChildSecond:
		cc.Spec.ChildResources = []v1alpha1.CompositeControllerChildResourceRule{verifC20Child(verifC20ConfigMaps, ""), verifC20Child(verifC20Gizmos, "")}
	case verifC20DefNilHooks:
		cc.Spec.Hooks = nil
	case verifC20DefSyncUnusable:
		cc.Spec.Hooks.Sync = verifC20BadHook()
	case verifC20DefFinalizeUnusable:
		cc.Spec.Hooks.Finalize = verifC20BadHook()
	case verifC20DefCustomizeUnusable:
		cc.Spec.Hooks.Customize = verifC20BadHook()
	case verifC20DefBadSelector:
		cc.Spec.ParentResource.LabelSelector = &metav1.LabelSelector{MatchExpressions: []metav1.LabelSelectorRequirement{{Key: "tier", Operator: metav1.LabelSelectorOpIn}}}
	case verifC20DefUnknownChildStrategy:
		cc.Spec.ChildResources = append(cc.Spec.ChildResources, verifC20Child(verifC20Gizmos, "InPlace"))
	}
}

// verifC20Expected: one subscription for the parent and one per distinct
// child resource.
func verifC20Expected(cc *v1alpha1.CompositeController) map[string]int {
	exp := map[string]int{}
	exp[verifC20Res{cc.Spec.ParentResource.APIVersion, cc.Spec.ParentResource.Resource}.key()]++
	seen := map[string]bool{}
	for _, c := range cc.Spec.ChildResources {
		k := verifC20Res{c.APIVersion, c.Resource}.key()
		if !seen[k] {
			seen[k] = true
			exp[k]++
		}
	}
	return exp
}

func verifC20SameCounts(got, want map[string]int) bool {
	if len(got) != len(want) {
		return false
	}
	for k, v := range want {
		if got[k] != v {
			return false
		}
	}
	return true
}

func verifC20Sum(m map[string]int) int {
	n := 0
	for _, v := range m {
		n += v
	}
	return n
}

// verifC20Stubs waits (natively) until every stub informer created so far was
// handed to `go informer.Run(stopCh)` and returns (live, stopped, consistent):
// consistent = a stub is live iff the factory still holds it.
func verifC20Stubs(f *dynamicinformer.SharedInformerFactory) (live, stopped int, consistent bool) {
	stubs := stub.Stubs()
	stub.Settle(len(stubs))
	consistent = true
	for _, s := range stubs {
		if s.RunCount() != 1 || s.HandlerCount() != 1 {
			consistent = false
		}
		if s.Stopped() {
			stopped++
			if f.VerifHolds(s) {
				consistent = false
			}
		} else {
			live++
			if !f.VerifHolds(s) {
				consistent = false
			}
		}
	}
	return live, stopped, consistent
}

// verifC20Handlers: (subscriptions of pc, handlers registered through them,
// every subscription has exactly `each` handlers).
func verifC20Handlers(pc *parentController, each int) (subs int, handlers int, ok bool) {
	ok = true
	n := pc.parentInformer.VerifHandlers()
	subs, handlers = 1, n
	if n != each {
		ok = false
	}
	for _, ci := range pc.childInformers {
		n := ci.VerifHandlers()
		subs++
		handlers += n
		if n != each {
			ok = false
		}
	}
	return subs, handlers, ok
}

// ---------------------------------------------------------------------------
// (b) constructor failure cleanup
// ---------------------------------------------------------------------------

// VerifC20_ConstructorCleanup — newParentController over the real shared
// informer factory with a symbolically chosen configuration shape and defect.
func VerifC20_ConstructorCleanup() {
	verifC20Install()
	w := env.NewWorld()
	f := dynamicinformer.NewSharedInformerFactory(w.Dyn, 0)

	// ---- all inputs first ----
	defect := rt.Choice("defect", verifC20NumDefects)
	children := rt.Choice("children", 5)
	strategy := rt.Bool("child-update-strategy")
	hasFinalize := rt.Bool("has-finalize-hook")
	hasCustomize := rt.Bool("has-customize-hook")
	hasSelector := rt.Bool("has-label-selector")
	// quick tier: the resync period is exercised by the reconcile harness
	// (configuration 2) only
	hasResync := false
	if rt.Tier() == 1 {
		hasResync = rt.Bool("has-resync-period")
	}
	// another controller already subscribed to things + configmaps
	bystander := rt.Bool("other-subscriber")

	cc := &v1alpha1.CompositeController{}
	cc.Name = "cc"
	cc.Spec.ParentResource.ResourceRule = v1alpha1.ResourceRule{APIVersion: verifC20Things.apiVersion, Resource: verifC20Things.resource}
	method := ""
	if strategy {
		method = "InPlace"
	}
	switch children {
	case 1:
		cc.Spec.ChildResources = append(cc.Spec.ChildResources, verifC20Child(verifC20ConfigMaps, method))
	case 2:
		cc.Spec.ChildResources = append(cc.Spec.ChildResources, verifC20Child(verifC20ConfigMaps, method), verifC20Child(verifC20Pods, ""))
	case 3:
		// a child rule for the parent's own resource
		cc.Spec.ChildResources = append(cc.Spec.ChildResources, verifC20Child(verifC20Things, method), verifC20Child(verifC20ConfigMaps, ""))
	case 4:
		// the same child resource listed twice
		cc.Spec.ChildResources = append(cc.Spec.ChildResources, verifC20Child(verifC20ConfigMaps, method), verifC20Child(verifC20ConfigMaps, ""))
	}
	cc.Spec.Hooks = &v1alpha1.CompositeControllerHooks{Sync: verifC20GoodHook("sync")}
	if hasFinalize {
		cc.Spec.Hooks.Finalize = verifC20GoodHook("finalize")
	}
	if hasCustomize {
		cc.Spec.Hooks.Customize = verifC20GoodHook("customize")
	}
	if hasSelector {
		cc.Spec.ParentResource.LabelSelector = &metav1.LabelSelector{MatchLabels: map[string]string{"app": "x"}}
	}
	if hasResync {
		s := int32(5)
		cc.Spec.ResyncPeriodSeconds = &s
	}
	verifC20Inject(cc, defect)
	// Two rules for one child resource: the controller keeps its child
	// subscriptions in a map keyed by resource, so the second subscription
	// replaces the first, which can never be closed again. Checked under its own
	// labels (the API server does not reject such an object).
	dup := false
	seen := map[string]bool{}
	for _, c := range cc.Spec.ChildResources {
		k := verifC20Res{c.APIVersion, c.Resource}.key()
		if seen[k] {
			dup = true
		}
		seen[k] = true
	}

	base := map[string]int{}
	var by []*dynamicinformer.ResourceInformer
	if bystander {
		for _, r := range []verifC20Res{verifC20Things, verifC20ConfigMaps} {
			ri, err := f.Resource(r.apiVersion, r.resource)
			if err != nil || ri == nil {
				rt.Assert(false, "setup/other-subscriber")
				return
			}
			by = append(by, ri)
			base[r.key()] = 1
		}
	}

	pc, err := newParentController(w.RM, w.Dyn, f, &verifC20Recorder{}, &env.MCClient{S: w.Srv}, &env.RevLister{}, cc, 1,
		&common.ApplyOptions{Strategy: common.ApplyStrategyDynamicApply}, logr.Logger{})

	rt.Observe("error", err != nil)
	rt.Observe("subscriptions", verifC20Sum(f.VerifRefCounts()))
	rt.Observe("running", f.VerifRunning())

	if defect != verifC20DefNone {
		rt.Cover("constructor-fails")
		rt.Assert(err != nil, "defect/no-error")
		rt.Assert(pc == nil, "defect/controller-returned")
		if dup {
			rt.Cover("duplicate-child-rule")
			rt.Assert(verifC20SameCounts(f.VerifRefCounts(), base), "duplicate-child-rule/subscription-left-open-after-failed-construction")
			return
		}
		// everything it opened was closed again: only the other subscriber's
		// subscriptions are left
		rt.Assert(verifC20SameCounts(f.VerifRefCounts(), base), "defect/subscriptions-left-open")
		rt.Assert(f.VerifRunning() == len(base), "defect/shared-informers-left-running")
		live, stopped, consistent := verifC20Stubs(f)
		rt.Assert(live == len(base), "defect/informers-not-stopped")
		rt.Assert(consistent, "defect/informer-stop-state-inconsistent")
		if stopped > 0 {
			rt.Cover("constructor-fails-after-opening-informers")
		}
		if bystander {
			rt.Assert(!by[0].VerifUnderlying().IsStopped(), "defect/other-subscriber-informer-stopped")
			rt.Assert(!by[1].VerifUnderlying().IsStopped(), "defect/other-subscriber-informer-stopped")
		}
		return
	}

	rt.Cover("constructor-succeeds")
	rt.Assert(err == nil, "valid/error")
	rt.Assert(pc != nil, "valid/no-controller")
	if err != nil || pc == nil {
		return
	}
	if dup {
		rt.Cover("duplicate-child-rule")
		pc.Start()
		pc.Stop()
		rt.Assert(verifC20SameCounts(f.VerifRefCounts(), base), "duplicate-child-rule/subscription-left-open-after-stop")
		return
	}
	exp := verifC20Expected(cc)
	total := verifC20Merge(base, exp)
	rt.Assert(verifC20SameCounts(f.VerifRefCounts(), total), "valid/not-one-subscription-per-resource")
	rt.Assert(f.VerifRunning() == len(total), "valid/shared-informer-count")
	live, stopped, consistent := verifC20Stubs(f)
	rt.Assert(live == len(total), "valid/live-informers")
	rt.Assert(stopped == 0, "valid/informer-stopped")
	rt.Assert(consistent, "valid/informer-state-inconsistent")
	subs, handlers, _ := verifC20Handlers(pc, 0)
	rt.Assert(subs == verifC20Sum(exp), "valid/subscription-objects")
	rt.Assert(handlers == 0, "valid/handlers-before-start")
	rt.Assert(pc.cc == cc, "valid/controller-object")
	rt.Assert(pc.customize != nil, "valid/no-customize-manager")
	rt.Assert(pc.syncHook != nil && pc.syncHook.IsEnabled(), "valid/sync-hook-disabled")
	rt.Assert(pc.finalizeHook != nil && pc.finalizeHook.IsEnabled() == hasFinalize, "valid/finalize-hook")
	rt.Assert(pc.customize.IsEnabled() == hasCustomize, "valid/customize-hook")

	// one Start / Stop round: handlers come and go, subscriptions are released
	pc.Start()
	_, handlers, each := verifC20Handlers(pc, 1)
	rt.Assert(each, "start/not-one-handler-per-subscription")
	rt.Assert(handlers == verifC20Sum(exp), "start/handler-count")
	rt.Assert(verifC20SameCounts(f.VerifRefCounts(), total), "start/subscriptions-changed")
	rt.Assert(!stub.Closed(pc.stopCh), "start/stop-channel-closed")
	pc.Stop()
	rt.Cover("start-stop")
	rt.Assert(stub.Closed(pc.stopCh), "stop/stop-channel-open")
	rt.Assert(stub.Closed(pc.doneCh), "stop/done-channel-open")
	_, handlers, _ = verifC20Handlers(pc, 0)
	rt.Assert(handlers == 0, "stop/handlers-left")
	rt.Assert(verifC20SameCounts(f.VerifRefCounts(), base), "stop/subscriptions-left-open")
	live, _, consistent = verifC20Stubs(f)
	rt.Assert(live == len(base), "stop/informers-not-stopped")
	rt.Assert(consistent, "stop/informer-stop-state-inconsistent")
	rt.Observe("subscriptions-after-stop", verifC20Sum(f.VerifRefCounts()))
}

// ---------------------------------------------------------------------------
// (c) reconcile decision logic over event sequences
// ---------------------------------------------------------------------------

// verifC20Client is the controller-runtime client of the Metacontroller: it
// serves harness-owned CompositeControllers and the parent CRD. Every other
// method is promoted from the nil embedded interface (panics if called).
type verifC20Client struct {
	client.Client
	ccs map[string]*v1alpha1.CompositeController
	// crd: 0 = served version has the status subresource, 1 = no subresources,
	// 2 = subresources without status (status only on another version),
	// 3 = the CRD does not exist
	crd     int
	crdGets []string
	// failNext: the next Get of a CompositeController fails with an internal
	// server error (once)
	failNext bool
}

const (
	verifC20CRDStatus = iota
	verifC20CRDNoSubresources
	verifC20CRDOtherVersionOnly
	verifC20CRDMissing
)

func (c *verifC20Client) Get(ctx context.Context, key client.ObjectKey, obj client.Object, opts ...client.GetOption) error {
	switch o := obj.(type) {
	case *v1alpha1.CompositeController:
		if c.failNext {
			c.failNext = false
			return apierrors.NewInternalError(errors.New("injected"))
		}
		cc := c.ccs[key.Name]
		if cc == nil {
			return apierrors.NewNotFound(schema.GroupResource{Group: "metacontroller.k8s.io", Resource: "compositecontrollers"}, key.Name)
		}
		cc.DeepCopyInto(o)
		return nil
	case *apiextensionsv1.CustomResourceDefinition:
		c.crdGets = append(c.crdGets, key.Name)
		if c.crd == verifC20CRDMissing {
			return apierrors.NewNotFound(schema.GroupResource{Group: "apiextensions.k8s.io", Resource: "customresourcedefinitions"}, key.Name)
		}
		o.Name = key.Name
		with := &apiextensionsv1.CustomResourceSubresources{Status: &apiextensionsv1.CustomResourceSubresourceStatus{}}
		switch c.crd {
		case verifC20CRDStatus:
			o.Spec.Versions = []apiextensionsv1.CustomResourceDefinitionVersion{{Name: "v1beta1", Served: true}, {Name: "v1", Served: true, Storage: true, Subresources: with}}
		case verifC20CRDNoSubresources:
			o.Spec.Versions = []apiextensionsv1.CustomResourceDefinitionVersion{{Name: "v1", Served: true, Storage: true}}
		case verifC20CRDOtherVersionOnly:
			// both versions are served; only the one the controller does NOT use has the status subresource
			o.Spec.Versions = []apiextensionsv1.CustomResourceDefinitionVersion{{Name: "v1beta1", Served: true, Subresources: with}, {Name: "v1", Served: true, Storage: true, Subresources: &apiextensionsv1.CustomResourceSubresources{}}}
		}
		return nil
	}
	panic("verifC20Client.Get: unexpected object type")
}

// verifC20Valid builds one of the valid configurations.
//
//	0: things -> configmaps (InPlace), sync hook
//	1: like 0 but configmaps Recreate            (same resources, other spec)
//	2: things -> configmaps (InPlace) + pods, sync/finalize/customize hooks,
//	   label selector, resync period             (added child resource)
//	3: widgets -> pods, sync hook                (disjoint resources)
func verifC20Valid(name string, variant int) *v1alpha1.CompositeController {
	cc := &v1alpha1.CompositeController{}
	cc.Name = name
	cc.Spec.ParentResource.ResourceRule = v1alpha1.ResourceRule{APIVersion: verifC20Things.apiVersion, Resource: verifC20Things.resource}
	cc.Spec.Hooks = &v1alpha1.CompositeControllerHooks{Sync: verifC20GoodHook("sync")}
	switch variant {
	case 0:
		cc.Spec.ChildResources = []v1alpha1.CompositeControllerChildResourceRule{verifC20Child(verifC20ConfigMaps, "InPlace")}
		// an out-of-range resync period (the CRD has no minimum): clamped when used
		z := int32(0)
		cc.Spec.ResyncPeriodSeconds = &z
	case 1:
		cc.Spec.ChildResources = []v1alpha1.CompositeControllerChildResourceRule{verifC20Child(verifC20ConfigMaps, "Recreate")}
	case 2:
		cc.Spec.ChildResources = []v1alpha1.CompositeControllerChildResourceRule{verifC20Child(verifC20ConfigMaps, "InPlace"), verifC20Child(verifC20Pods, "")}
		cc.Spec.Hooks.Finalize = verifC20GoodHook("finalize")
		cc.Spec.Hooks.Customize = verifC20GoodHook("customize")
		cc.Spec.ParentResource.LabelSelector = &metav1.LabelSelector{MatchLabels: map[string]string{"app": "x"}}
		s := int32(5)
		cc.Spec.ResyncPeriodSeconds = &s
	case 3:
		cc.Spec.ParentResource.ResourceRule = v1alpha1.ResourceRule{APIVersion: verifC20Widgets.apiVersion, Resource: verifC20Widgets.resource}
		cc.Spec.ChildResources = []v1alpha1.CompositeControllerChildResourceRule{verifC20Child(verifC20Pods, "")}
		neg := int32(-3)
		cc.Spec.ResyncPeriodSeconds = &neg
	}
	return cc
}

const verifC20NumValid = 4

// Event kinds of the reconcile harness.
const (
	verifC20EvSet      = iota // create / update to one of the valid specs
	verifC20EvNoop            // metadata-only update (or a repeated event); spec untouched
	verifC20EvInvalid         // update to a spec with one of the defects
	verifC20EvDelete          // the object is gone
	verifC20EvCRDBreak        // the parent CRD loses its status subresource (or disappears)
	verifC20EvCRDRepair       // the parent CRD has the status subresource again
	verifC20EvAPIError        // reading the CompositeController fails (not a NotFound); nothing else changes
	verifC20NumEvents
)

// verifC20Ghost is the harness' own account of one controller name.
type verifC20Ghost struct {
	stored  int // -1 absent, 0..3 valid variant, 100+d spec with defect d
	running int // -1 nothing running, else the valid variant
	pc      *parentController
	retired []*parentController
}

func verifC20Merge(ms ...map[string]int) map[string]int {
	out := map[string]int{}
	for _, m := range ms {
		for k, v := range m {
			out[k] += v
		}
	}
	return out
}

// VerifC20_Reconcile — the real Metacontroller.Reconcile driven through a
// symbolic sequence of events over one controller name ("cc"), optionally next
// to a second, undisturbed controller ("other") that shares resources.
func VerifC20_Reconcile() {
	verifC20Install()
	w := env.NewWorld()
	f := dynamicinformer.NewSharedInformerFactory(w.Dyn, 0)
	rec := &verifC20Recorder{}
	cl := &verifC20Client{ccs: map[string]*v1alpha1.CompositeController{}}
	mc := &Metacontroller{
		k8sClient:         cl,
		resources:         w.RM,
		dynClient:         w.Dyn,
		dynInformers:      f,
		eventRecorder:     rec,
		mcClient:          &env.MCClient{S: w.Srv},
		revisionLister:    &env.RevLister{},
		parentControllers: map[string]*parentController{},
		numWorkers:        1,
		ssaOptions:        &common.ApplyOptions{Strategy: common.ApplyStrategyDynamicApply},
	}
	ctx := context.Background()
	req := reconcile.Request{NamespacedName: types.NamespacedName{Name: "cc"}}

	// quick: 3 events over the small alphabet (3 valid specs, 3 defects).
	// thorough: either 4 events over the small alphabet or 3 events over the
	// full one (4 valid specs, every defect, every CRD defect).
	steps := 3
	defects := []int{verifC20DefUnknownChildSecond, verifC20DefNilHooks, verifC20DefCustomizeUnusable}
	valid := 3
	full := false

	// ---- all inputs first ----
	if rt.Tier() == 1 {
		if rt.Bool("four-events") {
			steps = 4
		} else {
			full = true
			valid = verifC20NumValid
			defects = nil
			for d := 1; d < verifC20NumDefects; d++ {
				defects = append(defects, d)
			}
		}
	}
	bystander := rt.Bool("second-controller")
	kinds := make([]int, steps)
	args := make([]int, steps)
	for i := 0; i < steps; i++ {
		kinds[i] = rt.Choice("event", verifC20NumEvents)
		switch kinds[i] {
		case verifC20EvSet:
			args[i] = rt.Choice("spec", valid)
		case verifC20EvInvalid:
			args[i] = defects[rt.Choice("defect", len(defects))]
		case verifC20EvCRDBreak:
			if full {
				args[i] = 1 + rt.Choice("crd-defect", 3)
			} else {
				// no subresources at all / only ANOTHER served version has the status subresource
				args[i] = 1 + rt.Choice("crd-defect", 2)
			}
		}
	}

	// the second controller: started through Reconcile, never touched again
	var other *parentController
	otherExp := map[string]int{}
	starts, stops, createErrors, syncErrors, syncErrorsOptional := 0, 0, 0, 0, 0
	if bystander {
		cl.ccs["other"] = verifC20Valid("other", 0)
		_, err := mc.Reconcile(ctx, reconcile.Request{NamespacedName: types.NamespacedName{Name: "other"}})
		other = mc.parentControllers["other"]
		if err != nil || other == nil {
			rt.Assert(false, "setup/second-controller")
			return
		}
		otherExp = verifC20Expected(cl.ccs["other"])
		starts++
	}
	nOther := len(mc.parentControllers)

	g := &verifC20Ghost{stored: -1, running: -1}
	gen := 0
	for i := 0; i < steps; i++ {
		// ---- the event ----
		switch kinds[i] {
		case verifC20EvSet:
			g.stored = args[i]
			cl.ccs["cc"] = verifC20Valid("cc", args[i])
		case verifC20EvNoop:
			if cc := cl.ccs["cc"]; cc != nil {
				gen++
				cc.Annotations = map[string]string{"touched": string(rune('a' + gen))}
				cc.ResourceVersion = string(rune('0' + gen))
			}
		case verifC20EvInvalid:
			g.stored = 100 + args[i]
			cc := verifC20Valid("cc", 0)
			verifC20Inject(cc, args[i])
			cl.ccs["cc"] = cc
		case verifC20EvDelete:
			g.stored = -1
			delete(cl.ccs, "cc")
		case verifC20EvCRDBreak:
			cl.crd = args[i]
		case verifC20EvCRDRepair:
			cl.crd = verifC20CRDStatus
		case verifC20EvAPIError:
			cl.failNext = true
		}

		// ---- what the property says must happen ----
		before := g.pc
		wantErr := false
		kept := false
		crdEarlyReturn := false
		noopOnRunning := false
		switch {
		case kinds[i] == verifC20EvAPIError:
			rt.Cover("api-error")
			wantErr = true
			kept = true
			syncErrors++
		case g.stored == -1:
			rt.Cover("reconcile-deleted")
			if g.running >= 0 {
				rt.Cover("delete-stops-instance")
				stops++
				g.retired = append(g.retired, g.pc)
			}
			g.running, g.pc = -1, nil
		case cl.crd != verifC20CRDStatus:
			rt.Cover("crd-without-status")
			wantErr = cl.crd == verifC20CRDMissing
			if g.running >= 0 && g.stored == g.running {
				// a no-op update of an instance that already runs from this very
				// spec: nothing has to be done, and nothing has to be looked up -
				// whether the broken CRD is noticed (error / warning event) on this
				// occasion is left open
				noopOnRunning = true
				if !wantErr {
					syncErrorsOptional++
				}
			} else if !wantErr {
				syncErrors++ // the warning event about the missing subresource
			}
			kept = true
			crdEarlyReturn = true
			if g.running >= 0 && g.stored != g.running && !wantErr {
				// nothing can be started for the new spec, but the instance of the
				// replaced spec must not keep running
				rt.Cover("crd-without-status-while-spec-changed")
				stops++
				g.retired = append(g.retired, g.pc)
				g.running, g.pc = -1, nil
				kept = false
			}
		case g.stored == g.running:
			rt.Cover("noop-update")
			kept = true
			noopOnRunning = true
		default:
			if g.running >= 0 {
				rt.Cover("spec-change-restarts")
				stops++
				g.retired = append(g.retired, g.pc)
			}
			g.running, g.pc = -1, nil
			if g.stored < 100 {
				rt.Cover("start")
				starts++
				g.running = g.stored
			} else {
				rt.Cover("invalid-spec")
				createErrors++
				wantErr = true
			}
		}

		crdGets := len(cl.crdGets)
		_, err := mc.Reconcile(ctx, req)

		// ---- checks ----
		rt.Observe("error", err != nil)
		rt.Observe("controllers", len(mc.parentControllers))
		rt.Observe("subscriptions", verifC20Sum(f.VerifRefCounts()))
		if noopOnRunning && wantErr {
			// (see above: noticing the broken CRD on a no-op is optional)
			rt.Cover("noop-while-crd-missing")
		} else {
			rt.Assert((err != nil) == wantErr, "reconcile/error-iff-cannot-start")
		}
		if kinds[i] == verifC20EvAPIError {
			rt.Assert(len(cl.crdGets) == crdGets, "api-error/crd-looked-up")
		} else if g.stored != -1 {
			if noopOnRunning {
				rt.Assert(len(cl.crdGets) <= crdGets+1, "reconcile/crd-looked-up-more-than-once")
			} else {
				rt.Assert(len(cl.crdGets) == crdGets+1, "reconcile/crd-not-looked-up-once")
			}
			wantCRD := "things.ex.com"
			if g.stored == 3 {
				wantCRD = "widgets.apps.ex.com"
			}
			if g.stored == 100+verifC20DefUnknownParent {
				wantCRD = "gadgets.ex.com"
			}
			if len(cl.crdGets) > 0 {
				rt.Assert(cl.crdGets[len(cl.crdGets)-1] == wantCRD, "reconcile/crd-name")
			}
		}

		cur := mc.parentControllers["cc"]
		exp := map[string]int{}
		if g.running >= 0 {
			rt.Assert(len(mc.parentControllers) == nOther+1, "registry/not-exactly-one-instance")
			rt.Assert(cur != nil, "registry/instance-missing")
			if cur == nil {
				return
			}
			want := verifC20Valid("cc", g.running)
			exp = verifC20Expected(want)
			rt.Assert(reflect.DeepEqual(cur.cc.Spec, want.Spec), "registry/instance-has-stale-spec")
			if kept {
				rt.Assert(cur == before, "noop/instance-restarted")
			} else {
				g.pc = cur
				rt.Assert(cur != before, "restart/instance-not-replaced")
				for _, old := range g.retired {
					rt.Assert(cur != old, "restart/stopped-instance-registered-again")
				}
			}
			// (a CRD without status subresource starts nothing new; an instance of a
			// replaced spec was stopped above, so what runs here has the stored spec)
			_ = crdEarlyReturn
			rt.Assert(!stub.Closed(cur.stopCh), "running/stop-channel-closed")
			_, handlers, each := verifC20Handlers(cur, 1)
			rt.Assert(each, "running/not-one-handler-per-subscription")
			rt.Assert(handlers == verifC20Sum(exp), "running/handler-count")
		} else {
			rt.Assert(len(mc.parentControllers) == nOther, "registry/instance-left-registered")
			rt.Assert(cur == nil, "registry/instance-left-registered")
		}

		// subscriptions: exactly the resources of what is running — no leak, no
		// double count
		total := verifC20Merge(otherExp, exp)
		rt.Assert(verifC20SameCounts(f.VerifRefCounts(), total), "subscriptions/not-those-of-the-running-config")
		rt.Assert(f.VerifRunning() == len(total), "subscriptions/shared-informer-count")
		live, _, consistent := verifC20Stubs(f)
		rt.Assert(live == len(total), "informers/live-count")
		rt.Assert(consistent, "informers/stop-state-inconsistent")
		// handlers held by the shared informers = those of the running instances
		for _, r := range []verifC20Res{verifC20Things, verifC20ConfigMaps, verifC20Pods, verifC20Widgets} {
			wr, hs := f.VerifSubscribers(r.apiVersion, r.resource)
			if n := total[r.key()]; n == 0 {
				rt.Assert(wr == -1, "handlers/informer-for-unused-resource")
			} else {
				rt.Assert(wr == n, "handlers/subscriber-count")
				rt.Assert(hs == n, "handlers/handler-count")
			}
		}
		// stopped instances: stop channel closed, goroutine finished, no handler
		// left anywhere
		for _, old := range g.retired {
			rt.Assert(stub.Closed(old.stopCh), "stopped/stop-channel-open")
			rt.Assert(stub.Closed(old.doneCh), "stopped/done-channel-open")
			_, handlers, _ := verifC20Handlers(old, 0)
			rt.Assert(handlers == 0, "stopped/handlers-left")
		}
		// the second controller is never disturbed
		if bystander {
			rt.Assert(mc.parentControllers["other"] == other, "other-controller/replaced")
			rt.Assert(!stub.Closed(other.stopCh), "other-controller/stopped")
			_, handlers, each := verifC20Handlers(other, 1)
			rt.Assert(each, "other-controller/handlers")
			rt.Assert(handlers == verifC20Sum(otherExp), "other-controller/handlers")
		}
		// events: one Started per start, one Stopped per stop, one CreateError
		// per failed construction
		rt.Assert(rec.Count(events.ReasonStarted) == starts, "events/started")
		rt.Assert(rec.Count(events.ReasonStopped) == stops, "events/stopped")
		rt.Assert(rec.Count(events.ReasonCreateError) == createErrors, "events/create-error")
		nse := rec.Count(events.ReasonSyncError)
		rt.Assert(nse >= syncErrors && nse <= syncErrors+syncErrorsOptional, "events/sync-error")
		if verifC20Failed {
			return
		}
	}
	rt.Observe("starts", starts)
	rt.Observe("stops", stops)

	// natively: stop what is still running so that no goroutine outlives the case
	for _, pc := range mc.parentControllers {
		pc.Stop()
	}
	rt.Assert(len(f.VerifRefCounts()) == 0, "teardown/subscriptions-left")
}

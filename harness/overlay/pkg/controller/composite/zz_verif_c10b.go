package composite

// C10 — with several live parent revisions (rollout in progress) the finalizer
// is removed only when ALL revisions' finalize answers say finalized.

import (
	"k8s.io/apimachinery/pkg/apis/meta/v1/unstructured"

	v1 "metacontroller/pkg/controller/composite/api/v1"
	"metacontroller/pkg/zzverif/env"
	rt "metacontroller/pkg/zzverif/rt"
)

func VerifC10_FinalizeAcrossRevisions() {
	namespaced := rt.Bool("namespaced")
	fOld := rt.Bool("old-revision-answers-finalized")
	fNew := rt.Bool("latest-revision-answers-finalized")
	r := verifNewRollWorld(namespaced, verifRollMethod(), []string{"a", "b"}, "1")
	r.finalizeAnswers = map[string]bool{"1": fOld, "2": fNew}
	r.newPC()
	rt.Assert(r.sync() == nil, "first-sync/error")
	rt.Assert(verifHasFinalizer(r.parent(), verifFinalizerName), "first-sync/finalizer-not-added")
	r.markHealthy()
	r.setSpec("2")
	rt.Assert(r.sync() == nil, "rollout-sync/error") // moves one child: two live revisions now
	rt.Assert(len(r.w.Srv.Revs()) == 2, "setup/expected-two-live-revisions")
	// the parent is deleted while the rollout is in progress
	p := r.parent().DeepCopy()
	env.MarkDeleting(p)
	p.SetResourceVersion(p.GetResourceVersion() + "+")
	r.w.Srv.Put(r.parentRes.Name, p)
	r.markHealthy()
	fin := r.pc.Cfg.Finalize
	fin.Calls = nil
	_ = r.sync()
	rt.Assert(len(fin.Calls) == 2, "finalizing/expected-one-finalize-call-per-live-revision")
	for _, c := range fin.Calls {
		rt.Assert(c.Finalizing, "finalizing/flag-not-set")
	}
	// C09: also while finalizing, the rollout intent stays on record - a child
	// carrying the latest content is listed by the latest revision, by one only
	r.consistent("finalizing", "2", true)
	after := r.w.Srv.Peek(r.parentRes.Name, r.ns, "p")
	removed := after == nil || !verifHasFinalizer(after, verifFinalizerName)
	// a revision drained (and deleted) by this very sync no longer counts
	oldStillLive := r.revisionFor("1") != nil
	if fNew && (fOld || !oldStillLive) {
		rt.Cover("all-revisions-finalized")
		rt.Assert(removed, "finalizing/finalizer-kept-although-all-revisions-finalized")
	} else {
		rt.Cover("some-revision-not-finalized")
		rt.Assert(!removed, "finalizing/finalizer-removed-although-a-live-revision-answered-not-finalized")
	}
}

// VerifC10_History: life-cycle histories instead of one-step pre-states. A
// sequence of events - plain sync; the controller's spec gains or loses its
// finalize hook (the controller is restarted with the new spec); the user
// deletes the parent; the hook starts answering finalized - each followed by a
// whole real sync with caches rebuilt. After every sync the finalizer rules of
// the statement are checked against the request log, and a deleted parent whose
// hook said finalized is gone in the end.
func VerifC10_History() {
	w := env.NewWorld()
	parent := env.Thing("ns", "p", "puid")
	// somebody else's finalizer may hold the object as well
	foreign := rt.Bool("foreign-finalizer")
	if foreign {
		verifSetFinalizers(parent, "example.com/other")
	}
	w.Srv.Put("things", parent)
	finOn := rt.Bool("starts-with-finalize-hook")
	finalized := false
	mkPC := func() *verifPC {
		mk := func(on bool) *verifHook {
			return &verifHook{enabled: on, fn: func(req *v1.CompositeHookRequest) (*v1.CompositeHookResponse, error) {
				kids := []*unstructured.Unstructured{env.ConfigMap("ns", "a", "", "v")}
				if req.Finalizing {
					kids = nil // clean-up: nothing is desired any more
				}
				// `finalized` only has a meaning in answers to finalizing requests
				return &v1.CompositeHookResponse{Children: kids, Status: map[string]interface{}{"phase": "ok"}, Finalized: finalized && req.Finalizing}, nil
			}}
		}
		return verifNewPC(w, verifPCConfig{
			ParentRes: env.ThingRes, GenerateSelector: true, FinalizeEnabled: finOn,
			Children: []verifChildRule{{Res: env.ConfigMapRes, Strategy: verifStrategyOf("InPlace")}},
			Sync:     mk(true), Finalize: mk(finOn),
		})
	}
	pc := mkPC()
	steps := 3
	if rt.Tier() == 1 {
		steps = 4
	}
	deleted := false
	for step := 0; step < steps; step++ {
		switch rt.Choice("event", 4) {
		case 0: // nothing but time passes (resync)
		case 1:
			finOn = !finOn
			pc = mkPC()
		case 2:
			if !deleted {
				deleted = true
				if cur := w.Srv.Peek("things", "ns", "p"); cur != nil {
					if len(cur.GetFinalizers()) == 0 {
						w.Srv.Remove("things", "ns", "p")
					} else {
						c := cur.DeepCopy()
						env.MarkDeleting(c)
						c.SetResourceVersion(c.GetResourceVersion() + "+")
						w.Srv.Put("things", c)
					}
				}
			}
		case 3:
			finalized = true
		}
		cur := w.Srv.Peek("things", "ns", "p")
		if cur == nil {
			rt.Cover("history/parent-gone")
			continue
		}
		hadFin := verifHasFinalizer(cur, verifFinalizerName)
		dying := cur.GetDeletionTimestamp() != nil
		pc.SnapshotFromStore()
		w.Srv.ResetLog()
		err := pc.syncParentObject(pc.W.Srv.All("things")[0])
		rt.Assert(err == nil, "history/sync-error")
		added, removedFin, childWrites, childWriteAfterRemoval := false, false, 0, false
		for _, r := range w.Srv.Log {
			if r.IsWrite() && r.Resource == "things" && r.Sub == "" && r.Body != nil && r.Accepted {
				b, a := verifHasFinalizer(r.Pre, verifFinalizerName), verifHasFinalizer(r.Body, verifFinalizerName)
				if !b && a {
					added = true
				}
				if b && !a {
					removedFin = true
				}
				// a finalizer edit touches nobody else's finalizer
				rt.Assert(verifHasFinalizer(r.Body, "example.com/other") == verifHasFinalizer(r.Pre, "example.com/other"), "history/foreign-finalizer-touched")
			}
			if r.IsWrite() && r.Resource == "configmaps" {
				childWrites++
				if removedFin {
					childWriteAfterRemoval = true
				}
			}
		}
		if dying {
			rt.Assert(!added, "history/finalizer-added-to-a-parent-being-deleted")
		}
		if !finOn {
			rt.Assert(!added, "history/finalizer-added-without-finalize-hook")
			if hadFin {
				rt.Cover("history/leftover-removed")
				rt.Assert(removedFin, "history/leftover-finalizer-not-removed")
			}
		} else if !dying {
			rt.Assert(hadFin || added, "history/finalizer-not-added-first")
			rt.Assert(!removedFin, "history/finalizer-removed-from-a-live-matching-parent")
		} else {
			// finalize hook, parent pending deletion
			if hadFin && finalized {
				rt.Cover("history/finalized")
				rt.Assert(removedFin, "history/finalized-but-finalizer-kept")
			} else {
				rt.Assert(!removedFin, "history/finalizer-removed-without-finalized-true")
			}
		}
		if dying && (!finOn || !hadFin) {
			rt.Assert(childWrites == 0, "history/child-written-for-a-dying-parent-without-finalize-duty")
		}
		rt.Assert(!childWriteAfterRemoval || !dying, "history/child-written-after-the-finalizer-was-removed")
	}
	// a deleted parent is gone once nobody holds it any more
	if cur := w.Srv.Peek("things", "ns", "p"); cur != nil && deleted {
		rt.Assert(len(cur.GetFinalizers()) > 0, "history/deleted-parent-without-finalizers-still-stored")
		if !foreign && !verifHasFinalizer(cur, verifFinalizerName) {
			rt.Assert(false, "history/deleted-parent-held-by-nobody")
		}
	}
	rt.Cover("history/done")
}

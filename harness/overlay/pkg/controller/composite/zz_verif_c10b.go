package composite

// C10 — with several live parent revisions (rollout in progress) the finalizer
// is removed only when ALL revisions' finalize answers say finalized.

import (
	"metacontroller/pkg/zzverif/env"
	rt "metacontroller/pkg/zzverif/rt"
)

func VerifC10_FinalizeAcrossRevisions() {
	namespaced := rt.Bool("namespaced")
	fOld := rt.Bool("old-revision-answers-finalized")
	fNew := rt.Bool("latest-revision-answers-finalized")
	r := verifNewRollWorld(namespaced, verifRollMethod(), []string{"a", "b"}, "1")
	r.finalizeAnswers = map[string]bool{"1": fOld, "2": fNew}
	r.newPC()
	rt.Assert(r.sync() == nil, "first-sync/error")
	rt.Assert(verifHasFinalizer(r.parent(), verifFinalizerName), "first-sync/finalizer-not-added")
	r.markHealthy()
	r.setSpec("2")
	rt.Assert(r.sync() == nil, "rollout-sync/error") // moves one child: two live revisions now
	rt.Assert(len(r.w.Srv.Revs()) == 2, "setup/expected-two-live-revisions")
	// the parent is deleted while the rollout is in progress
	p := r.parent().DeepCopy()
	env.MarkDeleting(p)
	p.SetResourceVersion(p.GetResourceVersion() + "+")
	r.w.Srv.Put(r.parentRes.Name, p)
	r.markHealthy()
	fin := r.pc.Cfg.Finalize
	fin.Calls = nil
	_ = r.sync()
	rt.Assert(len(fin.Calls) == 2, "finalizing/expected-one-finalize-call-per-live-revision")
	for _, c := range fin.Calls {
		rt.Assert(c.Finalizing, "finalizing/flag-not-set")
	}
	// C09: also while finalizing, the rollout intent stays on record - a child
	// carrying the latest content is listed by the latest revision, by one only
	r.consistent("finalizing", "2", true)
	after := r.w.Srv.Peek(r.parentRes.Name, r.ns, "p")
	removed := after == nil || !verifHasFinalizer(after, verifFinalizerName)
	// a revision drained (and deleted) by this very sync no longer counts
	oldStillLive := r.revisionFor("1") != nil
	if fNew && (fOld || !oldStillLive) {
		rt.Cover("all-revisions-finalized")
		rt.Assert(removed, "finalizing/finalizer-kept-although-all-revisions-finalized")
	} else {
		rt.Cover("some-revision-not-finalized")
		rt.Assert(!removed, "finalizing/finalizer-removed-although-a-live-revision-answered-not-finalized")
	}
}

package composite

// C12 — failures are retried, benign races tolerated, one bad child blocks
// nothing.  One whole real sync through processNextWorkItem/sync/
// syncParentObject with ONE fault of a symbolic kind injected at a symbolic
// request position, then fault-free syncs until quiescence.

import (
	"metacontroller/pkg/controller/common"
	"time"

	"k8s.io/apimachinery/pkg/apis/meta/v1/unstructured"

	v1 "metacontroller/pkg/controller/composite/api/v1"
	"metacontroller/pkg/hooks"
	"metacontroller/pkg/zzverif/env"
	rt "metacontroller/pkg/zzverif/rt"
)

type verifC12World struct {
	w      *env.World
	pc     *verifPC
	parent *unstructured.Unstructured
}

// verifC12Setup: parent p; cached+live children a (owned, value "old") and b
// (owned, no longer desired); the hook wants a="new" and a brand-new c.
func verifC12Setup(hook *verifHook) *verifC12World { return verifC12SetupWith(hook, false) }

func verifC12SetupWith(hook *verifHook, ssa bool) *verifC12World {
	w := env.NewWorld()
	parent := env.Thing("ns", "p", "puid")
	w.Srv.Put("things", parent)
	a := verifAppliedChild(env.ConfigMap("ns", "a", "", "old"), parent, "uid-a")
	env.SetLabel(a, "controller-uid", "puid")
	b := verifAppliedChild(env.ConfigMap("ns", "b", "", "x"), parent, "uid-b")
	env.SetLabel(b, "controller-uid", "puid")
	w.Srv.Put("configmaps", a)
	w.Srv.Put("configmaps", b)
	if hook == nil {
		hook = verifConstHook([]*unstructured.Unstructured{env.ConfigMap("ns", "a", "", "new"), env.ConfigMap("ns", "c", "", "new")}, map[string]interface{}{"phase": "ok"}, false)
	}
	pc := verifNewPC(w, verifPCConfig{
		ParentRes: env.ThingRes, GenerateSelector: true, SSA: ssa,
		Children: []verifChildRule{{Res: env.ConfigMapRes, Strategy: verifStrategyOf("InPlace")}},
		Sync:     hook,
	})
	pc.Resnapshot()
	return &verifC12World{w: w, pc: pc, parent: parent}
}

func verifC12Converged(w *env.World, label string) {
	a := w.Srv.Peek("configmaps", "ns", "a")
	rt.Assert(a != nil, label+"/a-missing")
	if a != nil {
		d, _ := a.Object["data"].(map[string]interface{})
		rt.Assert(d["k"] == "new", label+"/a-not-updated")
	}
	rt.Assert(w.Srv.Peek("configmaps", "ns", "b") == nil, label+"/b-not-deleted")
	c := w.Srv.Peek("configmaps", "ns", "c")
	rt.Assert(c != nil, label+"/c-not-created")
	if c != nil {
		cu, has := verifControllerUID(c)
		rt.Assert(has && cu == "puid", label+"/c-not-owned")
	}
	p := w.Srv.Peek("things", "ns", "p")
	rt.Assert(p != nil, label+"/parent-missing")
	if p != nil {
		st, _ := p.Object["status"].(map[string]interface{})
		rt.Assert(st["phase"] == "ok", label+"/status-not-written")
	}
}

func VerifC12_SyncFaults() {
	s := verifC12Setup(nil)
	w := s.w
	// fault-free request sequence (counting every request incl. gets):
	// delete b, update a, create c (order of a/c depends on map order), get p, update-status p
	const nreq = 5
	pos := rt.Choice("fault-at", nreq)
	kind := 1 + rt.Choice("fault-kind", env.NumFaultKinds-2) // every kind except none and crash
	w.Srv.FaultCountsGets = true
	w.Srv.FaultAt, w.Srv.FaultKind = pos, kind

	fp := verifFingerprint(verifListerItems(s.pc), nil)
	s.pc.Queue.Items = append(s.pc.Queue.Items, "ns/p")
	more := s.pc.processNextWorkItem()
	rt.Assert(more, "worker-stops-after-a-sync")
	fp.AssertUnchanged("C17/cache-object-mutated-by-failing-sync")

	// which request was hit?
	var hit *env.Req
	for i := range w.Srv.Log {
		if w.Srv.Log[i].Seq == pos {
			hit = &w.Srv.Log[i]
		}
	}
	rt.Assert(hit != nil, "fault-position-not-reached")
	if hit == nil {
		return
	}
	benign := false
	switch {
	case hit.Verb == "delete":
		benign = kind == env.FaultNotFound
	case hit.Verb == "update" && hit.Resource == "configmaps":
		benign = kind == env.FaultNotFound || kind == env.FaultConflict
	case hit.Verb == "create":
		benign = kind == env.FaultAlreadyExists
	case hit.Resource == "things" && hit.Verb == "get":
		// the status read-modify-write: gone parent is tolerated, a conflict is retried
		benign = kind == env.FaultNotFound || kind == env.FaultConflict
	case hit.Resource == "things" && hit.Verb == "update":
		// conflicts are retried by the read-modify-write loop and tolerated after that
		benign = kind == env.FaultNotFound || kind == env.FaultConflict
	}
	requeued := s.pc.Queue.Count("add-rate-limited")
	forgot := s.pc.Queue.Count("forget")
	// (which child write sits at a given position depends on map iteration order:
	// nothing order-dependent is observed for the engine/native cross-check)
	rt.Observe("requeued+forgot", requeued+forgot)
	// whether position 1/2 is the update of a or the create of c depends on Go's
	// map iteration order: cover markers (compared between executor and native
	// run) are only set where the request at the position does not depend on it
	orderDependent := hit.Resource == "configmaps" && hit.Verb != "delete"
	if benign {
		if !orderDependent {
			rt.Cover("benign-fault-tolerated")
		}
		rt.Assert(requeued == 0, "benign/"+hit.Verb+"-"+hit.Resource+"/reported-as-error")
		rt.Assert(forgot == 1, "benign/not-forgotten")
	} else {
		if !orderDependent {
			rt.Cover("fault-requeued")
		}
		rt.Assert(requeued == 1, "non-benign/"+hit.Verb+"-"+hit.Resource+"/not-requeued-with-backoff")
		rt.Assert(forgot == 0, "non-benign/forgotten")
	}
	// one bad child blocks nothing: all three child writes and the status write are still attempted
	nChild, nStatus := 0, 0
	for _, r := range w.Srv.Log {
		if r.IsWrite() && r.Resource == "configmaps" {
			nChild++
		}
		if r.Verb == "update" && r.Resource == "things" && r.Sub == "status" {
			nStatus++
		}
	}
	rt.Assert(nChild == 3, "one-failure-stopped-other-children")
	statusReadFailed := hit.Resource == "things" && hit.Verb == "get" && kind != env.FaultConflict
	if !statusReadFailed {
		rt.Assert(nStatus >= 1, "status-write-skipped-after-child-failure")
	}

	// once faults stop the cluster converges to the fault-free state
	w.Srv.FaultKind = env.FaultNone
	for i := 0; i < 3; i++ {
		s.pc.Resnapshot() // unchanged objects keep their identity, as in a real informer cache
		s.pc.Queue.Items = append(s.pc.Queue.Items, "ns/p")
		s.pc.processNextWorkItem()
	}
	verifC12Converged(w, "after-fault")
	// and is quiet
	w.Srv.ResetLog()
	s.pc.SnapshotFromStore()
	s.pc.Queue.Items = append(s.pc.Queue.Items, "ns/p")
	s.pc.processNextWorkItem()
	rt.Assert(len(w.Srv.Writes()) == 0, "after-fault/not-quiescent")
}

// VerifC12_FaultFree is the reference run (also a vacuity guard for the scenario).
func VerifC12_FaultFree() {
	s := verifC12Setup(nil)
	s.pc.Queue.Items = append(s.pc.Queue.Items, "ns/p")
	s.pc.processNextWorkItem()
	rt.Assert(len(s.w.Srv.Log) == 5, "fault-free/request-count")
	rt.Assert(s.pc.Queue.Count("forget") == 1 && s.pc.Queue.Count("add-rate-limited") == 0, "fault-free/queue")
	verifC12Converged(s.w, "fault-free")
	rt.Cover("fault-free-converged")
}

// VerifC12_HookErrors: hook failures — 429 with a symbolic Retry-After delay
// requeues after that delay without counting as an error; any other hook error
// requeues with back-off; nothing is written on the strength of a failed hook.
func VerifC12_HookErrors() {
	after := rt.Int64("retry-after")
	rt.Assume(after >= 0 && after < 100000)
	tooMany := rt.Bool("429")
	// the failing hook is the sync hook of a live parent, or the finalize hook
	// of a parent that is being deleted
	finalizing := rt.Bool("answer-comes-from-the-finalize-hook")
	hook := &verifHook{enabled: true, fn: func(req *v1.CompositeHookRequest) (*v1.CompositeHookResponse, error) {
		if tooMany {
			return nil, &hooks.TooManyRequestError{AfterSecond: int(after)}
		}
		return nil, hooksError{}
	}}
	s := verifC12Setup(hook)
	if finalizing {
		rt.Cover("finalize-hook")
		s.pc.finalizeHook = hook
		s.pc.finalizer.Enabled = true
		p := s.w.Srv.Peek("things", "ns", "p").DeepCopy()
		verifSetFinalizers(p, verifFinalizerName)
		env.MarkDeleting(p)
		s.w.Srv.Put("things", p)
		s.pc.SnapshotFromStore()
	}
	s.pc.Queue.Items = append(s.pc.Queue.Items, "ns/p")
	s.pc.processNextWorkItem()
	rt.Assert(len(verifChildWrites(s.w.Srv.Log, "things")) == 0, "hook-error/child-written")
	if tooMany {
		rt.Cover("429")
		rt.Assert(s.pc.Queue.Count("add-rate-limited") == 0, "429/counted-as-error")
		rt.Assert(s.pc.Queue.Count("add-after") == 1, "429/not-requeued-after-delay")
		for _, op := range s.pc.Queue.Ops {
			if op.Op == "add-after" {
				rt.Assert(op.Key == "ns/p", "429/wrong-key")
				rt.Assert(op.Delay == time.Duration(after)*time.Second, "429/wrong-delay")
			}
		}
	} else {
		rt.Cover("hook-5xx")
		rt.Assert(s.pc.Queue.Count("add-rate-limited") == 1, "hook-error/not-requeued-with-backoff")
	}
}

type hooksError struct{}

func (hooksError) Error() string { return "connection refused" }

// VerifC12_TwoFaults (thorough): two faults of symbolic kinds at two symbolic
// positions of one sync, then fault-free syncs: no panic, the work item is
// requeued or forgotten (never dropped), and the cluster converges to the
// fault-free state and goes quiet.
func VerifC12_TwoFaults() {
	s := verifC12Setup(nil)
	w := s.w
	const nreq = 5
	p1 := rt.Choice("fault1-at", nreq)
	p2 := rt.Choice("fault2-at", nreq)
	rt.Assume(p1 < p2)
	k1 := 1 + rt.Choice("fault1-kind", env.NumFaultKinds-2)
	k2 := 1 + rt.Choice("fault2-kind", env.NumFaultKinds-2)
	w.Srv.ArmFault(p1, k1, "", true)
	w.Srv.FaultAt2, w.Srv.FaultKind2 = p2, k2
	s.pc.Queue.Items = append(s.pc.Queue.Items, "ns/p")
	more := s.pc.processNextWorkItem()
	rt.Assert(more, "two-faults/worker-stops")
	rt.Assert(s.pc.Queue.Count("add-rate-limited")+s.pc.Queue.Count("forget") == 1, "two-faults/work-item-neither-requeued-nor-forgotten")
	w.Srv.DisarmFault()
	for i := 0; i < 3; i++ {
		s.pc.Resnapshot() // unchanged objects keep their identity, as in a real informer cache
		s.pc.Queue.Items = append(s.pc.Queue.Items, "ns/p")
		s.pc.processNextWorkItem()
	}
	verifC12Converged(w, "after-two-faults")
	w.Srv.ResetLog()
	s.pc.SnapshotFromStore()
	s.pc.Queue.Items = append(s.pc.Queue.Items, "ns/p")
	s.pc.processNextWorkItem()
	rt.Assert(len(w.Srv.Writes()) == 0, "after-two-faults/not-quiescent")
	rt.Cover("two-faults")
}

type verifC12HookDown struct{}

func (verifC12HookDown) Error() string { return "hook unavailable" }

// VerifC12_RollingHookFault: during a rollout the sync hook is asked once per
// live revision (in parallel). A failed call for ANY of them - the latest
// parent or an older revision - fails the sync (so that it is retried) before
// any ControllerRevision or child is written and without a panic; once the hook
// answers again the rollout completes exactly as in a fault-free run.
func VerifC12_RollingHookFault() {
	namespaced := rt.Bool("namespaced")
	r := verifNewRollWorld(namespaced, verifRollMethod(), []string{"a", "b"}, "1")
	rt.Assert(r.sync() == nil, "rolling-fault/first-sync-error")
	r.markHealthy()
	r.setSpec("2")
	failFor := rt.Choice("hook-fails-for", 3) // 0 nobody, 1 the old revision's parent, 2 the latest parent
	down := true
	inner := r.pc.Cfg.Sync.fn
	r.pc.Cfg.Sync.fn = func(req *v1.CompositeHookRequest) (*v1.CompositeHookResponse, error) {
		x, _, _ := unstructured.NestedString(req.Parent.Object, "spec", "x")
		if down && ((failFor == 1 && x == "1") || (failFor == 2 && x == "2")) {
			return nil, verifC12HookDown{}
		}
		return inner(req)
	}
	r.w.Srv.ResetLog()
	err := r.sync()
	if failFor != 0 {
		rt.Cover("rolling-fault/hook-failed")
		rt.Assert(err != nil, "rolling-fault/hook-error-swallowed")
		for _, q := range r.w.Srv.Log {
			if verifIsRevWrite(q) {
				rt.Assert(false, "rolling-fault/revision-written-although-a-hook-call-failed")
			}
			if r.isChildWrite(q) {
				rt.Assert(false, "rolling-fault/child-written-although-a-hook-call-failed")
			}
		}
	} else {
		rt.Assert(err == nil, "rolling-fault/fault-free-sync-error")
	}
	// the hook recovers: the rollout completes as if nothing had happened
	down = false
	for i := 0; i < 5; i++ {
		r.markHealthy()
		rt.Assert(r.sync() == nil, "rolling-fault/sync-error-after-recovery")
	}
	for _, n := range r.names {
		v, ok := r.childValue(n)
		rt.Assert(ok && v == "2", "rolling-fault/rollout-did-not-complete-after-recovery")
	}
	rt.Assert(len(r.w.Srv.Revs()) == 1, "rolling-fault/old-revision-not-pruned-after-recovery")
	rt.Cover("rolling-fault/completed")
}

// VerifC12_UnmergeableChild: one observed child cannot be merged with its
// desired state (its last-applied record is not valid JSON, or the hook sends a
// list where the child holds an object): that failure is reported, and the
// siblings of the same kind are reconciled all the same - wherever the bad
// child sits in the iteration order.
func VerifC12_UnmergeableChild() {
	w := env.NewWorld()
	parent := env.Thing("ns", "p", "puid")
	w.Srv.Put("things", parent)
	val := rt.String("desired-value")
	bad := verifAppliedChild(env.ConfigMap("ns", "a", "", "old"), parent, "uid-a")
	env.SetLabel(bad, "controller-uid", "puid")
	clash := rt.Bool("type-clash-instead-of-broken-record")
	if !clash {
		env.SetAnnotation(bad, verifLastApplied, "{not json")
	}
	sib := verifAppliedChild(env.ConfigMap("ns", "b", "", "old"), parent, "uid-b")
	env.SetLabel(sib, "controller-uid", "puid")
	w.Srv.Put("configmaps", bad)
	w.Srv.Put("configmaps", sib)
	desA := env.ConfigMap("ns", "a", "", val)
	if clash {
		desA.Object["data"] = []interface{}{"a list where the child has an object"}
	}
	// the bad child first, in the middle or last in the hook's answer
	kids := []*unstructured.Unstructured{desA, env.ConfigMap("ns", "b", "", val), env.ConfigMap("ns", "c", "", val)}
	switch rt.Choice("position-of-the-bad-child", 3) {
	case 1:
		kids[0], kids[1] = kids[1], kids[0]
	case 2:
		kids[0], kids[2] = kids[2], kids[0]
	}
	if rt.Bool("maps-reversed") {
		rt.ReverseMaps(true)
	}
	pc := verifNewPC(w, verifPCConfig{
		ParentRes: env.ThingRes, GenerateSelector: true,
		Children: []verifChildRule{{Res: env.ConfigMapRes, Strategy: verifStrategyOf("InPlace")}},
		Sync:     verifConstHook(kids, map[string]interface{}{"phase": "ok"}, false),
	})
	pc.SnapshotFromStore()
	err := pc.syncParentObject(pc.W.Srv.All("things")[0])
	rt.Assert(err != nil, "unmergeable/failure-not-reported")
	b := w.Srv.Peek("configmaps", "ns", "b")
	rt.Assert(b != nil, "unmergeable/sibling-vanished")
	if b != nil {
		d, _ := b.Object["data"].(map[string]interface{})
		rt.Assert(d["k"] == val, "unmergeable/sibling-not-updated-because-another-child-failed")
	}
	rt.Assert(w.Srv.Peek("configmaps", "ns", "c") != nil, "unmergeable/sibling-not-created-because-another-child-failed")
	a := w.Srv.Peek("configmaps", "ns", "a")
	rt.Assert(a != nil && a.GetResourceVersion() == "7", "unmergeable/bad-child-written")
	p := w.Srv.Peek("things", "ns", "p")
	st, _ := p.Object["status"].(map[string]interface{})
	rt.Assert(st["phase"] == "ok", "unmergeable/status-not-written-although-children-were-reconciled")
	rt.Cover("unmergeable/done")
}

// VerifC12_SSAFault: the scenario of VerifC12_SyncFaults with the
// server-side-apply strategy (its own code path in updateChildren: JSON patch
// that drops the old last-applied record, apply patch, the package-wide
// "last update" memo and its lock). One write to a child fails with an error
// that is not a benign race; the sync has to come back (no lock left held),
// report the error, still attempt the other children and the status, and the
// next syncs converge and go quiet.
func VerifC12_SSAFault() {
	common.VerifResetSSAMemo()
	s := verifC12SetupWith(nil, true)
	w := s.w
	// child writes of the fault-free run: delete b; for a: JSON patch + apply; for c: apply
	pos := rt.Choice("fault-at", 4)
	kind := env.FaultInternal
	if rt.Bool("timeout-instead-of-500") {
		kind = env.FaultTimeout
	}
	w.Srv.ArmFault(pos, kind, "configmaps", false)

	fp := verifFingerprint(verifListerItems(s.pc), nil)
	s.pc.Queue.Items = append(s.pc.Queue.Items, "ns/p")
	more := s.pc.processNextWorkItem()
	rt.Assert(more, "ssa/worker-stops-after-a-sync")
	fp.AssertUnchanged("C17/cache-object-mutated-by-failing-sync")

	var hit *env.Req
	touched := map[string]bool{}
	nStatus := 0
	for i := range w.Srv.Log {
		r := &w.Srv.Log[i]
		if r.IsWrite() && r.Resource == "configmaps" {
			touched[r.Name] = true
			if r.Err != nil && hit == nil {
				hit = r
			}
		}
		if r.Verb == "update" && r.Resource == "things" && r.Sub == "status" {
			nStatus++
		}
	}
	rt.Assert(hit != nil, "ssa/fault-position-not-reached")
	if hit == nil {
		return
	}
	rt.Cover("ssa/fault-hit")
	rt.Assert(s.pc.Queue.Count("add-rate-limited") == 1, "ssa/failure-not-requeued-with-backoff")
	rt.Assert(s.pc.Queue.Count("forget") == 0, "ssa/failure-forgotten")
	rt.Assert(touched["a"] && touched["b"] && touched["c"], "ssa/one-failure-stopped-other-children")
	rt.Assert(nStatus >= 1, "ssa/status-write-skipped-after-child-failure")

	// once faults stop the cluster converges to the fault-free state
	w.Srv.DisarmFault()
	for i := 0; i < 3; i++ {
		s.pc.Resnapshot()
		s.pc.Queue.Items = append(s.pc.Queue.Items, "ns/p")
		s.pc.processNextWorkItem()
	}
	verifC12Converged(w, "ssa/after-fault")
	w.Srv.ResetLog()
	s.pc.SnapshotFromStore()
	s.pc.Queue.Items = append(s.pc.Queue.Items, "ns/p")
	s.pc.processNextWorkItem()
	rt.Assert(len(w.Srv.Writes()) == 0, "ssa/after-fault/not-quiescent")
}

// VerifC12_FinalizeFaults: the fault scenario for a parent that is being
// finalized and whose finalize hook answers finalized:true (its children are
// gone already, as the hook contract demands): the sync removes the finalizer
// with a read-modify-write of its own and writes the status - every one of
// those requests (reads included) can fail. Whatever fails: no panic, the work
// item is requeued or forgotten, a failure that is not a benign race is
// requeued with back-off, and once faults stop the finalizer goes away.
func VerifC12_FinalizeFaults() {
	hook := verifConstHook(nil, map[string]interface{}{"phase": "done"}, true)
	s := verifC12Setup(hook)
	w := s.w
	s.pc.finalizeHook = hook
	s.pc.finalizer.Enabled = true
	w.Srv.Remove("configmaps", "ns", "a")
	w.Srv.Remove("configmaps", "ns", "b")
	p := w.Srv.Peek("things", "ns", "p").DeepCopy()
	verifSetFinalizers(p, verifFinalizerName)
	env.MarkDeleting(p)
	p.SetResourceVersion("8")
	w.Srv.Put("things", p)
	s.pc.SnapshotFromStore()

	// fault-free: get p, update p (finalizer removal), get p, update-status p
	const nreq = 4
	pos := rt.Choice("fault-at", nreq)
	kind := 1 + rt.Choice("fault-kind", env.NumFaultKinds-2) // every kind except none and crash
	w.Srv.ArmFault(pos, kind, "", true)

	s.pc.Queue.Items = append(s.pc.Queue.Items, "ns/p")
	more := s.pc.processNextWorkItem()
	rt.Assert(more, "finalize-faults/worker-stops-after-a-sync")
	var hit *env.Req
	for i := range w.Srv.Log {
		if w.Srv.Log[i].Seq == pos {
			hit = &w.Srv.Log[i]
		}
	}
	if hit == nil {
		// (once the finalizer is gone the simulated server lets the parent go: fewer requests)
		rt.Cover("finalize-faults/position-not-reached")
		return
	}
	rt.Cover("finalize-faults/fault-hit")
	requeued := s.pc.Queue.Count("add-rate-limited")
	forgot := s.pc.Queue.Count("forget")
	rt.Assert(requeued+forgot == 1, "finalize-faults/work-item-neither-requeued-nor-forgotten")
	if kind != env.FaultNotFound && kind != env.FaultConflict && kind != env.FaultGone {
		// (object gone and optimistic-lock conflicts are the documented benign races)
		rt.Assert(requeued == 1, "finalize-faults/"+hit.Verb+"-"+hit.Resource+"/failure-not-requeued-with-backoff")
	}
	// once faults stop the finalization completes
	w.Srv.DisarmFault()
	for i := 0; i < 3; i++ {
		s.pc.Resnapshot()
		s.pc.Queue.Items = append(s.pc.Queue.Items, "ns/p")
		s.pc.processNextWorkItem()
	}
	cur := w.Srv.Peek("things", "ns", "p")
	if cur != nil {
		rt.Assert(!verifHasFinalizer(cur, verifFinalizerName), "finalize-faults/finalizer-still-there-after-faults-stopped")
	}
}

package composite

// C07 — rolling updates move one child per sync, in hook order, gated on the
// health of the children already on the latest revision.
//
// Real code: (*parentController).syncRollingUpdate, shouldContinueRolling,
// syncRevisionClaims, childStatusCheck, parentRevision.addChild/removeChild,
// updateStrategyMap (built by the real makeUpdateStrategyMap), ApplyUpdate /
// Merge / DeepEqual, RelativeObjectMap, UniformObjectMap, SetCondition,
// makePatch / applyPatch.
//
// The oracle is written from the property statement over the symbolic inputs
// (who claims which child, observed or not, applied value vs. desired value,
// generation / observedGeneration, condition strings); it never calls the code
// under test.

import (
	"strings"

	"k8s.io/apimachinery/pkg/apis/meta/v1/unstructured"
	"k8s.io/apimachinery/pkg/types"
	k8sjson "k8s.io/apimachinery/pkg/util/json"

	"metacontroller/pkg/apis/metacontroller/v1alpha1"
	commonv1 "metacontroller/pkg/controller/common/api/v1"
	commonv2 "metacontroller/pkg/controller/common/api/v2"
	v1 "metacontroller/pkg/controller/composite/api/v1"
	dynamicdiscovery "metacontroller/pkg/dynamic/discovery"
	dynamicobject "metacontroller/pkg/dynamic/object"
	"metacontroller/pkg/zzverif/env"
	rt "metacontroller/pkg/zzverif/rt"
)

// ---------------------------------------------------------------- fixtures

const (
	verifScopeNS        = 0 // namespaced parent, children in its namespace
	verifScopeCluster   = 1 // cluster-scoped parent, cluster-scoped children
	verifScopeClusterNS = 2 // cluster-scoped parent, namespaced children

	verifDesVal = "v2" // the field value the latest revision wants
	verifOldVal = "v1" // the field value the old revisions want

	verifRollingInPlace  = "RollingInPlace"
	verifRollingRecreate = "RollingRecreate"
)

var verifScopeTag = []string{"namespaced", "cluster", "cluster-ns-children"}

// who claims a child before the call
const (
	verifClaimLatest = 0
	verifClaimOld    = 1 // first old revision
	verifClaimNone   = 2
	verifClaimOld2   = 3 // second old revision (three live revisions)
)

type verifRollKind struct {
	res               *dynamicdiscovery.APIResource
	apiVersion, group string
	kind, ns          string
}

func verifRollKindOf(scope int, named bool) verifRollKind {
	if scope == verifScopeCluster {
		return verifRollKind{env.NamespaceRes, "v1", "", "Namespace", ""}
	}
	if named {
		return verifRollKind{env.WidgetRes, "apps.ex.com/v1", "apps.ex.com", "Widget", "ns"}
	}
	return verifRollKind{env.ConfigMapRes, "v1", "", "ConfigMap", "ns"}
}

func verifRollParent(scope int) (*unstructured.Unstructured, *dynamicdiscovery.APIResource) {
	if scope == verifScopeNS {
		return env.Thing("ns", "p", "puid"), env.ThingRes
	}
	o := env.Obj("ex.com/v1", "ClusterThing", "", "p", "puid")
	o.Object["spec"] = map[string]interface{}{"x": "1"}
	return o, env.ClusterThingRes
}

// verifC07Bool is rt.Bool made concrete by branching.
func verifC07Bool(tag string) bool {
	if rt.Bool(tag) {
		return true
	}
	return false
}

// verifC07Catch runs f and reports whether it panicked.
func verifC07Catch(f func()) (panicked bool) {
	defer func() {
		if r := recover(); r != nil {
			panicked = true
		}
	}()
	f()
	return false
}

// verifRollObj is a child as a hook returns it.
func verifRollObj(k verifRollKind, name, val string) *unstructured.Unstructured {
	o := env.Obj(k.apiVersion, k.kind, k.ns, name, "")
	o.Object["spec"] = map[string]interface{}{"k": val}
	return o
}

// verifRollRel is the name under which a child is recorded in a
// ControllerRevision: relative to the parent (RelativeObjectMap doc comment:
// namespace/name only for a namespaced child of a cluster-scoped parent).
func verifRollRel(parent *unstructured.Unstructured, k verifRollKind, name string) string {
	if parent.GetNamespace() == "" && k.ns != "" {
		return k.ns + "/" + name
	}
	return name
}

// verifRollObserved is the observed form of a child previously created from
// `applied` by the parent: the applied fields, the last-applied record, a
// controller reference, server-populated metadata.
func verifRollObserved(applied, parent *unstructured.Unstructured, uid string, generation interface{}) *unstructured.Unstructured {
	o := applied.DeepCopy()
	delete(o.Object, "status")
	md := o.Object["metadata"].(map[string]interface{})
	md["uid"] = uid
	md["resourceVersion"] = "7"
	md["generation"] = generation
	md["creationTimestamp"] = "2023-01-01T00:00:00Z"
	b, _ := k8sjson.Marshal(applied.Object)
	env.SetAnnotation(o, "metacontroller.k8s.io/last-applied-configuration", string(b))
	env.AddOwnerRef(o, env.OwnerRefMap(parent.GetAPIVersion(), parent.GetKind(), parent.GetName(), string(parent.GetUID()), true))
	return o
}

func verifRollRevision(name string, parent *unstructured.Unstructured) *v1alpha1.ControllerRevision {
	cr := &v1alpha1.ControllerRevision{}
	cr.APIVersion = "metacontroller.k8s.io/v1alpha1"
	cr.Kind = "ControllerRevision"
	cr.Name = name
	cr.Namespace = parent.GetNamespace()
	cr.UID = types.UID("uid-" + name)
	cr.ResourceVersion = "3"
	return cr
}

// verifRollClaim records a claim in a revision (harness-side, not addChild).
func verifRollClaim(cr *v1alpha1.ControllerRevision, group, kind, name string) {
	for i := range cr.Children {
		if cr.Children[i].APIGroup == group && cr.Children[i].Kind == kind {
			cr.Children[i].Names = append(cr.Children[i].Names, name)
			return
		}
	}
	cr.Children = append(cr.Children, v1alpha1.ControllerRevisionChildren{APIGroup: group, Kind: kind, Names: []string{name}})
}

// verifRollClaimCount counts how often a revision lists the child.
func verifRollClaimCount(cr *v1alpha1.ControllerRevision, group, kind, name string) int {
	n := 0
	for _, ck := range cr.Children {
		if ck.APIGroup == group && ck.Kind == kind {
			for _, x := range ck.Names {
				if x == name {
					n++
				}
			}
		}
	}
	return n
}

// ---------------------------------------------------------------- state

type verifRollChild struct {
	name, rel string
	claim     int
	observed  bool
	obsVal    string // the value the observed child was last applied with
	isInt     bool   // generation fields present
	gen, og   int64
	hasOG     bool
	hasCond   bool
	ctype     string
	cstatus   string
	creason   string
}

type verifRollOpts struct {
	scope    int
	named    bool
	method   string
	chk      int // 0 none, 1 type, 2 type+status, 3 type+reason, 4 type+status+reason
	n        int // rolling children
	nOld     int // old revisions (1 or 2)
	reversed bool
	// progress: only states of the C08 progress lemma are generated (every child
	// with the latest revision is observed, up to date and healthy; some child
	// is still with an old revision and needs a real change).
	progress bool
	status   map[string]interface{}
	// twoVersions: the child kind may be configured at a second API version too
	// (claimChildren creates a group per configured version; the children live in
	// one of them, the other group is empty and may come first or second)
	twoVersions bool
}

type verifRoll struct {
	o         verifRollOpts
	tag       string
	pc        *verifPC
	parent    *unstructured.Unstructured
	k         verifRollKind
	chkStatus *string
	chkReason *string
	c         []*verifRollChild
	hook      []int // hook order of the latest revision: indexes into c
	revs      []*parentRevision
	obs       commonv2.UniformObjectMap

	err      error
	panicked bool
}

const verifChkType = "Ready"

func (s *verifRoll) lab(l string) string { return s.tag + "/" + l }

func verifRollNames() []string { return []string{"a", "b", "c"} }

// verifRollBuild draws the symbolic rollout state and builds the inputs of
// syncRollingUpdate the way syncRevisions and claimChildren build them.
func verifRollBuild(o verifRollOpts) *verifRoll {
	s := &verifRoll{o: o, tag: verifScopeTag[o.scope]}
	w := env.NewWorld()
	parent, parentRes := verifRollParent(o.scope)
	s.parent = parent
	s.k = verifRollKindOf(o.scope, o.named)

	strategy := &v1alpha1.CompositeControllerChildUpdateStrategy{Method: v1alpha1.ChildUpdateMethod(o.method)}
	if o.chk > 0 {
		check := v1alpha1.StatusConditionCheck{Type: verifChkType}
		if o.chk == 2 || o.chk == 4 {
			v := rt.String("check-status")
			check.Status = &v
			s.chkStatus = &v
		}
		if o.chk == 3 || o.chk == 4 {
			v := rt.String("check-reason")
			check.Reason = &v
			s.chkReason = &v
		}
		strategy.StatusChecks = v1alpha1.ChildUpdateStatusChecks{Conditions: []v1alpha1.StatusConditionCheck{check}}
	}
	s.pc = verifNewPC(w, verifPCConfig{
		ParentRes: parentRes, GenerateSelector: true,
		Children: []verifChildRule{{Res: s.k.res, Strategy: strategy}, {Res: env.PodRes}},
	})

	// children
	names := verifRollNames()
	for i := 0; i < o.n; i++ {
		c := &verifRollChild{name: names[i]}
		c.rel = verifRollRel(parent, s.k, c.name)
		nClaim := 3
		if o.nOld > 1 {
			nClaim = 4
		}
		c.claim = rt.Choice("claim-"+c.name, nClaim)
		onLatest := c.claim == verifClaimLatest || c.claim == verifClaimNone
		if o.progress {
			if onLatest {
				c.observed = true
			} else {
				// 0: deleted (e.g. by RollingRecreate), 1: still at the old state, 2: already matches
				switch rt.Choice("old-child-"+c.name, 3) {
				case 0:
				case 1:
					c.observed = true
					c.obsVal = rt.String("applied-" + c.name)
					rt.Assume(c.obsVal != verifDesVal)
				case 2:
					c.observed = true
					onLatest = true
				}
			}
			if onLatest {
				c.obsVal = rt.String("applied-" + c.name)
				rt.Assume(c.obsVal == verifDesVal)
			}
		} else {
			c.observed = verifC07Bool("observed-" + c.name)
			if c.observed {
				c.obsVal = rt.String("applied-" + c.name)
			}
		}
		if c.observed {
			if o.method == verifRollingInPlace {
				c.isInt = true
				c.gen = rt.Int64("generation-" + c.name)
				rt.Assume(c.gen >= 1)
				c.hasOG = verifC07Bool("has-observedGeneration-" + c.name)
				if c.hasOG {
					c.og = rt.Int64("observedGeneration-" + c.name)
				}
			}
			if o.chk > 0 {
				c.hasCond = true
				if rt.Tier() > 0 {
					c.hasCond = verifC07Bool("has-condition-" + c.name)
				}
				if c.hasCond {
					c.ctype = rt.String("cond-type-" + c.name)
					c.cstatus = rt.String("cond-status-" + c.name)
					c.creason = rt.String("cond-reason-" + c.name)
				}
			}
			if o.progress && onLatest {
				s.assumeHealthy(c)
			}
		}
		s.c = append(s.c, c)
	}
	for i := 0; i < o.n; i++ {
		if o.reversed {
			s.hook = append(s.hook, o.n-1-i)
		} else {
			s.hook = append(s.hook, i)
		}
	}

	// revisions: latest first
	for r := 0; r <= o.nOld; r++ {
		val := verifOldVal
		name := "rev-old"
		if r == 0 {
			val, name = verifDesVal, "rev-latest"
		} else if r == 2 {
			name = "rev-old2"
		}
		var list []*unstructured.Unstructured
		for _, i := range s.hook {
			list = append(list, verifRollObj(s.k, s.c[i].name, val))
		}
		pr := &parentRevision{parent: parent, revision: verifRollRevision(name, parent)}
		pr.syncResult = &v1.CompositeHookResponse{Children: list}
		if r == 0 {
			pr.syncResult.Status = o.status
		} else {
			pr.syncResult.Status = map[string]interface{}{}
		}
		pr.desiredChildMap = commonv1.MakeRelativeObjectMap(parent, list)
		s.revs = append(s.revs, pr)
	}
	for _, c := range s.c {
		switch c.claim {
		case verifClaimLatest:
			verifRollClaim(s.revs[0].revision, s.k.group, s.k.kind, c.rel)
		case verifClaimOld:
			verifRollClaim(s.revs[1].revision, s.k.group, s.k.kind, c.rel)
		case verifClaimOld2:
			verifRollClaim(s.revs[2].revision, s.k.group, s.k.kind, c.rel)
		}
	}

	// observed children, as claimChildren builds the map
	s.obs = make(commonv2.UniformObjectMap)
	otherVersion := s.k.res.GroupVersionKind()
	otherVersion.Version = otherVersion.Version + "beta1"
	extra := 0
	if o.twoVersions {
		extra = rt.Choice("kind-configured-at-a-second-version", 3) // 0 no, 1 its (empty) group first, 2 second
	}
	if extra == 1 {
		rt.Cover("second-version-group-first")
		s.obs.InitGroup(otherVersion)
	}
	s.obs.InitGroup(s.k.res.GroupVersionKind())
	if extra == 2 {
		rt.Cover("second-version-group-second")
		s.obs.InitGroup(otherVersion)
	}
	s.obs.InitGroup(env.PodRes.GroupVersionKind())
	for _, c := range s.c {
		if c.observed {
			s.obs.Insert(parent, s.observedObj(c))
		}
	}
	return s
}

func (s *verifRoll) observedObj(c *verifRollChild) *unstructured.Unstructured {
	var generation interface{} = int64(1)
	if c.isInt {
		generation = c.gen
	}
	obj := verifRollObserved(verifRollObj(s.k, c.name, c.obsVal), s.parent, "uid-"+c.name, generation)
	st := map[string]interface{}{}
	if c.hasOG {
		st["observedGeneration"] = c.og
	}
	if c.hasCond {
		// a human-readable message accompanies the condition, as real controllers write it
		cond := map[string]interface{}{"type": c.ctype, "status": c.cstatus, "reason": c.creason, "message": rt.String("cond-message-" + c.name)}
		st["conditions"] = []interface{}{map[string]interface{}{"type": "Zzz", "status": "True"}, cond}
	}
	if len(st) > 0 {
		obj.Object["status"] = st
	}
	return obj
}

// assumeHealthy restricts the inputs to a child that is healthy in the sense of
// the property statement (observed and up to date are assumed by the caller).
func (s *verifRoll) assumeHealthy(c *verifRollChild) {
	if s.o.method == verifRollingInPlace && c.hasOG {
		if c.og > 0 {
			rt.Assume(c.og >= c.gen)
		}
	}
	if s.o.chk > 0 {
		rt.Assume(c.hasCond)
		rt.Assume(c.ctype == verifChkType)
		if s.chkStatus != nil {
			rt.Assume(c.cstatus == *s.chkStatus)
		}
		if s.chkReason != nil {
			rt.Assume(c.creason == *s.chkReason)
		}
	}
}

// healthy decides (by branching where the path does not decide it yet) whether
// the child is observed, up to date, has observed its generation and passes
// the status checks.
func (s *verifRoll) healthy(c *verifRollChild) bool {
	if !c.observed {
		return false
	}
	if c.obsVal != verifDesVal {
		return false
	}
	if s.o.method == verifRollingInPlace && c.hasOG {
		if c.og > 0 {
			if c.og < c.gen {
				return false
			}
		}
	}
	if s.o.chk > 0 {
		if !c.hasCond {
			return false
		}
		if c.ctype != verifChkType {
			return false
		}
		if s.chkStatus != nil {
			if c.cstatus != *s.chkStatus {
				return false
			}
		}
		if s.chkReason != nil {
			if c.creason != *s.chkReason {
				return false
			}
		}
	}
	return true
}

// assertHealthy states, one leaf fact per assertion, that the child is healthy.
func (s *verifRoll) assertHealthy(c *verifRollChild, prefix string) {
	rt.Assert(c.observed, s.lab(prefix+"-not-observed"))
	if !c.observed {
		return
	}
	rt.Assert(c.obsVal == verifDesVal, s.lab(prefix+"-not-up-to-date"))
	if s.o.method == verifRollingInPlace && c.hasOG {
		if c.og > 0 {
			rt.Assert(c.og >= c.gen, s.lab(prefix+"-has-not-observed-its-generation"))
		}
	}
	if s.o.chk > 0 {
		rt.Assert(c.hasCond, s.lab(prefix+"-lacks-the-checked-condition"))
		if !c.hasCond {
			return
		}
		rt.Assert(c.ctype == verifChkType, s.lab(prefix+"-lacks-the-checked-condition"))
		if s.chkStatus != nil {
			rt.Assert(c.cstatus == *s.chkStatus, s.lab(prefix+"-fails-condition-status-check"))
		}
		if s.chkReason != nil {
			rt.Assert(c.creason == *s.chkReason, s.lab(prefix+"-fails-condition-reason-check"))
		}
	}
}

func (s *verifRoll) run() {
	s.panicked = verifC07Catch(func() {
		s.err = s.pc.syncRollingUpdate(s.revs, s.obs)
	})
}

// withLatestBefore: the child is with the latest revision before the one gated
// move: claimed by it, unclaimed, or its observed state already equals what
// the latest revision wants.
func (s *verifRoll) withLatestBefore(c *verifRollChild) bool {
	if c.claim == verifClaimLatest || c.claim == verifClaimNone {
		return true
	}
	if !c.observed {
		return false
	}
	if c.obsVal == verifDesVal {
		return true
	}
	return false
}

func (s *verifRoll) claimsIn(r int, c *verifRollChild) int {
	return verifRollClaimCount(s.revs[r].revision, s.k.group, s.k.kind, c.rel)
}

// verifC07UpdatedCondition reads the `Updated` condition(s) from a hook status.
func verifC07UpdatedCondition(status map[string]interface{}) (n int, cstatus, reason, message string) {
	list, _ := status["conditions"].([]interface{})
	for _, it := range list {
		m, _ := it.(map[string]interface{})
		if m == nil {
			continue
		}
		if t, _ := m["type"].(string); t == "Updated" {
			if n == 0 {
				cstatus, _ = m["status"].(string)
				reason, _ = m["reason"].(string)
				message, _ = m["message"].(string)
			}
			n++
		}
	}
	return
}

// verifRollFacts are what happened, read off the revisions after the call.
type verifRollFacts struct {
	pending []*verifRollChild // not with latest before the gated move, hook order
	with    []*verifRollChild // with latest before the gated move
	moved   []*verifRollChild // pending children that latest claims afterwards
}

func (s *verifRoll) facts() verifRollFacts {
	var f verifRollFacts
	for _, i := range s.hook {
		c := s.c[i]
		if s.withLatestBefore(c) {
			f.with = append(f.with, c)
		} else {
			f.pending = append(f.pending, c)
			if s.claimsIn(0, c) > 0 {
				f.moved = append(f.moved, c)
			}
		}
	}
	return f
}

// checkStep asserts the C07 statement about one syncRollingUpdate call.
func (s *verifRoll) checkStep() verifRollFacts {
	rt.Assert(!s.panicked, s.lab("step/panic"))
	if s.panicked {
		return verifRollFacts{}
	}
	rt.Assert(s.err == nil, s.lab("step/error-returned"))
	f := s.facts()

	// claims (concrete facts; the first broken one ends the path: what follows
	// would only restate its consequences)
	bad := func(cond bool, label string) bool {
		rt.Assert(cond, s.lab(label))
		return !cond
	}
	for _, c := range f.with {
		l := "claims/matching-child-not-moved-immediately"
		switch c.claim {
		case verifClaimLatest:
			l = "claims/child-on-latest-dropped"
		case verifClaimNone:
			l = "claims/unclaimed-child-not-given-to-latest"
		}
		if bad(s.claimsIn(0, c) > 0, l) {
			return f
		}
	}
	if s.foreignClaims() {
		return f
	}
	for _, c := range s.c {
		total := 0
		for r := range s.revs {
			total += s.claimsIn(r, c)
		}
		if bad(total <= 1, "claims/child-claimed-more-than-once") || bad(total >= 1, "claims/child-claimed-by-no-revision") {
			return f
		}
	}
	for _, c := range f.pending {
		if s.claimsIn(0, c) == 0 {
			own := 1
			if c.claim == verifClaimOld2 {
				own = 2
			}
			if bad(s.claimsIn(own, c) == 1, "claims/waiting-child-left-its-revision") {
				return f
			}
		}
	}

	// one move, the first in hook order, only through an open gate
	rt.Assert(len(f.moved) <= 1, s.lab("step/moved-more-than-one-child"))
	for _, m := range f.moved {
		rt.Assert(m == f.pending[0], s.lab("step/moved-child-is-not-first-in-hook-order"))
	}
	if len(f.moved) > 0 {
		rt.Cover("moved")
		for _, c := range f.with {
			s.assertHealthy(c, "gate/moved-although-child-on-latest")
		}
	}

	// the Updated condition says what happened
	n, cstatus, reason, message := verifC07UpdatedCondition(s.revs[0].syncResult.Status)
	rt.Assert(n == 1, s.lab("condition/not-exactly-one-updated-condition"))
	switch {
	case len(f.pending) == 0:
		rt.Cover("complete")
		rt.Assert(cstatus == "True" && reason == "OnLatestRevision", s.lab("condition/complete-but-not-reported"))
		rt.Assert(message != "", s.lab("condition/message-empty"))
	case len(f.moved) > 0:
		rt.Assert(cstatus == "False" && reason == "RolloutProgressing", s.lab("condition/moved-but-not-progressing"))
		rt.Assert(message != "", s.lab("condition/message-empty"))
	default:
		rt.Cover("waiting")
		rt.Assert(cstatus == "False" && reason == "RolloutWaiting", s.lab("condition/nothing-moved-but-not-waiting"))
		rt.Assert(message != "", s.lab("condition/waiting-without-explanation"))
	}
	rt.Observe("err", s.err != nil)
	rt.Observe("moved", len(f.moved))
	rt.Observe("pending", len(f.pending))
	rt.Observe("cond-status", cstatus)
	rt.Observe("cond-reason", reason)
	return f
}

// foreignClaims: after the call the revisions must list nothing but the
// desired rolling children of this scenario, under the names by which the
// desired-children map knows them.
func (s *verifRoll) foreignClaims() bool {
	foreign := false
	for _, pr := range s.revs {
		for _, ck := range pr.revision.Children {
			if ck.APIGroup != s.k.group || ck.Kind != s.k.kind {
				rt.Assert(false, s.lab("claims/claim-of-non-rolling-kind-kept"))
				foreign = true
				continue
			}
			for _, name := range ck.Names {
				known := false
				for _, c := range s.c {
					if c.rel == name {
						known = true
					}
				}
				if !known {
					rt.Assert(false, s.lab("claims/name-recorded-that-is-no-desired-child"))
					foreign = true
				}
			}
		}
	}
	return foreign
}

func verifC07Method() string {
	if rt.Choice("method", 2) == 0 {
		return verifRollingInPlace
	}
	return verifRollingRecreate
}

// verifRollTierOpts draws the configuration of a rollout state.
//
//	quick:    2 children, latest + 1 old revision; parent/children scope x
//	          method x (no check | type+status+reason check); ConfigMap (core
//	          group) children, Widget (named group) for the cluster parent with
//	          namespaced children; hook order = reverse of the claim order.
//	thorough: "wide": the same size with every check shape (none, type,
//	          type+status, type+reason, all) and an optional condition list;
//	          "deep": 3 children, latest + 2 old revisions, cluster-scoped
//	          parent and children, RollingRecreate without status checks
//	          (health = observed and up to date), both hook orders.
func verifRollTierOpts(o *verifRollOpts) {
	if rt.Tier() == 0 {
		o.scope = rt.Choice("scope", 3)
		o.method = verifC07Method()
		o.n, o.nOld = 2, 1
		o.named = o.scope == verifScopeClusterNS
		o.chk = rt.Choice("check", 2) * 4
		o.reversed = true
		return
	}
	if rt.Choice("size", 2) == 0 {
		o.scope = rt.Choice("scope", 3)
		o.method = verifC07Method()
		o.n, o.nOld = 2, 1
		o.named = o.scope == verifScopeClusterNS
		o.chk = rt.Choice("check", 5)
		o.reversed = true
		return
	}
	o.scope = verifScopeCluster
	o.method = verifRollingRecreate
	o.n, o.nOld = 3, 2
	o.chk = 0
	o.reversed = verifC07Bool("hook-order-reversed")
}

// VerifC07_RollingStep: one real syncRollingUpdate over a symbolic rollout
// state.
func VerifC07_RollingStep() {
	o := verifRollOpts{status: map[string]interface{}{"replicas": int64(2)}}
	verifRollTierOpts(&o)
	s := verifRollBuild(o)
	s.run()
	s.checkStep()
}

// ---------------------------------------------------------------- claims

// VerifC07_Claims: claims that must be forgotten (children the latest revision
// no longer desires — scale-down during a rollout —, kinds that no longer use a
// rolling strategy, a child listed by two revisions after an interrupted
// write). Cluster-scoped parent and children, where name lookup works.
// Children: a with latest and healthy, b with the old revision and drifted.
func VerifC07_Claims() {
	o := verifRollOpts{scope: verifScopeCluster, method: verifRollingRecreate, n: 2, nOld: 2, status: map[string]interface{}{}}
	s := &verifRoll{o: o, tag: verifScopeTag[o.scope]}
	w := env.NewWorld()
	parent, parentRes := verifRollParent(o.scope)
	s.parent = parent
	s.k = verifRollKindOf(o.scope, false)
	s.pc = verifNewPC(w, verifPCConfig{
		ParentRes: parentRes, GenerateSelector: true,
		Children: []verifChildRule{{Res: s.k.res, Strategy: verifStrategyOf(o.method)}, {Res: env.PodRes}},
	})
	a := &verifRollChild{name: "a", rel: "a", claim: verifClaimLatest, observed: true, obsVal: verifDesVal}
	b := &verifRollChild{name: "b", rel: "b", claim: verifClaimOld, observed: true, obsVal: verifOldVal}
	s.c = []*verifRollChild{a, b}
	s.hook = []int{0, 1}

	variant := rt.Choice("variant", 8)
	vtag := []string{"none", "undesired-in-latest-group", "undesired-in-old-group", "undesired-alone-in-latest", "undesired-alone-in-old2", "non-rolling-kind", "also-listed-by-old-group", "also-listed-alone-by-old2"}[variant]
	zObserved := false
	if variant >= 1 && variant <= 4 {
		zObserved = verifC07Bool("undesired-child-still-observed")
	}

	pod := env.Obj("v1", "Pod", "", "x", "")
	for r := 0; r <= 2; r++ {
		val := verifOldVal
		name := []string{"rev-latest", "rev-old", "rev-old2"}[r]
		if r == 0 {
			val = verifDesVal
		}
		list := []*unstructured.Unstructured{}
		if variant == 5 {
			list = append(list, pod.DeepCopy())
		}
		list = append(list, verifRollObj(s.k, "a", val), verifRollObj(s.k, "b", val))
		if r > 0 && variant >= 1 && variant <= 4 {
			// the old revisions still want z, the latest does not
			list = append(list, verifRollObj(s.k, "z", val))
		}
		pr := &parentRevision{parent: parent, revision: verifRollRevision(name, parent)}
		pr.syncResult = &v1.CompositeHookResponse{Children: list, Status: map[string]interface{}{}}
		pr.desiredChildMap = commonv1.MakeRelativeObjectMap(parent, list)
		s.revs = append(s.revs, pr)
	}
	g, k := s.k.group, s.k.kind
	switch variant {
	case 1:
		verifRollClaim(s.revs[0].revision, g, k, "z")
	case 3:
		// latest lists nothing but z; a is not claimed yet
		verifRollClaim(s.revs[0].revision, g, k, "z")
		a.claim = verifClaimNone
	case 5:
		verifRollClaim(s.revs[1].revision, "", "Pod", "x")
	}
	if a.claim == verifClaimLatest {
		verifRollClaim(s.revs[0].revision, g, k, "a")
	}
	verifRollClaim(s.revs[1].revision, g, k, "b")
	switch variant {
	case 2:
		verifRollClaim(s.revs[1].revision, g, k, "z")
	case 4:
		verifRollClaim(s.revs[2].revision, g, k, "z")
	case 6:
		verifRollClaim(s.revs[1].revision, g, k, "a")
	case 7:
		verifRollClaim(s.revs[2].revision, g, k, "a")
	}
	s.obs = make(commonv2.UniformObjectMap)
	s.obs.InitGroup(s.k.res.GroupVersionKind())
	s.obs.InitGroup(env.PodRes.GroupVersionKind())
	s.obs.Insert(parent, s.observedObj(a))
	s.obs.Insert(parent, s.observedObj(b))
	if zObserved {
		z := &verifRollChild{name: "z", rel: "z", observed: true, obsVal: verifOldVal}
		s.obs.Insert(parent, s.observedObj(z))
	}
	if variant == 5 {
		s.obs.Insert(parent, verifRollObserved(pod, parent, "uid-x", int64(1)))
	}

	s.run()

	lab := func(l string) string { return "claims/" + vtag + "/" + l }
	rt.Assert(!s.panicked, lab("panic"))
	if s.panicked {
		return
	}
	rt.Cover("claims-" + vtag)
	rt.Assert(s.err == nil, lab("error-returned"))
	for _, pr := range s.revs {
		rt.Assert(verifRollClaimCount(pr.revision, g, k, "z") == 0, lab("claim-of-undesired-child-kept"))
		rt.Assert(verifRollClaimCount(pr.revision, "", "Pod", "x") == 0, lab("claim-of-non-rolling-kind-kept"))
	}
	rt.Assert(s.claimsIn(0, a) == 1, lab("child-on-latest-dropped"))
	rt.Assert(s.claimsIn(1, a)+s.claimsIn(2, a) == 0, lab("child-on-latest-still-listed-by-old-revision"))
	// a is healthy and b is the only child left: it moves
	if s.claimsIn(0, b) == 0 {
		rt.Assert(false, lab("waits-although-child-on-latest-is-healthy"))
	} else {
		rt.Assert(s.claimsIn(0, b) == 1, lab("moved-child-listed-twice"))
		rt.Assert(s.claimsIn(1, b)+s.claimsIn(2, b) == 0, lab("moved-child-still-listed-by-old-revision"))
		n, cstatus, reason, _ := verifC07UpdatedCondition(s.revs[0].syncResult.Status)
		rt.Assert(n == 1, lab("not-exactly-one-updated-condition"))
		rt.Assert(cstatus == "False" && reason == "RolloutProgressing", lab("moved-but-not-progressing"))
	}
	rt.Observe("err", s.err != nil)
	rt.Observe("b-moved", s.claimsIn(0, b))
}

// ---------------------------------------------------------------- condition

// VerifC07_Condition: the `Updated` condition written into the latest hook
// status for each outcome x each shape of the status the hook returned.
// Cluster-scoped parent and children.
func VerifC07_Condition() {
	outcome := rt.Choice("outcome", 3) // 0 complete, 1 progressing, 2 waiting
	otag := []string{"complete", "progressing", "waiting"}[outcome]
	shape := rt.Choice("hook-status", 6)
	stag := []string{"empty", "other-keys", "other-condition", "hook-returned-updated", "hook-returned-updated", "hook-returned-no-status"}[shape]
	var status map[string]interface{}
	other := map[string]interface{}{"type": "Ready", "status": "True"}
	var stale map[string]interface{}
	if shape == 3 || shape == 4 {
		stale = map[string]interface{}{"type": "Updated", "status": rt.String("hook-cond-status"), "reason": rt.String("hook-cond-reason"), "message": "from the previous sync"}
	}
	switch shape {
	case 0:
		status = map[string]interface{}{}
	case 1:
		status = map[string]interface{}{"replicas": int64(3)}
	case 2:
		status = map[string]interface{}{"conditions": []interface{}{other}}
	case 3:
		status = map[string]interface{}{"conditions": []interface{}{stale}}
	case 4:
		status = map[string]interface{}{"replicas": int64(3), "conditions": []interface{}{other, stale}}
	case 5:
		status = nil
	}

	o := verifRollOpts{scope: verifScopeCluster, method: verifRollingRecreate, n: 2, nOld: 1, status: status, progress: false}
	// concrete children
	s := verifCondScenario(o, outcome)
	s.run()

	lab := func(l string) string { return "condition/" + stag + "/" + l }
	rt.Assert(!s.panicked, lab("panic"))
	if s.panicked {
		return
	}
	rt.Cover("condition-" + otag)
	rt.Cover("condition-" + stag)
	rt.Assert(s.err == nil, lab("error-returned"))
	got := s.revs[0].syncResult.Status
	n, cstatus, reason, message := verifC07UpdatedCondition(got)
	rt.Assert(n == 1, lab("not-exactly-one-updated-condition"))
	wantStatus, wantReason := "False", "RolloutWaiting"
	switch outcome {
	case 0:
		wantStatus, wantReason = "True", "OnLatestRevision"
	case 1:
		wantStatus, wantReason = "False", "RolloutProgressing"
	}
	rt.Assert(cstatus == wantStatus, lab("updated-condition-wrong"))
	rt.Assert(reason == wantReason, lab("updated-condition-wrong"))
	rt.Assert(message != "" && message != "from the previous sync", lab("updated-condition-wrong"))
	// everything else the hook returned is kept
	if shape == 1 || shape == 4 {
		v, _ := got["replicas"].(int64)
		rt.Assert(v == 3, lab("other-status-field-lost"))
	}
	if shape == 2 || shape == 4 {
		list, _ := got["conditions"].([]interface{})
		found := 0
		for _, it := range list {
			m, _ := it.(map[string]interface{})
			if m != nil && m["type"] == "Ready" && m["status"] == "True" {
				found++
			}
		}
		rt.Assert(found == 1, lab("other-condition-lost"))
	}
	// the facts of the scenario themselves
	b := s.c[1]
	switch outcome {
	case 0, 2:
		rt.Assert(s.claimsIn(0, b) == 0 || b.claim == verifClaimLatest, lab("scenario/b-moved"))
	case 1:
		rt.Assert(s.claimsIn(0, b) == 1, lab("scenario/b-not-moved"))
	}
	rt.Observe("cond-status", cstatus)
	rt.Observe("cond-reason", reason)
}

// verifCondScenario builds concrete children for an outcome: a with latest;
// b with latest (complete) or with old and drifted (progressing: a healthy;
// waiting: a not observed).
func verifCondScenario(o verifRollOpts, outcome int) *verifRoll {
	s := &verifRoll{o: o, tag: verifScopeTag[o.scope]}
	w := env.NewWorld()
	parent, parentRes := verifRollParent(o.scope)
	s.parent = parent
	s.k = verifRollKindOf(o.scope, false)
	s.pc = verifNewPC(w, verifPCConfig{
		ParentRes: parentRes, GenerateSelector: true,
		Children: []verifChildRule{{Res: s.k.res, Strategy: verifStrategyOf(o.method)}},
	})
	a := &verifRollChild{name: "a", rel: "a", claim: verifClaimLatest, observed: outcome != 2, obsVal: verifDesVal}
	b := &verifRollChild{name: "b", rel: "b", claim: verifClaimOld, observed: true, obsVal: verifOldVal}
	if outcome == 0 {
		b.claim, b.obsVal = verifClaimLatest, verifDesVal
	}
	s.c = []*verifRollChild{a, b}
	s.hook = []int{0, 1}
	for r := 0; r <= 1; r++ {
		val, name := verifOldVal, "rev-old"
		if r == 0 {
			val, name = verifDesVal, "rev-latest"
		}
		list := []*unstructured.Unstructured{verifRollObj(s.k, "a", val), verifRollObj(s.k, "b", val)}
		pr := &parentRevision{parent: parent, revision: verifRollRevision(name, parent)}
		pr.syncResult = &v1.CompositeHookResponse{Children: list, Status: map[string]interface{}{}}
		if r == 0 {
			pr.syncResult.Status = o.status
		}
		pr.desiredChildMap = commonv1.MakeRelativeObjectMap(parent, list)
		s.revs = append(s.revs, pr)
	}
	for _, c := range s.c {
		verifRollClaim(s.revs[c.claim].revision, s.k.group, s.k.kind, c.rel)
	}
	s.obs = make(commonv2.UniformObjectMap)
	s.obs.InitGroup(s.k.res.GroupVersionKind())
	for _, c := range s.c {
		if c.observed {
			s.obs.Insert(parent, s.observedObj(c))
		}
	}
	return s
}

// ---------------------------------------------------------------- patch lemma

var verifPatchPaths = []string{"spec", "spec.a", "spec.b", "metadata.labels"}

// verifPatchParent draws a small parent: metadata.name, optional
// metadata.labels.l, optional spec with optional a (string), optional b (map
// with one string) and c (string); status.s.
func verifPatchParent(tag string) map[string]interface{} {
	md := map[string]interface{}{"name": "p"}
	if verifC07Bool(tag + "-has-labels") {
		md["labels"] = map[string]interface{}{"l": rt.String(tag + "-label")}
	}
	obj := map[string]interface{}{"apiVersion": "ex.com/v1", "kind": "Thing", "metadata": md, "status": map[string]interface{}{"s": rt.String(tag + "-status")}}
	if verifC07Bool(tag + "-has-spec") {
		spec := map[string]interface{}{"c": rt.String(tag + "-c")}
		if verifC07Bool(tag + "-has-a") {
			spec["a"] = rt.String(tag + "-a")
		}
		if verifC07Bool(tag + "-has-b") {
			spec["b"] = map[string]interface{}{"x": rt.String(tag + "-bx")}
		}
		obj["spec"] = spec
	}
	return obj
}

// verifC07Leaf looks a dotted leaf path up by hand.
func verifC07Leaf(obj map[string]interface{}, path string) (string, bool) {
	var cur interface{} = obj
	for _, p := range strings.Split(path, ".") {
		m, ok := cur.(map[string]interface{})
		if !ok {
			return "", false
		}
		cur, ok = m[p]
		if !ok {
			return "", false
		}
	}
	sv, ok := cur.(string)
	return sv, ok
}

func verifC07Covered(leaf string, paths []string) bool {
	for _, p := range paths {
		if leaf == p || strings.HasPrefix(leaf, p+".") {
			return true
		}
	}
	return false
}

func verifC07HasPath(obj map[string]interface{}, path string) bool {
	var cur interface{} = obj
	for _, p := range strings.Split(path, ".") {
		m, ok := cur.(map[string]interface{})
		if !ok {
			return false
		}
		cur, ok = m[p]
		if !ok {
			return false
		}
	}
	return true
}

// VerifC07_PatchLemma: the parent object materialised for an old revision.
func VerifC07_PatchLemma() {
	var paths []string
	switch rt.Choice("field-paths", 3) {
	case 0:
		paths = []string{verifPatchPaths[rt.Choice("path0", 4)]}
	case 1:
		p0 := rt.Choice("path0", 4)
		p1 := rt.Choice("path1", 4)
		rt.Assume(p0 != p1)
		paths = []string{verifPatchPaths[p0], verifPatchPaths[p1]}
	case 2:
		paths = []string{"spec"} // the default
	}
	latest := verifPatchParent("latest")
	old := verifPatchParent("old")
	latestU := &unstructured.Unstructured{Object: latest}

	// what syncRevisions does: the revision stores makePatch(old parent); later
	// the old parent is rebuilt from a copy of the latest parent.
	q, err := makePatch(old, paths)
	rt.Assert(err == nil, "patch/make-error")
	if err != nil {
		return
	}
	mat := latestU.DeepCopy().Object
	err = applyPatch(mat, q, paths)
	rt.Assert(err == nil, "patch/apply-error")
	if err != nil {
		return
	}

	// a revisioned path the old parent did not have but the latest has
	absent := false
	for _, p := range paths {
		if !verifC07HasPath(old, p) && verifC07HasPath(latest, p) {
			absent = true
		}
	}
	pre := "patch/"
	if absent {
		rt.Cover("patch-field-absent-in-revision")
		pre = "patch/field-absent-in-revision/"
	} else {
		rt.Cover("patch-plain")
	}
	for _, leaf := range []string{"metadata.name", "metadata.labels.l", "spec.a", "spec.b.x", "spec.c", "status.s", "kind"} {
		src, what := latest, "outside-field-paths-differs-from-latest"
		if verifC07Covered(leaf, paths) {
			src, what = old, "inside-field-paths-differs-from-revision"
		}
		want, wantOK := verifC07Leaf(src, leaf)
		got, gotOK := verifC07Leaf(mat, leaf)
		rt.Assert(gotOK == wantOK, pre+what)
		if gotOK && wantOK {
			rt.Assert(got == want, pre+what)
		}
	}
	// round trip (in the absent-field case it fails for the same reason as above)
	q2, err := makePatch(mat, paths)
	rt.Assert(err == nil, "patch/make-error")
	if err == nil && !absent {
		for _, leaf := range []string{"metadata.labels.l", "spec.a", "spec.b.x", "spec.c"} {
			want, wantOK := verifC07Leaf(q, leaf)
			got, gotOK := verifC07Leaf(q2, leaf)
			rt.Assert(gotOK == wantOK, pre+"roundtrip-differs")
			if gotOK && wantOK {
				rt.Assert(got == want, pre+"roundtrip-differs")
			}
		}
		_, hasStatus := q2["status"]
		rt.Assert(!hasStatus, pre+"patch-contains-non-revisioned-field")
	}
	rt.Observe("absent", absent)
}

// ---------------------------------------------------------------- status check / SetCondition

func verifC07CondList(tag string, n int) (list []interface{}, ctype, cstatus, creason []string, hasReason []bool) {
	for i := 0; i < n; i++ {
		it := tag + string(rune('0'+i))
		t, st := rt.String(it+"-type"), rt.String(it+"-status")
		m := map[string]interface{}{"type": t, "status": st}
		re, has := "", verifC07Bool(it+"-has-reason")
		if has {
			re = rt.String(it + "-reason")
			m["reason"] = re
		}
		if i == 0 {
			// the first entry also carries a free-text message (the second one does not)
			m["message"] = rt.String(it + "-message")
		}
		list = append(list, m)
		ctype, cstatus, creason, hasReason = append(ctype, t), append(cstatus, st), append(creason, re), append(hasReason, has)
	}
	return
}

// VerifC07_StatusCheck: childStatusCheck decision table and SetCondition laws.
func VerifC07_StatusCheck() {
	if rt.Choice("part", 2) == 0 {
		verifStatusCheckTable()
	} else {
		verifSetConditionLaws()
	}
}

func verifStatusCheckTable() {
	child := env.Obj("apps.ex.com/v1", "Widget", "ns", "a", "ua")
	var ctype, cstatus, creason []string
	switch rt.Choice("child-status", 4) {
	case 0: // no status at all
	case 1:
		child.Object["status"] = map[string]interface{}{"phase": "x"}
	case 2:
		var list []interface{}
		list, ctype, cstatus, creason, _ = verifC07CondList("cond", 1)
		child.Object["status"] = map[string]interface{}{"conditions": list}
	case 3:
		var list []interface{}
		list, ctype, cstatus, creason, _ = verifC07CondList("cond", 2)
		child.Object["status"] = map[string]interface{}{"conditions": list}
	}
	nChecks := rt.Choice("checks", 3+rt.Tier()) // 0: nil, 1: empty, 2: one, 3: two (thorough)
	var checks *v1alpha1.ChildUpdateStatusChecks
	if nChecks > 0 {
		checks = &v1alpha1.ChildUpdateStatusChecks{}
	}
	for i := 0; i < nChecks-1; i++ {
		it := "check" + string(rune('0'+i))
		ck := v1alpha1.StatusConditionCheck{Type: rt.String(it + "-type")}
		if verifC07Bool(it + "-has-status") {
			v := rt.String(it + "-status")
			ck.Status = &v
		}
		if verifC07Bool(it + "-has-reason") {
			v := rt.String(it + "-reason")
			ck.Reason = &v
		}
		checks.Conditions = append(checks.Conditions, ck)
	}

	err := childStatusCheck(checks, child)

	want := true
	if checks != nil {
		for _, ck := range checks.Conditions {
			// the first condition of that type decides
			idx := -1
			for j := range ctype {
				if idx < 0 && ctype[j] == ck.Type {
					idx = j
				}
			}
			if idx < 0 {
				want = false
				rt.Cover("check-condition-missing")
				continue
			}
			if ck.Status != nil {
				if cstatus[idx] != *ck.Status {
					want = false
					rt.Cover("check-status-mismatch")
				}
			}
			if ck.Reason != nil {
				if creason[idx] != *ck.Reason {
					want = false
					rt.Cover("check-reason-mismatch")
				}
			}
		}
	} else {
		rt.Cover("check-nil")
	}
	if want {
		rt.Cover("check-pass")
		rt.Assert(err == nil, "statuscheck/healthy-child-rejected")
	} else {
		rt.Assert(err != nil, "statuscheck/unhealthy-child-accepted")
	}
	rt.Observe("pass", err == nil)
}

func verifSetConditionLaws() {
	shape := rt.Choice("conditions", 4) // 0 absent, 1 empty list, 2 one, 3 two
	status := map[string]interface{}{"replicas": int64(3)}
	var ctype, cstatus []string
	if shape > 0 {
		list, t, st, _, _ := verifC07CondList("have", shape-1)
		ctype, cstatus = t, st
		if list == nil {
			list = []interface{}{}
		}
		status["conditions"] = list
	}
	nc := &dynamicobject.StatusCondition{Type: rt.String("new-type"), Status: rt.String("new-status"), Reason: rt.String("new-reason"), Message: "m"}
	rt.Assume(nc.Reason != "")

	err := dynamicobject.SetCondition(status, nc)
	rt.Assert(err == nil, "setcondition/error")
	if err != nil {
		return
	}
	v, _ := status["replicas"].(int64)
	rt.Assert(v == 3, "setcondition/other-field-lost")
	got, _ := status["conditions"].([]interface{})

	// What a reader of the status relies on (position in the list is not part of
	// it): the FIRST condition of that type is the new one; every condition of
	// another type is still there with its status; nothing else appeared.
	had := false
	for j := range ctype {
		if ctype[j] == nc.Type {
			had = true
		}
	}
	if had {
		rt.Cover("setcondition-replace")
	} else {
		rt.Cover("setcondition-append")
	}
	first := -1
	for i := range got {
		m, _ := got[i].(map[string]interface{})
		rt.Assert(m != nil, "setcondition/entry-is-not-an-object")
		if m == nil {
			continue
		}
		t, _ := m["type"].(string)
		if t == nc.Type && first < 0 {
			first = i
		}
	}
	rt.Assert(first >= 0, "setcondition/new-condition-missing")
	if first >= 0 {
		m := got[first].(map[string]interface{})
		st, _ := m["status"].(string)
		re, _ := m["reason"].(string)
		msg, _ := m["message"].(string)
		l := "setcondition/appended-condition-wrong"
		if had {
			l = "setcondition/existing-type-not-replaced"
		}
		rt.Assert(st == nc.Status, l)
		rt.Assert(re == nc.Reason, l)
		rt.Assert(msg == "m", l)
	}
	for j := range ctype {
		if ctype[j] == nc.Type {
			continue
		}
		found := false
		for i := range got {
			if m, _ := got[i].(map[string]interface{}); m != nil {
				t, _ := m["type"].(string)
				st, _ := m["status"].(string)
				if t == ctype[j] && st == cstatus[j] {
					found = true
				}
			}
		}
		rt.Assert(found, "setcondition/other-condition-lost-or-changed")
	}
	for i := range got {
		m, _ := got[i].(map[string]interface{})
		if m == nil {
			continue
		}
		t, _ := m["type"].(string)
		known := t == nc.Type
		for j := range ctype {
			if ctype[j] == t {
				known = true
			}
		}
		rt.Assert(known, "setcondition/condition-of-an-unknown-type-appeared")
	}
	rt.Observe("len", len(got))
}

package composite

// C10 — finalizer: added first, honoured on deletion, removed only when finalized.

import (
	metav1 "k8s.io/apimachinery/pkg/apis/meta/v1"
	"k8s.io/apimachinery/pkg/apis/meta/v1/unstructured"

	v1 "metacontroller/pkg/controller/composite/api/v1"
	"metacontroller/pkg/zzverif/env"
	"metacontroller/pkg/zzverif/gen"
	rt "metacontroller/pkg/zzverif/rt"
)

func verifHasFinalizer(o *unstructured.Unstructured, name string) bool {
	if o == nil {
		return false
	}
	for _, f := range o.GetFinalizers() {
		if f == name {
			return true
		}
	}
	return false
}

func verifSetFinalizers(o *unstructured.Unstructured, fs ...string) {
	var l []interface{}
	for _, f := range fs {
		l = append(l, f)
	}
	if len(l) > 0 {
		o.Object["metadata"].(map[string]interface{})["finalizers"] = l
	}
}

// VerifC10_SyncObject: the add/remove decision of finalizer.Manager.SyncObject
// and ShouldFinalize, through the real AtomicUpdate against the server.
func VerifC10_SyncObject() {
	w := env.NewWorld()
	enabled := rt.Bool("finalize-hook-configured")
	has := rt.Bool("cached-parent-has-finalizer")
	deleting := rt.Bool("deleting")
	var fins []string
	if has {
		fins = append(fins, verifFinalizerName)
	}
	other := rt.Choice("other-finalizer", 4)
	switch other {
	case 1:
		fins = append(fins, "example.com/foreign")
	case 2:
		fins = append(fins, metav1.FinalizerDeleteDependents)
	case 3:
		fins = append(fins, metav1.FinalizerOrphanDependents)
	}
	parent := env.Thing("ns", "p", "puid")
	verifSetFinalizers(parent, fins...)
	if deleting {
		env.MarkDeleting(parent)
	}
	// the live object may already differ from the cache in its finalizers
	live := parent.DeepCopy()
	liveHas := has
	if rt.Bool("live-differs") {
		liveHas = !has
		var lf []string
		if liveHas {
			lf = append(lf, verifFinalizerName)
		}
		if other == 1 {
			lf = append(lf, "example.com/foreign")
		}
		delete(live.Object["metadata"].(map[string]interface{}), "finalizers")
		verifSetFinalizers(live, lf...)
	}
	w.Srv.Put("things", live)
	liveBefore := live.DeepCopy()
	pc := verifNewPC(w, verifPCConfig{ParentRes: env.ThingRes, FinalizeEnabled: enabled})

	// ShouldFinalize
	sf := pc.finalizer.ShouldFinalize(parent)
	rt.Assert(sf == (enabled && has && other != 2 && other != 3), "should-finalize/wrong")

	out, err := pc.finalizer.SyncObject(pc.parentClient, parent)
	rt.Observe("err", err != nil)
	wr := w.Srv.Writes()
	rt.Observe("writes", len(wr))
	rt.Assert(err == nil, "sync-object/error")
	wantAdd := enabled && !has && !deleting
	wantRemove := !enabled && has
	switch {
	case wantAdd:
		rt.Cover("add")
		if liveHas {
			rt.Assert(len(wr) == 0, "add/write-although-live-object-already-has-it")
		} else {
			rt.Assert(len(wr) == 1, "add/not-exactly-one-write")
		}
		rt.Assert(verifHasFinalizer(w.Srv.Peek("things", "ns", "p"), verifFinalizerName), "add/finalizer-not-stored")
		rt.Assert(verifHasFinalizer(out, verifFinalizerName), "add/returned-object-without-finalizer")
	case wantRemove:
		rt.Cover("remove")
		if !liveHas {
			rt.Assert(len(wr) == 0, "remove/write-although-live-object-has-none")
		} else {
			rt.Assert(len(wr) == 1, "remove/not-exactly-one-write")
		}
		rt.Assert(!verifHasFinalizer(w.Srv.Peek("things", "ns", "p"), verifFinalizerName), "remove/finalizer-still-stored")
	default:
		rt.Cover("leave")
		rt.Assert(len(wr) == 0, "leave/write")
		if enabled && !has && deleting {
			rt.Cover("not-added-while-deleting")
		}
	}
	for _, r := range wr {
		rt.Assert(r.Verb == "update" && r.Sub == "" && r.Resource == "things" && r.Name == "p", "write/unexpected")
		// only the finalizer list may differ from the live object
		bm := gen.DeepCopy(r.Body.Object["metadata"]).(map[string]interface{})
		lm := gen.DeepCopy(liveBefore.Object["metadata"]).(map[string]interface{})
		delete(bm, "finalizers")
		delete(lm, "finalizers")
		gen.Equal(bm, lm, "write/metadata-other-than-finalizers-changed")
		gen.Equal(r.Body.Object["spec"], liveBefore.Object["spec"], "write/spec-changed")
		// foreign finalizers survive
		if other == 1 {
			rt.Assert(verifHasFinalizer(r.Body, "example.com/foreign"), "write/foreign-finalizer-dropped")
		}
	}
}

// VerifC10_CallHook: which hook is called and with which `finalizing` flag.
func VerifC10_CallHook() {
	w := env.NewWorld()
	syncOn := rt.Bool("sync-hook")
	finOn := rt.Bool("finalize-hook")
	deleting := rt.Bool("deleting")
	matches := rt.Bool("matches-controller-selector")
	parent := env.Thing("ns", "p", "puid")
	if matches {
		env.SetLabel(parent, "tier", "x")
	} else {
		env.SetLabel(parent, "tier", "y")
	}
	if deleting {
		env.MarkDeleting(parent)
	}
	mk := func(on bool, name string) *verifHook {
		return &verifHook{enabled: on, fn: func(req *v1.CompositeHookRequest) (*v1.CompositeHookResponse, error) {
			return &v1.CompositeHookResponse{Status: map[string]interface{}{"by": name}}, nil
		}}
	}
	sh, fh := mk(syncOn, "sync"), mk(finOn, "finalize")
	pc := verifNewPC(w, verifPCConfig{ParentRes: env.ThingRes, FinalizeEnabled: finOn, Sync: sh, Finalize: fh,
		ParentSelector: &metav1.LabelSelector{MatchLabels: map[string]string{"tier": "x"}}})
	resp, err := pc.callHook(parent, nil, nil)
	rt.Assert(err == nil, "call-hook/error")
	wantFinalize := finOn && (deleting || !matches)
	switch {
	case wantFinalize:
		rt.Cover("finalize-hook")
		rt.Assert(len(fh.Calls) == 1 && len(sh.Calls) == 0, "finalize/wrong-hook-called")
		if len(fh.Calls) == 1 {
			rt.Assert(fh.Calls[0].Finalizing, "finalize/flag-not-set")
		}
		rt.Assert(resp != nil, "finalize/no-response")
	case syncOn:
		rt.Cover("sync-hook")
		rt.Assert(len(sh.Calls) == 1 && len(fh.Calls) == 0, "sync/wrong-hook-called")
		if len(sh.Calls) == 1 {
			rt.Assert(!sh.Calls[0].Finalizing, "sync/finalizing-flag-set")
		}
		rt.Assert(resp != nil, "sync/no-response")
	default:
		rt.Cover("no-hook")
		rt.Assert(len(sh.Calls) == 0 && len(fh.Calls) == 0, "no-hook/called")
		rt.Assert(resp == nil, "no-hook/response")
	}
}

// VerifC10_Lifecycle: one whole syncParentObject for every life-cycle state.
func VerifC10_Lifecycle() {
	w := env.NewWorld()
	finOn := rt.Bool("finalize-hook")
	has := rt.Bool("has-finalizer")
	deleting := rt.Bool("deleting")
	gc := rt.Bool("gc-finalizer")
	finalized := rt.Bool("hook-answers-finalized")
	failAdd := rt.Bool("finalizer-write-fails")
	// how the webhooks are configured (url, or service reference + path) must not
	// matter to the finalizer protocol
	viaService := rt.Bool("hooks-given-as-service-reference")
	if viaService {
		rt.Cover("hooks-via-service")
	}

	parent := env.Thing("ns", "p", "puid")
	var fins []string
	if has {
		fins = append(fins, verifFinalizerName)
	}
	if gc {
		fins = append(fins, metav1.FinalizerDeleteDependents)
	}
	verifSetFinalizers(parent, fins...)
	if deleting {
		env.MarkDeleting(parent)
	}
	w.Srv.Put("things", parent)
	// one owned child that is no longer desired, one new child desired
	old := verifAppliedChild(env.ConfigMap("ns", "old", "", "x"), parent, "uid-old")
	env.SetLabel(old, "controller-uid", "puid")
	w.Srv.Put("configmaps", old)
	// optionally a child the parent controls whose labels no longer satisfy the
	// (generated) selector: a live parent releases it (one update of that child),
	// a parent that is being deleted must leave it alone
	if rt.Bool("an-owned-child-no-longer-matches-the-selector") {
		rt.Cover("owned-child-stopped-matching")
		stray := verifAppliedChild(env.ConfigMap("ns", "stray", "", "z"), parent, "uid-stray")
		env.SetLabel(stray, "controller-uid", "someone-else")
		w.Srv.Put("configmaps", stray)
	}
	desired := []*unstructured.Unstructured{env.ConfigMap("ns", "new", "", "y")}
	mk := func(on bool) *verifHook {
		return &verifHook{enabled: on, fn: func(req *v1.CompositeHookRequest) (*v1.CompositeHookResponse, error) {
			return &v1.CompositeHookResponse{Children: desired, Status: map[string]interface{}{"phase": "ok"}, Finalized: finalized}, nil
		}}
	}
	sh, fh := mk(true), mk(finOn)
	pc := verifNewPC(w, verifPCConfig{
		ParentRes: env.ThingRes, GenerateSelector: true, FinalizeEnabled: finOn, HooksViaService: viaService,
		Children: []verifChildRule{{Res: env.ConfigMapRes, Strategy: verifStrategyOf("InPlace")}},
		Sync:     sh, Finalize: fh,
	})
	pc.SnapshotFromStore()
	if failAdd {
		// the first write of the sync fails (that is the finalizer write when one is due)
		// (whatever the reason: a 500, a 422 "invalid", a 403 from RBAC or an
		// admission webhook - no kind of refusal lets the sync go on without it)
		kind := env.FaultInternal
		switch rt.Choice("finalizer-add-refused-with", 3) {
		case 1:
			kind = env.FaultInvalid
		case 2:
			kind = env.FaultForbidden
		}
		w.Srv.ArmFault(0, kind, "things", false)
	}
	err := pc.syncParentObject(pc.W.Srv.All("things")[0])
	rt.Observe("err", err != nil)

	log := w.Srv.Log
	addIdx, removeIdx, firstChild := -1, -1, -1
	for i, r := range log {
		if r.IsWrite() && r.Resource == "things" && r.Sub == "" && r.Body != nil {
			before, after := verifHasFinalizer(r.Pre, verifFinalizerName), verifHasFinalizer(r.Body, verifFinalizerName)
			if !before && after && addIdx < 0 {
				addIdx = i
			}
			if before && !after && removeIdx < 0 {
				removeIdx = i
			}
		}
		if r.IsWrite() && r.Resource == "configmaps" && firstChild < 0 {
			firstChild = i
		}
	}
	childWrites := len(verifChildWrites(log, "things"))
	rt.Observe("child-writes", childWrites)

	// the finalizer is never added to a parent that is already being deleted
	if deleting {
		rt.Assert(addIdx < 0, "added-to-a-parent-being-deleted")
	}
	// added first
	if finOn && !has && !deleting {
		rt.Cover("finalizer-due")
		rt.Assert(addIdx >= 0, "finalizer-due/not-requested")
		if firstChild >= 0 {
			rt.Assert(addIdx >= 0 && addIdx < firstChild, "child-written-before-the-finalizer")
		}
		if failAdd {
			rt.Cover("finalizer-add-failed")
			rt.Assert(err != nil, "finalizer-add-failed/no-error")
			rt.Assert(childWrites == 0, "finalizer-add-failed/child-written")
			rt.Assert(len(sh.Calls)+len(fh.Calls) == 0, "finalizer-add-failed/hook-called")
			return
		}
	}
	if !finOn {
		rt.Assert(addIdx < 0, "added-without-finalize-hook")
	}
	if failAdd {
		return // the injected failure hit some other write; covered by C12
	}
	// which hook
	if finOn && deleting {
		rt.Cover("finalizing")
		rt.Assert(len(fh.Calls) == 1 && len(sh.Calls) == 0, "deleting/sync-hook-called-instead-of-finalize")
		if len(fh.Calls) == 1 {
			rt.Assert(fh.Calls[0].Finalizing, "deleting/finalizing-flag-not-set")
		}
	} else {
		rt.Assert(len(sh.Calls) == 1 && len(fh.Calls) == 0, "live/wrong-hook")
		if len(sh.Calls) == 1 {
			rt.Assert(!sh.Calls[0].Finalizing, "live/finalizing-flag-set")
		}
	}
	// removal only on finalized:true (or as a leftover without a finalize hook)
	hadAfterSync := has || (finOn && !deleting) // finalizer present when the hook answer arrives
	if !finOn && has {
		rt.Cover("leftover-removed")
		rt.Assert(removeIdx >= 0, "leftover-finalizer-not-removed")
	} else if finalized && hadAfterSync {
		rt.Cover("removed-on-finalized")
		rt.Assert(removeIdx >= 0, "finalized/finalizer-not-removed")
	} else {
		rt.Assert(removeIdx < 0, "finalizer-removed-without-finalized-true")
	}
	// a parent pending deletion that has no finalize hook, has already lost the
	// finalizer, or carries a GC finalizer has no child created, updated or deleted
	if deleting && (!finOn || !has || gc) {
		rt.Cover("dying-parent-left-alone")
		rt.Assert(childWrites == 0, "dying-parent/child-written")
	} else if deleting && finalized {
		// the hook declared it is done (documented contract: only when the observed
		// state already is final); whether this last answer's children are still
		// applied is not part of the property
		rt.Cover("finalized-while-deleting")
		// ... but once the finalizer is gone the parent "has already lost the
		// finalizer": nothing may be written to a child after that request
		if removeIdx >= 0 {
			for i, r := range log {
				if i > removeIdx && r.IsWrite() && r.Resource == "configmaps" {
					rt.Assert(false, "dying-parent/child-written-after-the-finalizer-was-removed")
				}
			}
		}
	} else {
		// children are reconciled to the hook's answer
		rt.Cover("children-reconciled")
		rt.Assert(err == nil, "reconcile/error")
		rt.Assert(w.Srv.Peek("configmaps", "ns", "new") != nil, "reconcile/desired-child-not-created")
		rt.Assert(w.Srv.Peek("configmaps", "ns", "old") == nil, "reconcile/undesired-child-not-deleted")
	}
}

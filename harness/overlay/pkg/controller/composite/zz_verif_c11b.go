package composite

// C11, Level B — the status write at the end of a whole real syncParentObject,
// with the finalizer steps in front of it (they replace the in-memory parent by
// what the API server returned) and a live parent that differs from the cached
// one. Oracle from the statement: every accepted write on the parent resource
// targets the object with the observed UID; a status write carries the hook's
// status plus observedGeneration = generation of the parent that was SENT TO
// THE HOOK; spec, labels, annotations and owner data are those just read.

import (
	metav1 "k8s.io/apimachinery/pkg/apis/meta/v1"
	"k8s.io/apimachinery/pkg/apis/meta/v1/unstructured"

	v1 "metacontroller/pkg/controller/composite/api/v1"
	"metacontroller/pkg/zzverif/env"
	"metacontroller/pkg/zzverif/gen"
	rt "metacontroller/pkg/zzverif/rt"
)

func VerifC11_SyncTail() {
	w := env.NewWorld()
	puid := "puid"
	gen0 := rt.Int64("generation")
	rt.Assume(gen0 >= 1 && gen0 < 1000000)
	cached := env.Thing("ns", "p", puid)
	cached.Object["metadata"].(map[string]interface{})["generation"] = gen0
	cached.Object["spec"].(map[string]interface{})["x"] = rt.String("spec-x")
	env.SetLabel(cached, "l", rt.String("label"))
	env.SetAnnotation(cached, "a", rt.String("annotation"))

	finalizeHook := rt.Bool("finalize-hook")
	hasFin := rt.Bool("has-our-finalizer")
	deleting := rt.Bool("deleting")
	if hasFin {
		verifSetFinalizers(cached, verifFinalizerName)
	}
	// the controller may select its parents by label; a live parent that carries
	// our finalizer but no longer matches is finalized too (finalize-on-unmatch)
	unmatched := finalizeHook && hasFin && !deleting && rt.Bool("live-parent-no-longer-matches-the-controller-selector")
	if unmatched {
		rt.Cover("tail/finalize-on-unmatch")
	}
	if deleting {
		env.MarkDeleting(cached)
		if !hasFin {
			// something else holds it
			verifSetFinalizers(cached, "example.com/other")
		}
	}
	// live object: same / spec edited since / replaced under the same name / gone
	liveKind := rt.Choice("live", 4)
	var live *unstructured.Unstructured
	switch liveKind {
	case 0:
		live = cached.DeepCopy()
	case 1:
		rt.Cover("tail/live-spec-edited")
		live = cached.DeepCopy()
		live.Object["spec"].(map[string]interface{})["x"] = rt.String("live-spec-x")
		live.SetResourceVersion("8")
		live.SetGeneration(gen0 + 1)
	case 2:
		rt.Cover("tail/live-replaced")
		live = env.Thing("ns", "p", "another-uid")
		live.Object["spec"].(map[string]interface{})["x"] = rt.String("live-spec-x")
		live.SetGeneration(1)
		if rt.Bool("replacement-has-our-finalizer") {
			verifSetFinalizers(live, verifFinalizerName)
		}
	}
	var liveBefore *unstructured.Unstructured
	if live != nil {
		w.Srv.Put("things", live)
		liveBefore = live.DeepCopy()
	}

	phase := rt.String("phase")
	finalized := rt.Bool("hook-says-finalized")
	mkStatus := func() map[string]interface{} { return map[string]interface{}{"phase": phase} }
	answer := func(fin bool) func(req *v1.CompositeHookRequest) (*v1.CompositeHookResponse, error) {
		return func(req *v1.CompositeHookRequest) (*v1.CompositeHookResponse, error) {
			return &v1.CompositeHookResponse{Status: mkStatus(), Finalized: fin,
				Children: []*unstructured.Unstructured{env.ConfigMap("ns", "a", "", "v")}}, nil
		}
	}
	sync := &verifHook{enabled: true, fn: answer(false)}
	fin := &verifHook{enabled: finalizeHook, fn: answer(finalized)}
	var parentSel *metav1.LabelSelector
	if unmatched {
		parentSel = &metav1.LabelSelector{MatchLabels: map[string]string{"managed": "yes"}}
	}
	pc := verifNewPC(w, verifPCConfig{
		ParentRes: env.ThingRes, GenerateSelector: true, FinalizeEnabled: finalizeHook, ParentSelector: parentSel,
		Children: []verifChildRule{{Res: env.ConfigMapRes, Strategy: verifStrategyOf("InPlace")}},
		Sync:     sync, Finalize: fin,
	})
	pc.Snapshot([]*unstructured.Unstructured{cached}, nil, nil)
	// "the status write is attempted even when reconciling some children failed":
	// optionally the first write to a child (the create of "a") is answered with a 500
	childFails := rt.Bool("the-child-write-fails")
	if childFails {
		w.Srv.ArmFault(0, env.FaultInternal, "configmaps", false)
	}

	err := pc.syncParentObject(cached)
	rt.Observe("err", err != nil)
	if childFails {
		failed, statusTried := false, false
		for _, r := range w.Srv.Log {
			if r.Resource == "configmaps" && r.Err != nil {
				failed = true
			}
			if r.Resource == "things" && r.Sub == "status" {
				statusTried = true
			}
		}
		if failed {
			// (children are managed for a live parent and for one being finalized alike)
			rt.Cover("tail/child-write-failed")
			if liveKind <= 1 {
				// (a parent that is gone or was replaced has nothing left to report to)
				rt.Assert(err != nil, "tail/child-failure-not-reported")
			}
			if liveKind == 0 {
				rt.Assert(statusTried, "tail/status-write-skipped-after-child-failure")
			}
		}
	}

	// the parent that was sent to the hook (if any hook was called)
	var sent *unstructured.Unstructured
	if n := len(fin.Calls); n > 0 {
		sent = fin.Calls[n-1].Parent
	} else if n := len(sync.Calls); n > 0 {
		sent = sync.Calls[n-1].Parent
	}
	nStatus := 0
	for _, r := range w.Srv.Log {
		if !r.IsWrite() || r.Resource != "things" {
			continue
		}
		rt.Assert(r.Verb == "update" && r.Name == "p" && r.NS == "ns", "tail/unexpected-parent-write")
		if !r.Accepted {
			continue
		}
		// never a same-named parent with a different UID
		rt.Assert(r.Pre != nil && string(r.Pre.GetUID()) == puid, "tail/accepted-write-on-same-named-parent-with-different-uid")
		if r.Pre == nil {
			continue
		}
		gen.Equal(r.Body.Object["spec"], r.Pre.Object["spec"], "tail/parent-write-alters-spec")
		bm, pm := r.Body.Object["metadata"].(map[string]interface{}), r.Pre.Object["metadata"].(map[string]interface{})
		gen.Equal(bm["labels"], pm["labels"], "tail/parent-write-alters-labels")
		gen.Equal(bm["annotations"], pm["annotations"], "tail/parent-write-alters-annotations")
		gen.Equal(bm["ownerReferences"], pm["ownerReferences"], "tail/parent-write-alters-ownerReferences")
		if r.Sub == "status" {
			nStatus++
			rt.Cover("tail/status-written")
			rt.Assert(sent != nil, "tail/status-written-without-hook-call")
			if sent == nil {
				continue
			}
			st, _ := r.Body.Object["status"].(map[string]interface{})
			rt.Assert(st != nil, "tail/status-body-missing")
			if st == nil {
				continue
			}
			rt.Assert(len(st) == 2, "tail/status-has-other-keys-than-hook-status-and-observedGeneration")
			rt.Assert(st["phase"] == phase, "tail/status-differs-from-hook-status")
			og, _ := st["observedGeneration"].(int64)
			rt.Assert(og == sent.GetGeneration(), "tail/observedGeneration-is-not-the-generation-sent-to-the-hook")
			gen.Equal(bm["finalizers"], pm["finalizers"], "tail/status-write-alters-finalizers")
		} else {
			rt.Assert(r.Sub == "", "tail/unexpected-subresource")
			// a finalizer edit: status untouched
			gen.Equal(r.Body.Object["status"], r.Pre.Object["status"], "tail/finalizer-write-alters-status")
		}
	}
	rt.Assert(nStatus <= 1, "tail/more-than-one-accepted-status-write")
	// a replaced parent is never modified at all
	if liveKind == 2 {
		cur := w.Srv.Peek("things", "ns", "p")
		rt.Assert(cur != nil, "tail/replacement-removed")
		if cur != nil {
			gen.Equal(cur.Object, liveBefore.Object, "tail/replacement-modified")
		}
	}
	// positive: the plain case writes the status
	if liveKind == 0 && err == nil && sent != nil && !deleting {
		cur := w.Srv.Peek("things", "ns", "p")
		st, _ := cur.Object["status"].(map[string]interface{})
		rt.Assert(st != nil && st["phase"] == phase, "tail/status-not-stored")
		if st != nil {
			og, _ := st["observedGeneration"].(int64)
			rt.Assert(og == gen0, "tail/stored-observedGeneration")
		}
		rt.Cover("tail/plain-status-stored")
	}
}

// VerifC11_ConflictSequence: the status write meets k conflicts in a row, and at
// every conflict ANOTHER WRITER really changes the parent (spec edit, generation
// bump). Every attempt must be preceded by its own fresh read and carry the
// object just read with only the status replaced; when the call succeeds the
// stored status is the hook's; when it gives up it was retried at least once and
// reports the conflict.
func VerifC11_ConflictSequence() {
	w := env.NewWorld()
	gen0 := rt.Int64("generation")
	rt.Assume(gen0 >= 1 && gen0 < 1000000)
	cached := env.Thing("ns", "p", "puid")
	cached.Object["metadata"].(map[string]interface{})["generation"] = gen0
	cached.Object["spec"].(map[string]interface{})["x"] = "x0"
	w.Srv.Put("things", cached)
	maxK := 3
	if rt.Tier() == 1 {
		maxK = 6
	}
	k := rt.Choice("conflicts-in-a-row", maxK+1)
	other := rt.Bool("then-a-non-conflict-error")
	plan := make([]int, 0, k+1)
	for i := 0; i < k; i++ {
		plan = append(plan, env.FaultConflict)
	}
	if other {
		plan = append(plan, env.FaultInternal)
	}
	// the winner of the LAST conflict may have deleted the parent and created
	// another one under the same name: that one is never written
	replaced := k >= 1 && !other && rt.Bool("the-last-conflict-was-won-by-a-delete-and-recreate")
	w.Srv.FaultPlan = plan
	w.Srv.FaultOnlyResource = "things"
	edits := 0
	replacedDone := false // (with more conflicts than the retry budget the last one is never reached)
	w.Srv.OnFault = func(n int) {
		if n >= k {
			return
		}
		if replaced && n == k-1 {
			replacedDone = true
			repl := env.Thing("ns", "p", "puid-recreated")
			repl.Object["spec"].(map[string]interface{})["x"] = "of-the-new-parent"
			w.Srv.Put("things", repl)
			return
		}
		// the writer that won the race: spec edit, new resourceVersion and generation
		edits++
		cur := w.Srv.Peek("things", "ns", "p").DeepCopy()
		cur.Object["spec"].(map[string]interface{})["x"] = "x" + string(rune('0'+edits))
		cur.SetGeneration(cur.GetGeneration() + 1)
		cur.SetResourceVersion(cur.GetResourceVersion() + "+")
		w.Srv.Put("things", cur)
	}
	phase := rt.String("phase")
	// (through a WHOLE real sync - a hook that returns the status, no child
	// resources - not through an internal function whose contract a refactoring
	// may move; the sync takes a conflict it finally loses as "reconcile again",
	// so success is read off the stored object, not off the returned error)
	hook := &verifHook{enabled: true, fn: func(req *v1.CompositeHookRequest) (*v1.CompositeHookResponse, error) {
		return &v1.CompositeHookResponse{Status: map[string]interface{}{"phase": phase}}, nil
	}}
	pc := verifNewPC(w, verifPCConfig{ParentRes: env.ThingRes, GenerateSelector: true, Sync: hook})
	err := pc.syncParentObject(cached)
	rt.Observe("err", err != nil)

	// every write attempt is preceded by its own read and carries what was read
	var lastGet *env.Req
	attempts, gets := 0, 0
	for i := range w.Srv.Log {
		r := &w.Srv.Log[i]
		if r.Resource != "things" {
			continue
		}
		if r.Verb == "get" {
			gets++
			lastGet = r
			continue
		}
		attempts++
		rt.Assert(r.Verb == "update" && r.Sub == "status", "conflicts/unexpected-write")
		rt.Assert(lastGet != nil, "conflicts/write-without-a-read")
		if lastGet == nil || lastGet.Pre == nil || r.Body == nil {
			continue
		}
		gen.Equal(r.Body.Object["spec"], lastGet.Pre.Object["spec"], "conflicts/retry-does-not-carry-the-freshly-read-spec")
		gen.Equal(r.Body.Object["metadata"], lastGet.Pre.Object["metadata"], "conflicts/retry-does-not-carry-the-freshly-read-metadata")
		st, _ := r.Body.Object["status"].(map[string]interface{})
		rt.Assert(st != nil && st["phase"] == phase, "conflicts/status-differs-from-hook-status")
		if st != nil {
			og, _ := st["observedGeneration"].(int64)
			rt.Assert(og == gen0, "conflicts/observedGeneration-is-not-the-generation-sent-to-the-hook")
		}
		lastGet = nil // the next attempt needs its own read
	}
	rt.Assert(gets >= attempts, "conflicts/fewer-reads-than-write-attempts")
	cur := w.Srv.Peek("things", "ns", "p")
	cst, _ := cur.Object["status"].(map[string]interface{})
	if replacedDone {
		rt.Cover("conflicts/parent-replaced-meanwhile")
		for i := range w.Srv.Log {
			r := &w.Srv.Log[i]
			if r.Resource == "things" && r.IsWrite() && r.Accepted {
				rt.Assert(r.Pre != nil && string(r.Pre.GetUID()) == "puid", "conflicts/status-written-to-a-same-named-parent-with-another-uid")
			}
		}
		rt.Assert(string(cur.GetUID()) == "puid-recreated", "conflicts/replacement-vanished")
		rt.Assert(cst == nil, "conflicts/status-written-to-a-same-named-parent-with-another-uid")
		sp, _ := cur.Object["spec"].(map[string]interface{})
		rt.Assert(sp["x"] == "of-the-new-parent", "conflicts/replacement-modified")
		return
	}
	stored := cst != nil && cst["phase"] == phase
	if stored {
		rt.Assert(err == nil, "conflicts/error-although-the-status-was-stored")
		rt.Cover("conflicts/succeeded")
		// (whether an error other than a conflict ends the retries or is retried
		// too is C12's business, not C11's: if the call reports success, it went
		// through everything that was in its way)
		want := k + 1
		if other {
			want = k + 2
		}
		rt.Assert(attempts == want, "conflicts/success-without-passing-all-conflicts")
		rt.Assert(cst != nil && cst["phase"] == phase, "conflicts/status-not-stored-although-no-error")
		// the winner's spec edits survive
		sp, _ := cur.Object["spec"].(map[string]interface{})
		rt.Assert(sp["x"] == "x"+string(rune('0'+edits)), "conflicts/concurrent-spec-edit-lost")
	} else {
		rt.Cover("conflicts/gave-up")
		if k >= 1 {
			rt.Assert(attempts >= 2, "conflicts/not-retried-after-a-conflict")
		}
		if other && attempts == k+1 {
			rt.Cover("conflicts/non-conflict-error-ends-the-retries")
		}
		rt.Assert(attempts <= k+1, "conflicts/retried-after-a-non-conflict-error-or-beyond-the-plan")
	}
}

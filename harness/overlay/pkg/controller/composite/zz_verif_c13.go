package composite

// C13 — no hook response, however malformed, can crash metacontroller or cause
// writes.  The decoded response (the value the JSON decoder hands to the
// controller) ranges over a bounded universe of near-valid answers; one whole
// real syncParentObject processes it. A panic on any path is a violation
// (label "no-panic"); a rejected response must not cause child writes.

import (
	"k8s.io/apimachinery/pkg/apis/meta/v1/unstructured"

	v1 "metacontroller/pkg/controller/composite/api/v1"
	"metacontroller/pkg/zzverif/env"
	rt "metacontroller/pkg/zzverif/rt"
)

// verifWrongType returns a JSON value of a symbolic "wrong" type.
func verifWrongType(tag string) (interface{}, bool) {
	switch rt.Choice(tag, 6) {
	case 0:
		return nil, false // field absent
	case 1:
		return nil, true // null
	case 2:
		return rt.Int64(tag + ".int"), true
	case 3:
		return rt.Bool(tag + ".bool"), true
	case 4:
		return []interface{}{rt.String(tag + ".item")}, true
	default:
		return map[string]interface{}{"x": rt.String(tag + ".x")}, true
	}
}

func verifSetOrDelete(m map[string]interface{}, key string, v interface{}, present bool) {
	if present {
		m[key] = v
	} else {
		delete(m, key)
	}
}

// verifMalformedChild returns a child in which one field is replaced by a value of another JSON type.
func verifMalformedChild(name string) (*unstructured.Unstructured, string) {
	c := env.ConfigMap("ns", name, "", "v")
	md := c.Object["metadata"].(map[string]interface{})
	md["labels"] = map[string]interface{}{"app": "x"}
	switch rt.Choice("malformed-field", 11) {
	case 0:
		return c, "valid"
	case 1:
		return nil, "null-child"
	case 2:
		v, p := verifWrongType("metadata")
		verifSetOrDelete(c.Object, "metadata", v, p)
		return c, "metadata"
	case 3:
		v, p := verifWrongType("name")
		verifSetOrDelete(md, "name", v, p)
		return c, "metadata.name"
	case 4:
		v, p := verifWrongType("namespace")
		verifSetOrDelete(md, "namespace", v, p)
		return c, "metadata.namespace"
	case 5:
		if rt.Bool("labels-not-a-map") {
			md["labels"] = rt.String("labels-string")
		} else {
			md["labels"] = map[string]interface{}{"app": rt.Int64("label-int")}
		}
		return c, "metadata.labels"
	case 6:
		v, p := verifWrongType("annotations")
		verifSetOrDelete(md, "annotations", v, p)
		return c, "metadata.annotations"
	case 7:
		if rt.Bool("ownerrefs-list-of-strings") {
			md["ownerReferences"] = []interface{}{rt.String("ownerref-item")}
		} else {
			v, p := verifWrongType("ownerReferences")
			verifSetOrDelete(md, "ownerReferences", v, p)
		}
		return c, "metadata.ownerReferences"
	case 8:
		v, p := verifWrongType("apiVersion")
		verifSetOrDelete(c.Object, "apiVersion", v, p)
		return c, "apiVersion"
	case 9:
		v, p := verifWrongType("kind")
		verifSetOrDelete(c.Object, "kind", v, p)
		return c, "kind"
	default:
		v, p := verifWrongType("data")
		verifSetOrDelete(c.Object, "data", v, p)
		return c, "data"
	}
}

func VerifC13_MalformedResponse() {
	w := env.NewWorld()
	parent := env.Thing("ns", "p", "puid")
	gensel := rt.Bool("generateSelector")
	if !gensel {
		parent.Object["spec"].(map[string]interface{})["selector"] = map[string]interface{}{"matchLabels": map[string]interface{}{"app": "x"}}
		parent.Object["spec"].(map[string]interface{})["template"] = map[string]interface{}{"metadata": map[string]interface{}{"labels": map[string]interface{}{"app": "x"}}}
	}
	w.Srv.Put("things", parent)
	method := "InPlace"
	rolling := rt.Bool("rolling")
	if rolling {
		method = "RollingInPlace"
	}
	bad, what := verifMalformedChild("a")
	children := []*unstructured.Unstructured{bad}
	switch rt.Choice("second-entry", 4) {
	case 1:
		good := env.ConfigMap("ns", "b", "", "v")
		env.SetLabel(good, "app", "x")
		children = append(children, good)
	case 2:
		// two adjacent nulls when the first one is null too
		children = append(children, nil)
	case 3:
		good := env.ConfigMap("ns", "b", "", "v")
		env.SetLabel(good, "app", "x")
		children = append(children, nil, nil, good)
	}
	var status map[string]interface{}
	statusKind := rt.Choice("status", 3)
	switch statusKind {
	case 1:
		status = map[string]interface{}{"phase": rt.String("phase")}
	case 2:
		// conditions of the wrong type / an `Updated` condition of its own
		if rt.Bool("conditions-wrong-type") {
			status = map[string]interface{}{"conditions": rt.String("conditions-string")}
		} else {
			status = map[string]interface{}{"conditions": []interface{}{map[string]interface{}{"type": "Updated", "status": "True"}, rt.String("junk-condition")}}
		}
	}
	resync := []float64{0, -1, 1e300}[rt.Choice("resyncAfterSeconds", 3)]
	hook := &verifHook{enabled: true, fn: func(req *v1.CompositeHookRequest) (*v1.CompositeHookResponse, error) {
		return &v1.CompositeHookResponse{Children: children, Status: status, ResyncAfterSeconds: resync, Finalized: false}, nil
	}}
	pc := verifNewPC(w, verifPCConfig{
		ParentRes: env.ThingRes, GenerateSelector: gensel,
		Children: []verifChildRule{{Res: env.ConfigMapRes, Strategy: verifStrategyOf(method)}},
		Sync:     hook,
	})
	pc.SnapshotFromStore()
	err := pc.syncParentObject(pc.W.Srv.All("things")[0])
	rt.Observe("err", err != nil)
	rt.Observe("what", what)
	cw := verifChildWrites(w.Srv.Log, "things")
	if what == "valid" {
		rt.Cover("valid-response")
		if statusKind != 2 {
			rt.Assert(err == nil, "valid-response/error")
		}
		return
	}
	if err != nil {
		rt.Cover("rejected")
	} else {
		rt.Cover("accepted")
	}
	// a rejected response causes no write for the malformed child; objects created
	// from a response are well-formed enough for the API server to identify them
	for _, r := range cw {
		rt.Assert(r.Resource == "configmaps", "write-to-undeclared-resource")
	}
	if what == "metadata.labels" {
		rt.Cover("bad-labels")
		rt.Assert(err != nil, "bad-labels/accepted")
		rt.Assert(len(cw) == 0, "bad-labels/child-written-although-response-rejected")
	}
}

// verifCondEntry returns one entry of a status.conditions list: a value of a
// wrong JSON type, or an object whose `type` / `status` members have symbolic
// wrong types.
func verifCondEntry(tag string) interface{} {
	switch rt.Choice(tag, 4) {
	case 0:
		v, _ := verifWrongType(tag + ".entry")
		return v // nil (null entry) or a scalar / list / object without `type`
	case 1:
		return map[string]interface{}{"type": "Updated", "status": rt.String(tag + ".status")}
	case 2:
		return map[string]interface{}{"type": rt.String(tag + ".type"), "status": "True"}
	default:
		m := map[string]interface{}{}
		t, has := verifWrongType(tag + ".type")
		verifSetOrDelete(m, "type", t, has)
		s, has := verifWrongType(tag + ".status")
		verifSetOrDelete(m, "status", s, has)
		return m
	}
}

// VerifC13_MalformedStatus: a decodable response with a well-formed child and a
// status whose `conditions` member is malformed in every way JSON allows, under
// a rolling and a non-rolling strategy (the rolling path edits the hook's
// conditions in place: SetCondition). Nothing may panic; the child is
// reconciled; the status written keeps the phase the hook sent.
func VerifC13_MalformedStatus() {
	w := env.NewWorld()
	parent := env.Thing("ns", "p", "puid")
	w.Srv.Put("things", parent)
	method := "InPlace"
	if rt.Bool("rolling") {
		method = "RollingInPlace"
		if rt.Bool("recreate") {
			method = "RollingRecreate"
		}
	}
	phase := rt.String("phase")
	status := map[string]interface{}{"phase": phase}
	switch rt.Choice("conditions", 4) {
	case 0:
		v, has := verifWrongType("conditions")
		verifSetOrDelete(status, "conditions", v, has)
	case 1:
		status["conditions"] = []interface{}{}
	case 2:
		status["conditions"] = []interface{}{verifCondEntry("c0")}
	default:
		status["conditions"] = []interface{}{verifCondEntry("c0"), verifCondEntry("c1")}
	}
	hook := &verifHook{enabled: true, fn: func(req *v1.CompositeHookRequest) (*v1.CompositeHookResponse, error) {
		return &v1.CompositeHookResponse{Children: []*unstructured.Unstructured{env.ConfigMap("ns", "a", "", "v")}, Status: status}, nil
	}}
	pc := verifNewPC(w, verifPCConfig{
		ParentRes: env.ThingRes, GenerateSelector: true,
		Children: []verifChildRule{{Res: env.ConfigMapRes, Strategy: verifStrategyOf(method)}},
		Sync:     hook,
	})
	pc.SnapshotFromStore()
	err := pc.syncParentObject(pc.W.Srv.All("things")[0])
	rt.Observe("err", err != nil)
	if err != nil {
		rt.Cover("status/rejected")
		return
	}
	rt.Cover("status/accepted")
	rt.Assert(w.Srv.Peek("configmaps", "ns", "a") != nil, "status/child-not-created-although-sync-succeeded")
	p := w.Srv.Peek("things", "ns", "p")
	st, _ := p.Object["status"].(map[string]interface{})
	rt.Assert(st != nil, "status/not-written-although-sync-succeeded")
	if st != nil {
		rt.Assert(st["phase"] == phase, "status/phase-lost")
	}
}

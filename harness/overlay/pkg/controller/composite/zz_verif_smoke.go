package composite

import (
	"k8s.io/apimachinery/pkg/apis/meta/v1/unstructured"

	"metacontroller/pkg/zzverif/env"
	rt "metacontroller/pkg/zzverif/rt"
)

// VerifSmoke_Sync: one whole composite sync, concrete except two values.
func VerifSmoke_Sync() {
	w := env.NewWorld()
	parent := env.Thing("ns", "p", "puid")
	w.Srv.Put("things", parent)
	owned := env.ConfigMap("ns", "a", "ua", rt.String("old"))
	env.SetLabel(owned, "controller-uid", "puid")
	env.AddOwnerRef(owned, env.OwnerRefMap("ex.com/v1", "Thing", "p", "puid", true))
	w.Srv.Put("configmaps", owned)
	desired := []*unstructured.Unstructured{env.ConfigMap("ns", "a", "", rt.String("new")), env.ConfigMap("", "b", "", "x")}
	pc := verifNewPC(w, verifPCConfig{
		ParentRes: env.ThingRes, GenerateSelector: true,
		Children: []verifChildRule{{Res: env.ConfigMapRes, Strategy: verifStrategyOf("InPlace")}},
		Sync:     verifConstHook(desired, map[string]interface{}{"ok": "yes"}, false),
	})
	pc.SnapshotFromStore()
	err := pc.syncParentObject(pc.W.Srv.All("things")[0])
	rt.Observe("err", err != nil)
	rt.Assert(err == nil, "sync-error")
	n := map[string]int{}
	for _, r := range w.Srv.Log {
		n[r.Verb+"/"+r.Sub+"/"+r.Resource+"/"+r.Name]++
	}
	rt.Observe("update-a", n["update//configmaps/a"])
	rt.Observe("create-b", n["create//configmaps/b"])
	rt.Observe("status", n["update/status/things/p"])
	rt.Observe("requests", len(w.Srv.Log))
	rt.Observe("hookcalls", len(pc.Cfg.Sync.Calls))
}

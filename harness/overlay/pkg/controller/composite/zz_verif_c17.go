package composite

// C17 (read-only caches, rolling path) — the parent that an older
// ControllerRevision stands for is materialised by patching a COPY of the
// cached parent; with nested revision-history field paths the patch writes
// inside `spec`, so a shallow copy would rewrite the shared cache object and
// every hook would be sent the old template.

import (
	"k8s.io/apimachinery/pkg/apis/meta/v1/unstructured"

	rt "metacontroller/pkg/zzverif/rt"
)

func VerifC17_RollingRevisionParents() {
	namespaced := rt.Bool("namespaced")
	nested := rt.Bool("nested-field-path")
	x1 := rt.String("old-value")
	x2 := rt.String("new-value")
	rt.Assume(x1 != x2)
	r := verifNewRollWorldNested(namespaced, nested, verifRollMethod(), []string{"a", "b"}, x1)
	// a hook may leave the status out: the rollout condition is then built on a
	// fresh map, never inside the cached parent's own status
	if rt.Bool("hook-answers-without-a-status") {
		rt.Cover("null-hook-status")
		r.nullStatus = true
	}
	rt.Assert(r.sync() == nil, "first-sync/error")
	r.markHealthy()
	r.setSpec(x2)
	r.pc.SnapshotFromStore()
	cached := r.pc.W.Srv.All(r.parentRes.Name)[0]
	fp := verifFingerprint(append([]*unstructured.Unstructured{cached}, verifListerItems(r.pc)...), verifRevItems(r.pc))
	hook := r.pc.Cfg.Sync
	hook.Calls = nil
	err := r.pc.syncParentObject(cached)
	rt.Assert(err == nil, "rolling-sync/error")
	fp.AssertUnchanged("C17/cache-object-mutated-while-materialising-revision-parents")
	// each revision's hook call is sent the parent of THAT revision
	rt.Assert(len(hook.Calls) == 2, "rolling-sync/expected-one-hook-call-per-revision")
	sawOld, sawNew := false, false
	for _, c := range hook.Calls {
		v, _, _ := unstructured.NestedString(c.Parent.Object, "spec", "x")
		if nested {
			v, _, _ = unstructured.NestedString(c.Parent.Object, "spec", "template", "v")
		}
		if v == x1 {
			sawOld = true
		}
		if v == x2 {
			sawNew = true
		}
	}
	rt.Assert(sawOld, "hook-view/old-revision-not-sent-its-own-parent")
	rt.Assert(sawNew, "hook-view/latest-revision-not-sent-the-live-parent")
	rt.Cover("two-revisions-synced")
}

package composite

// C03 — the hook sees exactly the children the parent owns, in the documented shape.
//
// VerifC03_HookView  cache snapshot -> REAL pc.claimChildren -> REAL pc.callHook
//                    (requestBuilder.Build, UniformObjectMap.Convert,
//                    RelativeObjectMap.Insert/relativeName); the request the stub
//                    hook received is compared with an independent predicate
//                    over the snapshot.
// VerifC03_Convert   hand-made observed/related maps with objects of foreign
//                    namespaces and cluster scope through pc.callHook: the wire
//                    conversion's namespace filter.
// VerifC03_KeyText   GroupVersionKind.MarshalText and the relative-name rule on
//                    fully symbolic strings (pure solver string reasoning).

import (
	"k8s.io/apimachinery/pkg/apis/meta/v1/unstructured"
	"k8s.io/apimachinery/pkg/runtime/schema"

	"metacontroller/pkg/controller/common/api"
	commonv1 "metacontroller/pkg/controller/common/api/v1"
	commonv2 "metacontroller/pkg/controller/common/api/v2"
	v1 "metacontroller/pkg/controller/composite/api/v1"
	dynamicdiscovery "metacontroller/pkg/dynamic/discovery"
	"metacontroller/pkg/zzverif/env"
	rt "metacontroller/pkg/zzverif/rt"
)

var verifC03Num = []string{"0", "1", "2", "3"}

func verifC03Pick(tag string, n int) int {
	c := rt.Choice(tag, n)
	for i := 0; i < n-1; i++ {
		if c == i {
			return i
		}
	}
	return n - 1
}

const (
	verifC03OwnedMatching = iota
	verifC03OwnedNonMatching
	verifC03OrphanMatching
	verifC03OrphanNonMatching
	verifC03Foreign
	verifC03OtherNamespace
	verifC03OwnedDeleting
	verifC03OrphanDeleting
	verifC03Kinds
)

type verifC03Obj struct {
	kind     int
	ns, name string
	obj      *unstructured.Unstructured
	selected bool   // the independent predicate
	key      string // the documented inner key
}

func verifC03GVK(r *dynamicdiscovery.APIResource) api.GroupVersionKind {
	return api.GroupVersionKind{GroupVersionKind: r.GroupVersionKind()}
}

// verifC03Make builds one cached object of the given kind.
func verifC03Make(res *dynamicdiscovery.APIResource, kind int, ns, name, uid string, parent *unstructured.Unstructured, selKey, selVal, noVal, foreignUID string) *unstructured.Unstructured {
	o := env.Obj(res.APIVersion, res.Kind, ns, name, uid)
	matching := kind != verifC03OwnedNonMatching && kind != verifC03OrphanNonMatching
	if matching {
		env.SetLabel(o, selKey, selVal)
	} else {
		env.SetLabel(o, selKey, noVal)
	}
	switch kind {
	case verifC03OwnedMatching, verifC03OwnedNonMatching, verifC03OtherNamespace, verifC03OwnedDeleting:
		env.AddOwnerRef(o, env.OwnerRefMap(parent.GetAPIVersion(), parent.GetKind(), parent.GetName(), string(parent.GetUID()), true))
	case verifC03Foreign:
		env.AddOwnerRef(o, env.OwnerRefMap(parent.GetAPIVersion(), parent.GetKind(), "q", foreignUID, true))
	}
	if kind == verifC03OwnedDeleting || kind == verifC03OrphanDeleting {
		env.MarkDeleting(o)
		o.SetFinalizers([]string{"someone/else"})
	}
	return o
}

func VerifC03_HookView() {
	w := env.NewWorld()
	puid := rt.String("parent-uid")
	rt.Assume(puid != "")
	fuid := rt.String("foreign-uid")
	rt.Assume(fuid != puid)
	genSel := rt.Bool("generate-selector")
	// 0: namespaced parent, namespaced children; 1: cluster-scoped parent,
	// namespaced children; 2: cluster-scoped parent, cluster-scoped children
	// (and a second, namespaced, child resource)
	scope := verifC03Pick("scope", 3)
	finalizing := false
	if scope == 0 {
		// (also in the quick tier: a parent being finalized still claims, but never
		// releases - a seeded change hid behind this dimension)
		finalizing = rt.Bool("finalizing")
	}

	var parent *unstructured.Unstructured
	parentRes := env.ThingRes
	if scope == 0 {
		parent = env.Thing("ns", "p", puid)
	} else {
		parentRes = env.ClusterThingRes
		parent = env.Obj("ex.com/v1", "ClusterThing", "", "p", puid)
	}
	selKey, selVal, noVal := "app", "sel", "nosel"
	if genSel {
		selKey, selVal = "controller-uid", puid
		noVal = rt.String("another-uid")
		rt.Assume(noVal != puid)
		if rt.Bool("parent-still-carries-a-spec-selector") {
			// left over from before selector generation was switched on: ignored
			rt.Cover("generated-selector-with-leftover-spec-selector")
			parent.Object["spec"] = map[string]interface{}{"selector": map[string]interface{}{"matchLabels": map[string]interface{}{"app": "sel"}}}
		}
	} else {
		parent.Object["spec"] = map[string]interface{}{"selector": map[string]interface{}{"matchLabels": map[string]interface{}{"app": "sel"}}}
	}
	if finalizing {
		env.MarkDeleting(parent)
		parent.SetFinalizers([]string{verifFinalizerName})
	}
	w.Srv.Put(parentRes.Name, parent)

	res1, res2 := env.ConfigMapRes, env.WidgetRes
	if scope == 2 {
		res1, res2 = env.NamespaceRes, env.ConfigMapRes
	}

	// objects of the first child resource
	maxObjs := 2 + rt.Tier()
	if scope == 1 {
		maxObjs = 2 // symbolic namespaces: every pair of objects forks on namespace equality
	}
	n1 := 1 + verifC03Pick("objects", maxObjs)
	var objs []*verifC03Obj
	var cache1, cache2 []*unstructured.Unstructured
	for i := 0; i < n1; i++ {
		kinds := verifC03Kinds
		if i == 2 {
			kinds = verifC03Foreign + 1 // the third object (thorough tier): ownership x matching only
		}
		x := &verifC03Obj{kind: verifC03Pick("kind"+verifC03Num[i], kinds), name: "c" + verifC03Num[i]}
		switch scope {
		case 0:
			x.ns = "ns"
			if x.kind == verifC03OtherNamespace {
				x.ns = rt.String("other-namespace" + verifC03Num[i])
				rt.Assume(x.ns != "ns")
				rt.Assume(x.ns != "")
			}
			x.key = x.name
		case 1:
			x.ns = rt.String("namespace" + verifC03Num[i])
			rt.Assume(x.ns != "")
			x.key = x.ns + "/" + x.name
		case 2:
			x.key = x.name
		}
		x.obj = verifC03Make(res1, x.kind, x.ns, x.name, "u"+verifC03Num[i], parent, selKey, selVal, noVal, fuid)
		switch x.kind {
		case verifC03OwnedMatching, verifC03OwnedDeleting:
			x.selected = true
		case verifC03OrphanMatching:
			x.selected = !finalizing // adopted by this sync; a parent being deleted adopts nothing
		case verifC03OtherNamespace:
			x.selected = scope != 0
		}
		objs = append(objs, x)
		cache1 = append(cache1, x.obj)
		w.Srv.Put(res1.Name, x.obj)
	}
	// 0..1 objects of the second declared child resource (always namespaced)
	var second *verifC03Obj
	switch verifC03Pick("second-resource-object", 3) {
	case 1:
		second = &verifC03Obj{kind: verifC03OwnedMatching, selected: true}
	case 2:
		second = &verifC03Obj{kind: verifC03Foreign}
	}
	if second != nil {
		second.name = "w"
		if scope == 0 {
			second.ns, second.key = "ns", "w"
		} else {
			second.ns = rt.String("namespace-second")
			rt.Assume(second.ns != "")
			second.key = second.ns + "/w"
		}
		second.obj = verifC03Make(res2, second.kind, second.ns, "w", "uw", parent, selKey, selVal, noVal, fuid)
		cache2 = append(cache2, second.obj)
		w.Srv.Put(res2.Name, second.obj)
	}

	// the hook answers with one child without and one with a namespace
	respChildren := []*unstructured.Unstructured{env.ConfigMap("", "r0", "", "v"), env.ConfigMap("explicit", "r1", "", "v")}
	hook := verifConstHook(respChildren, nil, false)
	cfg := verifPCConfig{
		ParentRes: parentRes, GenerateSelector: genSel, FinalizeEnabled: finalizing,
		Children: []verifChildRule{{Res: res1, Strategy: verifStrategyOf("InPlace")}, {Res: res2, Strategy: verifStrategyOf("InPlace")}},
	}
	if finalizing {
		cfg.Finalize = hook
	} else {
		cfg.Sync = hook
	}
	pc := verifNewPC(w, cfg)
	pc.Snapshot([]*unstructured.Unstructured{parent}, map[string][]*unstructured.Unstructured{res1.Name: cache1, res2.Name: cache2}, nil)

	observed, err := pc.claimChildren(parent)
	rt.Assert(err == nil, "claim/error")
	if err != nil {
		return
	}
	for _, r := range w.Srv.Log {
		rt.Assert(r.Err == nil, "claim/request-failed")
	}
	resp, err := pc.callHook(parent, observed, commonv2.UniformObjectMap{})
	rt.Assert(err == nil, "hook/error")
	if err != nil {
		return
	}
	rt.Observe("hook-calls", len(hook.Calls))
	rt.Assert(len(hook.Calls) == 1, "hook/not-called-exactly-once")
	if len(hook.Calls) != 1 {
		return
	}
	req := hook.Calls[0]
	rt.Assert(req.Parent == parent, "request/parent")
	rt.Assert(req.Controller == pc.cc, "request/controller")
	rt.Assert(req.Finalizing == finalizing, "request/finalizing-flag")
	rt.Assert(len(req.Related) == 0, "request/related-not-empty")

	// ---- one entry per declared child resource, present even when empty ----
	rt.Assert(len(req.Children) == 2, "children/group-count")
	g1, has1 := req.Children[verifC03GVK(res1)]
	g2, has2 := req.Children[verifC03GVK(res2)]
	rt.Assert(has1 && g1 != nil, "children/declared-group-missing")
	rt.Assert(has2 && g2 != nil, "children/declared-group-missing")

	// ---- precisely the selected objects, under the documented keys ----
	check := func(grp map[string]*unstructured.Unstructured, list []*verifC03Obj) {
		want := 0
		for _, x := range list {
			if x.selected {
				want++
				got, has := grp[x.key]
				rt.Assert(has, "children/owned-child-missing-or-wrong-key")
				if has {
					rt.Assert(got == x.obj, "children/entry-is-another-object")
				}
			}
		}
		rt.Assert(len(grp) == want, "children/object-count")
		// nothing else is in there (whatever its key)
		for _, got := range grp {
			found := false
			for _, x := range list {
				if x.selected && got == x.obj {
					found = true
				}
			}
			rt.Assert(found, "children/foreign-object-in-view")
		}
	}
	check(g1, objs)
	if second != nil {
		check(g2, []*verifC03Obj{second})
	} else {
		rt.Cover("empty-group-present")
		rt.Assert(len(g2) == 0, "children/object-count")
	}
	nsel := 0
	for _, x := range objs {
		if x.selected {
			nsel++
		}
		switch x.kind {
		case verifC03OwnedNonMatching:
			rt.Cover("released-not-shown")
		case verifC03OrphanMatching:
			if x.selected {
				rt.Cover("adopted-shown")
			}
		case verifC03Foreign:
			rt.Cover("foreign-not-shown")
		case verifC03OtherNamespace:
			if scope == 0 {
				rt.Cover("other-namespace-not-shown")
			}
		case verifC03OwnedDeleting:
			rt.Cover("owned-being-deleted-shown")
		case verifC03OrphanDeleting:
			rt.Cover("orphan-being-deleted-not-shown")
		}
	}
	rt.Observe("selected", nsel)
	switch scope {
	case 0:
		rt.Cover("namespaced-parent")
	case 1:
		rt.Cover("cluster-parent/namespaced-children")
	case 2:
		rt.Cover("cluster-parent/cluster-children")
	}
	if finalizing {
		rt.Cover("finalize-hook")
	}

	// ---- a returned child without namespace lands in the parent's namespace ----
	rt.Assert(resp != nil && len(resp.Children) == 2, "response/children")
	if resp != nil && len(resp.Children) == 2 {
		rt.Assert(resp.Children[0].GetNamespace() == parent.GetNamespace(), "response/namespace-not-defaulted-to-parent")
		rt.Assert(resp.Children[1].GetNamespace() == "explicit", "response/explicit-namespace-changed")
		rt.Assert(resp.Children[0].GetName() == "r0" && resp.Children[1].GetName() == "r1", "response/order")
	}
}

// VerifC03_Convert: objects that must never reach a namespaced parent's hook
// (other namespace, cluster scope) handed to callHook in the observed and the
// related map.
func VerifC03_Convert() {
	w := env.NewWorld()
	clusterParent := rt.Bool("cluster-parent")
	var parent *unstructured.Unstructured
	parentRes := env.ThingRes
	pns := ""
	if clusterParent {
		parentRes = env.ClusterThingRes
		parent = env.Obj("ex.com/v1", "ClusterThing", "", "p", "puid")
	} else {
		pns = rt.String("parent-namespace")
		rt.Assume(pns != "")
		parent = env.Thing(pns, "p", "puid")
	}
	nsA := rt.String("namespace-a") // may or may not be the parent's
	rt.Assume(nsA != "")
	a := env.ConfigMap(nsA, "a", "ua", "v")
	b := env.Obj("v1", "Namespace", "", "b", "ub") // cluster-scoped
	c := env.Obj("apps.ex.com/v1", "Widget", nsA, "c", "uc")
	observed := commonv2.MakeUniformObjectMap(parent, []*unstructured.Unstructured{a, b})
	related := commonv2.MakeUniformObjectMap(parent, []*unstructured.Unstructured{c})

	hook := verifConstHook(nil, nil, false)
	pc := verifNewPC(w, verifPCConfig{ParentRes: parentRes, Sync: hook,
		Children: []verifChildRule{{Res: env.ConfigMapRes, Strategy: verifStrategyOf("InPlace")}}})
	_, err := pc.callHook(parent, observed, related)
	rt.Assert(err == nil, "hook/error")
	rt.Assert(len(hook.Calls) == 1, "hook/not-called-exactly-once")
	if err != nil || len(hook.Calls) != 1 {
		return
	}
	req := hook.Calls[0]
	cm := req.Children[api.GroupVersionKind{GroupVersionKind: schema.GroupVersionKind{Version: "v1", Kind: "ConfigMap"}}]
	nsg := req.Children[api.GroupVersionKind{GroupVersionKind: schema.GroupVersionKind{Version: "v1", Kind: "Namespace"}}]
	wg := req.Related[api.GroupVersionKind{GroupVersionKind: schema.GroupVersionKind{Group: "apps.ex.com", Version: "v1", Kind: "Widget"}}]
	rt.Assert(len(req.Children) == 2, "convert/children-groups")
	rt.Assert(len(req.Related) == 1, "convert/related-groups")
	rt.Assert(cm != nil && nsg != nil && wg != nil, "convert/group-dropped")
	if cm == nil || nsg == nil || wg == nil {
		return
	}
	if clusterParent {
		rt.Cover("cluster-parent/everything-kept")
		rt.Assert(len(cm) == 1 && len(nsg) == 1 && len(wg) == 1, "convert/cluster-parent/object-dropped")
		rt.Assert(cm[nsA+"/a"] == a, "convert/cluster-parent/namespaced-key")
		rt.Assert(nsg["b"] == b, "convert/cluster-parent/cluster-scoped-key")
		rt.Assert(wg[nsA+"/c"] == c, "convert/cluster-parent/related-key")
		return
	}
	rt.Assert(len(nsg) == 0, "convert/cluster-scoped-object-sent-to-namespaced-parent")
	if nsA == pns {
		rt.Cover("namespaced-parent/same-namespace-kept")
		rt.Assert(len(cm) == 1 && len(wg) == 1, "convert/same-namespace-object-dropped")
		rt.Assert(cm["a"] == a, "convert/namespaced-parent/key")
		rt.Assert(wg["c"] == c, "convert/namespaced-parent/related-key")
	} else {
		rt.Cover("namespaced-parent/other-namespace-dropped")
		rt.Assert(len(cm) == 0, "convert/other-namespace-child-sent")
		rt.Assert(len(wg) == 0, "convert/other-namespace-related-sent")
	}
}

func VerifC03_KeyText() {
	// ---- outer key: Kind.apiVersion ----
	// (all inputs are drawn before the first assertion: a path ends at a failed one)
	kind, group, version := rt.String("kind"), rt.String("group"), rt.String("version")
	pns, ons, name := rt.String("parent-namespace"), rt.String("object-namespace"), rt.String("name")
	b, err := api.GroupVersionKind{GroupVersionKind: schema.GroupVersionKind{Group: group, Version: version, Kind: kind}}.MarshalText()
	rt.Assert(err == nil, "marshaltext/error")
	got := string(b)
	if group == "" {
		rt.Cover("core-group")
		rt.Assert(got == kind+"."+version, "marshaltext/core-group-key")
	} else {
		rt.Cover("named-group")
		rt.Assert(got == kind+"."+group+"/"+version, "marshaltext/named-group-key")
	}

	// ---- inner key: name, or namespace/name iff parent cluster-scoped and child namespaced ----
	parent := env.Obj("ex.com/v1", "Thing", pns, "p", "puid")
	obj := env.Obj("v1", "ConfigMap", ons, name, "u")
	m := commonv1.MakeRelativeObjectMap(parent, []*unstructured.Unstructured{obj})
	grp := m[api.GroupVersionKind{GroupVersionKind: schema.GroupVersionKind{Version: "v1", Kind: "ConfigMap"}}]
	rt.Assert(len(m) == 1 && len(grp) == 1, "relativename/map-shape")
	want := name
	if pns == "" && ons != "" {
		rt.Cover("cluster-parent-namespaced-child")
		want = ons + "/" + name
	} else {
		rt.Cover("plain-name")
	}
	for k, o := range grp {
		rt.Assert(k == want, "relativename/key")
		rt.Assert(o == obj, "relativename/object")
	}
}

var _ = v1.CompositeHookRequest{}

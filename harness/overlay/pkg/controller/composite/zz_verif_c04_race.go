package composite

// C04 — two writers racing at API-call granularity.
//
// VerifC04_AdoptionRace: the REAL pc.claimChildren adopts an orphan (or
// releases a child) while a rival acts on the same object BETWEEN our GET and
// our PUT: it adopts the object for itself, merely touches it, deletes it, or
// deletes and recreates it. The rival is an interposer in front of the
// simulated API server that changes the store right after the first GET of the
// child was answered.

import (
	"context"

	apierrors "k8s.io/apimachinery/pkg/api/errors"
	metav1 "k8s.io/apimachinery/pkg/apis/meta/v1"
	"k8s.io/apimachinery/pkg/apis/meta/v1/unstructured"
	"k8s.io/apimachinery/pkg/runtime/schema"
	"k8s.io/client-go/dynamic"
	"k8s.io/client-go/rest"

	dynamicclientset "metacontroller/pkg/dynamic/clientset"
	"metacontroller/pkg/zzverif/env"
	"metacontroller/pkg/zzverif/gen"
	rt "metacontroller/pkg/zzverif/rt"
)

type verifC04Rival struct {
	srv      *env.Server
	resource string
	name     string
	act      func()
	fired    bool
}

func (s *verifC04Rival) Resource(gvr schema.GroupVersionResource) dynamic.NamespaceableResourceInterface {
	return &verifC04RivalRoot{NamespaceableResourceInterface: s.srv.Resource(gvr), s: s, res: gvr.Resource}
}

type verifC04RivalRoot struct {
	dynamic.NamespaceableResourceInterface
	s   *verifC04Rival
	res string
}

func (c *verifC04RivalRoot) Namespace(ns string) dynamic.ResourceInterface {
	return &verifC04RivalNS{ResourceInterface: c.NamespaceableResourceInterface.Namespace(ns), s: c.s, res: c.res}
}

type verifC04RivalNS struct {
	dynamic.ResourceInterface
	s   *verifC04Rival
	res string
}

func (c *verifC04RivalNS) Get(ctx context.Context, name string, options metav1.GetOptions, subresources ...string) (*unstructured.Unstructured, error) {
	o, err := c.ResourceInterface.Get(ctx, name, options, subresources...)
	if c.res == c.s.resource && name == c.s.name && !c.s.fired {
		c.s.fired = true
		c.s.act()
	}
	return o, err
}

const (
	verifC04RivalAdopts = iota
	verifC04RivalTouches
	verifC04RivalDeletes
	verifC04RivalRecreates
)

func VerifC04_AdoptionRace() {
	srv := env.NewServer()
	rival := &verifC04Rival{srv: srv, resource: "configmaps", name: "c0"}
	rm := env.NewResourceMap()
	w := &env.World{Srv: srv, RM: rm, Dyn: dynamicclientset.NewClientset(&rest.Config{}, rm, rival)}

	parent := env.Thing("ns", "p", "puid")
	parent.Object["spec"] = map[string]interface{}{"selector": map[string]interface{}{"matchLabels": map[string]interface{}{"app": "sel"}}}
	srv.Put("things", parent)

	adopting := rt.Bool("adopting") // else: releasing an owned child that stopped matching
	k := &verifC04Kid{name: "c0", hasLabel: true, typeLabels: true, extra: rt.Bool("extra-owners")}
	if adopting {
		k.owner, k.labVal, k.match = verifC04Orphan, "sel", true
	} else {
		k.owner, k.labVal = verifC04Ours, "nosel"
	}
	cached := verifC04Child(k, "u0", false)
	srv.Put("configmaps", cached)

	action := verifC04Pick("rival-action", 4)
	if !adopting && action == verifC04RivalAdopts {
		action = verifC04RivalTouches // nobody can adopt what we still control
	}
	var afterRival *unstructured.Unstructured
	switch action {
	case verifC04RivalAdopts:
		afterRival = verifC04Child(k, "u0", true)
	case verifC04RivalTouches:
		afterRival = cached.DeepCopy()
		env.SetLabel(afterRival, "touched-by", "rival")
		afterRival.SetResourceVersion("8")
	case verifC04RivalRecreates:
		afterRival = verifC04Child(k, "u0-recreated", false)
		afterRival.SetResourceVersion("1")
	}
	rival.act = func() {
		if afterRival == nil {
			srv.Remove("configmaps", "ns", "c0")
		} else {
			srv.Put("configmaps", afterRival)
		}
	}

	pc := verifNewPC(w, verifPCConfig{
		ParentRes: env.ThingRes,
		Children:  []verifChildRule{{Res: env.ConfigMapRes, Strategy: verifStrategyOf("InPlace")}},
	})
	pc.Snapshot([]*unstructured.Unstructured{parent}, map[string][]*unstructured.Unstructured{"configmaps": {cached}}, nil)

	got, err := pc.claimChildren(parent)

	rt.Observe("requests", len(srv.Log))
	rt.Observe("err", err != nil)
	rt.Assert(rival.fired, "race/rival-never-acted")

	accepted := 0
	for _, r := range srv.Log {
		rt.Assert(r.Verb == "get" || r.Verb == "update", "requests/verb-other-than-get-update")
		if r.Resource == "things" {
			rt.Assert(r.Verb == "get", "parent/written-by-claim")
		}
		if r.Verb != "update" || !r.Accepted {
			continue
		}
		accepted++
		rt.Assert(r.Pre != nil, "write/target-absent")
		if r.Pre == nil {
			continue
		}
		rt.Assert(string(r.Pre.GetUID()) == "u0", "write/replaced-object-written")
		gen.Equal(verifC04WithoutRefs(r.Body), verifC04WithoutRefs(r.Pre), "write/body-differs-from-live-beyond-ownerReferences")
	}
	rt.Assert(len(srv.Log) <= 1+2*4, "requests/unbounded-retries")

	st := srv.Peek("configmaps", "ns", "c0")
	if st != nil {
		rt.Assert(verifC04CountControllers(st.GetOwnerReferences()) <= 1, "store/two-controller-references")
	}
	what := "release"
	if adopting {
		what = "adopt"
	}
	switch action {
	case verifC04RivalAdopts:
		// the loser must end without its reference on the object and must report it
		rt.Cover("adopt/rival-adopts-between-get-and-put")
		rt.Assert(accepted == 0, "race/loser-write-accepted")
		rt.Assert(err != nil, "race/lost-adoption-not-reported")
		rt.Assert(got == nil, "race/children-returned-with-error")
		rt.Assert(st != nil, "store/child-vanished")
		if st != nil {
			verifC04RefsEqual(st.GetOwnerReferences(), verifC04Refs(k, false, true), "race/rival-reference-lost-or-ours-added")
		}
	case verifC04RivalTouches:
		rt.Cover(what + "/rival-touches-between-get-and-put")
		rt.Assert(err == nil, "race/touched/error")
		rt.Assert(accepted == 1, "race/touched/not-written-exactly-once")
		rt.Assert(st != nil, "store/child-vanished")
		if st != nil {
			verifC04RefsEqual(st.GetOwnerReferences(), verifC04Refs(k, adopting, false), "race/touched/ownerReferences")
			rt.Assert(st.GetLabels()["touched-by"] == "rival", "race/touched/rival-change-overwritten")
		}
	case verifC04RivalDeletes:
		rt.Cover(what + "/rival-deletes-between-get-and-put")
		rt.Assert(err == nil, "race/deleted/error")
		rt.Assert(accepted == 0, "race/deleted/written")
		rt.Assert(st == nil, "race/deleted/resurrected")
	case verifC04RivalRecreates:
		rt.Cover(what + "/rival-recreates-between-get-and-put")
		rt.Assert(err == nil, "race/recreated/error")
		rt.Assert(accepted == 0, "race/recreated/replacement-written")
		rt.Assert(st != nil, "store/child-vanished")
		if st != nil {
			gen.Equal(st.Object, afterRival.Object, "race/recreated/replacement-changed")
		}
	}
	if err == nil {
		grp := got[verifC03GVK(env.ConfigMapRes)]
		wantClaimed := adopting && action == verifC04RivalTouches
		_, has := grp["ns/c0"]
		rt.Assert(has == wantClaimed, "race/claimed-list")
	}
	for _, r := range srv.Log {
		if r.Err != nil && apierrors.IsInvalid(r.Err) {
			rt.Assert(action == verifC04RivalAdopts, "two-controller-references-sent")
		}
	}
}

package composite

// C14 (related-object clause, composite side) — the twin of the decorator
// harness VerifC14_DecoratorRelatedEvent: the controller comes out of the REAL
// newParentController (which builds the customize Manager and hands it the
// parent informer), the related informer is created lazily by the first
// GetRelatedObjects, and an add / update / delete of a selected related object
// delivered through the shared informer's handler chain has to put the
// parent's key into the controller's queue.

import (
	metav1 "k8s.io/apimachinery/pkg/apis/meta/v1"
	"k8s.io/apimachinery/pkg/apis/meta/v1/unstructured"

	"metacontroller/pkg/apis/metacontroller/v1alpha1"
	"metacontroller/pkg/controller/common/customize"
	"metacontroller/pkg/zzverif/env"
	stub "metacontroller/pkg/zzverif/informerstub"
	rt "metacontroller/pkg/zzverif/rt"
)

func VerifC14_CompositeRelatedEvent() {
	stub.Reset()
	w := env.NewWorld()
	cluster := rt.Bool("parent-cluster-scoped")
	res := verifC14ParentRes(cluster)
	pns := "ns"
	if cluster {
		pns = ""
	}
	parent := env.Obj(res.APIVersion, res.Kind, pns, "p", "puid")
	parent.Object["spec"] = map[string]interface{}{"selector": map[string]interface{}{"matchLabels": map[string]interface{}{"app": "x"}}}
	if rt.Bool("parent-is-being-finalized") {
		env.MarkDeleting(parent)
		parent.SetFinalizers([]string{verifFinalizerName})
	}
	w.Srv.Put(res.Name, parent)
	byLabels := rt.Bool("rule-selects-by-labels")
	rule := &v1alpha1.RelatedResourceRule{ResourceRule: v1alpha1.ResourceRule{APIVersion: "v1", Resource: "configmaps"}}
	if byLabels {
		rule.LabelSelector = &metav1.LabelSelector{MatchLabels: map[string]string{"role": "settings"}}
	} else {
		rule.Names = []string{"settings"}
		rule.Namespace = "ns"
	}
	hook := &customize.VerifHook{Rules: []*v1alpha1.RelatedResourceRule{rule}}
	pc := verifNewPC(w, verifPCConfig{ParentRes: res, FinalizeEnabled: true, Customize: hook})
	pc.SnapshotFromStore()
	// the shared informer the constructor subscribed to holds the parent as well
	for _, s := range stub.Stubs() {
		s.CompleteList(parent)
	}
	n0 := len(stub.Stubs())

	_, err := pc.customize.GetRelatedObjects(parent)
	rt.Assert(err == nil, "related-event/get-related-objects-error")
	stubs := stub.Stubs()
	rt.Assert(len(stubs) == n0+1, "related-event/related-informer-not-created")
	if err != nil || len(stubs) != n0+1 {
		return
	}
	rel := stubs[n0]
	rt.Assert(rel.HandlerCount() == 1, "related-event/no-handler-on-the-related-informer")
	if rel.HandlerCount() != 1 {
		return
	}
	rt.Assert(pc.Queue.Len() == 0, "related-event/enqueued-before-any-event")

	cm := env.ConfigMap("ns", "settings", "cmuid", "v1")
	env.SetLabel(cm, "role", "settings")
	h := rel.Handler(0)
	switch rt.Choice("event", 3) {
	case 0:
		rt.Cover("related-event/add")
		h.OnAdd(cm, false)
	case 1:
		rt.Cover("related-event/update")
		cur := cm.DeepCopy()
		cur.SetResourceVersion("8")
		cur.Object["data"] = map[string]interface{}{"k": "v2"}
		h.OnUpdate(cm, cur)
	default:
		rt.Cover("related-event/delete")
		h.OnDelete(cm)
	}
	rt.Observe("queued", pc.Queue.Len())
	rt.Assert(pc.Queue.Len() >= 1, "related-event/selected-object-changed-parent-not-queued")
	want := verifC14Key(pns, "p")
	found := false
	for _, it := range pc.Queue.Items {
		if s, ok := it.(string); ok && s == want {
			found = true
		}
	}
	rt.Assert(found, "related-event/queue-holds-another-key-than-the-parents")
	var _ *unstructured.Unstructured = parent
}

package composite

// C08 (Level B) — a rolling update of healthy children always completes and
// cleans up: whole real syncs against the simulated API server with a fair
// environment (every child reports its generation observed between syncs).

import (
	"k8s.io/apimachinery/pkg/apis/meta/v1/unstructured"

	rt "metacontroller/pkg/zzverif/rt"
)

func verifUpdatedCondition(p *unstructured.Unstructured) (status, reason string) {
	conds, _, _ := unstructured.NestedSlice(p.Object, "status", "conditions")
	for _, c := range conds {
		if m, ok := c.(map[string]interface{}); ok && m["type"] == "Updated" {
			status, _ = m["status"].(string)
			reason, _ = m["reason"].(string)
		}
	}
	return
}

func VerifC08_RolloutCompletes() {
	namespaced := rt.Bool("namespaced")
	gensel := rt.Bool("generateSelector")
	method := verifRollMethod()
	n := 1 + rt.Choice("children", 2)
	if rt.Tier() == 1 {
		n = 1 + rt.Choice("children-thorough", 3)
	}
	names := []string{"a", "b", "c"}[:n]
	scope := "cluster-scoped"
	if namespaced {
		scope = "namespaced"
	}
	sel := "explicit-selector"
	if gensel {
		sel = "generateSelector"
	}
	cls := scope + "/" + sel

	r := verifNewRollWorldSel(namespaced, gensel, method, names, "1")
	rt.Assert(r.sync() == nil, "first-sync/error")
	second := rt.Bool("second-change-mid-rollout")
	// the spec change may also scale down by one (drops the last child)
	scaleDown := n >= 2 && rt.Bool("scale-down")
	r.markHealthy()
	if scaleDown {
		r.replicas = n - 1
		rt.Cover("scale-down")
	}
	r.setSpec("2")
	final := "2"
	budget := 2*n + 3
	for i := 0; i < budget; i++ {
		r.markHealthy()
		err := r.sync()
		rt.Assert(err == nil, "rollout-sync/error")
		if second && i == 0 {
			r.markHealthy()
			r.setSpec("3")
			final = "3"
			budget += n
		}
	}
	// all children at the latest revision's desired state
	if scaleDown {
		_, still := r.childValue(names[n-1])
		rt.Assert(!still, "rollout/"+cls+"/scaled-down-child-not-deleted")
		names = names[:n-1]
	}
	for _, name := range names {
		v, ok := r.childValue(name)
		rt.Assert(ok, "rollout/"+cls+"/child-missing-at-the-end")
		if ok {
			rt.Assert(v == final, "rollout/"+cls+"/child-not-at-latest-state-within-2n+3-syncs")
		}
	}
	st, reason := verifUpdatedCondition(r.parent())
	rt.Assert(st == "True" && reason == "OnLatestRevision", "rollout/"+cls+"/updated-condition-not-true")
	rt.Assert(len(r.w.Srv.Revs()) == 1, "rollout/"+cls+"/old-revisions-not-cleaned-up")
	rt.Cover("rollout-ran")

	// and then it is quiet
	r.markHealthy()
	r.w.Srv.ResetLog()
	_ = r.sync()
	for _, q := range r.w.Srv.Writes() {
		rt.Assert(false, "rollout/"+cls+"/hot-loop-"+q.Verb+"-"+q.Resource+q.Sub)
	}
}

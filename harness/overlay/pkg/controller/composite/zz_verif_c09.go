package composite

// C09 — rollout intent is persisted before acting; any crash resumes
// consistently.  Whole real syncs with a rolling strategy: syncParentObject →
// claimChildren → syncRevisions (claimRevisions, per-revision hook calls,
// syncRollingUpdate, pruneParentRevisions, manageRevisions) → ManageChildren.

import (
	"errors"
	"k8s.io/apimachinery/pkg/apis/meta/v1/unstructured"
	k8sjson "k8s.io/apimachinery/pkg/util/json"

	"metacontroller/pkg/apis/metacontroller/v1alpha1"
	v1 "metacontroller/pkg/controller/composite/api/v1"
	dynamicdiscovery "metacontroller/pkg/dynamic/discovery"
	"metacontroller/pkg/zzverif/env"
	rt "metacontroller/pkg/zzverif/rt"
)

type verifRollWorld struct {
	// finalizeAnswers (by spec value x) enables a finalize hook that returns the
	// same children as the sync hook and finalized = finalizeAnswers[x]
	finalizeAnswers map[string]bool
	childNS         string // namespace of the children when it is not the parent's (cluster-scoped parent with namespaced children)
	omit            map[string]int // per child name: 1 = the hook leaves it out, 2 = the hook lists null in its place (set by a harness in the middle of a run)
	requireReady    bool // children must carry status condition Ready=True to count as healthy
	extraPath       bool // nested mode: revisionHistory.fieldPaths = [spec.nodePool, spec.template] with spec.nodePool never set
	nullStatus      bool // the hook answers without a status (null)
	statusStanza    bool // the hook's children carry an (empty) status stanza and NOBODY ever writes a child's status
	nested          bool
	global          string // nested mode: value of the NON-revisioned field spec.x // revisioned value lives at spec.template.v, revision history = [spec.template]
	replicas        int    // 0 = all names
	gensel          bool
	w               *env.World
	pc              *verifPC
	namespaced      bool
	parentRes       *dynamicdiscovery.APIResource
	childRes        *dynamicdiscovery.APIResource
	ns              string
	names           []string
	method          string
}

// verifRollHook: children = one object per name carrying the parent's spec.x;
// a pure function of the parent it is given (so an old revision's parent
// yields the old desired state).
func verifRollHook(r *verifRollWorld) *verifHook {
	return &verifHook{enabled: true, fn: func(req *v1.CompositeHookRequest) (*v1.CompositeHookResponse, error) {
		x, _, _ := unstructured.NestedString(req.Parent.Object, "spec", "x")
		g := ""
		if r.nested {
			g = x
			x, _, _ = unstructured.NestedString(req.Parent.Object, "spec", "template", "v")
		}
		// spec.n (when present) is the replica count: the first n names are desired
		want := r.names
		if n, found, _ := unstructured.NestedInt64(req.Parent.Object, "spec", "n"); found && int(n) < len(want) {
			want = want[:n]
		}
		var kids []*unstructured.Unstructured
		for _, n := range want {
			if r.omit[n] == 1 {
				continue
			}
			if r.omit[n] == 2 {
				kids = append(kids, nil)
				continue
			}
			c := r.child(n, x)
			if r.nested {
				c.Object["data"].(map[string]interface{})["g"] = g
			}
			if r.statusStanza {
				// what hooks written with typed structs emit
				c.Object["status"] = map[string]interface{}{}
			}
			kids = append(kids, c)
		}
		if r.nullStatus {
			return &v1.CompositeHookResponse{Children: kids}, nil
		}
		return &v1.CompositeHookResponse{Children: kids, Status: map[string]interface{}{"phase": "ok"}}, nil
	}}
}

func (r *verifRollWorld) child(name, x string) *unstructured.Unstructured {
	var o *unstructured.Unstructured
	if r.namespaced {
		o = env.ConfigMap(r.ns, name, "", x)
	} else if r.childNS != "" {
		o = env.ConfigMap(r.childNS, name, "", x)
	} else {
		o = env.Obj("v1", "Namespace", "", name, "")
		o.Object["data"] = map[string]interface{}{"k": x}
	}
	if !r.gensel {
		env.SetLabel(o, "app", "x")
	}
	return o
}

func (r *verifRollWorld) childValue(name string) (string, bool) {
	ns := r.ns
	if r.childNS != "" {
		ns = r.childNS
	}
	o := r.w.Srv.Peek(r.childRes.Name, ns, name)
	if o == nil {
		return "", false
	}
	d, _ := o.Object["data"].(map[string]interface{})
	s, _ := d["k"].(string)
	return s, true
}

func verifNewRollWorld(namespaced bool, method string, names []string, x string) *verifRollWorld {
	return verifNewRollWorldSel(namespaced, false, method, names, x)
}

// verifNewRollWorldNested: nested puts the revisioned value at spec.template.v
// with revisionHistory.fieldPaths = [spec.template].
func verifNewRollWorldNested(namespaced, nested bool, method string, names []string, x string) *verifRollWorld {
	return verifNewRollWorldOpts(namespaced, false, nested, method, names, x)
}

// verifNewRollWorldSel: gensel chooses between generateSelector and an explicit
// .spec.selector (matchLabels app=x, set by the hook on every child).
func verifNewRollWorldSel(namespaced, gensel bool, method string, names []string, x string) *verifRollWorld {
	return verifNewRollWorldOpts(namespaced, gensel, false, method, names, x)
}

func verifNewRollWorldOpts(namespaced, gensel, nested bool, method string, names []string, x string) *verifRollWorld {
	r := &verifRollWorld{w: env.NewWorld(), namespaced: namespaced, names: names, method: method, gensel: gensel, nested: nested}
	var parent *unstructured.Unstructured
	if namespaced {
		r.parentRes, r.childRes, r.ns = env.ThingRes, env.ConfigMapRes, "ns"
		parent = env.Thing("ns", "p", "puid")
	} else {
		r.parentRes, r.childRes, r.ns = env.ClusterThingRes, env.NamespaceRes, ""
		parent = env.Obj("ex.com/v1", "ClusterThing", "", "p", "puid")
	}
	parent.Object["spec"] = r.spec(x)
	r.w.Srv.Put(r.parentRes.Name, parent)
	r.newPC()
	return r
}

// verifNewRollWorldClusterNS: a cluster-scoped parent whose children are
// namespaced (ConfigMaps in "cns"): revisions name such children namespace/name.
func verifNewRollWorldClusterNS(method string, names []string, x string) *verifRollWorld {
	r := &verifRollWorld{w: env.NewWorld(), names: names, method: method, childNS: "cns"}
	r.parentRes, r.childRes, r.ns = env.ClusterThingRes, env.ConfigMapRes, ""
	parent := env.Obj("ex.com/v1", "ClusterThing", "", "p", "puid")
	parent.Object["spec"] = r.spec(x)
	r.w.Srv.Put(r.parentRes.Name, parent)
	r.newPC()
	return r
}

func (r *verifRollWorld) spec(x string) map[string]interface{} {
	sp := map[string]interface{}{"x": x}
	tmpl := map[string]interface{}{}
	if r.nested {
		sp["x"] = "not-revisioned"
		if r.global != "" {
			sp["x"] = r.global
		}
		tmpl["v"] = x
	}
	if r.replicas > 0 {
		sp["n"] = int64(r.replicas)
	}
	if !r.gensel {
		sp["selector"] = map[string]interface{}{"matchLabels": map[string]interface{}{"app": "x"}}
		// labels for orphaned-revision lookup (see newControllerRevision)
		tmpl["metadata"] = map[string]interface{}{"labels": map[string]interface{}{"app": "x"}}
	}
	if len(tmpl) > 0 {
		sp["template"] = tmpl
	}
	return sp
}

// newPC builds a fresh controller (process state) over the same store.
func (r *verifRollWorld) newPC() {
	var fieldPaths []string
	if r.nested {
		fieldPaths = []string{"spec.template"}
		if r.extraPath {
			fieldPaths = []string{"spec.nodePool", "spec.template"}
		}
	}
	cfg := verifPCConfig{
		FieldPaths: fieldPaths,
		ParentRes:  r.parentRes, GenerateSelector: r.gensel,
		Children: []verifChildRule{{Res: r.childRes, Strategy: verifStrategyOf(r.method)}},
		Sync:     verifRollHook(r),
	}
	if r.requireReady {
		tr := "True"
		cfg.Children[0].Strategy.StatusChecks = v1alpha1.ChildUpdateStatusChecks{Conditions: []v1alpha1.StatusConditionCheck{{Type: "Ready", Status: &tr}}}
	}
	if r.finalizeAnswers != nil {
		inner := verifRollHook(r)
		cfg.FinalizeEnabled = true
		cfg.Finalize = &verifHook{enabled: true, fn: func(req *v1.CompositeHookRequest) (*v1.CompositeHookResponse, error) {
			resp, err := inner.fn(req)
			if err == nil {
				x, _, _ := unstructured.NestedString(req.Parent.Object, "spec", "x")
				resp.Finalized = r.finalizeAnswers[x]
			}
			return resp, err
		}}
	}
	r.pc = verifNewPC(r.w, cfg)
}

func (r *verifRollWorld) parent() *unstructured.Unstructured {
	return r.w.Srv.Peek(r.parentRes.Name, r.ns, "p")
}

// sync re-lists the caches from the store and runs one real sync.
func (r *verifRollWorld) sync() error {
	r.pc.SnapshotFromStore()
	return r.pc.syncParentObject(r.pc.W.Srv.All(r.parentRes.Name)[0])
}

// setSpec is the user editing the parent.
func (r *verifRollWorld) setSpec(x string) {
	p := r.parent().DeepCopy()
	p.Object["spec"] = r.spec(x)
	p.SetGeneration(p.GetGeneration() + 1)
	p.SetResourceVersion(p.GetResourceVersion() + "+")
	r.w.Srv.Put(r.parentRes.Name, p)
}

// markHealthy plays the fair environment: every child reports its generation observed.
func (r *verifRollWorld) markHealthy() {
	if r.statusStanza {
		return // these children have no controller of their own: .status stays absent
	}
	for _, o := range r.w.Srv.All(r.childRes.Name) {
		o.Object["status"] = map[string]interface{}{"observedGeneration": o.GetGeneration()}
		r.w.Srv.Put(r.childRes.Name, o)
	}
}

func verifIsRevWrite(q env.Req) bool { return q.IsWrite() && q.Resource == "controllerrevisions" }
func (r *verifRollWorld) isChildWrite(q env.Req) bool {
	return q.IsWrite() && q.Resource == r.childRes.Name
}

// claimsOf returns, per child name, how many stored revisions list it.
func (r *verifRollWorld) claimCount(name string) int {
	n := 0
	for _, rev := range r.w.Srv.Revs() {
		for _, ck := range rev.Children {
			for _, c := range ck.Names {
				if c == name || (r.childNS != "" && c == r.childNS+"/"+name) {
					n++
				}
			}
		}
	}
	return n
}

func verifRollMethod() string {
	if rt.Bool("recreate") {
		return "RollingRecreate"
	}
	return "RollingInPlace"
}

// VerifC09_Ordering: in the sync after a spec change every ControllerRevision
// write precedes every child write, and a failed revision write (symbolic
// position and kind) aborts the sync before any child is touched.
func VerifC09_Ordering() {
	namespaced := rt.Bool("namespaced")
	method := verifRollMethod()
	r := (*verifRollWorld)(nil)
	if !namespaced && rt.Bool("cluster-scoped-parent-with-namespaced-children") {
		rt.Cover("cluster-parent-namespaced-children")
		r = verifNewRollWorldClusterNS(method, []string{"a", "b"}, "1")
	} else {
		r = verifNewRollWorld(namespaced, method, []string{"a", "b"}, "1")
	}
	err := r.sync()
	rt.Assert(err == nil, "first-sync/error")
	rt.Assert(len(r.w.Srv.Revs()) == 1, "first-sync/not-exactly-one-revision")
	first := r.w.Srv.Log
	sawChild := false
	for _, q := range first {
		if r.isChildWrite(q) {
			sawChild = true
		}
		if verifIsRevWrite(q) {
			rt.Assert(!sawChild, "first-sync/revision-write-after-child-write")
		}
	}
	rt.Assert(sawChild, "first-sync/no-child-created")
	r.markHealthy()
	r.setSpec("2")
	r.w.Srv.ResetLog()

	faulty := rt.Bool("fault-on-a-revision-write")
	if faulty {
		r.w.Srv.ArmFault(rt.Choice("fault-at", 2), 1+rt.Choice("fault-kind", env.NumFaultKinds-2), "controllerrevisions", false)
	}
	r.pc.SnapshotFromStore()
	fp := verifFingerprint(append(r.w.Srv.All(r.parentRes.Name)[:0], verifListerItems(r.pc)...), verifRevItems(r.pc))
	// through the real queue worker (processNextWorkItem -> sync(key)): whether
	// the sync "reports an error" is read off the work queue - a failed sync is
	// put back with back-off (the retry that carries the rollout on), a
	// successful one is forgotten
	key := "p"
	if namespaced {
		key = r.ns + "/p"
	}
	r.pc.Queue.Items = append(r.pc.Queue.Items, key)
	r.pc.processNextWorkItem()
	err = nil
	if r.pc.Queue.Count("add-rate-limited") > 0 {
		err = errors.New("sync failed: work item put back with back-off")
	} else {
		rt.Assert(r.pc.Queue.Count("forget") == 1, "work-item-neither-put-back-nor-forgotten")
	}
	rt.Observe("err", err != nil)

	revFailed := false
	sawChild = false
	nRev, nChild := 0, 0
	for _, q := range r.w.Srv.Log {
		if verifIsRevWrite(q) {
			nRev++
			rt.Assert(!sawChild, "revision-write-after-child-write")
			if q.Err != nil {
				revFailed = true
			}
		}
		if r.isChildWrite(q) {
			nChild++
			sawChild = true
			rt.Assert(!revFailed, "child-written-although-a-revision-write-failed")
		}
	}
	rt.Observe("rev-writes", nRev)
	if faulty {
		rt.Assert(revFailed, "fault-position-not-reached")
		rt.Cover("revision-write-failed")
		rt.Assert(err != nil, "revision-write-failed/sync-reports-success")
		rt.Assert(nChild == 0, "revision-write-failed/child-touched")
	} else {
		rt.Cover("rollout-step")
		rt.Assert(err == nil, "rollout-step/error")
		rt.Assert(nRev == 2, "rollout-step/expected-create-latest-and-update-old-revision")
		rt.Assert(nChild == 1, "rollout-step/expected-exactly-one-child-moved")
		for _, n := range r.names {
			rt.Assert(r.claimCount(n) == 1, "rollout-step/child-not-claimed-by-exactly-one-revision")
		}
	}
	fp.AssertUnchanged("C17/cache-object-mutated-by-rolling-sync")
	if faulty || err != nil {
		return
	}
	// second step of the same rollout: the latest revision now comes out of the
	// lister cache and receives a new claim
	r.markHealthy()
	r.w.Srv.ResetLog()
	// this step empties the old revision: its revision writes are the DELETE of
	// the old revision and the update of the latest one; either may be refused
	// (in place only: by recreation this step re-creates the child deleted before)
	inPlace := method == "RollingInPlace"
	faulty2 := false
	if inPlace {
		faulty2 = rt.Bool("fault-on-a-revision-write-of-the-second-step")
	}
	if faulty2 {
		r.w.Srv.ArmFault(rt.Choice("second-step-fault-at", 2), 1+rt.Choice("second-step-fault-kind", env.NumFaultKinds-2), "controllerrevisions", false)
	}
	r.pc.SnapshotFromStore()
	fp2 := verifFingerprint(verifListerItems(r.pc), verifRevItems(r.pc))
	err = r.pc.syncParentObject(r.pc.W.Srv.All(r.parentRes.Name)[0])
	sawChild = false
	nChild = 0
	revFailed = false
	sawDelete := false
	for _, q := range r.w.Srv.Log {
		if verifIsRevWrite(q) {
			rt.Assert(!sawChild, "second-step/revision-write-after-child-write")
			if q.Verb == "delete" {
				sawDelete = true
			}
			if q.Err != nil {
				revFailed = true
				if q.Verb == "delete" {
					rt.Cover("second-step/revision-delete-refused")
				}
			}
		}
		if r.isChildWrite(q) {
			nChild++
			sawChild = true
			rt.Assert(!revFailed, "second-step/child-written-although-a-revision-write-failed")
		}
	}
	if faulty2 {
		rt.Assert(revFailed, "second-step/fault-position-not-reached")
		rt.Assert(err != nil, "second-step/revision-write-failed/sync-reports-success")
		rt.Assert(nChild == 0, "second-step/revision-write-failed/child-touched")
		fp2.AssertUnchanged("C17/cached-revision-mutated-by-second-rolling-step")
		return
	}
	rt.Assert(err == nil, "second-step/error")
	if inPlace {
		rt.Assert(sawDelete, "second-step/emptied-old-revision-not-deleted")
	}
	rt.Assert(nChild == 1, "second-step/expected-exactly-one-child-moved")
	for _, n := range r.names {
		rt.Assert(r.claimCount(n) <= 1, "second-step/child-claimed-by-more-than-one-revision")
	}
	fp2.AssertUnchanged("C17/cached-revision-mutated-by-second-rolling-step")
	rt.Cover("second-step")
}

func verifListerItems(p *verifPC) []*unstructured.Unstructured {
	var out []*unstructured.Unstructured
	if l, ok := p.parentInformer.Lister().(*env.Lister); ok {
		out = append(out, l.Items...)
	}
	for _, inf := range p.childInformers {
		if l, ok := inf.Lister().(*env.Lister); ok {
			out = append(out, l.Items...)
		}
	}
	return out
}

func verifRevItems(p *verifPC) []*v1alpha1.ControllerRevision {
	if l, ok := p.revisionLister.(*env.RevLister); ok {
		return l.Items
	}
	return nil
}

// ---- crash recovery ----

func (r *verifRollWorld) revisionFor(x string) *v1alpha1.ControllerRevision {
	for _, rev := range r.w.Srv.Revs() {
		m := map[string]interface{}{}
		if err := k8sjson.Unmarshal(rev.ParentPatch.Raw, &m); err != nil {
			continue
		}
		if v, _, _ := unstructured.NestedString(m, "spec", "x"); v == x {
			return rev
		}
	}
	return nil
}

func verifRevLists(rev *v1alpha1.ControllerRevision, name string) bool {
	if rev == nil {
		return false
	}
	for _, ck := range rev.Children {
		for _, c := range ck.Names {
			if c == name {
				return true
			}
		}
	}
	return false
}

// consistent asserts the durable-state invariants a restarted controller relies on.
func (r *verifRollWorld) consistent(label string, latestX string, uniqueClaims bool) {
	latest := r.revisionFor(latestX)
	for _, n := range r.names {
		if uniqueClaims {
			rt.Assert(r.claimCount(n) <= 1, label+"/child-claimed-by-two-revisions")
		}
		if v, ok := r.childValue(n); ok && v == latestX {
			// a child already carrying the latest content must be recorded on the latest revision
			rt.Assert(verifRevLists(latest, n), label+"/child-ahead-of-its-recorded-revision")
		}
	}
}

// runRollout drives `syncs` syncs with a fair environment in between.
func (r *verifRollWorld) runRollout(syncs int) {
	for i := 0; i < syncs; i++ {
		r.markHealthy()
		_ = r.sync()
	}
}

// VerifC09_CrashRecovery: crash (process state dropped, caches rebuilt) after a
// symbolic request of the first sync after a spec change; the restarted
// controller must find consistent revisions and reach the same final store as
// an uninterrupted run.
func VerifC09_CrashRecovery() {
	namespaced := rt.Bool("namespaced")
	method := verifRollMethod()
	names := []string{"a", "b"}
	K := 5
	crashSync := 0 // which sync after the spec change is interrupted
	if rt.Tier() == 1 {
		names = []string{"a", "b", "c"}
		K = 7
		crashSync = rt.Choice("crash-in-sync", 3)
	}

	// reference: uninterrupted run
	u := verifNewRollWorld(namespaced, method, names, "1")
	rt.Assert(u.sync() == nil, "reference/first-sync-error")
	u.markHealthy()
	u.setSpec("2")
	u.runRollout(crashSync)
	u.markHealthy()
	u.w.Srv.ResetLog()
	_ = u.sync()
	n := len(u.w.Srv.Log)
	u.runRollout(K)

	// crashing run
	r := verifNewRollWorld(namespaced, method, names, "1")
	rt.Assert(r.sync() == nil, "first-sync-error")
	r.markHealthy()
	r.setSpec("2")
	r.runRollout(crashSync)
	r.markHealthy()
	r.w.Srv.ArmFault(rt.Choice("crash-after-request", n), env.FaultCrash, "", true)
	crashed := false
	func() {
		defer func() {
			if p := recover(); p != nil {
				if _, ok := p.(env.Crash); !ok {
					panic(p)
				}
				crashed = true
			}
		}()
		_ = r.sync()
	}()
	rt.Assert(crashed, "crash-point-not-reached")
	rt.Cover("crashed")
	r.w.Srv.DisarmFault()
	// At the cut a child may be listed by the old AND the latest revision (the
	// latest revision is created before the old one is updated); the restarted
	// controller resolves that by "latest wins" (syncRevisionClaims), which the
	// after-recovery check below observes in the store.
	r.consistent("at-crash", "2", false)
	// restart: fresh process state, caches rebuilt from the API server
	r.newPC()
	if rt.Tier() == 1 && rt.Bool("second-crash-during-recovery") {
		// the restarted controller crashes again in its first sync
		r.markHealthy()
		r.w.Srv.ArmFault(rt.Choice("second-crash-after-request", 8), env.FaultCrash, "", true)
		func() {
			defer func() {
				if p := recover(); p != nil {
					if _, ok := p.(env.Crash); !ok {
						panic(p)
					}
					rt.Cover("crashed-twice")
				}
			}()
			_ = r.sync()
		}()
		r.w.Srv.DisarmFault()
		r.consistent("at-second-crash", "2", false)
		r.newPC()
	}
	r.runRollout(K + 1)
	r.consistent("after-recovery", "2", true)

	for _, name := range names {
		uv, uok := u.childValue(name)
		rv, rok := r.childValue(name)
		rt.Assert(uok == rok, "final/child-existence-differs-from-uninterrupted-run")
		if uok && rok {
			rt.Assert(uv == rv, "final/child-content-differs-from-uninterrupted-run")
		}
	}
	rt.Assert(len(u.w.Srv.Revs()) == len(r.w.Srv.Revs()), "final/revision-count-differs-from-uninterrupted-run")
	for _, x := range []string{"1", "2"} {
		ur, rr := u.revisionFor(x), r.revisionFor(x)
		rt.Assert((ur == nil) == (rr == nil), "final/revision-set-differs-from-uninterrupted-run")
		for _, name := range names {
			rt.Assert(verifRevLists(ur, name) == verifRevLists(rr, name), "final/revision-claims-differ-from-uninterrupted-run")
		}
	}
}

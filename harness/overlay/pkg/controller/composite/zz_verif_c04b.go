package composite

// C04 — adoption and release for a CLUSTER-SCOPED parent whose children are
// namespaced (the child client must be scoped with the CHILD's namespace, the
// parent has none). Real claimChildren over the simulated API server.

import (
	"k8s.io/apimachinery/pkg/apis/meta/v1/unstructured"

	"metacontroller/pkg/zzverif/env"
	rt "metacontroller/pkg/zzverif/rt"
)

func VerifC04_ClusterParentClaims() {
	w := env.NewWorld()
	selVal := rt.String("selector-value")
	parent := env.Obj("ex.com/v1", "ClusterThing", "", "p", "puid")
	parent.Object["spec"] = map[string]interface{}{"selector": map[string]interface{}{"matchLabels": map[string]interface{}{"app": selVal}}}
	w.Srv.Put("clusterthings", parent)
	ns := rt.OneOf(rt.String("child-namespace"), "ns", "other")
	rt.Assume(ns == "ns" || ns == "other")

	// an owned child whose label stopped matching, and a matching orphan
	lost := env.ConfigMap(ns, "lost", "uid-lost", "v")
	lostLabel := rt.String("lost-label")
	rt.Assume(lostLabel != selVal)
	env.SetLabel(lost, "app", lostLabel)
	env.AddOwnerRef(lost, env.OwnerRefMap("ex.com/v1", "ClusterThing", "p", "puid", true))
	orphan := env.ConfigMap(ns, "orphan", "uid-orphan", "v")
	env.SetLabel(orphan, "app", selVal)
	kept := env.ConfigMap(ns, "kept", "uid-kept", "v")
	env.SetLabel(kept, "app", selVal)
	env.AddOwnerRef(kept, env.OwnerRefMap("ex.com/v1", "ClusterThing", "p", "puid", true))
	for _, o := range []*unstructured.Unstructured{lost, orphan, kept} {
		w.Srv.Put("configmaps", o)
	}
	pc := verifNewPC(w, verifPCConfig{
		ParentRes: env.ClusterThingRes,
		Children:  []verifChildRule{{Res: env.ConfigMapRes, Strategy: verifStrategyOf("InPlace")}},
	})
	pc.SnapshotFromStore()
	got, err := pc.claimChildren(pc.W.Srv.All("clusterthings")[0])
	rt.Assert(err == nil, "cluster-parent/claim-error")

	// release: an accepted update that removes exactly our reference
	l := w.Srv.Peek("configmaps", ns, "lost")
	rt.Assert(l != nil, "cluster-parent/released-child-vanished")
	if l != nil {
		_, has := verifControllerUID(l)
		rt.Assert(!has, "cluster-parent/non-matching-child-not-released")
	}
	// adoption: an accepted update that adds our controller reference
	o := w.Srv.Peek("configmaps", ns, "orphan")
	rt.Assert(o != nil, "cluster-parent/adopted-child-vanished")
	if o != nil {
		cu, has := verifControllerUID(o)
		rt.Assert(has && cu == "puid", "cluster-parent/matching-orphan-not-adopted")
	}
	nUpd := 0
	for _, r := range w.Srv.Writes() {
		rt.Assert(r.Verb == "update" && r.Resource == "configmaps" && r.NS == ns, "cluster-parent/unexpected-write")
		rt.Assert(r.Name == "lost" || r.Name == "orphan", "cluster-parent/write-to-a-child-that-needs-none")
		rt.Assert(r.Accepted, "cluster-parent/write-rejected")
		nUpd++
	}
	rt.Assert(nUpd == 2, "cluster-parent/expected-one-release-and-one-adoption")
	// the claimed set: kept + orphan
	n := 0
	for _, group := range got {
		for range group {
			n++
		}
	}
	rt.Assert(n == 2, "cluster-parent/claimed-set")
	rt.Cover("cluster-parent/done")
}

// VerifC04_NegativeSelector — a selector made ONLY of negative expressions
// (`track NotIn (canary)` / `track DoesNotExist`) matches every object that
// lacks the label, including one with NO labels at all: such an orphan is
// adopted and such an owned child is kept (and shown to the hook, C03); an
// object that carries the excluded label is not adopted / is released.
func VerifC04_NegativeSelector() {
	w := env.NewWorld()
	parent := env.Thing("ns", "p", "puid")
	expr := map[string]interface{}{"key": "track", "operator": "NotIn", "values": []interface{}{"canary"}}
	doesNotExist := rt.Bool("operator-DoesNotExist")
	if doesNotExist {
		expr = map[string]interface{}{"key": "track", "operator": "DoesNotExist"}
	}
	parent.Object["spec"] = map[string]interface{}{"selector": map[string]interface{}{"matchExpressions": []interface{}{expr}}}
	w.Srv.Put("things", parent)

	kid := env.ConfigMap("ns", "kid", "uid-kid", "v")
	match := true
	switch verifC04Pick("kid-labels", 4) {
	case 0:
		rt.Cover("negative-selector/no-labels-at-all")
		unstructured.RemoveNestedField(kid.Object, "metadata", "labels")
	case 1:
		env.SetLabel(kid, "unrelated", "x")
	case 2:
		env.SetLabel(kid, "track", "canary")
		match = false
	case 3:
		env.SetLabel(kid, "track", "stable")
		match = !doesNotExist
	}
	owned := rt.Bool("kid-is-owned")
	if owned {
		env.AddOwnerRef(kid, env.OwnerRefMap("ex.com/v1", "Thing", "p", "puid", true))
	}
	w.Srv.Put("configmaps", kid)
	pc := verifNewPC(w, verifPCConfig{
		ParentRes: env.ThingRes,
		Children:  []verifChildRule{{Res: env.ConfigMapRes, Strategy: verifStrategyOf("InPlace")}},
	})
	pc.SnapshotFromStore()
	got, err := pc.claimChildren(pc.W.Srv.All("things")[0])
	rt.Assert(err == nil, "negative-selector/claim-error")

	live := w.Srv.Peek("configmaps", "ns", "kid")
	rt.Assert(live != nil, "negative-selector/child-vanished")
	if live == nil {
		return
	}
	cu, has := verifControllerUID(live)
	nWrites := len(w.Srv.Writes())
	switch {
	case match:
		// adopted (orphan) or kept (owned)
		rt.Assert(has && cu == "puid", "negative-selector/matching-child-not-ours-afterwards")
		if owned {
			rt.Assert(nWrites == 0, "negative-selector/write-to-a-child-that-needs-none")
		}
	case owned:
		rt.Assert(!has, "negative-selector/non-matching-child-not-released")
	default:
		rt.Assert(!has, "negative-selector/non-matching-orphan-adopted")
		rt.Assert(nWrites == 0, "negative-selector/write-to-a-child-that-needs-none")
	}
	n := 0
	for _, group := range got {
		for range group {
			n++
		}
	}
	if match {
		rt.Assert(n == 1, "negative-selector/matching-child-missing-from-the-claimed-set")
	} else {
		rt.Assert(n == 0, "negative-selector/non-matching-child-in-the-claimed-set")
	}
	rt.Cover("negative-selector/done")
}

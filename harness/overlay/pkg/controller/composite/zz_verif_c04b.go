package composite

// C04 — adoption and release for a CLUSTER-SCOPED parent whose children are
// namespaced (the child client must be scoped with the CHILD's namespace, the
// parent has none). Real claimChildren over the simulated API server.

import (
	"k8s.io/apimachinery/pkg/apis/meta/v1/unstructured"

	"metacontroller/pkg/zzverif/env"
	rt "metacontroller/pkg/zzverif/rt"
)

func VerifC04_ClusterParentClaims() {
	w := env.NewWorld()
	selVal := rt.String("selector-value")
	parent := env.Obj("ex.com/v1", "ClusterThing", "", "p", "puid")
	parent.Object["spec"] = map[string]interface{}{"selector": map[string]interface{}{"matchLabels": map[string]interface{}{"app": selVal}}}
	w.Srv.Put("clusterthings", parent)
	ns := rt.OneOf(rt.String("child-namespace"), "ns", "other")
	rt.Assume(ns == "ns" || ns == "other")

	// an owned child whose label stopped matching, and a matching orphan
	lost := env.ConfigMap(ns, "lost", "uid-lost", "v")
	lostLabel := rt.String("lost-label")
	rt.Assume(lostLabel != selVal)
	env.SetLabel(lost, "app", lostLabel)
	env.AddOwnerRef(lost, env.OwnerRefMap("ex.com/v1", "ClusterThing", "p", "puid", true))
	orphan := env.ConfigMap(ns, "orphan", "uid-orphan", "v")
	env.SetLabel(orphan, "app", selVal)
	kept := env.ConfigMap(ns, "kept", "uid-kept", "v")
	env.SetLabel(kept, "app", selVal)
	env.AddOwnerRef(kept, env.OwnerRefMap("ex.com/v1", "ClusterThing", "p", "puid", true))
	for _, o := range []*unstructured.Unstructured{lost, orphan, kept} {
		w.Srv.Put("configmaps", o)
	}
	pc := verifNewPC(w, verifPCConfig{
		ParentRes: env.ClusterThingRes,
		Children:  []verifChildRule{{Res: env.ConfigMapRes, Strategy: verifStrategyOf("InPlace")}},
	})
	pc.SnapshotFromStore()
	got, err := pc.claimChildren(pc.W.Srv.All("clusterthings")[0])
	rt.Assert(err == nil, "cluster-parent/claim-error")

	// release: an accepted update that removes exactly our reference
	l := w.Srv.Peek("configmaps", ns, "lost")
	rt.Assert(l != nil, "cluster-parent/released-child-vanished")
	if l != nil {
		_, has := verifControllerUID(l)
		rt.Assert(!has, "cluster-parent/non-matching-child-not-released")
	}
	// adoption: an accepted update that adds our controller reference
	o := w.Srv.Peek("configmaps", ns, "orphan")
	rt.Assert(o != nil, "cluster-parent/adopted-child-vanished")
	if o != nil {
		cu, has := verifControllerUID(o)
		rt.Assert(has && cu == "puid", "cluster-parent/matching-orphan-not-adopted")
	}
	nUpd := 0
	for _, r := range w.Srv.Writes() {
		rt.Assert(r.Verb == "update" && r.Resource == "configmaps" && r.NS == ns, "cluster-parent/unexpected-write")
		rt.Assert(r.Name == "lost" || r.Name == "orphan", "cluster-parent/write-to-a-child-that-needs-none")
		rt.Assert(r.Accepted, "cluster-parent/write-rejected")
		nUpd++
	}
	rt.Assert(nUpd == 2, "cluster-parent/expected-one-release-and-one-adoption")
	// the claimed set: kept + orphan
	n := 0
	for _, group := range got {
		for range group {
			n++
		}
	}
	rt.Assert(n == 2, "cluster-parent/claimed-set")
	rt.Cover("cluster-parent/done")
}

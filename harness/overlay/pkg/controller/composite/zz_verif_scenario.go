package composite

// Scenario helpers shared by the Level-B (whole sync) composite harnesses.

import (
	"k8s.io/apimachinery/pkg/apis/meta/v1/unstructured"
	k8sjson "k8s.io/apimachinery/pkg/util/json"

	"metacontroller/pkg/apis/metacontroller/v1alpha1"
	"metacontroller/pkg/zzverif/env"
	"metacontroller/pkg/zzverif/gen"
	rt "metacontroller/pkg/zzverif/rt"
)

const verifLastApplied = "metacontroller.k8s.io/last-applied-configuration"

// verifAppliedChild returns the observed form of a child that the parent
// created earlier from `applied`: the applied fields, a last-applied record, a
// controller reference to the parent and server-populated metadata.
func verifAppliedChild(applied *unstructured.Unstructured, parent *unstructured.Unstructured, uid string) *unstructured.Unstructured {
	o := applied.DeepCopy()
	delete(o.Object, "status")
	md := o.Object["metadata"].(map[string]interface{})
	md["uid"] = uid
	md["resourceVersion"] = "7"
	md["generation"] = int64(1)
	b, _ := k8sjson.Marshal(applied.Object)
	env.SetAnnotation(o, verifLastApplied, string(b))
	env.AddOwnerRef(o, env.OwnerRefMap(parent.GetAPIVersion(), parent.GetKind(), parent.GetName(), string(parent.GetUID()), true))
	return o
}

func verifControllerUID(o *unstructured.Unstructured) (string, bool) {
	if o == nil {
		return "", false
	}
	for _, ref := range o.GetOwnerReferences() {
		if ref.Controller != nil && *ref.Controller {
			return string(ref.UID), true
		}
	}
	return "", false
}

// cacheFingerprint remembers deep copies of everything the listers hand out.
type cacheFingerprint struct {
	objs   []*unstructured.Unstructured
	copies []*unstructured.Unstructured
	revs   []*v1alpha1.ControllerRevision
	revCp  []*v1alpha1.ControllerRevision
}

func verifFingerprint(objs []*unstructured.Unstructured, revs []*v1alpha1.ControllerRevision) *cacheFingerprint {
	f := &cacheFingerprint{}
	for _, o := range objs {
		f.objs = append(f.objs, o)
		f.copies = append(f.copies, o.DeepCopy())
	}
	for _, r := range revs {
		f.revs = append(f.revs, r)
		f.revCp = append(f.revCp, r.DeepCopy())
	}
	return f
}

// AssertUnchanged is the C17 oracle: shared cache objects are read-only.
func (f *cacheFingerprint) AssertUnchanged(label string) {
	for i := range f.objs {
		gen.Equal(f.objs[i].Object, f.copies[i].Object, label)
	}
	for i := range f.revs {
		rt.Assert(verifRevEqual(f.revs[i], f.revCp[i]), label)
	}
}

func verifRevEqual(a, b *v1alpha1.ControllerRevision) bool {
	if a.Name != b.Name || a.Namespace != b.Namespace || a.UID != b.UID || a.ResourceVersion != b.ResourceVersion {
		return false
	}
	if len(a.OwnerReferences) != len(b.OwnerReferences) || len(a.Children) != len(b.Children) || len(a.Labels) != len(b.Labels) {
		return false
	}
	for i := range a.OwnerReferences {
		if a.OwnerReferences[i].UID != b.OwnerReferences[i].UID || a.OwnerReferences[i].Name != b.OwnerReferences[i].Name {
			return false
		}
	}
	for k, v := range a.Labels {
		if w, ok := b.Labels[k]; !ok || v != w {
			return false
		}
	}
	for i := range a.Children {
		x, y := a.Children[i], b.Children[i]
		if x.APIGroup != y.APIGroup || x.Kind != y.Kind || len(x.Names) != len(y.Names) {
			return false
		}
		for j := range x.Names {
			if x.Names[j] != y.Names[j] {
				return false
			}
		}
	}
	return string(a.ParentPatch.Raw) == string(b.ParentPatch.Raw)
}

// childWrites returns the non-get requests addressed to child resources.
func verifChildWrites(log []env.Req, parentResource string) []env.Req {
	var out []env.Req
	for _, r := range log {
		if r.IsWrite() && r.Resource != parentResource && r.Resource != "controllerrevisions" {
			out = append(out, r)
		}
	}
	return out
}

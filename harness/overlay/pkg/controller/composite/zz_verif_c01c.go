package composite

// C01 — quiescence with two child kinds whose children may carry the SAME
// name (a Service and a ConfigMap both called "web"): kinds of one group/version
// (ConfigMap + Pod) or of two groups (ConfigMap + Widget), dynamic or
// server-side apply. Whatever per-child bookkeeping the controller keeps
// between syncs must tell such children apart: after convergence a further
// sync sends nothing.

import (
	"k8s.io/apimachinery/pkg/apis/meta/v1/unstructured"

	"metacontroller/pkg/controller/common"
	"metacontroller/pkg/zzverif/env"
	rt "metacontroller/pkg/zzverif/rt"
)

func VerifC01_TwoKindsSameName() {
	common.VerifResetSSAMemo()
	w := env.NewWorld()
	parent := env.Thing("ns", "p", "puid")
	w.Srv.Put("things", parent)
	ssa := rt.Bool("server-side-apply")
	sameGV := rt.Bool("both-kinds-in-one-group-version")
	n1, n2 := rt.String("configmap-name"), rt.String("other-child-name")
	rt.Assume(n1 != "")
	rt.Assume(n2 != "")
	if n1 == n2 {
		rt.Cover("same-name/two-kinds-one-name")
	}
	v1, v2 := rt.String("configmap-value"), rt.String("other-child-value")
	res2, res2name := env.WidgetRes, "widgets"
	var second *unstructured.Unstructured
	if sameGV {
		rt.Cover("same-name/one-group-version")
		res2, res2name = env.PodRes, "pods"
		second = env.Obj("v1", "Pod", "ns", n2, "")
	} else {
		second = env.Obj("apps.ex.com/v1", "Widget", "ns", n2, "")
	}
	second.Object["spec"] = map[string]interface{}{"k": v2}
	desired := []*unstructured.Unstructured{env.ConfigMap("ns", n1, "", v1), second}
	pc := verifNewPC(w, verifPCConfig{
		ParentRes: env.ThingRes, GenerateSelector: true, SSA: ssa,
		Children: []verifChildRule{
			{Res: env.ConfigMapRes, Strategy: verifStrategyOf("InPlace")},
			{Res: res2, Strategy: verifStrategyOf("InPlace")},
		},
		Sync: verifConstHook(desired, map[string]interface{}{"phase": "ok"}, false),
	})
	for i := 0; i < 3; i++ {
		pc.SnapshotFromStore()
		rt.Assert(pc.syncParentObject(pc.W.Srv.All("things")[0]) == nil, "same-name/sync-error")
	}
	a := w.Srv.Peek("configmaps", "ns", n1)
	b := w.Srv.Peek(res2name, "ns", n2)
	rt.Assert(a != nil, "same-name/configmap-missing")
	rt.Assert(b != nil, "same-name/second-child-missing")
	for round := 0; round < 2; round++ {
		w.Srv.ResetLog()
		pc.SnapshotFromStore()
		rt.Assert(pc.syncParentObject(pc.W.Srv.All("things")[0]) == nil, "same-name/quiescent-sync-error")
		for _, r := range w.Srv.Writes() {
			rt.Assert(false, "same-name/hot-loop-"+r.Verb+"-"+r.Resource+r.Sub)
		}
	}
	rt.Cover("same-name/quiescent")
}

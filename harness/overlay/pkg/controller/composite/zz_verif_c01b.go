package composite

// C01 — order-dependent (StatefulSet-like) hook over two child kinds, for a
// namespaced or a cluster-scoped parent. The hook is a pure function of the
// parent's spec and of the observed children it is shown: ConfigMap "a" is
// always desired, Widget "w0" only once "a" is observed, Widget "w1" only once
// "w0" is observed. Children values come from the parent's (symbolic) spec.

import (
	"k8s.io/apimachinery/pkg/apis/meta/v1/unstructured"

	"metacontroller/pkg/controller/common"
	v1 "metacontroller/pkg/controller/composite/api/v1"
	"metacontroller/pkg/zzverif/env"
	rt "metacontroller/pkg/zzverif/rt"
)

func VerifC01_OrderedHook() {
	common.VerifResetSSAMemo()
	w := env.NewWorld()
	puid := "puid"
	cluster := rt.Bool("cluster-scoped-parent")
	parentRes := env.ThingRes
	var parent *unstructured.Unstructured
	if cluster {
		parentRes = env.ClusterThingRes
		parent = env.Obj("ex.com/v1", "ClusterThing", "", "p", puid)
		parent.Object["spec"] = map[string]interface{}{}
	} else {
		parent = env.Thing("ns", "p", puid)
	}
	val := rt.String("spec.val")
	parent.Object["spec"].(map[string]interface{})["val"] = val
	w.Srv.Put(parentRes.Name, parent)
	ssa := rt.Bool("server-side-apply")
	method := rt.OneOf(rt.String("widget-method"), "InPlace", "Recreate", "OnDelete", "")
	rt.Assume(method == "InPlace" || method == "Recreate" || method == "OnDelete" || method == "")

	mkCM := func(v string) *unstructured.Unstructured { return env.ConfigMap("ns", "a", "", v) }
	mkW := func(name, v string) *unstructured.Unstructured {
		o := env.Obj("apps.ex.com/v1", "Widget", "ns", name, "")
		o.Object["spec"] = map[string]interface{}{"k": v}
		return o
	}
	// initial cluster: optionally the LAST widget is already there as a stale
	// owned child (created from an older parent spec), without its predecessors
	staleW1 := rt.Bool("stale-w1")
	oldVal := rt.String("oldVal")
	if staleW1 {
		o := mkW("w1", oldVal)
		env.SetLabel(o, "controller-uid", puid)
		w.Srv.Put("widgets", verifAppliedChild(o, parent, "uid-w1"))
	}
	hook := &verifHook{enabled: true, fn: func(req *v1.CompositeHookRequest) (*v1.CompositeHookResponse, error) {
		spec, _ := req.Parent.Object["spec"].(map[string]interface{})
		v, _ := spec["val"].(string)
		kids := []*unstructured.Unstructured{mkCM(v)}
		seen := func(kind, name string) bool {
			for gvk, group := range req.Children {
				_ = gvk
				for _, o := range group {
					if o.GetKind() == kind && o.GetName() == name {
						return true
					}
				}
			}
			return false
		}
		if seen("ConfigMap", "a") {
			kids = append(kids, mkW("w0", v))
			if seen("Widget", "w0") {
				kids = append(kids, mkW("w1", v))
			}
		}
		return &v1.CompositeHookResponse{Children: kids, Status: map[string]interface{}{"phase": "ok"}}, nil
	}}
	pc := verifNewPC(w, verifPCConfig{
		ParentRes: parentRes, GenerateSelector: true, SSA: ssa,
		Children: []verifChildRule{
			{Res: env.ConfigMapRes, Strategy: verifStrategyOf("InPlace")},
			{Res: env.WidgetRes, Strategy: verifStrategyOf(method)},
		},
		Sync: hook,
	})
	const K = 5
	for i := 0; i < K; i++ {
		pc.SnapshotFromStore()
		_ = pc.syncParentObject(pc.W.Srv.All(parentRes.Name)[0])
	}
	w.Srv.ResetLog()
	pc.SnapshotFromStore()
	err := pc.syncParentObject(pc.W.Srv.All(parentRes.Name)[0])
	rt.Assert(err == nil, "ordered/quiescent-sync-error")
	for _, r := range w.Srv.Writes() {
		rt.Assert(false, "ordered/hot-loop-"+r.Verb+"-"+r.Resource+r.Sub)
	}
	// fixpoint: a, w0, w1 exist, owned, with the parent's value
	a := w.Srv.Peek("configmaps", "ns", "a")
	rt.Assert(a != nil, "ordered/a-missing")
	if a != nil {
		cu, has := verifControllerUID(a)
		rt.Assert(has && cu == puid, "ordered/a-not-owned")
		d, _ := a.Object["data"].(map[string]interface{})
		k, _ := d["k"].(string)
		rt.Assert(k == val, "ordered/a-field-differs")
	}
	for _, n := range []string{"w0", "w1"} {
		o := w.Srv.Peek("widgets", "ns", n)
		rt.Assert(o != nil, "ordered/"+n+"-missing")
		if o == nil {
			continue
		}
		cu, has := verifControllerUID(o)
		rt.Assert(has && cu == puid, "ordered/"+n+"-not-owned")
		sp, _ := o.Object["spec"].(map[string]interface{})
		k, _ := sp["k"].(string)
		rt.Assert(k == val, "ordered/"+n+"-field-differs")
	}
	rt.Assert(len(w.Srv.All("widgets")) == 2, "ordered/widget-count")
	rt.Assert(len(w.Srv.All("configmaps")) == 1, "ordered/configmap-count")
	p := w.Srv.Peek(parentRes.Name, parent.GetNamespace(), "p")
	st, _ := p.Object["status"].(map[string]interface{})
	rt.Assert(st["phase"] == "ok", "ordered/status-not-written")
	rt.Cover("ordered-converged")
}

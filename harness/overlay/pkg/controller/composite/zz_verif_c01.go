package composite

// C01 — reconciliation converges to the hook's desired children, then goes quiet.
// Bounded multi-sync runs of the real syncParentObject against the simulated
// API server; caches are re-listed from the store between syncs.

import (
	"k8s.io/apimachinery/pkg/apis/meta/v1/unstructured"

	"metacontroller/pkg/controller/common"
	v1 "metacontroller/pkg/controller/composite/api/v1"
	"metacontroller/pkg/logging"
	"metacontroller/pkg/zzverif/env"
	"metacontroller/pkg/zzverif/logsink"
	rt "metacontroller/pkg/zzverif/rt"
)

func verifC01(ssa bool) {
	common.VerifResetSSAMemo()
	w := env.NewWorld()
	puid := "puid"
	parent := env.Thing("ns", "p", puid)
	gensel := rt.Bool("generateSelector")
	matchKey, matchVal := "controller-uid", puid
	if !gensel {
		matchKey, matchVal = "app", "x"
		parent.Object["spec"].(map[string]interface{})["selector"] = map[string]interface{}{"matchLabels": map[string]interface{}{"app": "x"}}
	}
	w.Srv.Put("things", parent)
	method := rt.OneOf(rt.String("method"), "InPlace", "Recreate", "OnDelete", "")
	rt.Assume(method == "InPlace" || method == "Recreate" || method == "OnDelete" || method == "")
	finalize := rt.Bool("finalize-hook")
	desVal := rt.String("desVal")
	obsVal := rt.String("obsVal")

	mkDesired := func(name string) *unstructured.Unstructured {
		d := env.ConfigMap("ns", name, "", desVal)
		if !gensel {
			env.SetLabel(d, "app", "x")
		}
		return d
	}
	// initial state of desired child "a"
	roleA := rt.Choice("initial-a", 6)
	drifted := false
	switch roleA {
	case 1: // owned, created earlier from the same desired state
		a := mkDesired("a")
		env.SetLabel(a, matchKey, matchVal)
		w.Srv.Put("configmaps", verifAppliedChild(a, parent, "uid-a"))
	case 2: // owned, created earlier from another desired state (drifted)
		a := env.ConfigMap("ns", "a", "", obsVal)
		env.SetLabel(a, matchKey, matchVal)
		w.Srv.Put("configmaps", verifAppliedChild(a, parent, "uid-a"))
		drifted = true
	case 3: // matching orphan with other content
		a := env.ConfigMap("ns", "a", "uid-a", obsVal)
		env.SetLabel(a, matchKey, matchVal)
		w.Srv.Put("configmaps", a)
		drifted = true
	case 4: // matching orphan that someone else also edits (foreign field)
		a := env.ConfigMap("ns", "a", "uid-a", obsVal)
		env.SetLabel(a, matchKey, matchVal)
		a.Object["data"].(map[string]interface{})["other"] = "theirs"
		w.Srv.Put("configmaps", a)
		drifted = true
	case 5: // matching orphan that already lists the parent as a plain (non-controller) owner
		a := env.ConfigMap("ns", "a", "uid-a", obsVal)
		env.SetLabel(a, matchKey, matchVal)
		env.AddOwnerRef(a, env.OwnerRefMap(parent.GetAPIVersion(), parent.GetKind(), parent.GetName(), puid, false))
		w.Srv.Put("configmaps", a)
		drifted = true
	}
	// another object "z" that is not desired
	roleZ := rt.Choice("initial-z", 4)
	switch roleZ {
	case 1: // stale owned child
		z := env.ConfigMap("ns", "z", "", "old")
		env.SetLabel(z, matchKey, matchVal)
		w.Srv.Put("configmaps", verifAppliedChild(z, parent, "uid-z"))
	case 2: // foreign-owned look-alike
		z := env.ConfigMap("ns", "z", "uid-z", "theirs")
		env.SetLabel(z, matchKey, matchVal)
		env.AddOwnerRef(z, env.OwnerRefMap("ex.com/v1", "Thing", "q", "other-uid", true))
		w.Srv.Put("configmaps", z)
	case 3: // orphan that does not match
		z := env.ConfigMap("ns", "z", "uid-z", "theirs")
		env.SetLabel(z, matchKey, "other")
		w.Srv.Put("configmaps", z)
	}
	names := []string{"a"}
	if rt.Bool("want-b") {
		names = append(names, "b")
	}
	// verbosity 5 switches on code of its own in the update path (the diff that
	// is rendered for the log): convergence and quiescence hold at any verbosity
	// (quick tier: only explored without the unrelated object z)
	if (rt.Tier() == 1 || roleZ == 0) && rt.Bool("log-verbosity-5") {
		rt.Cover("verbose-logging")
		saved := logging.Logger
		defer func() { logging.Logger = saved }()
		logging.Logger = logsink.Verbose()
	}
	hook := verifConstHook(nil, map[string]interface{}{"phase": "ok"}, false)
	// the hook may echo the annotations of the observed child it is shown
	// (quick tier: only explored without the unrelated object z, to keep the product small)
	echo := (rt.Tier() == 1 || roleZ == 0) && rt.Bool("hook-echoes-annotations")
	hook.fn = func(req *v1.CompositeHookRequest) (*v1.CompositeHookResponse, error) {
		var kids []*unstructured.Unstructured
		for _, n := range names {
			d := mkDesired(n)
			if echo {
				for _, group := range req.Children {
					if seen := group[n]; seen != nil {
						for k, v := range seen.GetAnnotations() {
							env.SetAnnotation(d, k, v)
						}
					}
				}
			}
			kids = append(kids, d)
		}
		return &v1.CompositeHookResponse{Children: kids, Status: map[string]interface{}{"phase": "ok"}}, nil
	}
	pc := verifNewPC(w, verifPCConfig{
		ParentRes: env.ThingRes, GenerateSelector: gensel, SSA: ssa, FinalizeEnabled: finalize,
		Children: []verifChildRule{{Res: env.ConfigMapRes, Strategy: verifStrategyOf(method)}},
		Sync:     hook, Finalize: verifConstHook(nil, nil, true),
	})
	const K = 4
	for i := 0; i < K; i++ {
		pc.SnapshotFromStore()
		_ = pc.syncParentObject(pc.W.Srv.All("things")[0])
	}
	// quiescence: a further sync changes nothing and sends no write at all
	w.Srv.ResetLog()
	before := w.Srv.All("configmaps")
	pc.SnapshotFromStore()
	fp := verifFingerprint(verifListerItems(pc), nil)
	err := pc.syncParentObject(pc.W.Srv.All("things")[0])
	rt.Assert(err == nil, "quiescent-sync/error")
	for _, r := range w.Srv.Writes() {
		rt.Assert(false, "hot-loop/"+r.Verb+"-"+r.Resource+r.Sub+"-sent-at-the-fixpoint")
	}
	rt.Assert(len(w.Srv.All("configmaps")) == len(before), "hot-loop/store-changed")
	fp.AssertUnchanged("C17/cache-object-mutated-by-sync")

	// fixpoint oracle: owned children are exactly the desired children
	updatable := method == "InPlace" || method == "Recreate" || ssa
	for _, n := range names {
		o := w.Srv.Peek("configmaps", "ns", n)
		rt.Assert(o != nil, "fixpoint/desired-child-missing")
		if o == nil {
			continue
		}
		cu, has := verifControllerUID(o)
		rt.Assert(has && cu == puid, "fixpoint/desired-child-not-owned")
		if updatable || !(n == "a" && drifted) {
			d, _ := o.Object["data"].(map[string]interface{})
			k, _ := d["k"].(string)
			rt.Assert(k == desVal, "fixpoint/specified-field-differs")
		}
		if n == "a" && roleA == 4 && method != "Recreate" {
			// (Recreate replaces the object by one built from the desired state only)
			d, _ := o.Object["data"].(map[string]interface{})
			rt.Assert(d["other"] == "theirs", "fixpoint/foreign-field-clobbered")
		}
		if o.GetLabels()[matchKey] != matchVal {
			rt.Assert(false, "fixpoint/desired-child-does-not-match-selector")
		}
	}
	for _, o := range w.Srv.All("configmaps") {
		if cu, has := verifControllerUID(o); has && cu == puid {
			desiredName := false
			for _, n := range names {
				if o.GetName() == n {
					desiredName = true
				}
			}
			rt.Assert(desiredName, "fixpoint/undesired-child-still-owned")
		}
	}
	if roleZ >= 2 {
		z := w.Srv.Peek("configmaps", "ns", "z")
		rt.Assert(z != nil, "fixpoint/foreign-object-removed")
		if z != nil {
			rt.Assert(z.GetResourceVersion() == "7", "fixpoint/foreign-object-modified")
		}
	}
	p := w.Srv.Peek("things", "ns", "p")
	st, _ := p.Object["status"].(map[string]interface{})
	rt.Assert(st["phase"] == "ok", "fixpoint/status-not-written")
	if finalize {
		rt.Assert(verifHasFinalizer(p, verifFinalizerName), "fixpoint/finalizer-missing")
	}
	rt.Cover("converged")
}

func VerifC01_Converges() { verifC01(false) }
func VerifC01_SSA()       { verifC01(true) }

// verifC01Drift: after convergence an outside actor changes a field the hook
// specifies (the API server bumps the generation); the next syncs must repair
// it where the strategy permits updates, and go quiet again.
func verifC01Drift(ssa bool) {
	common.VerifResetSSAMemo()
	w := env.NewWorld()
	parent := env.Thing("ns", "p", "puid")
	w.Srv.Put("things", parent)
	method := rt.OneOf(rt.String("method"), "InPlace", "Recreate", "OnDelete")
	rt.Assume(method == "InPlace" || method == "Recreate" || method == "OnDelete")
	desVal := rt.String("desVal")
	tampered := rt.String("tampered")
	rt.Assume(tampered != desVal)
	mk := func() *unstructured.Unstructured {
		o := env.Obj("apps.ex.com/v1", "Widget", "ns", "a", "")
		o.Object["spec"] = map[string]interface{}{"k": desVal}
		return o
	}
	hook := &verifHook{enabled: true, fn: func(req *v1.CompositeHookRequest) (*v1.CompositeHookResponse, error) {
		return &v1.CompositeHookResponse{Children: []*unstructured.Unstructured{mk()}, Status: map[string]interface{}{"phase": "ok"}}, nil
	}}
	pc := verifNewPC(w, verifPCConfig{
		ParentRes: env.ThingRes, GenerateSelector: true, SSA: ssa,
		Children: []verifChildRule{{Res: env.WidgetRes, Strategy: verifStrategyOf(method)}},
		Sync:     hook,
	})
	for i := 0; i < 2; i++ {
		pc.SnapshotFromStore()
		rt.Assert(pc.syncParentObject(pc.W.Srv.All("things")[0]) == nil, "drift/initial-sync-error")
	}
	a := w.Srv.Peek("widgets", "ns", "a")
	rt.Assert(a != nil, "drift/child-not-created")
	if a == nil {
		return
	}
	// someone edits the field the hook owns
	t := a.DeepCopy()
	t.Object["spec"] = map[string]interface{}{"k": tampered}
	t.SetGeneration(a.GetGeneration() + 1)
	t.SetResourceVersion(a.GetResourceVersion() + "+")
	w.Srv.Put("widgets", t)
	for i := 0; i < 3; i++ {
		pc.SnapshotFromStore()
		_ = pc.syncParentObject(pc.W.Srv.All("things")[0])
	}
	cur := w.Srv.Peek("widgets", "ns", "a")
	rt.Assert(cur != nil, "drift/child-missing-after-repair")
	if cur != nil && (ssa || method != "OnDelete") {
		rt.Cover("drift-repaired")
		sp, _ := cur.Object["spec"].(map[string]interface{})
		k, _ := sp["k"].(string)
		rt.Assert(k == desVal, "drift/specified-field-not-repaired-after-external-edit")
	}
	w.Srv.ResetLog()
	pc.SnapshotFromStore()
	_ = pc.syncParentObject(pc.W.Srv.All("things")[0])
	for _, r := range w.Srv.Writes() {
		rt.Assert(false, "drift/hot-loop-"+r.Verb+"-"+r.Resource+r.Sub)
	}
}

func VerifC01_DriftRepair()    { verifC01Drift(false) }
func VerifC01_DriftRepairSSA() { verifC01Drift(true) }

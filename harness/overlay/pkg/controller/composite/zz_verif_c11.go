package composite

// C11 — parent status = hook status + observedGeneration; nothing else touched.
// Real code: updateParentStatus, ResourceClient.AtomicStatusUpdate (retry loop,
// UID check), and — Level B — the tail of syncParentObject.

import (
	"k8s.io/apimachinery/pkg/apis/meta/v1/unstructured"
	v1 "metacontroller/pkg/controller/composite/api/v1"

	"metacontroller/pkg/zzverif/env"
	"metacontroller/pkg/zzverif/gen"
	rt "metacontroller/pkg/zzverif/rt"
)

// verifHookStatus returns a symbolic hook status.
func verifHookStatus() map[string]interface{} {
	switch rt.Choice("status-shape", 5) {
	case 0:
		rt.Cover("status-nil")
		return nil
	case 1:
		return map[string]interface{}{}
	case 2:
		return map[string]interface{}{"phase": rt.String("phase"), "nested": map[string]interface{}{"n": rt.Int64("n")}}
	case 3:
		// the hook tries to set its own observedGeneration
		rt.Cover("status-own-observedGeneration")
		return map[string]interface{}{"observedGeneration": rt.Int64("hookObservedGeneration"), "phase": rt.String("phase")}
	default:
		return map[string]interface{}{"conditions": []interface{}{map[string]interface{}{"type": "Ready", "status": rt.String("ready")}}}
	}
}

func VerifC11_StatusWrite() {
	w := env.NewWorld()
	hasSub := rt.Bool("status-subresource")
	res := env.ThingRes
	kind := "Thing"
	if !hasSub {
		res = env.NoStatusRes
		kind = "NoStatus"
	}
	gen0 := rt.Int64("generation")
	rt.Assume(gen0 >= 1 && gen0 < 1000000)
	cached := env.Obj("ex.com/v1", kind, "ns", "p", "puid")
	cached.Object["metadata"].(map[string]interface{})["generation"] = gen0
	cached.Object["spec"] = map[string]interface{}{"x": rt.String("spec-x")}
	env.SetLabel(cached, "l", rt.String("label"))
	env.SetAnnotation(cached, "a", rt.String("annotation"))
	env.AddOwnerRef(cached, env.OwnerRefMap("v1", "Owner", "o", "owner-uid", false))

	hookStatus := verifHookStatus()
	var hookStatusCopy map[string]interface{}
	if hookStatus != nil {
		hookStatusCopy = gen.DeepCopy(hookStatus).(map[string]interface{})
	}

	// a lagging informer may still show the parent WITH the status that is about
	// to be written (status flapped back, or somebody changed the live status
	// meanwhile): what counts is the live object, read afresh
	cacheShowsDesired := rt.Bool("cached-parent-already-shows-the-desired-status")
	// live object: same / spec edited since / replaced under the same name / gone
	liveKind := rt.Choice("live", 4)
	var live *unstructured.Unstructured
	switch liveKind {
	case 0:
		live = cached.DeepCopy()
	case 1:
		rt.Cover("live-spec-edited")
		live = cached.DeepCopy()
		live.Object["spec"] = map[string]interface{}{"x": rt.String("live-spec-x")}
		live.SetResourceVersion("8")
		live.SetGeneration(gen0 + 1)
	case 2:
		rt.Cover("live-replaced")
		live = cached.DeepCopy()
		live.SetUID("another-uid")
	}
	if live != nil {
		if rt.Bool("live-has-status") {
			live.Object["status"] = map[string]interface{}{"phase": rt.String("live-phase"), "observedGeneration": rt.Int64("live-og")}
		}
		w.Srv.Put(res.Name, live)
	}
	// optional conflict on the first status write
	conflict := rt.Bool("conflict-on-first-write")
	if conflict {
		w.Srv.FaultAt, w.Srv.FaultKind = 0, env.FaultConflict
	}

	// (the status goes through a WHOLE real sync - a hook that returns it, no
	// child resources: which internal function adds observedGeneration is the
	// implementation's business)
	hook := &verifHook{enabled: true, fn: func(req *v1.CompositeHookRequest) (*v1.CompositeHookResponse, error) {
		return &v1.CompositeHookResponse{Status: hookStatus}, nil
	}}
	pc := verifNewPC(w, verifPCConfig{ParentRes: res, GenerateSelector: true, Sync: hook})
	var liveBefore *unstructured.Unstructured
	if live != nil {
		liveBefore = live.DeepCopy()
	}
	if cacheShowsDesired {
		rt.Cover("cache-shows-desired-status")
		st := map[string]interface{}{}
		if hookStatusCopy != nil {
			st = gen.DeepCopy(hookStatusCopy).(map[string]interface{})
		}
		st["observedGeneration"] = gen0
		cached.Object["status"] = st
	}

	err := pc.syncParentObject(cached)

	// expected status: hook status ∪ {observedGeneration: generation of the parent sent to the hook}
	want := map[string]interface{}{}
	for k, v := range hookStatusCopy {
		want[k] = v
	}
	want["observedGeneration"] = gen0

	writes := w.Srv.Writes()
	rt.Observe("writes", len(writes))
	rt.Observe("err", err != nil)
	switch liveKind {
	case 3:
		// (whether a vanished or replaced parent makes the sync fail or is taken as
		// "nothing left to do" is open; nothing is written)
		rt.Cover("live-gone")
		rt.Assert(len(writes) == 0, "gone/write")
		return
	case 2:
		rt.Assert(len(writes) == 0, "replaced/write-to-same-named-parent-with-different-uid")
		cur := w.Srv.Peek(res.Name, "ns", "p")
		gen.Equal(cur.Object, liveBefore.Object, "replaced/object-modified")
		return
	}
	for _, r := range writes {
		rt.Assert(r.Verb == "update" && r.Resource == res.Name && r.Name == "p" && r.NS == "ns", "write/unexpected-target-or-verb")
		if hasSub {
			rt.Assert(r.Sub == "status", "write/not-through-status-endpoint")
		} else {
			rt.Assert(r.Sub == "", "write/status-endpoint-used-for-a-resource-without-status-subresource")
		}
		// body = freshly read object with only status replaced
		gen.Equal(r.Body.Object["status"], want, "write/body-status")
		gen.Equal(r.Body.Object["spec"], liveBefore.Object["spec"], "write/body-spec-differs-from-live")
		gen.Equal(r.Body.Object["metadata"], liveBefore.Object["metadata"], "write/body-metadata-differs-from-live")
	}
	// was a write necessary?
	already := false
	if st, ok := liveBefore.Object["status"].(map[string]interface{}); ok {
		already = verifStatusEq(st, want)
	}
	if already {
		rt.Cover("already-equal")
		rt.Assert(len(writes) == 0, "already-equal/write")
		rt.Assert(err == nil, "already-equal/error")
		return
	}
	rt.Assert(err == nil, "write/error")
	if conflict {
		rt.Cover("conflict-retried")
		rt.Assert(len(writes) == 2, "conflict/not-retried-exactly-once")
		// each attempt is preceded by its own fresh GET
		gets := 0
		for _, r := range w.Srv.Log {
			if r.Verb == "get" {
				gets++
			}
		}
		rt.Assert(gets == 2, "conflict/retry-without-fresh-read")
	} else {
		rt.Cover("written")
		rt.Assert(len(writes) == 1, "write/not-exactly-one")
	}
	cur := w.Srv.Peek(res.Name, "ns", "p")
	rt.Assert(cur != nil, "write/parent-vanished")
	if cur != nil {
		gen.Equal(cur.Object["status"], want, "stored/status")
		gen.Equal(cur.Object["spec"], liveBefore.Object["spec"], "stored/spec-changed")
		cm, lm := cur.Object["metadata"].(map[string]interface{}), liveBefore.Object["metadata"].(map[string]interface{})
		gen.Equal(cm["labels"], lm["labels"], "stored/labels-changed")
		gen.Equal(cm["annotations"], lm["annotations"], "stored/annotations-changed")
		gen.Equal(cm["ownerReferences"], lm["ownerReferences"], "stored/ownerReferences-changed")
		gen.Equal(cm["uid"], lm["uid"], "stored/uid-changed")
	}
}

// verifStatusEq decides equality of two small status maps by branching
// (used only to know whether a write was necessary).
func verifStatusEq(a, b map[string]interface{}) bool {
	if len(a) != len(b) {
		return false
	}
	for k, av := range a {
		bv, ok := b[k]
		if !ok {
			return false
		}
		switch x := av.(type) {
		case string:
			y, ok := bv.(string)
			if !ok || x != y {
				return false
			}
		case int64:
			y, ok := bv.(int64)
			if !ok || x != y {
				return false
			}
		default:
			return false
		}
	}
	return true
}

package composite

// C14 — every change that can alter a parent's reconciliation enqueues that
// parent (composite controller part).
//
// Real code driven: enqueueParentObject, updateParentObject, onChildAdd,
// onChildUpdate, onChildDelete, resolveControllerRef, findPotentialParents,
// makeSelector, doNotMatchLabels, common.KeyFunc, common.GetObject — on a real
// *parentController whose informers are snapshot listers and whose work queue
// is the recording env.Queue.  The EVENT is symbolic; the expected set of
// queue keys is computed by a predicate written from the property statement.

import (
	metav1 "k8s.io/apimachinery/pkg/apis/meta/v1"
	"k8s.io/apimachinery/pkg/apis/meta/v1/unstructured"
	"k8s.io/client-go/tools/cache"

	dynamicdiscovery "metacontroller/pkg/dynamic/discovery"
	"metacontroller/pkg/zzverif/env"
	rt "metacontroller/pkg/zzverif/rt"
)

// ---- helpers (all prefixed verifC14) ----

func verifC14ParentRes(cluster bool) *dynamicdiscovery.APIResource {
	if cluster {
		return env.ClusterThingRes
	}
	return env.ThingRes
}

func verifC14AddFinalizer(o *unstructured.Unstructured, name string) {
	md := o.Object["metadata"].(map[string]interface{})
	f, _ := md["finalizers"].([]interface{})
	md["finalizers"] = append(f, name)
}

func verifC14SetRV(o *unstructured.Unstructured, rv string) {
	o.Object["metadata"].(map[string]interface{})["resourceVersion"] = rv
}

func verifC14SetGeneration(o *unstructured.Unstructured, g int64) {
	o.Object["metadata"].(map[string]interface{})["generation"] = g
}

// verifC14Key is the composite queue key of a parent as the property states it:
// namespace/name, or the bare name for a cluster-scoped parent.
func verifC14Key(ns, name string) string {
	if ns == "" {
		return name
	}
	return ns + "/" + name
}

// verifC14AssertQueue asserts that exactly the expected keys were added (the
// expected keys are pairwise different by construction) and nothing else was
// done with the queue.
func verifC14AssertQueue(q *env.Queue, what string, want ...string) {
	rt.Observe("queue-ops", len(q.Ops))
	for _, op := range q.Ops {
		rt.Assert(op.Op == "add", what+"/queue-op-other-than-add")
	}
	if len(want) == 0 {
		rt.Assert(len(q.Ops) == 0, what+"/enqueued-although-nothing-expected")
		return
	}
	rt.Assert(len(q.Ops) >= len(want), what+"/parent-not-enqueued")
	rt.Assert(len(q.Ops) <= len(want), what+"/more-keys-than-expected")
	if len(q.Ops) != len(want) {
		return
	}
	if len(want) == 1 {
		rt.Assert(q.Ops[0].Key == want[0], what+"/wrong-key")
		return
	}
	// two expected keys, any order
	a, b := q.Ops[0].Key, q.Ops[1].Key
	if a == want[0] {
		rt.Assert(b == want[1], what+"/wrong-key")
	} else {
		rt.Assert(a == want[1], what+"/wrong-key")
		rt.Assert(b == want[0], what+"/wrong-key")
	}
}

// verifC14CtrlSelector: the controller-level parent selector is either absent
// (all parents) or `tier in (<want>)`.
func verifC14CtrlSelector(has bool, want string) *metav1.LabelSelector {
	if !has {
		return nil
	}
	return &metav1.LabelSelector{MatchLabels: map[string]string{"tier": want}}
}

// verifC14SymParentLabels puts a symbolic label shape on a parent and returns
// whether the parent matches the controller-level selector (independent
// predicate: no selector = everything, otherwise label tier must be present
// and equal).
func verifC14SymParentLabels(o *unstructured.Unstructured, tag string, hasSel bool, selVal string) (matches bool) {
	switch rt.Choice(tag+"-labels", 3) {
	case 0: // no labels at all
		return !hasSel
	case 1: // the selected key with a symbolic value
		v := rt.String(tag + "-tier")
		env.SetLabel(o, "tier", v)
		if !hasSel {
			return true
		}
		return v == selVal
	default: // only an unrelated label
		env.SetLabel(o, "unrelated", rt.String(tag+"-unrelated"))
		return !hasSel
	}
}

// ---- 1. parent add / update / delete ----

// VerifC14_CompositeParentEvents: a parent add, update, delete or delete
// tombstone is queued iff the parent matches the controller-level selector or
// carries the controller's finalizer; the key is namespace/name (name for a
// cluster-scoped parent).
func VerifC14_CompositeParentEvents() {
	w := env.NewWorld()
	cluster := rt.Bool("cluster-scoped")
	hasSel := rt.Bool("controller-has-parent-selector")
	selVal := "gold"
	pc := verifNewPC(w, verifPCConfig{
		ParentRes:        verifC14ParentRes(cluster),
		GenerateSelector: rt.Bool("generate-selector"),
		ParentSelector:   verifC14CtrlSelector(hasSel, selVal),
		FinalizeEnabled:  rt.Bool("finalize-hook"),
	})
	pc.Snapshot(nil, nil, nil)

	ns := ""
	if !cluster {
		ns = rt.String("ns")
		rt.Assume(ns != "")
	}
	name := rt.String("name")
	rt.Assume(name != "")
	parent := env.Obj(pc.parentResource.APIVersion, pc.parentResource.Kind, ns, name, "puid")
	matches := verifC14SymParentLabels(parent, "parent", hasSel, selVal)
	hasFin := false
	switch rt.Choice("finalizers", 3) {
	case 0:
	case 1: // only somebody else's finalizer: does not count
		verifC14AddFinalizer(parent, "example.com/other")
	case 2:
		verifC14AddFinalizer(parent, "example.com/other")
		verifC14AddFinalizer(parent, verifFinalizerName)
		hasFin = true
	}

	ev := rt.Choice("event", 4)
	tombstone := false
	switch ev {
	case 0:
		rt.Cover("parent-add")
		pc.enqueueParentObject(parent)
	case 1:
		rt.Cover("parent-update")
		old := parent.DeepCopy()
		verifC14SetRV(old, "6")
		pc.updateParentObject(old, parent)
	case 2:
		rt.Cover("parent-delete")
		env.MarkDeleting(parent)
		pc.enqueueParentObject(parent)
	case 3:
		rt.Cover("parent-delete-tombstone")
		tombstone = true
		pc.enqueueParentObject(cache.DeletedFinalStateUnknown{Key: verifC14Key(ns, name), Obj: parent})
	}

	key := verifC14Key(ns, name)
	switch {
	case matches:
		rt.Cover("parent-matching")
		verifC14AssertQueue(pc.Queue, "parent-event/matching", key)
	case hasFin:
		rt.Cover("parent-unmatched-with-finalizer")
		verifC14AssertQueue(pc.Queue, "parent-event/unmatched-with-finalizer", key)
	case tombstone:
		rt.Cover("parent-unmatched-no-finalizer-tombstone")
		verifC14AssertQueue(pc.Queue, "parent-tombstone/unmatched-no-finalizer")
	default:
		rt.Cover("parent-unmatched-no-finalizer")
		verifC14AssertQueue(pc.Queue, "parent-event/unmatched-no-finalizer")
	}
}

// verifC14ThoroughBool is a free boolean in the thorough tier and the given
// constant in the quick tier.
func verifC14ThoroughBool(tag string, quick bool) bool {
	if rt.Tier() == 0 {
		return quick
	}
	return rt.Bool(tag)
}

// ---- 2. ignoreStatusChanges ----

// verifC14SymMeta puts a symbolic label/annotation shape on o: 0 = none,
// 1 = {key: v}, 2 = {key: v, "extra": "x"}, 3 = {key+"-renamed": v} (same
// number of entries as shape 1, same value, another key: a comparison that
// looks values up by key without testing presence takes it for shape 1 when v
// is empty).
func verifC14SymMeta(o *unstructured.Unstructured, tag string, labels bool, key string, shapes int) (shape int, v string) {
	if shapes < 0 { // fixed shape -shapes
		shape = -shapes
	} else {
		shape = rt.Choice(tag+"-shape", shapes)
	}
	if shape == 0 {
		return 0, ""
	}
	v = rt.String(tag + "-value")
	set := env.SetAnnotation
	if labels {
		set = env.SetLabel
	}
	if shape == 3 {
		set(o, key+"-renamed", v)
		return shape, v
	}
	set(o, key, v)
	if shape == 2 {
		set(o, "extra", "x")
	}
	return shape, v
}

// VerifC14_CompositeParentUpdateIgnoreStatus: with ignoreStatusChanges an
// update is dropped iff old and cur have the same generation, the same labels,
// the same annotations and cur is not being deleted; an update that is not
// dropped is queued under the usual selector-or-finalizer rule.
func VerifC14_CompositeParentUpdateIgnoreStatus() {
	w := env.NewWorld()
	cluster := verifC14ThoroughBool("cluster-scoped", false)
	selVal := "gold"
	pc := verifNewPC(w, verifPCConfig{
		ParentRes:      verifC14ParentRes(cluster),
		ParentSelector: verifC14CtrlSelector(true, selVal),
	})
	pc.Snapshot(nil, nil, nil)
	ignore := false
	switch rt.Choice("ignoreStatusChanges", 3) {
	case 0: // unset
	case 1:
		f := false
		pc.cc.Spec.ParentResource.IgnoreStatusChanges = &f
	case 2:
		t := true
		pc.cc.Spec.ParentResource.IgnoreStatusChanges = &t
		ignore = true
	}
	ns := "ns1"
	if cluster {
		ns = ""
	}
	old := env.Obj(pc.parentResource.APIVersion, pc.parentResource.Kind, ns, "p", "puid")
	cur := env.Obj(pc.parentResource.APIVersion, pc.parentResource.Kind, ns, "p", "puid")
	verifC14SetRV(old, "6")
	old.Object["status"] = map[string]interface{}{"phase": rt.String("old-status")}
	cur.Object["status"] = map[string]interface{}{"phase": rt.String("cur-status")}
	genOld, genCur := rt.Int64("old-generation"), rt.Int64("cur-generation")
	verifC14SetGeneration(old, genOld)
	verifC14SetGeneration(cur, genCur)
	lShapes, aShapes, oaShapes := 4, 2, 2
	if !ignore && rt.Tier() == 0 {
		// without ignoreStatusChanges the old state is not looked at: one shape
		lShapes, aShapes, oaShapes = -1, -1, -1
	}
	olShape, olV := verifC14SymMeta(old, "old-labels", true, "tier", lShapes)
	clShape, clV := verifC14SymMeta(cur, "cur-labels", true, "tier", 3)
	if oaShapes > 0 && rt.Bool("old-annotation-under-another-key") {
		oaShapes = -3
		rt.Cover("ignore-status/annotation-key-renamed")
	}
	if olShape == 3 {
		rt.Cover("ignore-status/label-key-renamed")
	}
	oaShape, oaV := verifC14SymMeta(old, "old-annotations", false, "note", oaShapes)
	caShape, caV := verifC14SymMeta(cur, "cur-annotations", false, "note", aShapes)
	hasFin := rt.Bool("cur-has-finalizer")
	if hasFin {
		verifC14AddFinalizer(old, verifFinalizerName)
		verifC14AddFinalizer(cur, verifFinalizerName)
	}
	deleting := rt.Bool("cur-deleting")
	if deleting {
		env.MarkDeleting(cur)
	}

	pc.updateParentObject(old, cur)

	// independent predicate
	unchanged := true
	if genOld != genCur {
		unchanged = false
	}
	if olShape != clShape {
		unchanged = false
	} else if olShape > 0 && olV != clV {
		unchanged = false
	}
	if oaShape != caShape {
		unchanged = false
	} else if oaShape > 0 && oaV != caV {
		unchanged = false
	}
	if deleting {
		unchanged = false
	}
	matches := false
	if clShape > 0 && clV == selVal {
		matches = true
	}
	key := verifC14Key(ns, "p")
	switch {
	case ignore && unchanged:
		rt.Cover("ignore-status/dropped")
		verifC14AssertQueue(pc.Queue, "ignore-status/unchanged-update")
	case matches:
		if ignore {
			rt.Cover("ignore-status/changed-enqueued")
		} else {
			rt.Cover("status-not-ignored/enqueued")
		}
		verifC14AssertQueue(pc.Queue, "parent-update/changed-matching", key)
	case hasFin:
		rt.Cover("parent-update/unmatched-with-finalizer")
		verifC14AssertQueue(pc.Queue, "parent-update/unmatched-with-finalizer", key)
	default:
		rt.Cover("parent-update/unmatched-no-finalizer")
		verifC14AssertQueue(pc.Queue, "parent-update/unmatched-no-finalizer")
	}
}

// ---- 3. child events ----

// verifC14Parents builds the two parents held by the parent informer cache.
//   p1 = (ns1|"", "p", "u1");
//   p2 = namespaced: same name "p" in another namespace ("ns2") or another
//        name "q" in the same namespace; cluster-scoped: ("", "q", "u2").
type verifC14Parent struct {
	obj      *unstructured.Unstructured
	ns, name string
	uid      string
	eligible bool // matches the controller-level selector or carries the finalizer
}

func (p *verifC14Parent) key() string { return verifC14Key(p.ns, p.name) }

const verifC14SelVal = "gold"

func verifC14MakeParents(res *dynamicdiscovery.APIResource, cluster bool) (p1, p2 *verifC14Parent) {
	p1 = &verifC14Parent{ns: "ns1", name: "p", uid: "u1"}
	p2 = &verifC14Parent{ns: "ns1", name: "q", uid: "u2", eligible: true}
	if cluster {
		p1.ns, p2.ns = "", ""
	} else if rt.Bool("p2-same-name-other-namespace") {
		p2.ns, p2.name = "ns2", "p"
	}
	p1.obj = env.Obj(res.APIVersion, res.Kind, p1.ns, p1.name, p1.uid)
	p2.obj = env.Obj(res.APIVersion, res.Kind, p2.ns, p2.name, p2.uid)
	env.SetLabel(p2.obj, "tier", verifC14SelVal)
	// p1: eligible by label / only by finalizer / not at all
	switch rt.Choice("p1-eligibility", 3) {
	case 0:
		env.SetLabel(p1.obj, "tier", verifC14SelVal)
		p1.eligible = true
	case 1:
		env.SetLabel(p1.obj, "tier", "silver")
		verifC14AddFinalizer(p1.obj, verifFinalizerName)
		p1.eligible = true
	case 2:
		env.SetLabel(p1.obj, "tier", "silver")
		verifC14AddFinalizer(p1.obj, "example.com/other")
	}
	return p1, p2
}

// verifC14ChildNS: the child's namespace, case-split against the parents'
// namespaces when parents are namespaced (irrelevant otherwise).
func verifC14ChildNS(cluster bool) string {
	ns := rt.String("child-namespace")
	rt.Assume(ns != "")
	if cluster {
		return ns
	}
	return rt.OneOf(ns, "ns1", "ns2")
}

func verifC14SetMatchLabels(o *unstructured.Unstructured, ml map[string]interface{}) {
	o.Object["spec"] = map[string]interface{}{"selector": map[string]interface{}{"matchLabels": ml}}
}

// verifC14DeliverChild delivers the chosen kind of child event and returns
// whether the property expects it to be treated as "child exists and changed"
// (live), as "child went away" (gone), or not at all (noop).
const (
	verifC14Live = iota
	verifC14Gone
	verifC14Noop
)

func verifC14ChildEvent() (ev int, live bool) {
	ev = rt.Choice("child-event", 6)
	return ev, ev == 0 || ev == 2
}

func verifC14DeliverChild(pc *verifPC, ev int, child *unstructured.Unstructured) int {
	switch ev {
	case 0:
		rt.Cover("child-add")
		pc.onChildAdd(child)
		return verifC14Live
	case 1:
		rt.Cover("child-add-being-deleted")
		env.MarkDeleting(child)
		pc.onChildAdd(child)
		return verifC14Gone
	case 2:
		old := child.DeepCopy()
		oldRV, curRV := rt.String("old-resourceVersion"), rt.String("cur-resourceVersion")
		verifC14SetRV(old, oldRV)
		verifC14SetRV(child, curRV)
		// the old state differs in everything a handler could look at
		env.SetLabel(old, "app", "old-app")
		delete(old.Object["metadata"].(map[string]interface{}), "ownerReferences")
		pc.onChildUpdate(old, child)
		if oldRV == curRV {
			rt.Cover("child-resync")
			return verifC14Noop
		}
		rt.Cover("child-update")
		return verifC14Live
	case 3:
		rt.Cover("child-delete")
		pc.onChildDelete(child)
		return verifC14Gone
	case 4:
		rt.Cover("child-delete-tombstone")
		pc.onChildDelete(cache.DeletedFinalStateUnknown{Key: child.GetNamespace() + "/" + child.GetName(), Obj: child})
		return verifC14Gone
	default:
		rt.Cover("child-update-being-deleted")
		old := child.DeepCopy()
		verifC14SetRV(old, "6")
		env.MarkDeleting(child)
		pc.onChildUpdate(old, child)
		return verifC14Gone
	}
}

// VerifC14_CompositeChildOwned: a child event whose object carries a
// controller owner reference wakes exactly the parent the reference resolves
// to — same API group (any version), same kind, same name, in the child's
// namespace when the parent is namespaced, and the same UID — provided that
// parent is eligible (selector or finalizer); anything else wakes nobody, even
// if the child's labels match some parent's selector.
func VerifC14_CompositeChildOwned() {
	w := env.NewWorld()
	cluster := rt.Bool("cluster-scoped")
	res := verifC14ParentRes(cluster)
	ev, live := verifC14ChildEvent()
	pc := verifNewPC(w, verifPCConfig{
		ParentRes: res,
		// irrelevant for an owned child: free in the thorough tier only
		GenerateSelector: verifC14ThoroughBool("generate-selector", cluster),
		ParentSelector:   verifC14CtrlSelector(true, verifC14SelVal),
		Children:         []verifChildRule{{Res: env.ConfigMapRes, Strategy: verifStrategyOf("InPlace")}},
	})
	p1, p2 := verifC14MakeParents(res, cluster)
	// both parents select the child's labels: an owned child must still not fan out
	verifC14SetMatchLabels(p1.obj, map[string]interface{}{"app": "web"})
	verifC14SetMatchLabels(p2.obj, map[string]interface{}{"app": "web"})
	pc.Snapshot([]*unstructured.Unstructured{p1.obj, p2.obj}, nil, nil)

	childNS := verifC14ChildNS(cluster)
	child := env.ConfigMap(childNS, "c", "cuid", "v")
	env.SetLabel(child, "app", "web")
	env.SetLabel(child, "controller-uid", "u1")

	groupOK := false
	refAPIVersion := ""
	nAV := 4
	if !live && rt.Tier() == 0 {
		nAV = 3
	}
	switch rt.Choice("ref-apiVersion", nAV) {
	case 0:
		refAPIVersion, groupOK = "ex.com/v1", true
	case 1: // same group, other version: still the same kind of parent
		refAPIVersion, groupOK = "ex.com/v2", true
	case 2:
		refAPIVersion = "other.io/v1"
	case 3:
		refAPIVersion = "v1"
	}
	refKind := rt.String("ref-kind")
	refName := rt.String("ref-name")
	refUID := rt.String("ref-uid")
	if verifC14ThoroughBool("other-owner-first", true) {
		// a non-controller owner that names p2 exactly: must be ignored
		env.AddOwnerRef(child, env.OwnerRefMap(res.APIVersion, res.Kind, p2.name, p2.uid, false))
	}
	env.AddOwnerRef(child, env.OwnerRefMap(refAPIVersion, refKind, refName, refUID, true))

	outcome := verifC14DeliverChild(pc, ev, child)

	names := func(p *verifC14Parent) bool {
		if !groupOK {
			return false
		}
		if refKind != res.Kind {
			return false
		}
		if refName != p.name {
			return false
		}
		if !cluster && childNS != p.ns {
			return false
		}
		if refUID != p.uid {
			return false
		}
		return true
	}
	if outcome == verifC14Noop {
		verifC14AssertQueue(pc.Queue, "child-resync")
		return
	}
	what := "owned-child"
	if outcome == verifC14Gone {
		what = "owned-child-gone"
	}
	switch {
	case names(p1):
		if p1.eligible {
			rt.Cover("owned/resolves-to-p1")
			verifC14AssertQueue(pc.Queue, what+"/owner-p1", p1.key())
		} else {
			rt.Cover("owned/owner-not-eligible")
			verifC14AssertQueue(pc.Queue, what+"/owner-neither-selected-nor-finalizer")
		}
	case names(p2):
		rt.Cover("owned/resolves-to-p2")
		verifC14AssertQueue(pc.Queue, what+"/owner-p2", p2.key())
	default:
		rt.Cover("owned/resolves-to-nobody")
		verifC14AssertQueue(pc.Queue, what+"/reference-names-no-cached-parent")
	}
}

// VerifC14_CompositeChildOrphan: a child without a controller reference that
// appears or changes wakes every eligible parent (in its namespace when
// parents are namespaced) whose selector — spec.selector.matchLabels, or
// controller-uid=<parent uid> with generateSelector — matches the child's
// labels; a disappearing orphan and a resync wake nobody.
func VerifC14_CompositeChildOrphan() {
	w := env.NewWorld()
	cluster := rt.Bool("cluster-scoped")
	genSel := rt.Bool("generate-selector")
	res := verifC14ParentRes(cluster)
	pc := verifNewPC(w, verifPCConfig{
		ParentRes:        res,
		GenerateSelector: genSel,
		ParentSelector:   verifC14CtrlSelector(true, verifC14SelVal),
		Children:         []verifChildRule{{Res: env.ConfigMapRes, Strategy: verifStrategyOf("InPlace")}},
	})
	ev, live := verifC14ChildEvent()
	full := live || rt.Tier() > 0
	p1, p2 := verifC14MakeParents(res, cluster)

	// parents' own selectors
	p1Shape := 1
	if !genSel && full {
		p1Shape = rt.Choice("p1-selector-shape", 4)
	}
	s1app, s1role := "", ""
	s1op, s1v2 := 0, ""
	switch p1Shape {
	case 3: // set-based selector: one matchExpressions requirement on "app"
		s1app, s1v2 = rt.String("p1-selector-app"), rt.String("p1-selector-app2")
		s1op = rt.Choice("p1-selector-operator", 4)
		req := map[string]interface{}{"key": "app", "operator": []string{"In", "NotIn", "Exists", "DoesNotExist"}[s1op]}
		if s1op < 2 {
			req["values"] = []interface{}{s1app, s1v2}
		}
		p1.obj.Object["spec"] = map[string]interface{}{"selector": map[string]interface{}{"matchExpressions": []interface{}{req}}}
		rt.Cover("orphan/set-based-selector")
	case 0: // no spec.selector: the parent is misconfigured and selects nothing
		p1.obj.Object["spec"] = map[string]interface{}{}
	case 1:
		s1app = rt.String("p1-selector-app")
		verifC14SetMatchLabels(p1.obj, map[string]interface{}{"app": s1app})
	case 2:
		s1app, s1role = rt.String("p1-selector-app"), rt.String("p1-selector-role")
		verifC14SetMatchLabels(p1.obj, map[string]interface{}{"app": s1app, "role": s1role})
	}
	s2app := rt.String("p2-selector-app")
	verifC14SetMatchLabels(p2.obj, map[string]interface{}{"app": s2app})
	pc.Snapshot([]*unstructured.Unstructured{p1.obj, p2.obj}, nil, nil)

	childNS := verifC14ChildNS(cluster)
	child := env.ConfigMap(childNS, "c", "cuid", "v")
	hasApp, hasRole, hasCU := false, false, false
	app, role, cu := "", "", ""
	// quick tier: 3 of the 4 label shapes per selector mode (role is not looked
	// at with generateSelector, controller-uid is an ordinary label without),
	// and one shape for events that must wake nobody anyway
	shape := 0
	switch {
	case rt.Tier() > 0:
		shape = rt.Choice("child-labels", 4)
	case !full:
		shape = 3
	default:
		shape = rt.Choice("child-labels", 3)
		if genSel && shape == 2 {
			shape = 3
		}
	}
	switch shape {
	case 0:
	case 1:
		hasApp, app = true, rt.String("child-app")
		env.SetLabel(child, "app", app)
	case 2:
		hasApp, app = true, rt.String("child-app")
		hasRole, role = true, rt.String("child-role")
		env.SetLabel(child, "app", app)
		env.SetLabel(child, "role", role)
	case 3:
		hasCU, cu = true, rt.String("child-controller-uid")
		env.SetLabel(child, "controller-uid", cu)
		hasApp, app = true, rt.String("child-app")
		env.SetLabel(child, "app", app)
	}
	if verifC14ThoroughBool("non-controller-owner", cluster) {
		// an owner reference without controller=true does not make it owned
		env.AddOwnerRef(child, env.OwnerRefMap(res.APIVersion, res.Kind, p1.name, p1.uid, false))
	}

	outcome := verifC14DeliverChild(pc, ev, child)

	selects := func(p *verifC14Parent, shape int, sapp, srole string) bool {
		if !p.eligible {
			return false
		}
		if !cluster && childNS != p.ns {
			return false
		}
		if genSel {
			if !hasCU {
				return false
			}
			return cu == p.uid
		}
		if shape == 0 {
			return false
		}
		if shape == 3 {
			switch s1op {
			case 0: // In
				if !hasApp {
					return false
				}
				if app == s1app {
					return true
				}
				return app == s1v2
			case 1: // NotIn: a missing label satisfies it
				if !hasApp {
					return true
				}
				if app == s1app {
					return false
				}
				return app != s1v2
			case 2:
				return hasApp
			default:
				return !hasApp
			}
		}
		if !hasApp {
			return false
		}
		if app != sapp {
			return false
		}
		if shape == 2 {
			if !hasRole {
				return false
			}
			if role != srole {
				return false
			}
		}
		return true
	}
	if outcome == verifC14Noop {
		verifC14AssertQueue(pc.Queue, "orphan-resync")
		return
	}
	if outcome == verifC14Gone {
		rt.Cover("orphan/gone-wakes-nobody")
		verifC14AssertQueue(pc.Queue, "orphan-gone")
		return
	}
	w1 := selects(p1, p1Shape, s1app, s1role)
	w2 := selects(p2, 1, s2app, "")
	switch {
	case w1 && w2:
		rt.Cover("orphan/wakes-both")
		verifC14AssertQueue(pc.Queue, "orphan/both-selectors-match", p1.key(), p2.key())
	case w1:
		rt.Cover("orphan/wakes-p1")
		verifC14AssertQueue(pc.Queue, "orphan/p1-selector-matches", p1.key())
	case w2:
		rt.Cover("orphan/wakes-p2")
		verifC14AssertQueue(pc.Queue, "orphan/p2-selector-matches", p2.key())
	default:
		rt.Cover("orphan/wakes-nobody")
		verifC14AssertQueue(pc.Queue, "orphan/no-selector-matches")
	}
}

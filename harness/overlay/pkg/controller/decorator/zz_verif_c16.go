package decorator

// C16 — a decorator changes only labels, annotations, status and finalizer of
// its target; selector conjunction; attachments recognised by controller
// owner reference AND marker only.

import (
	"fmt"

	metav1 "k8s.io/apimachinery/pkg/apis/meta/v1"
	"k8s.io/apimachinery/pkg/apis/meta/v1/unstructured"
	"k8s.io/apimachinery/pkg/labels"

	"metacontroller/pkg/apis/metacontroller/v1alpha1"
	commonv2 "metacontroller/pkg/controller/common/api/v2"
	v1 "metacontroller/pkg/controller/decorator/api/v1"
	"metacontroller/pkg/zzverif/env"
	"metacontroller/pkg/zzverif/gen"
	rt "metacontroller/pkg/zzverif/rt"
)

// ---------------------------------------------------------------------------
// updateStringMap laws
// ---------------------------------------------------------------------------

// VerifC16_UpdateStringMap: arbitrary dest (≤ 3 symbolic keys/values) and
// arbitrary updates (≤ 2 quick / ≤ 3 thorough symbolic keys; nil = delete).
func VerifC16_UpdateStringMap() {
	nd := rt.Choice("dest-keys", 4)
	maxU := 2
	if rt.Tier() > 0 {
		maxU = 3
	}
	nu := rt.Choice("update-keys", maxU+1)

	dest := map[string]string{}
	for i := 0; i < nd; i++ {
		dest[rt.String(fmt.Sprintf("dk%d", i))] = rt.String(fmt.Sprintf("dv%d", i))
	}
	updates := map[string]*string{}
	for i := 0; i < nu; i++ {
		k := rt.String(fmt.Sprintf("uk%d", i))
		if rt.Bool(fmt.Sprintf("unil%d", i)) {
			updates[k] = nil
		} else {
			v := rt.String(fmt.Sprintf("uv%d", i))
			updates[k] = &v
		}
	}
	if nu == 0 && rt.Bool("updates-nil-map") {
		updates = nil
	}
	orig := make(map[string]string, len(dest))
	for k, v := range dest {
		orig[k] = v
	}
	updCopy := verifDCCopyPtrMap(updates)

	changed := updateStringMap(dest, updates)

	// (1) every named key has exactly the requested state
	for k, v := range updCopy {
		got, has := dest[k]
		if v == nil {
			rt.Assert(!has, "stringmap/nil-did-not-delete")
		} else {
			rt.Assert(has, "stringmap/named-key-missing")
			if has {
				rt.Assert(got == *v, "stringmap/named-key-wrong-value")
			}
		}
	}
	// (2) unnamed keys stay
	for k, v := range orig {
		if _, named := updCopy[k]; named {
			continue
		}
		got, has := dest[k]
		rt.Assert(has, "stringmap/unnamed-key-removed")
		if has {
			rt.Assert(got == v, "stringmap/unnamed-key-changed")
		}
	}
	// (3) nothing else appears
	for k := range dest {
		_, wasThere := orig[k]
		_, named := updCopy[k]
		rt.Assert(wasThere || named, "stringmap/unrelated-key-added")
	}
	// (4) the updates map is not modified
	rt.Assert(len(updates) == len(updCopy), "stringmap/updates-modified")
	// (5) changed iff the map differs from what it was
	differs := len(orig) != len(dest)
	for k, v := range orig {
		got, has := dest[k]
		if !has {
			differs = true
		} else if got != v {
			differs = true
		}
	}
	if differs {
		rt.Cover("stringmap/changed")
		rt.Assert(changed, "stringmap/changed-false-although-map-differs")
	} else {
		rt.Cover("stringmap/unchanged")
		rt.Assert(!changed, "stringmap/changed-true-although-map-equal")
	}
	rt.Observe("changed", changed)
	rt.Observe("len", len(dest))
}

// ---------------------------------------------------------------------------
// decoratorSelector.Matches
// ---------------------------------------------------------------------------

// verifC16Sel builds a symbolic selector of one of several forms over one key
// and returns it with an independent evaluation function (has, value) -> match.
func verifC16Sel(tag, key string) (*metav1.LabelSelector, func(has bool, val string) bool) {
	switch rt.Choice(tag+".form", 6) {
	case 0: // no selector on the rule: everything
		return nil, func(bool, string) bool { return true }
	case 1: // empty selector: everything
		return &metav1.LabelSelector{}, func(bool, string) bool { return true }
	case 2: // matchLabels / matchAnnotations key = v
		v := rt.String(tag + ".v")
		return &metav1.LabelSelector{MatchLabels: map[string]string{key: v}}, func(has bool, val string) bool {
			if !has {
				return false
			}
			return val == v
		}
	case 3: // key exists
		return &metav1.LabelSelector{MatchExpressions: []metav1.LabelSelectorRequirement{{Key: key, Operator: metav1.LabelSelectorOpExists}}},
			func(has bool, val string) bool { return has }
	case 4: // key notin (v)
		v := rt.String(tag + ".v")
		return &metav1.LabelSelector{MatchExpressions: []metav1.LabelSelectorRequirement{{Key: key, Operator: metav1.LabelSelectorOpNotIn, Values: []string{v}}}},
			func(has bool, val string) bool {
				if !has {
					return true
				}
				return val != v
			}
	default: // key does not exist
		return &metav1.LabelSelector{MatchExpressions: []metav1.LabelSelectorRequirement{{Key: key, Operator: metav1.LabelSelectorOpDoesNotExist}}},
			func(has bool, val string) bool { return !has }
	}
}

func verifC16AnnSel(ls *metav1.LabelSelector) *v1alpha1.AnnotationSelector {
	if ls == nil {
		return nil
	}
	return &v1alpha1.AnnotationSelector{MatchAnnotations: ls.MatchLabels, MatchExpressions: ls.MatchExpressions}
}

// VerifC16_SelectorMatches: two resource rules (Thing and ClusterThing) with
// independent symbolic label / annotation selectors; an object of a symbolic
// kind with symbolic label and annotation.
func VerifC16_SelectorMatches() {
	w := env.NewWorld()
	lsT, evalLT := verifC16Sel("thing.labels", "app")
	asT, evalAT := verifC16Sel("thing.annotations", "note")
	// the second rule selects on the opposite facts so that a mix-up of rules shows
	lsC := &metav1.LabelSelector{MatchExpressions: []metav1.LabelSelectorRequirement{{Key: "app", Operator: metav1.LabelSelectorOpDoesNotExist}}}
	var asC *v1alpha1.AnnotationSelector
	ds, err := newDecoratorSelector(w.RM, verifNewDC(w, verifDCConfig{Rules: []verifDCRule{
		{Res: env.ThingRes, LabelSelector: lsT, AnnotationSelector: verifC16AnnSel(asT)},
		{Res: env.ClusterThingRes, LabelSelector: lsC, AnnotationSelector: asC},
	}}).dc)
	rt.Assert(err == nil, "selector/constructor-error")
	if err != nil {
		return
	}

	var obj *unstructured.Unstructured
	kind := rt.Choice("object-kind", 5)
	switch kind {
	case 0:
		obj = env.Obj("ex.com/v1", "Thing", "ns", "o", "u")
	case 1: // the version is ignored
		obj = env.Obj("ex.com/v2beta1", "Thing", "ns", "o", "u")
	case 2:
		obj = env.Obj("ex.com/v1", "ClusterThing", "", "o", "u")
	case 3: // same kind name in another group: no rule
		obj = env.Obj("other.io/v1", "Thing", "ns", "o", "u")
	default: // another kind of the same group: no rule
		obj = env.Obj("ex.com/v1", "NoStatus", "ns", "o", "u")
	}
	hasL := rt.Bool("has-label")
	lv := ""
	if hasL {
		lv = rt.String("label-value")
		env.SetLabel(obj, "app", lv)
	}
	if rt.Bool("has-other-label") {
		env.SetLabel(obj, "zone", rt.String("other-label-value"))
	}
	hasA := rt.Bool("has-annotation")
	av := ""
	if hasA {
		av = rt.String("annotation-value")
		env.SetAnnotation(obj, "note", av)
	}
	// label and annotation namespaces must not be confused
	if rt.Bool("label-named-like-annotation") {
		env.SetLabel(obj, "note", rt.String("decoy-label"))
	}
	if rt.Bool("annotation-named-like-label") {
		env.SetAnnotation(obj, "app", rt.String("decoy-annotation"))
	}

	got := ds.Matches(obj)
	rt.Observe("matches", got)

	switch kind {
	case 0, 1:
		wantL := evalLT(hasL, lv)
		wantA := evalAT(hasA, av)
		if !wantL {
			rt.Cover("selector/label-selector-rejects")
			rt.Assert(!got, "selector/matched-although-label-selector-rejects")
		} else if !wantA {
			rt.Cover("selector/annotation-selector-rejects")
			rt.Assert(!got, "selector/matched-although-annotation-selector-rejects")
		} else {
			rt.Cover("selector/both-accept")
			rt.Assert(got, "selector/rejected-although-both-selectors-accept")
		}
	case 2:
		rt.Cover("selector/second-rule")
		if hasL {
			rt.Assert(!got, "selector/second-rule-matched-against-its-selector")
		} else {
			rt.Assert(got, "selector/second-rule-rejected-although-its-selector-accepts")
		}
	default:
		rt.Cover("selector/no-rule-for-kind")
		rt.Assert(!got, "selector/matched-kind-without-rule")
	}
}

// ---------------------------------------------------------------------------
// one whole syncParentObject: what is written to the target
// ---------------------------------------------------------------------------

func verifC16StringMapOf(o *unstructured.Unstructured, field string) map[string]string {
	out := map[string]string{}
	md, _ := o.Object["metadata"].(map[string]interface{})
	m, _ := md[field].(map[string]interface{})
	for k, v := range m {
		out[k] = v.(string)
	}
	return out
}

// verifC16Apply is the property's reading of a label/annotation response map:
// null deletes, a value sets, unnamed keys stay.
func verifC16Apply(cur map[string]string, resp map[string]*string) map[string]string {
	out := map[string]string{}
	for k, v := range cur {
		out[k] = v
	}
	for k, v := range resp {
		if v == nil {
			delete(out, k)
		} else {
			out[k] = *v
		}
	}
	return out
}

func verifC16StringMapsDiffer(a, b map[string]string) bool {
	if len(a) != len(b) {
		return true
	}
	d := false
	for k, v := range a {
		w, has := b[k]
		if !has {
			d = true
		} else if v != w {
			d = true
		}
	}
	return d
}

func verifC16AssertStringMap(got, want map[string]string, label string) {
	rt.Assert(len(got) == len(want), label)
	for k, v := range want {
		g, has := got[k]
		rt.Assert(has, label)
		if has {
			rt.Assert(g == v, label)
		}
	}
}

// verifC16Expect describes what a target write may look like.
type verifC16Expect struct {
	before      *unstructured.Unstructured // the cached target as it was before the sync
	labels      map[string]string          // expected labels
	annotations map[string]string          // expected annotations
	statusNil   bool                       // response status null: leave status alone
	status      map[string]interface{}     // response status otherwise
	finalizers  []string                   // expected finalizers
	allowLabels bool                       // false: labels must be as before (same for annotations/status)
	statusOnly  bool
}

// verifC16AssertStep: one request body against the object it is applied to
// (`pre`): labels, annotations, status and finalizers each are either as in
// `pre` or as expected at the end (key by key for the two maps); every other
// field is as in `pre` (resourceVersion excepted: optimistic locking is the
// server's business and a stale one is refused by it).
func verifC16AssertStep(pre, body *unstructured.Unstructured, e verifC16Expect, pfx string) {
	for k := range body.Object {
		_, was := pre.Object[k]
		rt.Assert(was || k == "status", pfx+"/top-level-field-added")
	}
	for k, v := range pre.Object {
		if k == "metadata" || k == "status" {
			continue
		}
		bv, has := body.Object[k]
		rt.Assert(has, pfx+"/top-level-field-dropped:"+k)
		if has {
			gen.Equal(bv, v, pfx+"/field-changed:"+k)
		}
	}
	// status: as before, or the response's
	bs, hasBS := body.Object["status"]
	ps, hadPS := pre.Object["status"]
	asBefore := (hasBS == hadPS && (!hasBS || gen.Same(bs, ps))) || (!hadPS && hasBS && gen.IsNull(bs))
	if e.statusNil {
		rt.Assert(asBefore, pfx+"/status-changed-although-response-status-null")
	} else if !asBefore {
		rt.Assert(hasBS, pfx+"/status-dropped")
		if hasBS {
			gen.Equal(bs, map[string]interface{}(e.status), pfx+"/status-not-the-response-status")
		}
	}
	// metadata
	bmd, _ := body.Object["metadata"].(map[string]interface{})
	omd, _ := pre.Object["metadata"].(map[string]interface{})
	for k := range bmd {
		_, was := omd[k]
		rt.Assert(was || k == "labels" || k == "annotations" || k == "finalizers", pfx+"/metadata-field-added:"+k)
	}
	for k, v := range omd {
		switch k {
		case "labels", "annotations", "finalizers", "resourceVersion":
			continue
		}
		bv, has := bmd[k]
		rt.Assert(has, pfx+"/metadata-field-dropped:"+k)
		if has {
			gen.Equal(bv, v, pfx+"/metadata-field-changed:"+k)
		}
	}
	stepMap := func(field string, want map[string]string, label string) {
		got, was := verifC16StringMapOf(body, field), verifC16StringMapOf(pre, field)
		keys := map[string]bool{}
		for k := range got {
			keys[k] = true
		}
		for k := range was {
			keys[k] = true
		}
		for k := range want {
			keys[k] = true
		}
		for k := range keys {
			g, hasG := got[k]
			p, hasP := was[k]
			x, hasX := want[k]
			rt.Assert((hasG == hasP && (!hasG || g == p)) || (hasG == hasX && (!hasG || g == x)), label)
		}
	}
	stepMap("labels", e.labels, pfx+"/labels-not-as-named-by-response")
	stepMap("annotations", e.annotations, pfx+"/annotations-not-as-named-by-response")
	same := func(a, b []string) bool {
		if len(a) != len(b) {
			return false
		}
		for i := range a {
			if a[i] != b[i] {
				return false
			}
		}
		return true
	}
	fins := body.GetFinalizers()
	rt.Assert(same(fins, pre.GetFinalizers()) || same(fins, e.finalizers), pfx+"/finalizers")
}

// verifC16AssertBody: a body sent for the target differs from the cached
// target only in labels, annotations, status, finalizers (to the expected
// values) and resourceVersion (checked by the caller).
func verifC16AssertBody(body *unstructured.Unstructured, e verifC16Expect, pfx string) {
	before := e.before
	for k := range body.Object {
		_, was := before.Object[k]
		rt.Assert(was || k == "status", pfx+"/top-level-field-added")
	}
	for k, v := range before.Object {
		if k == "metadata" || k == "status" {
			continue
		}
		bv, has := body.Object[k]
		rt.Assert(has, pfx+"/top-level-field-dropped:"+k)
		if has {
			gen.Equal(bv, v, pfx+"/field-changed:"+k)
		}
	}
	// status
	bs, hasBS := body.Object["status"]
	if e.statusNil {
		if os, had := before.Object["status"]; had {
			rt.Assert(hasBS, pfx+"/status-dropped-although-response-status-null")
			if hasBS {
				gen.Equal(bs, os, pfx+"/status-changed-although-response-status-null")
			}
		} else {
			// absent and JSON null are the same thing to the API server
			rt.Assert(!hasBS || gen.IsNull(bs), pfx+"/status-added-although-response-status-null")
		}
	} else {
		rt.Assert(hasBS, pfx+"/status-missing")
		if hasBS {
			gen.Equal(bs, map[string]interface{}(e.status), pfx+"/status-not-the-response-status")
		}
	}
	// metadata
	bmd, _ := body.Object["metadata"].(map[string]interface{})
	omd, _ := before.Object["metadata"].(map[string]interface{})
	for k := range bmd {
		_, was := omd[k]
		rt.Assert(was || k == "labels" || k == "annotations" || k == "finalizers", pfx+"/metadata-field-added:"+k)
	}
	for k, v := range omd {
		switch k {
		case "labels", "annotations", "finalizers", "resourceVersion":
			continue
		}
		bv, has := bmd[k]
		rt.Assert(has, pfx+"/metadata-field-dropped:"+k)
		if has {
			gen.Equal(bv, v, pfx+"/metadata-field-changed:"+k)
		}
	}
	verifC16AssertStringMap(verifC16StringMapOf(body, "labels"), e.labels, pfx+"/labels-not-as-named-by-response")
	verifC16AssertStringMap(verifC16StringMapOf(body, "annotations"), e.annotations, pfx+"/annotations-not-as-named-by-response")
	fins := body.GetFinalizers()
	rt.Assert(len(fins) == len(e.finalizers), pfx+"/finalizers")
	if len(fins) == len(e.finalizers) {
		for i := range fins {
			rt.Assert(fins[i] == e.finalizers[i], pfx+"/finalizers")
		}
	}
}

// verifC16RespMap builds a symbolic label/annotation response map with ≤ n
// entries: symbolic key (may or may not hit an existing key), null or value.
func verifC16RespMap(tag string, n int) map[string]*string {
	cnt := rt.Choice(tag+".entries", n+1)
	if cnt == 0 {
		if rt.Bool(tag + ".nil-map") {
			return nil
		}
		return map[string]*string{}
	}
	m := map[string]*string{}
	for i := 0; i < cnt; i++ {
		k := rt.String(fmt.Sprintf("%s.k%d", tag, i))
		if rt.Bool(fmt.Sprintf("%s.null%d", tag, i)) {
			m[k] = nil
		} else {
			m[k] = verifDCStrPtr(rt.String(fmt.Sprintf("%s.v%d", tag, i)))
		}
	}
	return m
}

// VerifC16_SyncTarget: one whole real syncParentObject for a live, matching
// target whose finalizer state is already in sync (the add/remove protocol is
// C10's harness). Everything the hook can say about the target is symbolic.
func VerifC16_SyncTarget() {
	// Quick tier: one group of dimensions is symbolic at a time (labels /
	// annotations / status+subresource), the others sit at a representative
	// value; thorough tier: the full product.
	focus := 3
	if rt.Tier() == 0 {
		focus = rt.Choice("focus", 3)
	}
	fLabels := focus == 0 || focus == 3
	fAnn := focus == 1 || focus == 3
	fStatus := focus == 2 || focus == 3
	pick := func(active bool, tag string, n, def int) int {
		if active {
			return rt.Choice(tag, n)
		}
		return def
	}

	w := env.NewWorld()
	res := env.ThingRes
	hasSub := pick(fStatus, "status-subresource", 2, 1) == 1
	if !hasSub {
		res = env.NoStatusRes
	}
	target := verifDCTarget(res, "ns", "p", "puid")
	target.Object["spec"] = map[string]interface{}{"x": rt.String("spec.x")}
	switch pick(fLabels, "target-labels", 3, 1) {
	case 1:
		env.SetLabel(target, "la", rt.String("la"))
	case 2:
		env.SetLabel(target, "la", rt.String("la"))
		env.SetLabel(target, "lb", rt.String("lb"))
	}
	if pick(fAnn, "target-annotation", 2, 1) == 1 {
		env.SetAnnotation(target, "aa", rt.String("aa"))
	}
	hasStatus := pick(fStatus, "target-status", 2, 1) == 1
	if hasStatus {
		target.Object["status"] = map[string]interface{}{"phase": rt.String("status.phase"), "other": "kept?"}
	}
	finalizeEnabled := false
	var finalizers []string
	switch rt.Choice("finalizers", 3) {
	case 1:
		finalizers = []string{"example.com/foreign"}
	case 2:
		finalizeEnabled = true
		finalizers = []string{"example.com/foreign", verifDCFinalizerName, "example.com/foreign2"}
	}
	verifDCSetFinalizers(target, finalizers...)
	w.Srv.Put(res.Name, target)

	// the hook's answer
	resp := &v1.DecoratorHookResponse{}
	switch {
	case focus == 0:
		resp.Labels = verifC16RespMap("resp.labels", 2)
	case fLabels:
		resp.Labels = verifC16RespMap("resp.labels", 1)
	case fStatus && rt.Bool("resp.adds-a-label"):
		resp.Labels = map[string]*string{"lnew": verifDCStrPtr(rt.String("resp.lnew"))}
	}
	if fAnn {
		resp.Annotations = verifC16RespMap("resp.annotations", 1)
	}
	statusNil := false
	switch pick(fStatus, "resp.status", 3, 0) {
	case 0:
		statusNil = true
	case 1: // same shape as the target's status: equal iff the leaf is equal
		resp.Status = map[string]interface{}{"phase": rt.String("resp.status.phase"), "other": "kept?"}
	case 2: // another shape
		resp.Status = map[string]interface{}{"phase": rt.String("resp.status.phase")}
	}
	resp.Finalized = rt.Bool("resp.finalized")
	sync := verifDCConstHook(resp)
	fin := &verifDCHook{enabled: finalizeEnabled, fn: sync.fn}
	d := verifNewDC(w, verifDCConfig{
		Rules:           []verifDCRule{{Res: res}},
		FinalizeEnabled: finalizeEnabled,
		Sync:            sync, Finalize: fin,
	})
	cached := d.SnapshotFromStore()
	fp := verifDCFingerprintOf(cached)
	before := cached[0].DeepCopy()

	err := d.syncParentObject(cached[0])

	rt.Assert(err == nil, "sync/error")
	fp.AssertUnchanged("sync/cached-target-mutated")
	rt.Assert(len(sync.Calls) == 1, "sync/sync-hook-not-called-exactly-once")
	rt.Assert(len(fin.Calls) == 0, "sync/finalize-hook-called-for-live-matching-target")
	if len(sync.Calls) == 1 {
		rt.Assert(!sync.Calls[0].Finalizing, "sync/finalizing-set")
		gen.Equal(sync.Calls[0].Object.Object, before.Object, "sync/hook-saw-something-else-than-the-cached-target")
	}

	// ---- independent expectation ----
	e := verifC16Expect{before: before, statusNil: statusNil, status: resp.Status}
	curLabels := verifC16StringMapOf(before, "labels")
	curAnn := verifC16StringMapOf(before, "annotations")
	e.labels = verifC16Apply(curLabels, resp.Labels)
	e.annotations = verifC16Apply(curAnn, resp.Annotations)
	labelsDiffer := verifC16StringMapsDiffer(curLabels, e.labels)
	annDiffer := verifC16StringMapsDiffer(curAnn, e.annotations)
	statusDiffers := false
	if !statusNil {
		if !hasStatus {
			statusDiffers = true
		} else if len(resp.Status) != 2 {
			statusDiffers = true
		} else if resp.Status["phase"].(string) != before.Object["status"].(map[string]interface{})["phase"].(string) {
			statusDiffers = true
		}
	}
	removeFinalizer := resp.Finalized && finalizeEnabled // our finalizer is present iff finalizeEnabled here
	for _, f := range finalizers {
		if f == verifDCFinalizerName && removeFinalizer {
			continue
		}
		e.finalizers = append(e.finalizers, f)
	}
	expectChange := labelsDiffer || annDiffer || statusDiffers || removeFinalizer

	wr := w.Srv.Writes()
	rt.Observe("writes", len(wr))
	for _, r := range wr {
		rt.Assert(r.Resource == res.Name && r.NS == "ns" && r.Name == "p", "sync/write-to-something-else-than-the-target")
		rt.Assert(r.IsObjectWrite(), "sync/neither-update-nor-merge-patch")
		rt.Assert(r.Accepted, "sync/write-rejected-by-server")
	}
	if !expectChange {
		rt.Cover("sync/nothing-changes")
		rt.Assert(len(wr) == 0, "sync/write-although-nothing-changes")
		rt.Assert(len(w.Srv.Log) == 0, "sync/request-although-nothing-changes")
		return
	}
	if labelsDiffer {
		rt.Cover("sync/labels-change")
	}
	if annDiffer {
		rt.Cover("sync/annotations-change")
	}
	if removeFinalizer {
		rt.Cover("sync/finalizer-removed")
	}
	// The property fixes WHAT may change on the target and that nothing is sent
	// when nothing would change; it does not fix how the changes are spread over
	// requests (status endpoint first or last, labels and the finalizer in one
	// update or in two, the finalizer removed from a fresh read). So every
	// accepted request is checked as a STEP: against the object it was applied
	// to, it may move labels, annotations, status and the own finalizer towards
	// the expected final values and must leave everything else alone; the sum
	// of the steps is checked on the stored target below.
	if statusDiffers && hasSub {
		rt.Cover("sync/status-subresource-then-update")
		viaStatus := false
		for _, r := range wr {
			if r.Sub == "status" {
				viaStatus = true
			}
		}
		rt.Assert(viaStatus, "sync/status-change-not-sent-to-the-status-endpoint")
	} else if statusDiffers {
		rt.Cover("sync/status-without-subresource")
	}
	for _, r := range wr {
		rt.Assert(r.Sub == "" || r.Sub == "status", "sync/unexpected-subresource")
		if r.Pre == nil || r.Body == nil {
			rt.Assert(false, "sync/target-vanished")
			continue
		}
		verifC16AssertStep(r.Pre, r.Body, e, "sync/request-body")
	}

	// ---- the stored target afterwards ----
	stored := w.Srv.Peek(res.Name, "ns", "p")
	rt.Assert(stored != nil, "sync/target-gone")
	if stored == nil {
		return
	}
	rt.Assert(stored.GetResourceVersion() != before.GetResourceVersion(), "sync/store-unchanged-although-change-expected")
	es := e
	es.statusNil = statusNil
	verifC16AssertBody(stored, es, "sync/stored-target")
}

// ---------------------------------------------------------------------------
// attachments: recognised by controller owner reference AND marker only
// ---------------------------------------------------------------------------

func verifC16RelNames(req *v1.DecoratorHookRequest) map[string]bool {
	out := map[string]bool{}
	for _, group := range req.Attachments {
		for name := range group {
			out[name] = true
		}
	}
	return out
}

// VerifC16_Attachments: a candidate ConfigMap "a" with symbolic owner
// reference (UID, controller flag, or none) and symbolic marker (value or
// none), next to "b" which certainly is this decorator's attachment. The hook
// wants "c" (new) or nothing.
func VerifC16_Attachments() {
	w := env.NewWorld()
	target := env.Thing("ns", "p", "puid")
	w.Srv.Put("things", target)

	// candidate "a"
	a := env.ConfigMap("ns", "a", "ua", "va")
	ownerKind := rt.Choice("a.owner", 3) // 0 none, 1 controller reference, 2 plain owner reference
	ownerUID := ""
	if ownerKind != 0 {
		ownerUID = rt.String("a.owner-uid")
		env.AddOwnerRef(a, env.OwnerRefMap("ex.com/v1", "Thing", "p", ownerUID, ownerKind == 1))
	}
	hasMarker := rt.Bool("a.has-marker")
	markerVal := ""
	if hasMarker {
		markerVal = rt.String("a.marker")
		env.SetAnnotation(a, verifDCMarker, markerVal)
	}
	// a decoy: the decorator's name in a *label*, not the annotation
	if rt.Bool("a.marker-as-label") {
		env.SetLabel(a, verifDCMarker, verifDCName)
	}
	w.Srv.Put("configmaps", a)
	ours := false
	if ownerKind == 1 {
		if ownerUID == "puid" {
			if hasMarker {
				if markerVal == verifDCName {
					ours = true
				}
			}
		}
	}

	// "b": created earlier by this decorator for this target
	b := verifDCApplied(env.ConfigMap("ns", "b", "", "vb"), target, "puid", verifDCName, "ub")
	w.Srv.Put("configmaps", b)
	// the same in another namespace cannot belong to a namespaced target
	far := verifDCApplied(env.ConfigMap("elsewhere", "b", "", "vb"), target, "puid", verifDCName, "ufar")
	w.Srv.Put("configmaps", far)

	// the hook's wish
	var desired []*unstructured.Unstructured
	wantC := rt.Bool("hook-wants-c")
	keepB := rt.Bool("hook-keeps-b")
	cMarker := 0
	if wantC {
		c := env.ConfigMap("", "c", "", rt.String("c.value")) // no namespace: the target's
		cMarker = rt.Choice("c.marker", 4)
		switch cMarker {
		case 1:
			env.SetAnnotation(c, "unrelated", "x")
		case 2: // the hook copies another decorator's marker
			env.SetAnnotation(c, verifDCMarker, "someone-else")
		case 3:
			env.SetAnnotation(c, verifDCMarker, verifDCName)
		}
		desired = append(desired, c)
	}
	if keepB {
		desired = append(desired, env.ConfigMap("ns", "b", "", "vb"))
	}
	sync := verifDCConstHook(&v1.DecoratorHookResponse{Attachments: desired})
	d := verifNewDC(w, verifDCConfig{
		Attachments: []verifDCAttachment{{Res: env.ConfigMapRes, Method: "InPlace"}},
		Sync:        sync,
	})
	cached := d.SnapshotFromStore()
	fp := verifDCFingerprintOf(cached)
	children, _ := d.childInformers.Get(verifDCGVR(env.ConfigMapRes)).Lister().List(verifEverything{})
	fpc := verifDCFingerprintOf(children)

	// (1) getChildren alone
	got, gerr := d.getChildren(cached[0])
	rt.Assert(gerr == nil, "attachments/getchildren-error")
	if gerr == nil {
		n := 0
		seenA, seenB := false, false
		for _, group := range got {
			for _, o := range group {
				n++
				if o.GetNamespace() == "ns" && o.GetName() == "a" {
					seenA = true
				}
				if o.GetNamespace() == "ns" && o.GetName() == "b" {
					seenB = true
				}
			}
		}
		rt.Assert(seenB, "attachments/own-attachment-not-listed")
		if ours {
			rt.Assert(seenA, "attachments/owned-and-marked-not-listed")
			rt.Assert(n == 2, "attachments/listed-something-else")
		} else {
			rt.Assert(!seenA, "attachments/listed-without-controller-reference-and-marker")
			rt.Assert(n == 1, "attachments/listed-something-else")
		}
		rt.Assert(len(got) == 1, "attachments/requested-group-missing")
	}

	// (2) the whole sync
	err := d.syncParentObject(cached[0])
	rt.Assert(err == nil, "attachments/sync-error")
	fp.AssertUnchanged("attachments/cached-target-mutated")
	fpc.AssertUnchanged("attachments/cached-attachment-mutated")
	rt.Assert(len(sync.Calls) == 1, "attachments/hook-not-called-exactly-once")
	if len(sync.Calls) == 1 {
		names := verifC16RelNames(sync.Calls[0])
		rt.Assert(names["b"], "attachments/own-attachment-not-sent-to-hook")
		if ours {
			rt.Cover("attachments/candidate-is-ours")
			rt.Assert(names["a"], "attachments/owned-and-marked-not-sent-to-hook")
			rt.Assert(len(names) == 2, "attachments/hook-sent-something-else")
		} else {
			rt.Cover("attachments/candidate-is-foreign")
			rt.Assert(!names["a"], "attachments/foreign-object-sent-to-hook")
			rt.Assert(len(names) == 1, "attachments/hook-sent-something-else")
		}
	}

	wr := w.Srv.Writes()
	rt.Observe("writes", len(wr))
	nA, nB, nC := 0, 0, 0
	for _, r := range wr {
		rt.Assert(r.Resource == "configmaps" && r.NS == "ns", "attachments/write-outside-the-attachments-of-the-target")
		rt.Assert(r.Accepted, "attachments/write-rejected-by-server")
		switch r.Name {
		case "a":
			nA++
			rt.Assert(ours, "attachments/foreign-object-written")
			rt.Assert(r.Verb == "delete", "attachments/undesired-attachment-not-deleted-but-written")
			if r.Verb == "delete" {
				rt.Assert(r.UIDPre != nil && string(*r.UIDPre) == "ua", "attachments/delete-without-uid-precondition")
			}
		case "b":
			nB++
			rt.Assert(!keepB, "attachments/kept-attachment-written")
			rt.Assert(r.Verb == "delete", "attachments/undesired-attachment-not-deleted-but-written")
			if r.Verb == "delete" {
				rt.Assert(r.UIDPre != nil && string(*r.UIDPre) == "ub", "attachments/delete-without-uid-precondition")
			}
		case "c":
			nC++
			rt.Assert(wantC, "attachments/created-although-not-desired")
			rt.Assert(r.Verb == "create", "attachments/desired-attachment-verb")
			if r.Verb == "create" {
				rt.Assert(r.Body.GetAnnotations()[verifDCMarker] == verifDCName, "attachments/marker-not-stamped")
				if cMarker == 1 {
					rt.Assert(r.Body.GetAnnotations()["unrelated"] == "x", "attachments/annotation-of-desired-attachment-lost")
				}
				ref := metav1.GetControllerOf(r.Body)
				rt.Assert(ref != nil, "attachments/created-without-controller-reference")
				if ref != nil {
					rt.Assert(ref.UID == "puid" && ref.Name == "p" && ref.Kind == "Thing" && ref.APIVersion == "ex.com/v1", "attachments/controller-reference-not-to-target")
				}
				rt.Assert(len(r.Body.GetOwnerReferences()) == 1, "attachments/extra-owner-references")
				rt.Assert(r.Body.GetNamespace() == "ns", "attachments/created-outside-target-namespace")
			}
		default:
			rt.Assert(false, "attachments/write-to-unexpected-name")
		}
	}
	if ours {
		rt.Assert(nA == 1, "attachments/undesired-own-attachment-not-deleted")
	} else {
		rt.Assert(nA == 0, "attachments/foreign-object-written")
		// still there, untouched
		st := w.Srv.Peek("configmaps", "ns", "a")
		rt.Assert(st != nil, "attachments/foreign-object-gone")
		if st != nil {
			gen.Equal(st.Object, a.Object, "attachments/foreign-object-changed")
		}
	}
	if keepB {
		rt.Cover("attachments/kept")
		rt.Assert(nB == 0, "attachments/kept-attachment-written")
	} else {
		rt.Cover("attachments/undesired-deleted")
		rt.Assert(nB == 1, "attachments/undesired-own-attachment-not-deleted")
	}
	if wantC {
		rt.Cover("attachments/created")
		rt.Assert(nC == 1, "attachments/desired-attachment-not-created-exactly-once")
	} else {
		rt.Assert(nC == 0, "attachments/created-although-not-desired")
	}
	rt.Assert(w.Srv.Peek("configmaps", "elsewhere", "b") != nil, "attachments/other-namespace-touched")
}

// VerifC16_DecoratedOnlyIfSelected: the gate of syncParentObject — a target
// is decorated only if it satisfies both the label and the annotation selector
// of its rule, or still carries the controller's finalizer.
func VerifC16_DecoratedOnlyIfSelected() {
	w := env.NewWorld()
	target := env.Thing("ns", "p", "puid")
	labelOK, annOK := false, false
	if rt.Bool("has-label") {
		lv := rt.String("label")
		env.SetLabel(target, "app", lv)
		labelOK = lv == "on"
	}
	if rt.Bool("has-annotation") {
		av := rt.String("annotation")
		env.SetAnnotation(target, "note", av)
		annOK = av == "yes"
	}
	hasOur := rt.Bool("has-our-finalizer")
	finEnabled := rt.Bool("finalize-hook")
	if hasOur {
		verifDCSetFinalizers(target, verifDCFinalizerName)
	}
	w.Srv.Put("things", target)
	answer := &v1.DecoratorHookResponse{Labels: map[string]*string{"decorated": verifDCStrPtr("yes")}}
	sync := verifDCConstHook(answer)
	fin := verifDCConstHook(answer)
	fin.enabled = finEnabled
	d := verifNewDC(w, verifDCConfig{
		Rules: []verifDCRule{{Res: env.ThingRes,
			LabelSelector:      &metav1.LabelSelector{MatchLabels: map[string]string{"app": "on"}},
			AnnotationSelector: &v1alpha1.AnnotationSelector{MatchAnnotations: map[string]string{"note": "yes"}}}},
		FinalizeEnabled: finEnabled, Sync: sync, Finalize: fin,
	})
	cached := d.SnapshotFromStore()
	err := d.syncParentObject(cached[0])
	rt.Assert(err == nil, "gate/error")
	calls := len(sync.Calls) + len(fin.Calls)
	rt.Observe("calls", calls)
	rt.Observe("requests", len(w.Srv.Log))
	selected := false
	if labelOK {
		if annOK {
			selected = true
		}
	}
	stored := w.Srv.Peek("things", "ns", "p")
	if selected {
		rt.Cover("gate/selected")
		rt.Assert(len(sync.Calls) == 1 && len(fin.Calls) == 0, "gate/selected-target-not-synced")
		rt.Assert(stored != nil && stored.GetLabels()["decorated"] == "yes", "gate/selected-target-not-decorated")
	} else if hasOur {
		rt.Cover("gate/unselected-with-finalizer")
		if finEnabled {
			rt.Assert(len(fin.Calls) == 1 && len(sync.Calls) == 0, "gate/unselected-target-with-finalizer-not-finalized")
			if len(fin.Calls) == 1 {
				rt.Assert(fin.Calls[0].Finalizing, "gate/finalizing-not-set")
			}
		} else {
			rt.Assert(calls == 0, "gate/hook-called-for-unselected-target")
			rt.Assert(stored != nil && !verifDCHasFinalizer(stored, verifDCFinalizerName), "gate/leftover-finalizer-kept")
		}
	} else {
		rt.Cover("gate/unselected")
		rt.Assert(calls == 0, "gate/hook-called-for-unselected-target")
		rt.Assert(len(w.Srv.Log) == 0, "gate/request-for-unselected-target")
		_, decorated := stored.GetLabels()["decorated"]
		rt.Assert(!decorated, "gate/unselected-target-decorated")
	}
}

// verifEverything is a selector matching everything (test-side only).
type verifEverything struct{ labels.Selector }

func (verifEverything) Matches(labels.Labels) bool { return true }

var (
	_ = commonv2.MakeUniformObjectMap
	_ = gen.Equal
	_ *v1.DecoratorHookResponse
)

package decorator

// C16 over a STALE cache — "spec and all other metadata are never modified",
// "unnamed keys stay": since the target entered the informer cache a third
// party edited it (spec, a label, an annotation, a finalizer of its own, the
// status). Whatever the sync manages to write (most of it is refused by
// optimistic locking, some implementations re-read), no accepted request may
// carry the cached copy's old values back: every accepted body equals the
// object it is applied to except for the label/annotation keys the hook named,
// the status and the decorator's own finalizer, and the third party's edits are
// still in the store afterwards.

import (
	"k8s.io/apimachinery/pkg/apis/meta/v1/unstructured"

	v1 "metacontroller/pkg/controller/decorator/api/v1"
	"metacontroller/pkg/zzverif/env"
	"metacontroller/pkg/zzverif/gen"
	rt "metacontroller/pkg/zzverif/rt"
)

func VerifC16_StaleCache() {
	w := env.NewWorld()
	res := env.ThingRes
	if rt.Bool("no-status-subresource") {
		res = env.NoStatusRes
	}
	cachedT := verifDCTarget(res, "ns", "p", "puid")
	cachedT.Object["spec"] = map[string]interface{}{"x": "cached"}
	env.SetLabel(cachedT, "la", "cached")
	env.SetAnnotation(cachedT, "aa", "cached")
	cachedT.Object["status"] = map[string]interface{}{"phase": "cached"}
	finalizeEnabled := rt.Bool("finalize-hook")
	fins := []string{"example.com/foreign"}
	if finalizeEnabled {
		fins = append(fins, verifDCFinalizerName)
	}
	verifDCSetFinalizers(cachedT, fins...)

	// the third party's edits (resourceVersion 8)
	live := cachedT.DeepCopy()
	live.SetResourceVersion("8")
	live.Object["spec"] = map[string]interface{}{"x": "edited", "y": "added"}
	env.SetLabel(live, "team", "theirs")
	env.SetLabel(live, "la", "edited")
	env.SetAnnotation(live, "note", "theirs")
	verifDCSetFinalizers(live, append(append([]string{}, fins...), "example.com/late")...)
	if rt.Bool("third-party-also-edited-the-status") {
		live.Object["status"] = map[string]interface{}{"phase": "edited"}
	}
	w.Srv.Put(res.Name, live)
	liveBefore := live.DeepCopy()

	resp := &v1.DecoratorHookResponse{}
	named := map[string]bool{}
	if rt.Bool("hook-names-a-label") {
		k := rt.OneOf(rt.String("named-label"), "la", "lnew")
		rt.Assume(k == "la" || k == "lnew")
		named[k] = true
		if rt.Bool("hook-nulls-it") {
			resp.Labels = map[string]*string{k: nil}
		} else {
			resp.Labels = map[string]*string{k: verifDCStrPtr(rt.String("label-value"))}
		}
	}
	if rt.Bool("hook-sets-status") {
		resp.Status = map[string]interface{}{"phase": rt.String("resp-phase")}
	}
	resp.Finalized = rt.Bool("finalized")
	sync := verifDCConstHook(resp)
	fin := &verifDCHook{enabled: finalizeEnabled, fn: sync.fn}
	d := verifNewDC(w, verifDCConfig{Rules: []verifDCRule{{Res: res}}, FinalizeEnabled: finalizeEnabled, Sync: sync, Finalize: fin})
	d.Snapshot(map[string][]*unstructured.Unstructured{res.Name: {cachedT}}, nil)

	err := d.syncParentObject(cachedT)
	rt.Observe("err", err != nil)

	accepted := 0
	for _, r := range w.Srv.Writes() {
		rt.Assert(r.Resource == res.Name && r.Name == "p" && r.NS == "ns", "stale/write-to-something-else-than-the-target")
		if !r.Accepted || r.Pre == nil || r.Body == nil {
			continue
		}
		accepted++
		body, pre := r.Body, r.Pre
		// spec and everything outside metadata/status as the object it is applied to
		for k, v := range pre.Object {
			if k == "metadata" || k == "status" {
				continue
			}
			bv, has := body.Object[k]
			rt.Assert(has, "stale/accepted-write-drops-field:"+k)
			if has {
				gen.Equal(bv, v, "stale/accepted-write-reverts-field:"+k)
			}
		}
		bl, pl := verifC16StringMapOf(body, "labels"), verifC16StringMapOf(pre, "labels")
		for k, v := range pl {
			if named[k] {
				continue
			}
			g, has := bl[k]
			rt.Assert(has && g == v, "stale/accepted-write-reverts-unnamed-label:"+k)
		}
		for k := range bl {
			_, was := pl[k]
			rt.Assert(was || named[k], "stale/accepted-write-adds-unnamed-label:"+k)
		}
		ba, pa := verifC16StringMapOf(body, "annotations"), verifC16StringMapOf(pre, "annotations")
		for k, v := range pa {
			g, has := ba[k]
			rt.Assert(has && g == v, "stale/accepted-write-reverts-annotation:"+k)
		}
		// finalizers: only the decorator's own may go
		bf := map[string]bool{}
		for _, f := range body.GetFinalizers() {
			bf[f] = true
		}
		for _, f := range pre.GetFinalizers() {
			if f != verifDCFinalizerName {
				rt.Assert(bf[f], "stale/accepted-write-drops-foreign-finalizer:"+f)
			}
		}
	}
	if accepted > 0 {
		rt.Cover("stale/some-write-accepted")
	} else {
		rt.Cover("stale/all-writes-refused-or-none-sent")
	}
	// the third party's edits are still there
	cur := w.Srv.Peek(res.Name, "ns", "p")
	rt.Assert(cur != nil, "stale/target-gone")
	if cur == nil {
		return
	}
	gen.Equal(cur.Object["spec"], liveBefore.Object["spec"], "stale/third-party-spec-edit-lost")
	cl := verifC16StringMapOf(cur, "labels")
	rt.Assert(cl["team"] == "theirs", "stale/third-party-label-lost")
	if !named["la"] {
		rt.Assert(cl["la"] == "edited", "stale/third-party-label-edit-reverted")
	}
	rt.Assert(verifC16StringMapOf(cur, "annotations")["note"] == "theirs", "stale/third-party-annotation-lost")
	hasLate := false
	for _, f := range cur.GetFinalizers() {
		if f == "example.com/late" {
			hasLate = true
		}
	}
	rt.Assert(hasLate, "stale/third-party-finalizer-lost")
}

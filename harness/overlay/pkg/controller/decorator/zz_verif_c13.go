package decorator

// C13 (decorator) — a malformed decoded sync response must end in
// return-or-error, never in a panic; a rejected response writes no attachment.

import (
	"k8s.io/apimachinery/pkg/apis/meta/v1/unstructured"

	v1 "metacontroller/pkg/controller/decorator/api/v1"
	"metacontroller/pkg/zzverif/env"
	rt "metacontroller/pkg/zzverif/rt"
)

func verifC13Wrong(tag string) (interface{}, bool) {
	switch rt.Choice(tag, 6) {
	case 0:
		return nil, false
	case 1:
		return nil, true
	case 2:
		return rt.Int64(tag + ".int"), true
	case 3:
		return rt.Bool(tag + ".bool"), true
	case 4:
		return []interface{}{rt.String(tag + ".item")}, true
	default:
		return map[string]interface{}{"x": rt.String(tag + ".x")}, true
	}
}

func verifC13Set(m map[string]interface{}, k string, v interface{}, p bool) {
	if p {
		m[k] = v
	} else {
		delete(m, k)
	}
}

func VerifC13_DecoratorMalformedResponse() {
	w := env.NewWorld()
	target := verifDCTarget(env.ThingRes, "ns", "p", "puid")
	target.Object["spec"] = map[string]interface{}{"x": "1"}
	if rt.Bool("target-has-status") {
		target.Object["status"] = map[string]interface{}{"phase": rt.String("phase")}
	}
	// the FINALIZE response type: the target is being deleted and carries the
	// decorator's finalizer, the same near-valid answers arrive through the
	// finalize hook, with finalized true or false
	finalizing := rt.Bool("target-being-deleted-answer-comes-from-the-finalize-hook")
	finalized := false
	if finalizing {
		rt.Cover("finalize-response")
		verifDCSetFinalizers(target, verifDCFinalizerName)
		env.MarkDeleting(target)
		finalized = rt.Bool("finalized")
	}
	w.Srv.Put("things", target)
	att := env.ConfigMap("ns", "a", "", "v")
	md := att.Object["metadata"].(map[string]interface{})
	what := "valid"
	var atts []*unstructured.Unstructured
	switch rt.Choice("malformed-field", 11) {
	case 9:
		what = "two-adjacent-null-attachments"
		atts = append(atts, nil, nil)
	case 10:
		what = "valid-null-null-valid"
		att2 := env.ConfigMap("", "b", "", "v") // no namespace: must be defaulted to the target's
		atts = append(atts, att, nil, nil, att2)
	case 0:
		atts = append(atts, att)
	case 1:
		what = "null-attachment"
		atts = append(atts, nil)
	case 2:
		what = "null-attachment-after-valid"
		atts = append(atts, att, nil)
	case 3:
		what = "metadata"
		v, p := verifC13Wrong("metadata")
		verifC13Set(att.Object, "metadata", v, p)
		atts = append(atts, att)
	case 4:
		what = "name"
		v, p := verifC13Wrong("name")
		verifC13Set(md, "name", v, p)
		atts = append(atts, att)
	case 5:
		what = "annotations"
		v, p := verifC13Wrong("annotations")
		verifC13Set(md, "annotations", v, p)
		atts = append(atts, att)
	case 6:
		what = "apiVersion-kind"
		v, p := verifC13Wrong("apiVersion")
		verifC13Set(att.Object, "apiVersion", v, p)
		v2, p2 := verifC13Wrong("kind")
		verifC13Set(att.Object, "kind", v2, p2)
		atts = append(atts, att)
	case 7:
		what = "ownerReferences"
		md["ownerReferences"] = []interface{}{rt.String("ownerref-item")}
		atts = append(atts, att)
	default:
		what = "namespace"
		v, p := verifC13Wrong("namespace")
		verifC13Set(md, "namespace", v, p)
		atts = append(atts, att)
	}
	// (the status / labels / resync dimensions are independent of which hook the
	// answer came through: one shape each for the finalize variant)
	var status map[string]interface{}
	statusSel := 1
	if !finalizing {
		statusSel = rt.Choice("status", 3)
	}
	switch statusSel {
	case 1:
		status = map[string]interface{}{"phase": rt.String("new-phase")}
	case 2:
		status = map[string]interface{}{"conditions": rt.String("not-a-list")}
	}
	labels := map[string]*string{}
	resync := float64(0)
	if !finalizing {
		if rt.Bool("label-null") {
			labels["gone"] = nil
		}
		if rt.Bool("label-set") {
			labels["decorated"] = verifDCStrPtr(rt.String("label-value"))
		}
		if rt.Bool("labels-nil-map") {
			labels = nil
		}
		resync = []float64{0, -1, 1e300}[rt.Choice("resyncAfterSeconds", 3)]
	}
	hook := verifDCConstHook(&v1.DecoratorHookResponse{Labels: labels, Status: status, Attachments: atts, ResyncAfterSeconds: resync, Finalized: finalized})
	cfg := verifDCConfig{Attachments: []verifDCAttachment{{Res: env.ConfigMapRes, Method: "InPlace"}}, Sync: hook}
	if finalizing {
		cfg.FinalizeEnabled = true
		cfg.Finalize = hook
		cfg.Sync = verifDCConstHook(&v1.DecoratorHookResponse{})
	}
	dc := verifNewDC(w, cfg)
	parents := dc.SnapshotFromStore()
	err := dc.syncParentObject(parents[0])
	rt.Observe("err", err != nil)
	rt.Observe("what", what)
	if finalizing {
		live := w.Srv.Peek("things", "ns", "p")
		if live != nil && verifDCHasFinalizer(live, verifDCFinalizerName) {
			rt.Cover("finalize-response/finalizer-kept")
		} else {
			// the finalizer goes only after an answer that said finalized
			rt.Assert(finalized, "decorator/finalize/finalizer-removed-although-not-finalized")
		}
	}
	if what == "valid" {
		rt.Cover("valid-response")
		rt.Assert(err == nil, "decorator/valid-response/error")
		return
	}
	rt.Cover("malformed")
	if what == "valid-null-null-valid" {
		// The property allows both outcomes for null entries: a normal sync
		// (nulls dropped, the real attachments applied, namespace defaulted) or
		// a rejection - and then nothing is written on the strength of it.
		if err == nil {
			rt.Cover("nulls-between-valid/normal-sync")
			rt.Assert(w.Srv.Peek("configmaps", "ns", "a") != nil && w.Srv.Peek("configmaps", "ns", "b") != nil, "decorator/nulls-between-valid-attachments/attachment-not-created-in-target-namespace")
		} else {
			for _, r := range w.Srv.Writes() {
				rt.Assert(r.Resource != "configmaps", "decorator/nulls-between-valid-attachments/rejected-but-child-written")
			}
		}
	}
	for _, r := range w.Srv.Writes() {
		rt.Assert(r.Resource == "things" || r.Resource == "configmaps", "decorator/write-to-undeclared-resource")
	}
}

package decorator

// C03 (decorator side) — the attachments map sent to the decorator's sync or
// finalize hook: REAL getChildren -> callHook -> requestBuilder.Build ->
// UniformObjectMap.Convert, compared with an independent predicate over the
// cache snapshot. (Scaffolding: verifNewDC / verifDCConstHook from
// zz_verif_support_c16.go.)

import (
	"k8s.io/apimachinery/pkg/apis/meta/v1/unstructured"

	"metacontroller/pkg/controller/common/api"
	commonv2 "metacontroller/pkg/controller/common/api/v2"
	v1 "metacontroller/pkg/controller/decorator/api/v1"
	dynamicdiscovery "metacontroller/pkg/dynamic/discovery"
	"metacontroller/pkg/zzverif/env"
	rt "metacontroller/pkg/zzverif/rt"
)

var verifC03Num = []string{"0", "1", "2", "3"}

func verifC03Pick(tag string, n int) int {
	c := rt.Choice(tag, n)
	for i := 0; i < n-1; i++ {
		if c == i {
			return i
		}
	}
	return n - 1
}

const (
	verifC03Ours = iota
	verifC03OursOtherDecorator
	verifC03OursNoMarker
	verifC03Orphan
	verifC03Foreign
	verifC03OtherNamespace
	verifC03OursDeleting
	verifC03Kinds
)

type verifC03Obj struct {
	kind     int
	ns, name string
	obj      *unstructured.Unstructured
	selected bool
	key      string
}

func verifC03Make(res *dynamicdiscovery.APIResource, kind int, ns, name, uid string, parent *unstructured.Unstructured, foreignUID, otherDC string) *unstructured.Unstructured {
	o := env.Obj(res.APIVersion, res.Kind, ns, name, uid)
	switch kind {
	case verifC03OursOtherDecorator:
		env.SetAnnotation(o, verifDCMarker, otherDC)
	case verifC03OursNoMarker:
		env.SetAnnotation(o, "unrelated", "x")
	default:
		env.SetAnnotation(o, verifDCMarker, verifDCName)
	}
	switch kind {
	case verifC03Orphan:
	case verifC03Foreign:
		env.AddOwnerRef(o, env.OwnerRefMap(parent.GetAPIVersion(), parent.GetKind(), "q", foreignUID, true))
	default:
		env.AddOwnerRef(o, env.OwnerRefMap(parent.GetAPIVersion(), parent.GetKind(), parent.GetName(), string(parent.GetUID()), true))
	}
	if kind == verifC03OursDeleting {
		env.MarkDeleting(o)
		o.SetFinalizers([]string{"someone/else"})
	}
	return o
}

func VerifC03_DecoratorView() {
	w := env.NewWorld()
	puid := rt.String("parent-uid")
	rt.Assume(puid != "")
	fuid := rt.String("foreign-uid")
	rt.Assume(fuid != puid)
	otherDC := rt.String("other-decorator-name")
	rt.Assume(otherDC != verifDCName)
	// 0: namespaced parent; 1: cluster-scoped parent, namespaced attachments;
	// 2: cluster-scoped parent, cluster-scoped attachments (+ a namespaced resource)
	scope := verifC03Pick("scope", 3)
	finalizing := rt.Bool("finalizing")

	var parent *unstructured.Unstructured
	parentRes := env.ThingRes
	if scope == 0 {
		parent = env.Thing("ns", "p", puid)
	} else {
		parentRes = env.ClusterThingRes
		parent = env.Obj("ex.com/v1", "ClusterThing", "", "p", puid)
	}
	if finalizing {
		env.MarkDeleting(parent)
		parent.SetFinalizers([]string{verifDCFinalizerName})
	}
	w.Srv.Put(parentRes.Name, parent)

	res1, res2 := env.ConfigMapRes, env.WidgetRes
	if scope == 2 {
		res1, res2 = env.NamespaceRes, env.ConfigMapRes
	}
	n1 := 1 + verifC03Pick("objects", 2+rt.Tier())
	var objs []*verifC03Obj
	var cache1, cache2 []*unstructured.Unstructured
	for i := 0; i < n1; i++ {
		kinds := verifC03Kinds
		if i == 2 {
			kinds = verifC03Foreign + 1 // the third object (thorough tier): ownership and marker only
		}
		x := &verifC03Obj{kind: verifC03Pick("kind"+verifC03Num[i], kinds), name: "c" + verifC03Num[i]}
		switch scope {
		case 0:
			x.ns = "ns"
			if x.kind == verifC03OtherNamespace {
				x.ns = rt.String("other-namespace" + verifC03Num[i])
				rt.Assume(x.ns != "ns")
				rt.Assume(x.ns != "")
			}
			x.key = x.name
		case 1:
			x.ns = rt.String("namespace" + verifC03Num[i])
			rt.Assume(x.ns != "")
			x.key = x.ns + "/" + x.name
		case 2:
			x.key = x.name
		}
		x.obj = verifC03Make(res1, x.kind, x.ns, x.name, "u"+verifC03Num[i], parent, fuid, otherDC)
		switch x.kind {
		case verifC03Ours, verifC03OursDeleting:
			x.selected = true
		case verifC03OtherNamespace:
			x.selected = scope != 0
		}
		objs = append(objs, x)
		cache1 = append(cache1, x.obj)
	}
	var second *verifC03Obj
	switch verifC03Pick("second-resource-object", 3) {
	case 1:
		second = &verifC03Obj{kind: verifC03Ours, selected: true}
	case 2:
		second = &verifC03Obj{kind: verifC03Foreign}
	}
	if second != nil {
		second.name = "w"
		if scope == 0 {
			second.ns, second.key = "ns", "w"
		} else {
			second.ns = rt.String("namespace-second")
			rt.Assume(second.ns != "")
			second.key = second.ns + "/w"
		}
		second.obj = verifC03Make(res2, second.kind, second.ns, "w", "uw", parent, fuid, otherDC)
		cache2 = append(cache2, second.obj)
	}

	respChildren := []*unstructured.Unstructured{env.ConfigMap("", "r0", "", "v"), env.ConfigMap("explicit", "r1", "", "v")}
	hook := verifDCConstHook(&v1.DecoratorHookResponse{Attachments: respChildren})
	cfg := verifDCConfig{
		Rules:           []verifDCRule{{Res: parentRes}},
		Attachments:     []verifDCAttachment{{Res: res1, Method: "InPlace"}, {Res: res2, Method: "InPlace"}},
		FinalizeEnabled: finalizing,
	}
	if finalizing {
		cfg.Finalize = hook
	} else {
		cfg.Sync = hook
	}
	dc := verifNewDC(w, cfg)
	dc.Snapshot(map[string][]*unstructured.Unstructured{parentRes.Name: {parent}}, map[string][]*unstructured.Unstructured{res1.Name: cache1, res2.Name: cache2})

	observed, err := dc.getChildren(parent)
	rt.Assert(err == nil, "getchildren/error")
	if err != nil {
		return
	}
	rt.Assert(len(w.Srv.Log) == 0, "getchildren/api-request")
	resp, err := dc.callHook(parent, observed, commonv2.UniformObjectMap{})
	rt.Assert(err == nil, "hook/error")
	if err != nil {
		return
	}
	rt.Observe("hook-calls", len(hook.Calls))
	rt.Assert(len(hook.Calls) == 1, "hook/not-called-exactly-once")
	if len(hook.Calls) != 1 {
		return
	}
	req := hook.Calls[0]
	rt.Assert(req.Object == parent, "request/object")
	rt.Assert(req.Controller == dc.dc, "request/controller")
	rt.Assert(req.Finalizing == finalizing, "request/finalizing-flag")
	rt.Assert(len(req.Related) == 0, "request/related-not-empty")

	rt.Assert(len(req.Attachments) == 2, "attachments/group-count")
	g1, has1 := req.Attachments[api.GroupVersionKind{GroupVersionKind: res1.GroupVersionKind()}]
	g2, has2 := req.Attachments[api.GroupVersionKind{GroupVersionKind: res2.GroupVersionKind()}]
	rt.Assert(has1 && g1 != nil, "attachments/declared-group-missing")
	rt.Assert(has2 && g2 != nil, "attachments/declared-group-missing")

	check := func(grp map[string]*unstructured.Unstructured, list []*verifC03Obj) {
		want := 0
		for _, x := range list {
			if x.selected {
				want++
				got, has := grp[x.key]
				rt.Assert(has, "attachments/owned-attachment-missing-or-wrong-key")
				if has {
					rt.Assert(got == x.obj, "attachments/entry-is-another-object")
				}
			}
		}
		rt.Assert(len(grp) == want, "attachments/object-count")
		for _, got := range grp {
			found := false
			for _, x := range list {
				if x.selected && got == x.obj {
					found = true
				}
			}
			rt.Assert(found, "attachments/foreign-object-in-view")
		}
	}
	check(g1, objs)
	if second != nil {
		check(g2, []*verifC03Obj{second})
	} else {
		rt.Cover("empty-group-present")
		rt.Assert(len(g2) == 0, "attachments/object-count")
	}
	nsel := 0
	for _, x := range objs {
		if x.selected {
			nsel++
		}
		switch x.kind {
		case verifC03OursOtherDecorator:
			rt.Cover("other-decorator-not-shown")
		case verifC03OursNoMarker:
			rt.Cover("unmarked-not-shown")
		case verifC03Orphan:
			rt.Cover("orphan-not-shown")
		case verifC03Foreign:
			rt.Cover("foreign-not-shown")
		case verifC03OtherNamespace:
			if scope == 0 {
				rt.Cover("other-namespace-not-shown")
			}
		case verifC03OursDeleting:
			rt.Cover("owned-being-deleted-shown")
		}
	}
	rt.Observe("selected", nsel)
	switch scope {
	case 0:
		rt.Cover("namespaced-parent")
	case 1:
		rt.Cover("cluster-parent/namespaced-attachments")
	case 2:
		rt.Cover("cluster-parent/cluster-attachments")
	}
	if finalizing {
		rt.Cover("finalize-hook")
	}

	rt.Assert(resp != nil && len(resp.Attachments) == 2, "response/attachments")
	if resp != nil && len(resp.Attachments) == 2 {
		rt.Assert(resp.Attachments[0].GetNamespace() == parent.GetNamespace(), "response/namespace-not-defaulted-to-parent")
		rt.Assert(resp.Attachments[1].GetNamespace() == "explicit", "response/explicit-namespace-changed")
	}
}

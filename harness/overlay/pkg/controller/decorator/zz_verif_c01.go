package decorator

// C01 (decorator, Level B) — bounded convergence, then quiescence: a constant
// hook, a symbolic target, 0..1 existing attachment; syncParentObject is run
// 3 times with the listers re-snapshotted from the store between syncs.

import (
	metav1 "k8s.io/apimachinery/pkg/apis/meta/v1"
	"k8s.io/apimachinery/pkg/apis/meta/v1/unstructured"

	v1 "metacontroller/pkg/controller/decorator/api/v1"
	"metacontroller/pkg/zzverif/env"
	rt "metacontroller/pkg/zzverif/rt"
)

func VerifC01_DecoratorConvergence() {
	w := env.NewWorld()

	// ---- symbolic target ----
	target := env.Thing("ns", "p", "puid")
	target.Object["spec"] = map[string]interface{}{"x": rt.String("spec.x")}
	thorough := rt.Tier() > 0
	hasLabel := rt.Bool("target-has-label")
	if hasLabel {
		env.SetLabel(target, "la", rt.String("target.la"))
	}
	// quick tier: the label the hook deletes is there iff "la" is not, the
	// annotation is always there (value symbolic); thorough: independent
	hasDoomed := !hasLabel
	hasAnnotation := true
	if thorough {
		hasDoomed = rt.Bool("target-has-doomed-label")
		hasAnnotation = rt.Bool("target-has-annotation")
	}
	if hasDoomed {
		env.SetLabel(target, "gone", rt.String("target.gone"))
	}
	if hasAnnotation {
		env.SetAnnotation(target, "note", rt.String("target.note"))
	}
	switch rt.Choice("target-status", 3) {
	case 1:
		target.Object["status"] = map[string]interface{}{"phase": rt.String("target.phase")}
	case 2:
		target.Object["status"] = map[string]interface{}{"phase": rt.String("target.phase"), "stale": "x"}
	}
	// scenario: 0 = no finalize hook; 1 = no finalize hook, leftover finalizer;
	// 2 = finalize hook, finalizer missing; 3 = finalize hook, finalizer present;
	// 4 = finalize hook, target pending deletion (hook: nothing desired, finalized)
	scenario := rt.Choice("finalizer-scenario", 5)
	finEnabled := scenario >= 2
	finalizing := scenario == 4
	fins := []string{"example.com/foreign"}
	if scenario == 1 || scenario >= 3 {
		fins = append(fins, verifDCFinalizerName)
	}
	if finalizing {
		fins = []string{verifDCFinalizerName}
		env.MarkDeleting(target)
	}
	verifDCSetFinalizers(target, fins...)
	w.Srv.Put("things", target)

	// ---- the constant hook ----
	lv, av, sv, dv := rt.String("hook.la"), rt.String("hook.note"), rt.String("hook.phase"), rt.String("hook.data")
	method := []string{"InPlace", "Recreate", "OnDelete"}[rt.Choice("update-method", 3)]
	answer := &v1.DecoratorHookResponse{
		Labels:      map[string]*string{"la": &lv, "gone": nil},
		Annotations: map[string]*string{"note": &av},
		Status:      map[string]interface{}{"phase": sv},
		Attachments: []*unstructured.Unstructured{env.ConfigMap("", "c", "", dv)},
	}
	finAnswer := &v1.DecoratorHookResponse{Finalized: true, Attachments: []*unstructured.Unstructured{}}
	sync := verifDCConstHook(answer)
	fin := verifDCConstHook(finAnswer)
	fin.enabled = finEnabled

	// ---- 0..1 existing attachment ----
	existing := rt.Choice("existing-attachment", 3) // 0 absent, 1 ours (value symbolic: drifted or not), 2 ours + a foreign field
	ov := ""
	if existing != 0 {
		ov = rt.String("existing.data")
		c := verifDCApplied(env.ConfigMap("ns", "c", "", ov), target, "puid", verifDCName, "uc")
		if existing == 2 {
			c.Object["data"].(map[string]interface{})["other"] = rt.String("existing.foreign")
		}
		w.Srv.Put("configmaps", c)
	}

	// an object of the attachment kind that the TARGET controls but the decorator
	// did not make (what the target's own controller creates: the Pods of a
	// StatefulSet that is being decorated): it carries no decorator marker, is
	// not an attachment, and is neither shown to the hook nor deleted
	sibling := rt.Bool("target-controls-an-object-the-decorator-did-not-make")
	if sibling {
		rt.Cover("convergence/targets-own-object")
		o := env.ConfigMap("ns", "made-by-the-targets-controller", "usib", "theirs")
		env.AddOwnerRef(o, env.OwnerRefMap(target.GetAPIVersion(), target.GetKind(), "p", "puid", true))
		w.Srv.Put("configmaps", o)
	}

	d := verifNewDC(w, verifDCConfig{FinalizeEnabled: finEnabled, Sync: sync, Finalize: fin,
		Attachments: []verifDCAttachment{{Res: env.ConfigMapRes, Method: method}}})

	const k = 3
	var writes [k]int
	for i := 0; i < k; i++ {
		cached := d.SnapshotFromStore()
		w.Srv.ResetLog()
		if len(cached) == 0 {
			// the target is gone: the controller's sync() stops at the lister
			continue
		}
		children, _ := d.childInformers.Get(verifDCGVR(env.ConfigMapRes)).Lister().List(verifC01Everything{})
		fp := verifDCFingerprintOf(cached, children)
		err := d.syncParentObject(cached[0])
		rt.Assert(err == nil, "convergence/sync-error")
		fp.AssertUnchanged("convergence/cache-mutated")
		writes[i] = len(w.Srv.Writes())
		for _, r := range w.Srv.Writes() {
			rt.Assert(r.Accepted, "convergence/write-rejected")
		}
	}
	rt.Observe("writes-1", writes[0])
	rt.Observe("writes-2", writes[1])
	rt.Observe("writes-3", writes[2])

	// ---- quiescence ----
	rt.Assert(writes[2] == 0, "convergence/third-sync-still-writes")
	if writes[1] == 0 {
		rt.Cover("convergence/quiet-after-one-sync")
	} else {
		rt.Cover("convergence/quiet-after-two-syncs")
	}
	if writes[0] == 0 {
		rt.Cover("convergence/already-converged")
		rt.Assert(writes[1] == 0, "convergence/write-after-a-quiet-sync")
	}

	if sibling {
		o := w.Srv.Peek("configmaps", "ns", "made-by-the-targets-controller")
		rt.Assert(o != nil, "convergence/object-of-the-targets-own-controller-deleted")
		if o != nil {
			rt.Assert(o.GetResourceVersion() == "7", "convergence/object-of-the-targets-own-controller-modified")
		}
		for _, call := range append(append([]*v1.DecoratorHookRequest{}, sync.Calls...), fin.Calls...) {
			for _, group := range call.Attachments {
				_, shown := group["made-by-the-targets-controller"]
				rt.Assert(!shown, "convergence/object-of-the-targets-own-controller-shown-to-the-hook")
			}
		}
	}

	// ---- the fixpoint ----
	stored := w.Srv.Peek("things", "ns", "p")
	c := w.Srv.Peek("configmaps", "ns", "c")
	if finalizing {
		rt.Cover("convergence/finalized")
		rt.Assert(stored == nil, "convergence/finalized-target-still-there")
		rt.Assert(c == nil, "convergence/attachment-not-cleaned-up-by-finalize")
		rt.Assert(len(fin.Calls) == 1 && len(sync.Calls) == 0, "convergence/finalize-hook-calls")
		return
	}
	rt.Assert(len(fin.Calls) == 0, "convergence/finalize-hook-called-for-live-target")
	rt.Assert(stored != nil, "convergence/target-gone")
	if stored != nil {
		l := stored.GetLabels()
		rt.Assert(l["la"] == lv, "convergence/target-label-not-the-hooks")
		_, has := l["gone"]
		rt.Assert(!has, "convergence/target-label-not-deleted")
		rt.Assert(stored.GetAnnotations()["note"] == av, "convergence/target-annotation-not-the-hooks")
		st, _ := stored.Object["status"].(map[string]interface{})
		rt.Assert(len(st) == 1, "convergence/target-status-not-the-hooks")
		if len(st) == 1 {
			p, _ := st["phase"].(string)
			rt.Assert(p == sv, "convergence/target-status-not-the-hooks")
		}
		rt.Assert(verifDCHasFinalizer(stored, verifDCFinalizerName) == finEnabled, "convergence/target-finalizer-state")
		rt.Assert(verifDCHasFinalizer(stored, "example.com/foreign"), "convergence/foreign-finalizer-lost")
		spec, _ := stored.Object["spec"].(map[string]interface{})
		rt.Assert(len(spec) == 1, "convergence/target-spec-changed")
	}
	rt.Assert(c != nil, "convergence/desired-attachment-missing")
	if c != nil {
		ref := metav1.GetControllerOf(c)
		rt.Assert(ref != nil && ref.UID == "puid", "convergence/attachment-not-controlled-by-target")
		rt.Assert(c.GetAnnotations()[verifDCMarker] == verifDCName, "convergence/attachment-without-marker")
		data, _ := c.Object["data"].(map[string]interface{})
		val, _ := data["k"].(string)
		if method == "OnDelete" && existing != 0 {
			rt.Cover("convergence/ondelete-left-alone")
			rt.Assert(val == ov, "convergence/ondelete-attachment-updated")
		} else {
			rt.Cover("convergence/field-has-hook-value")
			rt.Assert(val == dv, "convergence/attachment-field-not-the-hooks")
		}
		if existing == 2 && method == "InPlace" {
			_, keeps := data["other"]
			rt.Assert(keeps, "convergence/foreign-field-of-attachment-removed")
		}
	}
}

type verifC01Everything struct{ verifEverything }

package decorator

// C14 — every change that can alter a parent's reconciliation enqueues that
// parent (decorator controller part), and the queue-key lemma of C12.
//
// Real code driven: enqueueParentObject, updateParentObject, onChildAdd,
// onChildUpdate, onChildDelete, resolveControllerRef, decoratorSelector,
// parentQueueKey, splitParentQueueKey, common.GetObject — on a real
// *decoratorController (zz_verif_support.go) that decorates BOTH a namespaced
// (things) and a cluster-scoped (clusterthings) resource.  The EVENT is
// symbolic; the expected set of queue keys is a predicate written from the
// property statement.

import (
	"strings"

	metav1 "k8s.io/apimachinery/pkg/apis/meta/v1"
	"k8s.io/apimachinery/pkg/apis/meta/v1/unstructured"
	"k8s.io/client-go/tools/cache"

	"metacontroller/pkg/apis/metacontroller/v1alpha1"
	dynamicdiscovery "metacontroller/pkg/dynamic/discovery"
	"metacontroller/pkg/zzverif/env"
	rt "metacontroller/pkg/zzverif/rt"
)

// ---- helpers ----

const verifC14SelVal = "gold"

func verifC14ParentRes(cluster bool) *dynamicdiscovery.APIResource {
	if cluster {
		return env.ClusterThingRes
	}
	return env.ThingRes
}

func verifC14AddFinalizer(o *unstructured.Unstructured, name string) {
	md := o.Object["metadata"].(map[string]interface{})
	f, _ := md["finalizers"].([]interface{})
	md["finalizers"] = append(f, name)
}

func verifC14SetRV(o *unstructured.Unstructured, rv string) {
	o.Object["metadata"].(map[string]interface{})["resourceVersion"] = rv
}

func verifC14SetGeneration(o *unstructured.Unstructured, g int64) {
	o.Object["metadata"].(map[string]interface{})["generation"] = g
}

func verifC14ThoroughBool(tag string, quick bool) bool {
	if rt.Tier() == 0 {
		return quick
	}
	return rt.Bool(tag)
}

// verifC14Key is the decorator queue key as the property states it.
func verifC14Key(apiVersion, kind, ns, name string) string {
	return apiVersion + ":" + kind + ":" + ns + ":" + name
}

// verifC14CacheKey is the key the informer's store puts into a delete tombstone.
func verifC14CacheKey(ns, name string) string {
	if ns == "" {
		return name
	}
	return ns + "/" + name
}

// verifC14AssertQueue: exactly the expected keys were added (at most one is
// ever expected from a decorator handler).  checkKey=false only counts.
func verifC14AssertQueue(q *env.Queue, what string, checkKey bool, want ...string) {
	rt.Observe("queue-ops", len(q.Ops))
	for _, op := range q.Ops {
		rt.Assert(op.Op == "add", what+"/queue-op-other-than-add")
	}
	if len(want) == 0 {
		rt.Assert(len(q.Ops) == 0, what+"/enqueued-although-nothing-expected")
		return
	}
	rt.Assert(len(q.Ops) >= 1, what+"/parent-not-enqueued")
	rt.Assert(len(q.Ops) <= 1, what+"/more-keys-than-expected")
	if len(q.Ops) == 1 && checkKey {
		rt.Assert(q.Ops[0].Key == want[0], what+"/wrong-key")
	}
}

// verifC14Rules builds the two resource rules; the rule for the kind under
// test optionally carries a label selector (tier=gold) and an annotation
// selector (note=yes); the other rule selects everything.
func verifC14Rules(cluster, labelSel, annSel bool) []v1alpha1.DecoratorControllerResourceRule {
	things, clusterThings := verifC14Rule(env.ThingRes), verifC14Rule(env.ClusterThingRes)
	r := &things
	if cluster {
		r = &clusterThings
	}
	if labelSel {
		r.LabelSelector = &metav1.LabelSelector{MatchLabels: map[string]string{"tier": verifC14SelVal}}
	}
	if annSel {
		r.AnnotationSelector = &v1alpha1.AnnotationSelector{MatchAnnotations: map[string]string{"note": "yes"}}
	}
	return []v1alpha1.DecoratorControllerResourceRule{things, clusterThings}
}

// verifC14SymMeta puts a symbolic label/annotation shape on o: 0 = none,
// 1 = {key: v}, 2 = {key: v, "extra": "x"}; shapes < 0 fixes shape -shapes.
func verifC14SymMeta(o *unstructured.Unstructured, tag string, labels bool, key string, shapes int) (shape int, v string) {
	if shapes < 0 {
		shape = -shapes
	} else {
		shape = rt.Choice(tag+"-shape", shapes)
	}
	if shape == 0 {
		return 0, ""
	}
	v = rt.String(tag + "-value")
	set := env.SetAnnotation
	if labels {
		set = env.SetLabel
	}
	if shape == 3 { // {key+"-renamed": v}: as many entries as shape 1, another key
		set(o, key+"-renamed", v)
		return shape, v
	}
	set(o, key, v)
	if shape == 2 {
		set(o, "extra", "x")
	}
	return shape, v
}

// verifC14Selected: the independent selector predicate — a rule without a
// selector selects everything, otherwise the key must be present and equal.
func verifC14Selected(hasSel bool, shape int, v, want string) bool {
	if !hasSel {
		return true
	}
	if shape == 0 {
		return false
	}
	return v == want
}

// ---- 1. parent add / update / delete ----

// VerifC14_DecoratorParentEvents: a parent add, update, delete or delete
// tombstone is queued iff the parent matches the label AND annotation selector
// of its resource rule or carries the controller's finalizer; the key is
// apiVersion:kind:namespace:name (for a tombstone only the number of queue
// operations is checked here, the key itself is the subject of the C12 lemma).
func VerifC14_DecoratorParentEvents() {
	w := env.NewWorld()
	cluster := rt.Bool("cluster-scoped")
	labelSel := rt.Bool("rule-has-label-selector")
	annSel := rt.Bool("rule-has-annotation-selector")
	d := verifC14NewDC(w, verifC14DCConfig{
		Resources:       verifC14Rules(cluster, labelSel, annSel),
		Attachments:     []*dynamicdiscovery.APIResource{env.ConfigMapRes},
		FinalizeEnabled: verifC14ThoroughBool("finalize-hook", true),
	})
	res := verifC14ParentRes(cluster)
	ns := ""
	if !cluster {
		ns = rt.String("ns")
		rt.Assume(ns != "")
	}
	name := rt.String("name")
	rt.Assume(name != "")
	parent := env.Obj(res.APIVersion, res.Kind, ns, name, "puid")
	lShape, lV := verifC14SymMeta(parent, "parent-labels", true, "tier", 2)
	aShape, aV := verifC14SymMeta(parent, "parent-annotations", false, "note", 2)
	if verifC14ThoroughBool("unrelated-label", true) {
		env.SetLabel(parent, "unrelated", "u")
	}
	hasFin := false
	switch rt.Choice("finalizers", 3) {
	case 0:
	case 1: // only somebody else's finalizer: does not count
		verifC14AddFinalizer(parent, "example.com/other")
	case 2:
		verifC14AddFinalizer(parent, "example.com/other")
		verifC14AddFinalizer(parent, verifC14FinalizerName)
		hasFin = true
	}

	tombstone := false
	switch rt.Choice("event", 4) {
	case 0:
		rt.Cover("parent-add")
		d.enqueueParentObject(parent)
	case 1:
		rt.Cover("parent-update")
		old := parent.DeepCopy()
		verifC14SetRV(old, "6")
		d.updateParentObject(old, parent)
	case 2:
		rt.Cover("parent-delete")
		env.MarkDeleting(parent)
		d.enqueueParentObject(parent)
	case 3:
		rt.Cover("parent-delete-tombstone")
		tombstone = true
		d.enqueueParentObject(cache.DeletedFinalStateUnknown{Key: verifC14CacheKey(ns, name), Obj: parent})
	}

	matches := false
	if verifC14Selected(labelSel, lShape, lV, verifC14SelVal) {
		if verifC14Selected(annSel, aShape, aV, "yes") {
			matches = true
		}
	}
	key := verifC14Key(res.APIVersion, res.Kind, ns, name)
	switch {
	case matches:
		rt.Cover("parent-matching")
		verifC14AssertQueue(d.Queue, "decorator-parent-event/matching", !tombstone, key)
	case hasFin:
		rt.Cover("parent-unmatched-with-finalizer")
		verifC14AssertQueue(d.Queue, "decorator-parent-event/unmatched-with-finalizer", !tombstone, key)
	case tombstone:
		rt.Cover("parent-unmatched-no-finalizer-tombstone")
		verifC14AssertQueue(d.Queue, "decorator-parent-tombstone/unmatched-no-finalizer", false)
	default:
		rt.Cover("parent-unmatched-no-finalizer")
		verifC14AssertQueue(d.Queue, "decorator-parent-event/unmatched-no-finalizer", false)
	}
}

// ---- 2. ignoreStatusChanges ----

// VerifC14_DecoratorParentUpdateIgnoreStatus: with ignoreStatusChanges on the
// parent's OWN resource rule an update is dropped iff old and cur have the
// same generation, labels and annotations and cur is not being deleted; the
// flag on another rule has no effect; an update that is not dropped is queued
// under the usual selector-or-finalizer rule.
func VerifC14_DecoratorParentUpdateIgnoreStatus() {
	w := env.NewWorld()
	cluster := verifC14ThoroughBool("cluster-scoped", false)
	rules := verifC14Rules(cluster, true, false)
	own, other := 0, 1
	if cluster {
		own, other = 1, 0
	}
	ignore := false
	t, f := true, false
	switch rt.Choice("ignoreStatusChanges", 4) {
	case 0: // unset everywhere
	case 1:
		rules[own].IgnoreStatusChanges = &f
	case 2: // only on the rule of the other resource
		rules[other].IgnoreStatusChanges = &t
	case 3:
		rules[own].IgnoreStatusChanges = &t
		ignore = true
	}
	d := verifC14NewDC(w, verifC14DCConfig{Resources: rules, Attachments: []*dynamicdiscovery.APIResource{env.ConfigMapRes}})
	res := verifC14ParentRes(cluster)
	ns := "ns1"
	if cluster {
		ns = ""
	}
	old := env.Obj(res.APIVersion, res.Kind, ns, "p", "puid")
	cur := env.Obj(res.APIVersion, res.Kind, ns, "p", "puid")
	verifC14SetRV(old, "6")
	old.Object["status"] = map[string]interface{}{"phase": rt.String("old-status")}
	cur.Object["status"] = map[string]interface{}{"phase": rt.String("cur-status")}
	genOld, genCur := rt.Int64("old-generation"), rt.Int64("cur-generation")
	verifC14SetGeneration(old, genOld)
	verifC14SetGeneration(cur, genCur)
	lShapes, aShapes, oaShapes := 4, 2, 2
	if !ignore && rt.Tier() == 0 {
		// without ignoreStatusChanges the old state is not looked at: one shape
		lShapes, aShapes, oaShapes = -1, -1, -1
	}
	olShape, olV := verifC14SymMeta(old, "old-labels", true, "tier", lShapes)
	clShape, clV := verifC14SymMeta(cur, "cur-labels", true, "tier", 3)
	if oaShapes > 0 && rt.Bool("old-annotation-under-another-key") {
		oaShapes = -3
	}
	oaShape, oaV := verifC14SymMeta(old, "old-annotations", false, "note", oaShapes)
	caShape, caV := verifC14SymMeta(cur, "cur-annotations", false, "note", aShapes)
	hasFin := rt.Bool("cur-has-finalizer")
	if hasFin {
		verifC14AddFinalizer(old, verifC14FinalizerName)
		verifC14AddFinalizer(cur, verifC14FinalizerName)
	}
	deleting := rt.Bool("cur-deleting")
	if deleting {
		env.MarkDeleting(cur)
	}

	d.updateParentObject(old, cur)

	unchanged := true
	if genOld != genCur {
		unchanged = false
	}
	if olShape != clShape {
		unchanged = false
	} else if olShape > 0 && olV != clV {
		unchanged = false
	}
	if oaShape != caShape {
		unchanged = false
	} else if oaShape > 0 && oaV != caV {
		unchanged = false
	}
	if deleting {
		unchanged = false
	}
	matches := verifC14Selected(true, clShape, clV, verifC14SelVal)
	key := verifC14Key(res.APIVersion, res.Kind, ns, "p")
	switch {
	case ignore && unchanged:
		rt.Cover("ignore-status/dropped")
		verifC14AssertQueue(d.Queue, "decorator-ignore-status/unchanged-update", false)
	case matches:
		if ignore {
			rt.Cover("ignore-status/changed-enqueued")
		} else {
			rt.Cover("status-not-ignored/enqueued")
		}
		verifC14AssertQueue(d.Queue, "decorator-parent-update/changed-matching", true, key)
	case hasFin:
		rt.Cover("parent-update/unmatched-with-finalizer")
		verifC14AssertQueue(d.Queue, "decorator-parent-update/unmatched-with-finalizer", true, key)
	default:
		rt.Cover("parent-update/unmatched-no-finalizer")
		verifC14AssertQueue(d.Queue, "decorator-parent-update/unmatched-no-finalizer", false)
	}
}

// ---- 3. child events ----

type verifC14Parent struct {
	obj      *unstructured.Unstructured
	kind     string
	ns, name string
	uid      string
	eligible bool
}

func (p *verifC14Parent) key() string { return verifC14Key("ex.com/v1", p.kind, p.ns, p.name) }

const (
	verifC14Live = iota
	verifC14Gone
	verifC14Noop
)

func verifC14DeliverChild(d *verifC14DC, ev int, child *unstructured.Unstructured) int {
	switch ev {
	case 0:
		rt.Cover("child-add")
		d.onChildAdd(child)
		return verifC14Live
	case 1:
		rt.Cover("child-add-being-deleted")
		env.MarkDeleting(child)
		d.onChildAdd(child)
		return verifC14Gone
	case 2:
		old := child.DeepCopy()
		oldRV, curRV := rt.String("old-resourceVersion"), rt.String("cur-resourceVersion")
		verifC14SetRV(old, oldRV)
		verifC14SetRV(child, curRV)
		// the old state differs in everything a handler could look at
		env.SetLabel(old, "app", "old-app")
		delete(old.Object["metadata"].(map[string]interface{}), "ownerReferences")
		d.onChildUpdate(old, child)
		if oldRV == curRV {
			rt.Cover("child-resync")
			return verifC14Noop
		}
		rt.Cover("child-update")
		return verifC14Live
	case 3:
		rt.Cover("child-delete")
		d.onChildDelete(child)
		return verifC14Gone
	case 4:
		rt.Cover("child-delete-tombstone")
		d.onChildDelete(cache.DeletedFinalStateUnknown{Key: child.GetNamespace() + "/" + child.GetName(), Obj: child})
		return verifC14Gone
	default:
		rt.Cover("child-update-being-deleted")
		old := child.DeepCopy()
		verifC14SetRV(old, "6")
		env.MarkDeleting(child)
		d.onChildUpdate(old, child)
		return verifC14Gone
	}
}

// VerifC14_DecoratorChildEvents: a child event whose object carries a
// controller owner reference wakes exactly the decorated object the reference
// resolves to — one of the decorated kinds by API group (any version) and
// kind, same name, in the child's namespace when that kind is namespaced,
// same UID — provided it is eligible (selectors or finalizer); a child without
// controller reference wakes nobody (decorators do not adopt); a resync wakes
// nobody.
func VerifC14_DecoratorChildEvents() {
	w := env.NewWorld()
	ev := rt.Choice("child-event", 6)
	live := ev == 0 || ev == 2
	d := verifC14NewDC(w, verifC14DCConfig{
		Resources:   verifC14Rules(false, true, false),
		Attachments: []*dynamicdiscovery.APIResource{env.ConfigMapRes},
	})
	// cache: two Things and one ClusterThing that shares its name with them
	p1 := &verifC14Parent{kind: "Thing", ns: "ns1", name: "p", uid: "u1"}
	p2 := &verifC14Parent{kind: "Thing", ns: "ns1", name: "q", uid: "u2", eligible: true}
	if rt.Bool("p2-same-name-other-namespace") {
		p2.ns, p2.name = "ns2", "p"
	}
	c1 := &verifC14Parent{kind: "ClusterThing", ns: "", name: "p", uid: "u3", eligible: true}
	for _, p := range []*verifC14Parent{p1, p2, c1} {
		p.obj = env.Obj("ex.com/v1", p.kind, p.ns, p.name, p.uid)
	}
	env.SetLabel(p2.obj, "tier", verifC14SelVal)
	switch rt.Choice("p1-eligibility", 3) {
	case 0:
		env.SetLabel(p1.obj, "tier", verifC14SelVal)
		p1.eligible = true
	case 1:
		env.SetLabel(p1.obj, "tier", "silver")
		verifC14AddFinalizer(p1.obj, verifC14FinalizerName)
		p1.eligible = true
	case 2:
		env.SetLabel(p1.obj, "tier", "silver")
		verifC14AddFinalizer(p1.obj, "example.com/other")
	}
	d.Snapshot(map[string][]*unstructured.Unstructured{
		"things":        {p1.obj, p2.obj},
		"clusterthings": {c1.obj},
	}, nil)

	childNS := rt.OneOf(rt.String("child-namespace"), "ns1", "ns2")
	rt.Assume(childNS != "")
	child := env.ConfigMap(childNS, "c", "cuid", "v")
	env.SetLabel(child, "tier", verifC14SelVal)

	hasCtrl := true
	groupOK := false
	refAPIVersion, refKind, refName, refUID := "", "", "", ""
	nAV := 5
	if !live && rt.Tier() == 0 {
		nAV = 3
	}
	switch rt.Choice("ref-apiVersion", nAV) {
	case 0:
		refAPIVersion, groupOK = "ex.com/v1", true
	case 1: // same group, other version: still the same kind of parent
		refAPIVersion, groupOK = "ex.com/v2", true
	case 2:
		refAPIVersion = "other.io/v1"
	case 3:
		refAPIVersion = "v1"
	case 4: // no controller reference at all
		hasCtrl = false
	}
	if verifC14ThoroughBool("other-owner-first", true) {
		// a non-controller owner that names p2 exactly: must be ignored
		env.AddOwnerRef(child, env.OwnerRefMap("ex.com/v1", "Thing", p2.name, p2.uid, false))
	}
	if hasCtrl {
		refKind = rt.OneOf(rt.String("ref-kind"), "Thing", "ClusterThing")
		refName = rt.String("ref-name")
		refUID = rt.String("ref-uid")
		env.AddOwnerRef(child, env.OwnerRefMap(refAPIVersion, refKind, refName, refUID, true))
	}

	outcome := verifC14DeliverChild(d, ev, child)

	names := func(p *verifC14Parent) bool {
		if !hasCtrl || !groupOK {
			return false
		}
		if refKind != p.kind {
			return false
		}
		if refName != p.name {
			return false
		}
		if p.ns != "" && childNS != p.ns {
			return false
		}
		if refUID != p.uid {
			return false
		}
		return true
	}
	if outcome == verifC14Noop {
		verifC14AssertQueue(d.Queue, "decorator-child-resync", false)
		return
	}
	what := "decorator-child"
	if outcome == verifC14Gone {
		what = "decorator-child-gone"
	}
	switch {
	case !hasCtrl:
		rt.Cover("child/no-controller-reference")
		verifC14AssertQueue(d.Queue, what+"/no-controller-reference", false)
	case names(p1):
		if p1.eligible {
			rt.Cover("child/resolves-to-p1")
			verifC14AssertQueue(d.Queue, what+"/owner-p1", true, p1.key())
		} else {
			rt.Cover("child/owner-not-eligible")
			verifC14AssertQueue(d.Queue, what+"/owner-neither-selected-nor-finalizer", false)
		}
	case names(p2):
		rt.Cover("child/resolves-to-p2")
		verifC14AssertQueue(d.Queue, what+"/owner-p2", true, p2.key())
	case names(c1):
		rt.Cover("child/resolves-to-cluster-scoped")
		verifC14AssertQueue(d.Queue, what+"/owner-cluster-scoped", true, c1.key())
	default:
		rt.Cover("child/resolves-to-nobody")
		verifC14AssertQueue(d.Queue, what+"/reference-names-no-cached-parent", false)
	}
}

// ---- 4. C12 lemma: queue keys can be parsed back ----

// VerifC12_DecoratorQueueKeyRoundTrip: for every parent object (symbolic
// apiVersion, kind, namespace, name; the first three without ':' as
// Kubernetes naming guarantees) the key produced by parentQueueKey — for the
// object itself and for a delete tombstone holding it — is split back by
// splitParentQueueKey into exactly that apiVersion, kind, namespace, name.
func VerifC12_DecoratorQueueKeyRoundTrip() {
	apiVersion, kind, ns, name := rt.String("apiVersion"), rt.String("kind"), rt.String("namespace"), rt.String("name")
	rt.Assume(!strings.Contains(apiVersion, ":"))
	rt.Assume(!strings.Contains(kind, ":"))
	rt.Assume(!strings.Contains(ns, ":"))
	rt.Assume(name != "")
	rt.Assume(apiVersion != "")
	rt.Assume(kind != "")
	parent := &unstructured.Unstructured{Object: map[string]interface{}{
		"apiVersion": apiVersion,
		"kind":       kind,
		"metadata":   map[string]interface{}{"namespace": ns, "name": name},
	}}
	var delivered interface{} = parent
	what := "queue-key/object"
	if rt.Bool("delete-tombstone") {
		rt.Cover("queue-key/tombstone/delivered")
		what = "queue-key/tombstone"
		cacheKey := name
		if ns != "" {
			cacheKey = ns + "/" + name
		}
		delivered = cache.DeletedFinalStateUnknown{Key: cacheKey, Obj: parent}
	}
	key, err := parentQueueKey(delivered)
	rt.Assert(err == nil, what+"/no-key")
	if err != nil {
		return
	}
	a, k, n, m, err := splitParentQueueKey(key)
	rt.Observe("parse-error", err != nil)
	rt.Assert(err == nil, what+"/key-cannot-be-parsed-back")
	if err != nil {
		return
	}
	// one finding per form: the four comparisons are folded by branching
	same := true
	if a != apiVersion {
		same = false
	}
	if k != kind {
		same = false
	}
	if n != ns {
		same = false
	}
	if m != name {
		same = false
	}
	rt.Assert(same, what+"/parsed-back-to-a-different-identity")
	if same {
		rt.Cover(what + "/round-trip")
	}
}

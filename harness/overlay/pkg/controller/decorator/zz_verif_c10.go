package decorator

// C10 (decorator half) — finalizer: added first, honoured on deletion /
// unmatch, removed only when finalized; hook selection and `finalizing`.

import (
	metav1 "k8s.io/apimachinery/pkg/apis/meta/v1"
	"k8s.io/apimachinery/pkg/apis/meta/v1/unstructured"

	"metacontroller/pkg/controller/common"
	commonv2 "metacontroller/pkg/controller/common/api/v2"
	v1 "metacontroller/pkg/controller/decorator/api/v1"
	"metacontroller/pkg/hooks"
	"metacontroller/pkg/zzverif/env"
	rt "metacontroller/pkg/zzverif/rt"
)

// the rule used by these harnesses: Things labelled app=on
func verifC10Rule() []verifDCRule {
	return []verifDCRule{{Res: env.ThingRes, LabelSelector: &metav1.LabelSelector{MatchLabels: map[string]string{"app": "on"}}}}
}

// VerifC10_DecoratorCallHook: which hook, and the `finalizing` flag.
func VerifC10_DecoratorCallHook() {
	w := env.NewWorld()
	finEnabled := rt.Bool("finalize-hook")
	target := env.Thing("ns", "p", "puid")
	matches := false
	if rt.Bool("has-label") {
		lv := rt.String("app")
		env.SetLabel(target, "app", lv)
		matches = lv == "on"
	}
	deleting := rt.Bool("deleting")
	if deleting {
		env.MarkDeleting(target)
	}
	if rt.Bool("has-finalizer") {
		verifDCSetFinalizers(target, verifDCFinalizerName)
	}
	answer := &v1.DecoratorHookResponse{
		Labels:      map[string]*string{"l": verifDCStrPtr("v")},
		Attachments: []*unstructured.Unstructured{env.ConfigMap("", "c", "", "x"), env.ConfigMap("other", "d", "", "y")},
		Finalized:   rt.Bool("finalized"),
	}
	sync := verifDCConstHook(answer)
	fin := verifDCConstHook(answer)
	fin.enabled = finEnabled
	d := verifNewDC(w, verifDCConfig{Rules: verifC10Rule(), FinalizeEnabled: finEnabled, Sync: sync, Finalize: fin,
		Attachments: []verifDCAttachment{{Res: env.ConfigMapRes}}})

	resp, err := d.callHook(target, make(commonv2.UniformObjectMap), make(commonv2.UniformObjectMap))

	rt.Assert(err == nil, "callhook/error")
	rt.Assert(len(sync.Calls)+len(fin.Calls) == 1, "callhook/not-exactly-one-hook-call")
	wantFinalize := false
	if finEnabled {
		if deleting {
			wantFinalize = true
		} else if !matches {
			wantFinalize = true
		}
	}
	if wantFinalize {
		rt.Cover("callhook/finalize")
		rt.Assert(len(fin.Calls) == 1, "callhook/sync-hook-instead-of-finalize-hook")
		if len(fin.Calls) == 1 {
			rt.Assert(fin.Calls[0].Finalizing, "callhook/finalize-hook-without-finalizing-true")
			rt.Assert(fin.Calls[0].Object == target, "callhook/hook-got-another-object")
		}
	} else {
		rt.Cover("callhook/sync")
		rt.Assert(len(sync.Calls) == 1, "callhook/finalize-hook-instead-of-sync-hook")
		if len(sync.Calls) == 1 {
			rt.Assert(!sync.Calls[0].Finalizing, "callhook/sync-hook-with-finalizing-true")
			rt.Assert(sync.Calls[0].Object == target, "callhook/hook-got-another-object")
		}
	}
	if err == nil {
		rt.Assert(resp != nil, "callhook/nil-response")
		if resp != nil {
			rt.Assert(resp.Finalized == answer.Finalized, "callhook/finalized-not-passed-on")
			rt.Assert(len(resp.Attachments) == 2, "callhook/attachments-not-passed-on")
			if len(resp.Attachments) == 2 {
				rt.Assert(resp.Attachments[0].GetNamespace() == "ns", "callhook/attachment-namespace-not-defaulted-to-target")
				rt.Assert(resp.Attachments[1].GetNamespace() == "other", "callhook/explicit-attachment-namespace-overwritten")
			}
		}
	}
	rt.Observe("finalize-calls", len(fin.Calls))
	rt.Observe("sync-calls", len(sync.Calls))
}

func verifC10IsTarget(r env.Req) bool {
	return r.Resource == "things" && r.NS == "ns" && r.Name == "p"
}

// VerifC10_DecoratorSync: one whole real syncParentObject over the finalizer
// life cycle's one-step pre-states.
func VerifC10_DecoratorSync() {
	w := env.NewWorld()
	finEnabled := rt.Bool("finalize-hook")
	hasOur := rt.Bool("has-our-finalizer")
	deleting := rt.Bool("deleting")
	gc := 0
	if deleting {
		gc = rt.Choice("gc-finalizer", 3)
	}
	matches := rt.Bool("matches-selector")
	finalized := rt.Bool("finalized")
	addsLabel := rt.Bool("hook-adds-a-label")
	// how the webhooks are configured (url, or service reference + path) must not
	// matter to the finalizer protocol
	viaService := rt.Bool("hooks-given-as-service-reference")
	if viaService {
		rt.Cover("hooks-via-service")
	}

	target := env.Thing("ns", "p", "puid")
	if matches {
		env.SetLabel(target, "app", "on")
	} else {
		env.SetLabel(target, "app", "off")
	}
	var fins []string
	switch gc {
	case 1:
		fins = append(fins, metav1.FinalizerDeleteDependents)
	case 2:
		fins = append(fins, metav1.FinalizerOrphanDependents)
	}
	if hasOur {
		fins = append(fins, verifDCFinalizerName)
	}
	verifDCSetFinalizers(target, fins...)
	if deleting {
		env.MarkDeleting(target)
	}
	w.Srv.Put("things", target)
	// an attachment made earlier that the hook no longer wants
	b := verifDCApplied(env.ConfigMap("ns", "b", "", "vb"), target, "puid", verifDCName, "ub")
	w.Srv.Put("configmaps", b)

	answer := &v1.DecoratorHookResponse{
		Attachments: []*unstructured.Unstructured{env.ConfigMap("", "c", "", "x")},
		Finalized:   finalized,
	}
	if addsLabel {
		answer.Labels = map[string]*string{"decorated": verifDCStrPtr("yes")}
	}
	sync := verifDCConstHook(answer)
	fin := verifDCConstHook(answer)
	fin.enabled = finEnabled
	d := verifNewDC(w, verifDCConfig{Rules: verifC10Rule(), FinalizeEnabled: finEnabled, Sync: sync, Finalize: fin, HooksViaService: viaService,
		Attachments: []verifDCAttachment{{Res: env.ConfigMapRes, Method: "InPlace"}}})
	cached := d.SnapshotFromStore()
	fp := verifDCFingerprintOf(cached)

	err := d.syncParentObject(cached[0])

	rt.Assert(err == nil, "sync/error")
	fp.AssertUnchanged("sync/cached-target-mutated")
	log := w.Srv.Log
	wr := w.Srv.Writes()
	rt.Observe("writes", len(wr))
	rt.Observe("hook-calls", len(sync.Calls)+len(fin.Calls))

	// classify the requests
	firstAdd, firstRemove, firstCreate, firstAttachmentWrite := -1, -1, -1, -1
	adds, removes, attachmentWrites := 0, 0, 0
	for i, r := range log {
		if !r.IsWrite() {
			continue
		}
		if verifC10IsTarget(r) {
			rt.Assert(r.IsObjectWrite(), "sync/target-write-neither-update-nor-merge-patch")
			if !r.IsObjectWrite() || r.Sub != "" {
				continue
			}
			had := verifDCHasFinalizer(r.Pre, verifDCFinalizerName)
			has := verifDCHasFinalizer(r.Body, verifDCFinalizerName)
			if r.Pre == nil {
				continue // the target is gone already (a swallowed NotFound)
			}
			rt.Assert(r.Accepted, "sync/target-update-rejected")
			if !had && has {
				adds++
				if firstAdd < 0 {
					firstAdd = i
				}
			}
			if had && !has {
				removes++
				if firstRemove < 0 {
					firstRemove = i
				}
			}
			// GC finalizers are none of our business
			rt.Assert(verifDCHasFinalizer(r.Pre, metav1.FinalizerDeleteDependents) == verifDCHasFinalizer(r.Body, metav1.FinalizerDeleteDependents), "sync/gc-finalizer-touched")
			rt.Assert(verifDCHasFinalizer(r.Pre, metav1.FinalizerOrphanDependents) == verifDCHasFinalizer(r.Body, metav1.FinalizerOrphanDependents), "sync/gc-finalizer-touched")
			continue
		}
		rt.Assert(r.Resource == "configmaps" && r.NS == "ns", "sync/write-to-unexpected-object")
		attachmentWrites++
		if firstAttachmentWrite < 0 {
			firstAttachmentWrite = i
		}
		if r.Verb == "create" && firstCreate < 0 {
			firstCreate = i
		}
	}

	// ---- not ours at all ----
	if !matches && !hasOur {
		rt.Cover("sync/ignored")
		rt.Assert(len(log) == 0, "ignored/request-for-unmatched-target-without-finalizer")
		rt.Assert(len(sync.Calls)+len(fin.Calls) == 0, "ignored/hook-called")
		return
	}

	// ---- finalizer add ----
	wantAdd := finEnabled && !hasOur && !deleting // (matches holds here)
	if deleting {
		rt.Assert(adds == 0, "finalizer/added-to-target-pending-deletion")
	}
	if !finEnabled {
		rt.Assert(adds == 0, "finalizer/added-without-finalize-hook")
	}
	if wantAdd {
		rt.Cover("sync/finalizer-added-first")
		rt.Assert(adds == 1, "finalizer/not-added-exactly-once")
		if firstAdd >= 0 {
			rt.Assert(firstAttachmentWrite < 0 || firstAdd < firstAttachmentWrite, "finalizer/attachment-written-before-finalizer-added")
			rt.Assert(firstCreate < 0 || firstAdd < firstCreate, "finalizer/attachment-created-before-finalizer-added")
			// it is the first write of the sync
			rt.Assert(len(wr) > 0 && wr[0].Seq == log[firstAdd].Seq, "finalizer/add-is-not-the-first-write")
			// and changes nothing else
			ab := log[firstAdd].Body
			rt.Assert(len(ab.GetFinalizers()) == len(fins)+1, "finalizer/add-changed-other-finalizers")
			rt.Assert(ab.GetLabels()["app"] == "on" && len(ab.GetLabels()) == 1, "finalizer/add-changed-labels")
		}
	} else {
		rt.Assert(adds == 0, "finalizer/added-although-not-due")
	}
	hasNow := hasOur
	if wantAdd {
		hasNow = true
	}

	// ---- leftover finalizer without a finalize hook ----
	leftover := !finEnabled && hasOur
	if leftover {
		rt.Cover("sync/leftover-finalizer-removed")
		rt.Assert(removes == 1, "finalizer/leftover-not-removed")
		if firstRemove >= 0 {
			rt.Assert(len(wr) > 0 && wr[0].Seq == log[firstRemove].Seq, "finalizer/leftover-removal-is-not-the-first-write")
		}
		hasNow = false
	}

	// ---- which hook ----
	hookExpected := true
	if leftover && !matches {
		hookExpected = false // nothing ties the target to this controller any more
	}
	wantFinalize := finEnabled && (deleting || !matches)
	if !hookExpected {
		rt.Cover("sync/unmatched-after-leftover-removal")
		rt.Assert(len(sync.Calls)+len(fin.Calls) == 0, "hook/called-for-unmatched-target-without-finalizer")
		rt.Assert(attachmentWrites == 0, "attachments/written-for-unmatched-target-without-finalizer")
		return
	}
	rt.Assert(len(sync.Calls)+len(fin.Calls) == 1, "hook/not-exactly-one-call")
	var call *v1.DecoratorHookRequest
	if wantFinalize {
		rt.Cover("sync/finalize-hook")
		rt.Assert(len(fin.Calls) == 1, "hook/sync-hook-instead-of-finalize-hook")
		if len(fin.Calls) == 1 {
			call = fin.Calls[0]
			rt.Assert(call.Finalizing, "hook/finalize-hook-without-finalizing-true")
		}
	} else {
		rt.Cover("sync/sync-hook")
		rt.Assert(len(sync.Calls) == 1, "hook/finalize-hook-instead-of-sync-hook")
		if len(sync.Calls) == 1 {
			call = sync.Calls[0]
			rt.Assert(!call.Finalizing, "hook/sync-hook-with-finalizing-true")
		}
	}
	if call != nil {
		// the hook sees the target with the finalizer state just established
		rt.Assert(verifDCHasFinalizer(call.Object, verifDCFinalizerName) == hasNow, "hook/target-sent-without-current-finalizer-state")
	}

	// ---- finalizer removal only on finalized ----
	wantRemoveOnFinalized := finalized && hasNow
	if leftover {
		// already counted above; nothing more to remove
		rt.Assert(removes == 1, "finalizer/removed-more-than-once")
	} else if wantRemoveOnFinalized {
		rt.Cover("sync/finalized-finalizer-removed")
		rt.Assert(removes == 1, "finalizer/not-removed-after-finalized-true")
	} else {
		if hasNow {
			rt.Cover("sync/not-finalized-finalizer-kept")
		}
		rt.Assert(removes == 0, "finalizer/removed-without-finalized-true")
	}
	// the stored target
	stored := w.Srv.Peek("things", "ns", "p")
	wantHas := hasNow && !wantRemoveOnFinalized
	if stored != nil {
		rt.Assert(verifDCHasFinalizer(stored, verifDCFinalizerName) == wantHas, "finalizer/stored-target-finalizer-state")
	} else {
		// the simulated server completes a pending deletion when the last finalizer goes
		rt.Assert(deleting && gc == 0 && !wantHas, "finalizer/target-vanished")
	}

	// ---- attachments ----
	manage := true
	if deleting {
		if !finEnabled {
			manage = false
		}
		if !hasOur {
			manage = false
		}
		if gc != 0 {
			manage = false
		}
	}
	if !manage {
		rt.Cover("sync/dying-target-attachments-left-alone")
		rt.Assert(attachmentWrites == 0, "attachments/written-for-dying-target-that-must-not-be-finalized")
		rt.Assert(w.Srv.Peek("configmaps", "ns", "b") != nil, "attachments/deleted-for-dying-target-that-must-not-be-finalized")
		rt.Assert(w.Srv.Peek("configmaps", "ns", "c") == nil, "attachments/created-for-dying-target-that-must-not-be-finalized")
	} else {
		if deleting {
			rt.Cover("sync/finalizing-attachments-reconciled")
		} else {
			rt.Cover("sync/live-attachments-reconciled")
		}
		rt.Assert(attachmentWrites == 2, "attachments/not-reconciled-to-the-hook-answer")
		rt.Assert(w.Srv.Peek("configmaps", "ns", "b") == nil, "attachments/undesired-not-deleted")
		c := w.Srv.Peek("configmaps", "ns", "c")
		rt.Assert(c != nil, "attachments/desired-not-created")
		if c != nil {
			ref := metav1.GetControllerOf(c)
			rt.Assert(ref != nil && ref.UID == "puid", "attachments/created-without-controller-reference-to-target")
		}
	}
}

// VerifC10_DecoratorFinalizeOnlyController: a DecoratorController that defines
// hooks.finalize but not hooks.sync (the API type and the CRD schema make
// hooks.sync optional), or an empty hooks object. The sync hook object is then
// exactly what newDecoratorController builds: hooks.NewHook(nil, ...), whose
// IsEnabled() is false and whose Call dereferences a nil executor.
func VerifC10_DecoratorFinalizeOnlyController() {
	w := env.NewWorld()
	realSync, herr := hooks.NewHook(nil, verifDCName, common.DecoratorController, common.SyncHook)
	rt.Assert(herr == nil, "finalize-only/newhook-error")
	rt.Assert(!realSync.IsEnabled(), "finalize-only/nil-hook-enabled")
	finalizeDefined := rt.Bool("finalize-hook-defined")
	target := env.Thing("ns", "p", "puid")
	env.SetLabel(target, "app", "on")
	hasOur := rt.Bool("has-our-finalizer")
	if hasOur {
		verifDCSetFinalizers(target, verifDCFinalizerName)
	}
	deleting := rt.Bool("deleting")
	if deleting {
		env.MarkDeleting(target)
	}
	w.Srv.Put("things", target)
	var fin hooks.Hook
	finStub := verifDCConstHook(&v1.DecoratorHookResponse{Finalized: true})
	if finalizeDefined {
		fin = finStub
	} else {
		var ferr error
		fin, ferr = hooks.NewHook(nil, verifDCName, common.DecoratorController, common.FinalizeHook)
		rt.Assert(ferr == nil, "finalize-only/newhook-error")
	}
	d := verifNewDC(w, verifDCConfig{Rules: verifC10Rule(), FinalizeEnabled: finalizeDefined, Sync: realSync, Finalize: fin})
	cached := d.SnapshotFromStore()

	panicked := false
	var err error
	func() {
		defer func() {
			if r := recover(); r != nil {
				panicked = true
			}
		}()
		err = d.syncParentObject(cached[0])
	}()
	rt.Observe("panicked", panicked)
	if !finalizeDefined {
		// hooks: {} — accepted by newDecoratorController (only hooks == nil is refused)
		rt.Cover("finalize-only/no-hook-at-all")
		rt.Assert(!panicked, "no-hook-at-all/sync-panics-on-nil-sync-hook")
		return
	}
	if deleting {
		rt.Cover("finalize-only/deleting")
		rt.Assert(!panicked, "finalize-only/panic-for-deleting-target")
		rt.Assert(err == nil, "finalize-only/error-for-deleting-target")
		rt.Assert(len(finStub.Calls) == 1, "finalize-only/finalize-hook-not-called")
	} else {
		rt.Cover("finalize-only/live")
		// A live, matching target must be synced without crashing the worker:
		// either nothing is done for it or an error is returned.
		rt.Assert(!panicked, "finalize-only/sync-of-live-target-panics-on-nil-sync-hook")
	}
}

package decorator

// C20 (b)/(c) — hosted decorator controllers follow their DecoratorController
// objects. Same construction as pkg/controller/composite/zz_verif_c20.go.
//
// Real code: newDecoratorController, (*decoratorController).Start / Stop,
// (*Metacontroller).Reconcile / reconcileDecoratorController,
// newDecoratorSelector, makeUpdateStrategyMap, hooks.NewHook ->
// NewWebhookExecutor, customize.NewCustomizeManager / Stop,
// finalizer.NewManager, the real dynamicinformer.SharedInformerFactory, the
// real dynamic Clientset + discovery ResourceMap.
// Stubbed: the client-go shared informer and lister underneath the factory
// (zzverif/informerstub through the test seam), the controller-runtime client
// (harness-owned DecoratorController objects), event recorder.
// Modelled under the executor only (zzverif/models/models_c20.go):
// cache.WaitForNamedCacheSync, wait.Until, the rate limiting work queue.

import (
	"context"
	"errors"
	"reflect"
	"sync"

	"github.com/go-logr/logr"
	apierrors "k8s.io/apimachinery/pkg/api/errors"
	metav1 "k8s.io/apimachinery/pkg/apis/meta/v1"
	"k8s.io/apimachinery/pkg/runtime"
	"k8s.io/apimachinery/pkg/runtime/schema"
	"k8s.io/apimachinery/pkg/types"
	"sigs.k8s.io/controller-runtime/pkg/client"
	"sigs.k8s.io/controller-runtime/pkg/reconcile"

	"metacontroller/pkg/apis/metacontroller/v1alpha1"
	dynamicinformer "metacontroller/pkg/dynamic/informer"
	"metacontroller/pkg/events"
	"metacontroller/pkg/zzverif/env"
	stub "metacontroller/pkg/zzverif/informerstub"
	rt "metacontroller/pkg/zzverif/rt"
)

// ---------------------------------------------------------------------------
// scaffolding
// ---------------------------------------------------------------------------

func verifC20Install() {
	stub.Reset()
	dynamicinformer.VerifNewSharedIndexInformer = stub.NewSharedIndexInformer
	dynamicinformer.VerifNewLister = stub.NewLister
}

// verifC20Recorder counts events per reason (the Start goroutine records
// concurrently in the native run).
type verifC20Recorder struct {
	mu sync.Mutex
	n  map[string]int
}

func (r *verifC20Recorder) add(reason string) {
	r.mu.Lock()
	defer r.mu.Unlock()
	if r.n == nil {
		r.n = map[string]int{}
	}
	r.n[reason]++
}
func (r *verifC20Recorder) Count(reason string) int {
	r.mu.Lock()
	defer r.mu.Unlock()
	return r.n[reason]
}
func (r *verifC20Recorder) Event(object runtime.Object, eventtype, reason, message string) {
	r.add(reason)
}
func (r *verifC20Recorder) Eventf(object runtime.Object, eventtype, reason, messageFmt string, args ...interface{}) {
	r.add(reason)
}
func (r *verifC20Recorder) AnnotatedEventf(object runtime.Object, annotations map[string]string, eventtype, reason, messageFmt string, args ...interface{}) {
	r.add(reason)
}

type verifC20Res struct{ apiVersion, resource string }

func (r verifC20Res) key() string { return r.resource + "." + r.apiVersion }

var (
	verifC20Things     = verifC20Res{"ex.com/v1", "things"}
	verifC20ConfigMaps = verifC20Res{"v1", "configmaps"}
	verifC20Pods       = verifC20Res{"v1", "pods"}
	verifC20Widgets    = verifC20Res{"apps.ex.com/v1", "widgets"}
	// not in discovery
	verifC20Gadgets = verifC20Res{"ex.com/v1", "gadgets"}
	verifC20Gizmos  = verifC20Res{"v1", "gizmos"}
)

func verifC20GoodHook(path string) *v1alpha1.Hook {
	u := "http://hooks.example.com/decorator/" + path
	return &v1alpha1.Hook{Webhook: &v1alpha1.Webhook{URL: &u}}
}

// verifC20BadHook: a webhook with neither url nor service+path.
func verifC20BadHook() *v1alpha1.Hook {
	return &v1alpha1.Hook{Webhook: &v1alpha1.Webhook{}}
}

func verifC20Parent(r verifC20Res) v1alpha1.DecoratorControllerResourceRule {
	return v1alpha1.DecoratorControllerResourceRule{ResourceRule: v1alpha1.ResourceRule{APIVersion: r.apiVersion, Resource: r.resource}}
}

func verifC20Attachment(r verifC20Res, method string) v1alpha1.DecoratorControllerAttachmentRule {
	a := v1alpha1.DecoratorControllerAttachmentRule{ResourceRule: v1alpha1.ResourceRule{APIVersion: r.apiVersion, Resource: r.resource}}
	if method != "" {
		a.UpdateStrategy = &v1alpha1.DecoratorControllerAttachmentUpdateStrategy{Method: v1alpha1.ChildUpdateMethod(method)}
	}
	return a
}

// Defects of a DecoratorController that must make newDecoratorController fail.
const (
	verifC20DefNone = iota
	verifC20DefUnknownParentFirst       // unknown parent resource, 1st of two rules
	verifC20DefUnknownParentSecond      // unknown parent resource, 2nd of two rules
	verifC20DefUnknownAttachmentFirst   // unknown attachment resource, 1st of two rules (no update strategy)
	verifC20DefUnknownAttachmentSecond  // unknown attachment resource, 2nd of two rules (no update strategy)
	verifC20DefUnknownAttachmentStrategy // unknown attachment resource with an update strategy
	verifC20DefNilHooks
	verifC20DefSyncUnusable
	verifC20DefFinalizeUnusable
	verifC20DefCustomizeUnusable
	verifC20DefBadLabelSelector
	verifC20DefBadAnnotationSelector
	verifC20NumDefects
)

func verifC20Inject(dc *v1alpha1.DecoratorController, defect int) {
	switch defect {
	case verifC20DefUnknownParentFirst:
		dc.Spec.Resources = []v1alpha1.DecoratorControllerResourceRule{verifC20Parent(verifC20Gadgets), verifC20Parent(verifC20Things)}
	case verifC20DefUnknownParentSecond:
		dc.Spec.Resources = []v1alpha1.DecoratorControllerResourceRule{verifC20Parent(verifC20Things), verifC20Parent(verifC20Gadgets)}
	case verifC20DefUnknownAttachmentFirst:
		dc.Spec.Attachments = []v1alpha1.DecoratorControllerAttachmentRule{verifC20Attachment(verifC20Gizmos, ""), verifC20Attachment(verifC20ConfigMaps, "")}
	case verifC20DefUnknownAttachmentSecond:
		dc.Spec.Attachments = []v1alpha1.DecoratorControllerAttachmentRule{verifC20Attachment(verifC20ConfigMaps, ""), verifC20Attachment(verifC20Gizmos, "")}
	case verifC20DefUnknownAttachmentStrategy:
		dc.Spec.Attachments = append(dc.Spec.Attachments, verifC20Attachment(verifC20Gizmos, "InPlace"))
	case verifC20DefNilHooks:
		dc.Spec.Hooks = nil
	case verifC20DefSyncUnusable:
		dc.Spec.Hooks.Sync = verifC20BadHook()
	case verifC20DefFinalizeUnusable:
		dc.Spec.Hooks.Finalize = verifC20BadHook()
	case verifC20DefCustomizeUnusable:
		dc.Spec.Hooks.Customize = verifC20BadHook()
	case verifC20DefBadLabelSelector:
		dc.Spec.Resources[0].LabelSelector = &metav1.LabelSelector{MatchExpressions: []metav1.LabelSelectorRequirement{{Key: "tier", Operator: metav1.LabelSelectorOpIn}}}
	case verifC20DefBadAnnotationSelector:
		dc.Spec.Resources[0].AnnotationSelector = &v1alpha1.AnnotationSelector{MatchExpressions: []metav1.LabelSelectorRequirement{{Key: "tier", Operator: metav1.LabelSelectorOpNotIn}}}
	}
}

// verifC20Expected: one subscription per distinct parent resource and one per
// distinct attachment resource.
func verifC20Expected(dc *v1alpha1.DecoratorController) map[string]int {
	exp := map[string]int{}
	seen := map[string]bool{}
	for _, p := range dc.Spec.Resources {
		k := verifC20Res{p.APIVersion, p.Resource}.key()
		if !seen[k] {
			seen[k] = true
			exp[k]++
		}
	}
	seen = map[string]bool{}
	for _, c := range dc.Spec.Attachments {
		k := verifC20Res{c.APIVersion, c.Resource}.key()
		if !seen[k] {
			seen[k] = true
			exp[k]++
		}
	}
	return exp
}

func verifC20SameCounts(got, want map[string]int) bool {
	if len(got) != len(want) {
		return false
	}
	for k, v := range want {
		if got[k] != v {
			return false
		}
	}
	return true
}

func verifC20Sum(m map[string]int) int {
	n := 0
	for _, v := range m {
		n += v
	}
	return n
}

func verifC20Merge(ms ...map[string]int) map[string]int {
	out := map[string]int{}
	for _, m := range ms {
		for k, v := range m {
			out[k] += v
		}
	}
	return out
}

// verifC20Stubs waits (natively) until every stub informer created so far was
// handed to `go informer.Run(stopCh)` and returns (live, stopped, consistent):
// consistent = a stub is live iff the factory still holds it.
func verifC20Stubs(f *dynamicinformer.SharedInformerFactory) (live, stopped int, consistent bool) {
	stubs := stub.Stubs()
	stub.Settle(len(stubs))
	consistent = true
	for _, s := range stubs {
		if s.RunCount() != 1 || s.HandlerCount() != 1 {
			consistent = false
		}
		if s.Stopped() {
			stopped++
			if f.VerifHolds(s) {
				consistent = false
			}
		} else {
			live++
			if !f.VerifHolds(s) {
				consistent = false
			}
		}
	}
	return live, stopped, consistent
}

// verifC20Handlers: (subscriptions of c, handlers registered through them,
// every subscription has exactly `each` handlers).
func verifC20Handlers(c *decoratorController, each int) (subs int, handlers int, ok bool) {
	ok = true
	for _, pi := range c.parentInformers {
		n := pi.VerifHandlers()
		subs++
		handlers += n
		if n != each {
			ok = false
		}
	}
	for _, ci := range c.childInformers {
		n := ci.VerifHandlers()
		subs++
		handlers += n
		if n != each {
			ok = false
		}
	}
	return subs, handlers, ok
}

// ---------------------------------------------------------------------------
// (b) constructor failure cleanup
// ---------------------------------------------------------------------------

// VerifC20_DecoratorConstructorCleanup — newDecoratorController over the real shared
// informer factory with a symbolically chosen configuration shape and defect.
func VerifC20_DecoratorConstructorCleanup() {
	verifC20Install()
	w := env.NewWorld()
	f := dynamicinformer.NewSharedInformerFactory(w.Dyn, 0)

	// ---- all inputs first ----
	defect := rt.Choice("defect", verifC20NumDefects)
	parents := rt.Choice("parents", 3)
	attachments := rt.Choice("attachments", 5)
	strategy := rt.Bool("attachment-update-strategy")
	hasFinalize := rt.Bool("has-finalize-hook")
	hasCustomize := rt.Bool("has-customize-hook")
	// quick tier: selectors and resync period are exercised by the reconcile
	// harness (configuration 2) only
	hasSelector, hasResync := false, false
	if rt.Tier() == 1 {
		hasSelector = rt.Bool("has-selectors")
		hasResync = rt.Bool("has-resync-period")
	}
	// another controller already subscribed to things + configmaps
	bystander := rt.Bool("other-subscriber")

	dc := &v1alpha1.DecoratorController{}
	dc.Name = "dc"
	dc.Spec.Resources = []v1alpha1.DecoratorControllerResourceRule{verifC20Parent(verifC20Things)}
	switch parents {
	case 1:
		dc.Spec.Resources = append(dc.Spec.Resources, verifC20Parent(verifC20Widgets))
	case 2:
		// the same decorated resource listed twice
		dc.Spec.Resources = append(dc.Spec.Resources, verifC20Parent(verifC20Things))
	}
	method := ""
	if strategy {
		method = "InPlace"
	}
	switch attachments {
	case 1:
		dc.Spec.Attachments = append(dc.Spec.Attachments, verifC20Attachment(verifC20ConfigMaps, method))
	case 2:
		dc.Spec.Attachments = append(dc.Spec.Attachments, verifC20Attachment(verifC20ConfigMaps, method), verifC20Attachment(verifC20Pods, ""))
	case 3:
		// an attachment rule for a decorated resource
		dc.Spec.Attachments = append(dc.Spec.Attachments, verifC20Attachment(verifC20Things, method), verifC20Attachment(verifC20ConfigMaps, ""))
	case 4:
		// the same attachment resource listed twice
		dc.Spec.Attachments = append(dc.Spec.Attachments, verifC20Attachment(verifC20ConfigMaps, method), verifC20Attachment(verifC20ConfigMaps, ""))
	}
	dc.Spec.Hooks = &v1alpha1.DecoratorControllerHooks{Sync: verifC20GoodHook("sync")}
	if hasFinalize {
		dc.Spec.Hooks.Finalize = verifC20GoodHook("finalize")
	}
	if hasCustomize {
		dc.Spec.Hooks.Customize = verifC20GoodHook("customize")
	}
	if hasSelector {
		dc.Spec.Resources[0].LabelSelector = &metav1.LabelSelector{MatchLabels: map[string]string{"app": "x"}}
		dc.Spec.Resources[0].AnnotationSelector = &v1alpha1.AnnotationSelector{MatchAnnotations: map[string]string{"decorate": "yes"}}
	}
	if hasResync {
		s := int32(5)
		dc.Spec.ResyncPeriodSeconds = &s
	}
	verifC20Inject(dc, defect)
	// Two rules for one resource: the controller keeps its subscriptions in maps
	// keyed by resource, so the second subscription replaces the first, which
	// can never be closed again. Checked under its own labels (the API server
	// does not reject such an object).
	dup := ""
	seen := map[string]bool{}
	for _, c := range dc.Spec.Attachments {
		k := verifC20Res{c.APIVersion, c.Resource}.key()
		if seen[k] {
			dup = "duplicate-attachment-rule"
		}
		seen[k] = true
	}
	seen = map[string]bool{}
	for _, p := range dc.Spec.Resources {
		k := verifC20Res{p.APIVersion, p.Resource}.key()
		if seen[k] {
			dup = "duplicate-parent-rule"
		}
		seen[k] = true
	}

	base := map[string]int{}
	var by []*dynamicinformer.ResourceInformer
	if bystander {
		for _, r := range []verifC20Res{verifC20Things, verifC20ConfigMaps} {
			ri, err := f.Resource(r.apiVersion, r.resource)
			if err != nil || ri == nil {
				rt.Assert(false, "setup/other-subscriber")
				return
			}
			by = append(by, ri)
			base[r.key()] = 1
		}
	}

	c, err := newDecoratorController(w.RM, w.Dyn, f, &verifC20Recorder{}, dc, 1, logr.Logger{})

	rt.Observe("error", err != nil)
	rt.Observe("subscriptions", verifC20Sum(f.VerifRefCounts()))
	rt.Observe("running", f.VerifRunning())

	if defect != verifC20DefNone {
		rt.Cover("constructor-fails")
		rt.Assert(err != nil, "defect/no-error")
		rt.Assert(c == nil, "defect/controller-returned")
		if dup != "" {
			rt.Cover("duplicate-rule")
			rt.Assert(verifC20SameCounts(f.VerifRefCounts(), base), dup+"/subscription-left-open-after-failed-construction")
			return
		}
		rt.Assert(verifC20SameCounts(f.VerifRefCounts(), base), "defect/subscriptions-left-open")
		rt.Assert(f.VerifRunning() == len(base), "defect/shared-informers-left-running")
		live, stopped, consistent := verifC20Stubs(f)
		rt.Assert(live == len(base), "defect/informers-not-stopped")
		rt.Assert(consistent, "defect/informer-stop-state-inconsistent")
		if stopped > 0 {
			rt.Cover("constructor-fails-after-opening-informers")
		}
		if bystander {
			rt.Assert(!by[0].VerifUnderlying().IsStopped(), "defect/other-subscriber-informer-stopped")
			rt.Assert(!by[1].VerifUnderlying().IsStopped(), "defect/other-subscriber-informer-stopped")
		}
		return
	}

	rt.Cover("constructor-succeeds")
	rt.Assert(err == nil, "valid/error")
	rt.Assert(c != nil, "valid/no-controller")
	if err != nil || c == nil {
		return
	}
	if dup != "" {
		rt.Cover("duplicate-rule")
		c.Start()
		c.Stop()
		rt.Assert(verifC20SameCounts(f.VerifRefCounts(), base), dup+"/subscription-left-open-after-stop")
		return
	}
	exp := verifC20Expected(dc)
	total := verifC20Merge(base, exp)
	rt.Assert(verifC20SameCounts(f.VerifRefCounts(), total), "valid/not-one-subscription-per-resource")
	rt.Assert(f.VerifRunning() == len(total), "valid/shared-informer-count")
	live, stopped, consistent := verifC20Stubs(f)
	rt.Assert(live == len(total), "valid/live-informers")
	rt.Assert(stopped == 0, "valid/informer-stopped")
	rt.Assert(consistent, "valid/informer-state-inconsistent")
	subs, handlers, _ := verifC20Handlers(c, 0)
	rt.Assert(subs == verifC20Sum(exp), "valid/subscription-objects")
	rt.Assert(handlers == 0, "valid/handlers-before-start")
	rt.Assert(c.dc == dc, "valid/controller-object")
	rt.Assert(len(c.parentKinds) == len(dc.Spec.Resources), "valid/parent-kinds")
	rt.Assert(c.customize != nil, "valid/no-customize-manager")
	rt.Assert(c.syncHook != nil && c.syncHook.IsEnabled(), "valid/sync-hook-disabled")
	rt.Assert(c.finalizeHook != nil && c.finalizeHook.IsEnabled() == hasFinalize, "valid/finalize-hook")
	rt.Assert(c.customize.IsEnabled() == hasCustomize, "valid/customize-hook")

	// one Start / Stop round: handlers come and go, subscriptions are released
	c.Start()
	_, handlers, each := verifC20Handlers(c, 1)
	rt.Assert(each, "start/not-one-handler-per-subscription")
	rt.Assert(handlers == verifC20Sum(exp), "start/handler-count")
	rt.Assert(verifC20SameCounts(f.VerifRefCounts(), total), "start/subscriptions-changed")
	rt.Assert(!stub.Closed(c.stopCh), "start/stop-channel-closed")
	c.Stop()
	rt.Cover("start-stop")
	rt.Assert(stub.Closed(c.stopCh), "stop/stop-channel-open")
	rt.Assert(stub.Closed(c.doneCh), "stop/done-channel-open")
	_, handlers, _ = verifC20Handlers(c, 0)
	rt.Assert(handlers == 0, "stop/handlers-left")
	rt.Assert(verifC20SameCounts(f.VerifRefCounts(), base), "stop/subscriptions-left-open")
	live, _, consistent = verifC20Stubs(f)
	rt.Assert(live == len(base), "stop/informers-not-stopped")
	rt.Assert(consistent, "stop/informer-stop-state-inconsistent")
	rt.Observe("subscriptions-after-stop", verifC20Sum(f.VerifRefCounts()))
}

// ---------------------------------------------------------------------------
// (c) reconcile decision logic over event sequences
// ---------------------------------------------------------------------------

// verifC20Client is the controller-runtime client of the Metacontroller: it
// serves harness-owned DecoratorControllers. Every other method is promoted
// from the nil embedded interface (panics if called).
type verifC20Client struct {
	client.Client
	dcs map[string]*v1alpha1.DecoratorController
	// failNext: the next Get fails with an internal server error (once)
	failNext bool
}

func (c *verifC20Client) Get(ctx context.Context, key client.ObjectKey, obj client.Object, opts ...client.GetOption) error {
	switch o := obj.(type) {
	case *v1alpha1.DecoratorController:
		if c.failNext {
			c.failNext = false
			return apierrors.NewInternalError(errors.New("injected"))
		}
		dc := c.dcs[key.Name]
		if dc == nil {
			return apierrors.NewNotFound(schema.GroupResource{Group: "metacontroller.k8s.io", Resource: "decoratorcontrollers"}, key.Name)
		}
		dc.DeepCopyInto(o)
		return nil
	}
	panic("verifC20Client.Get: unexpected object type")
}

// verifC20Valid builds one of the valid configurations.
//
//	0: things + configmaps (InPlace), sync hook
//	1: like 0 but configmaps Recreate              (same resources, other spec)
//	2: things, widgets + configmaps (InPlace), pods; sync/finalize/customize
//	   hooks, label + annotation selector, resync  (added parent and attachment)
//	3: widgets + pods, sync hook                   (disjoint resources)
func verifC20Valid(name string, variant int) *v1alpha1.DecoratorController {
	dc := &v1alpha1.DecoratorController{}
	dc.Name = name
	dc.Spec.Resources = []v1alpha1.DecoratorControllerResourceRule{verifC20Parent(verifC20Things)}
	dc.Spec.Hooks = &v1alpha1.DecoratorControllerHooks{Sync: verifC20GoodHook("sync")}
	switch variant {
	case 0:
		dc.Spec.Attachments = []v1alpha1.DecoratorControllerAttachmentRule{verifC20Attachment(verifC20ConfigMaps, "InPlace")}
		// an out-of-range resync period (the CRD has no minimum): clamped when used
		z := int32(0)
		dc.Spec.ResyncPeriodSeconds = &z
	case 1:
		// variant 2 NARROWED: its first resource rule, its first attachment rule,
		// no customize hook - every field is either equal to variant 2's or unset,
		// every list a prefix of variant 2's (an edit that only takes things away
		// is a spec change like any other)
		dc.Spec.Attachments = []v1alpha1.DecoratorControllerAttachmentRule{verifC20Attachment(verifC20ConfigMaps, "InPlace")}
		dc.Spec.Hooks.Finalize = verifC20GoodHook("finalize")
		dc.Spec.Resources[0].LabelSelector = &metav1.LabelSelector{MatchLabels: map[string]string{"app": "x"}}
		s := int32(5)
		dc.Spec.ResyncPeriodSeconds = &s
	case 4:
		dc.Spec.Attachments = []v1alpha1.DecoratorControllerAttachmentRule{verifC20Attachment(verifC20ConfigMaps, "Recreate")}
	case 2:
		dc.Spec.Resources = append(dc.Spec.Resources, verifC20Parent(verifC20Widgets))
		dc.Spec.Attachments = []v1alpha1.DecoratorControllerAttachmentRule{verifC20Attachment(verifC20ConfigMaps, "InPlace"), verifC20Attachment(verifC20Pods, "")}
		dc.Spec.Hooks.Finalize = verifC20GoodHook("finalize")
		dc.Spec.Hooks.Customize = verifC20GoodHook("customize")
		dc.Spec.Resources[0].LabelSelector = &metav1.LabelSelector{MatchLabels: map[string]string{"app": "x"}}
		dc.Spec.Resources[1].AnnotationSelector = &v1alpha1.AnnotationSelector{MatchAnnotations: map[string]string{"decorate": "yes"}}
		s := int32(5)
		dc.Spec.ResyncPeriodSeconds = &s
	case 3:
		dc.Spec.Resources = []v1alpha1.DecoratorControllerResourceRule{verifC20Parent(verifC20Widgets)}
		dc.Spec.Attachments = []v1alpha1.DecoratorControllerAttachmentRule{verifC20Attachment(verifC20Pods, "")}
		neg := int32(-3)
		dc.Spec.ResyncPeriodSeconds = &neg
	}
	return dc
}

const verifC20NumValid = 5

// Event kinds of the reconcile harness.
const (
	verifC20EvSet      = iota // create / update to one of the valid specs
	verifC20EvNoop            // metadata-only update (or a repeated event); spec untouched
	verifC20EvInvalid         // update to a spec with one of the defects
	verifC20EvDelete          // the object is gone
	verifC20EvAPIError        // reading the DecoratorController fails (not a NotFound); nothing else changes
	verifC20NumEvents
)

// verifC20Ghost is the harness' own account of one controller name.
type verifC20Ghost struct {
	stored  int // -1 absent, 0..3 valid variant, 100+d spec with defect d
	running int // -1 nothing running, else the valid variant
	c       *decoratorController
	retired []*decoratorController
}

// VerifC20_DecoratorReconcile — the real decorator Metacontroller.Reconcile driven
// through a symbolic sequence of events over one controller name ("dc"),
// optionally next to a second, undisturbed controller ("other") that shares
// resources.
func VerifC20_DecoratorReconcile() {
	verifC20Install()
	w := env.NewWorld()
	f := dynamicinformer.NewSharedInformerFactory(w.Dyn, 0)
	rec := &verifC20Recorder{}
	cl := &verifC20Client{dcs: map[string]*v1alpha1.DecoratorController{}}
	mc := &Metacontroller{
		k8sClient:            cl,
		resources:            w.RM,
		dynClient:            w.Dyn,
		dynInformers:         f,
		eventRecorder:        rec,
		decoratorControllers: map[string]*decoratorController{},
		numWorkers:           1,
	}
	ctx := context.Background()
	req := reconcile.Request{NamespacedName: types.NamespacedName{Name: "dc"}}

	// quick: 3 events over the small alphabet (3 valid specs, 3 defects).
	// thorough: either 4 events over the small alphabet or 3 events over the
	// full one (4 valid specs, every defect, every CRD defect).
	steps := 3
	defects := []int{verifC20DefUnknownAttachmentSecond, verifC20DefNilHooks, verifC20DefCustomizeUnusable}
	valid := 3

	// ---- all inputs first ----
	if rt.Tier() == 1 {
		if rt.Bool("four-events") {
			steps = 4
		} else {
			valid = verifC20NumValid
			defects = nil
			for d := 1; d < verifC20NumDefects; d++ {
				defects = append(defects, d)
			}
		}
	}
	bystander := rt.Bool("second-controller")
	kinds := make([]int, steps)
	args := make([]int, steps)
	for i := 0; i < steps; i++ {
		kinds[i] = rt.Choice("event", verifC20NumEvents)
		switch kinds[i] {
		case verifC20EvSet:
			args[i] = rt.Choice("spec", valid)
		case verifC20EvInvalid:
			args[i] = defects[rt.Choice("defect", len(defects))]
		}
	}

	// the second controller: started through Reconcile, never touched again
	var other *decoratorController
	otherExp := map[string]int{}
	starts, stops, createErrors, syncErrors := 0, 0, 0, 0
	if bystander {
		cl.dcs["other"] = verifC20Valid("other", 0)
		_, err := mc.Reconcile(ctx, reconcile.Request{NamespacedName: types.NamespacedName{Name: "other"}})
		other = mc.decoratorControllers["other"]
		if err != nil || other == nil {
			rt.Assert(false, "setup/second-controller")
			return
		}
		otherExp = verifC20Expected(cl.dcs["other"])
		starts++
	}
	nOther := len(mc.decoratorControllers)

	g := &verifC20Ghost{stored: -1, running: -1}
	gen := 0
	for i := 0; i < steps; i++ {
		// ---- the event ----
		switch kinds[i] {
		case verifC20EvSet:
			g.stored = args[i]
			cl.dcs["dc"] = verifC20Valid("dc", args[i])
		case verifC20EvNoop:
			if dc := cl.dcs["dc"]; dc != nil {
				gen++
				dc.Annotations = map[string]string{"touched": string(rune('a' + gen))}
				dc.ResourceVersion = string(rune('0' + gen))
			}
		case verifC20EvInvalid:
			g.stored = 100 + args[i]
			dc := verifC20Valid("dc", 0)
			verifC20Inject(dc, args[i])
			cl.dcs["dc"] = dc
		case verifC20EvDelete:
			g.stored = -1
			delete(cl.dcs, "dc")
		case verifC20EvAPIError:
			cl.failNext = true
		}

		// ---- what the property says must happen ----
		before := g.c
		wantErr := false
		kept := false
		switch {
		case kinds[i] == verifC20EvAPIError:
			rt.Cover("api-error")
			wantErr = true
			kept = true
			syncErrors++
		case g.stored == -1:
			rt.Cover("reconcile-deleted")
			if g.running >= 0 {
				rt.Cover("delete-stops-instance")
				stops++
				g.retired = append(g.retired, g.c)
			}
			g.running, g.c = -1, nil
		case g.stored == g.running:
			rt.Cover("noop-update")
			kept = true
		default:
			if g.running >= 0 {
				rt.Cover("spec-change-restarts")
				stops++
				g.retired = append(g.retired, g.c)
			}
			g.running, g.c = -1, nil
			if g.stored < 100 {
				rt.Cover("start")
				starts++
				g.running = g.stored
			} else {
				rt.Cover("invalid-spec")
				createErrors++
				wantErr = true
			}
		}

		_, err := mc.Reconcile(ctx, req)

		// ---- checks ----
		rt.Observe("error", err != nil)
		rt.Observe("controllers", len(mc.decoratorControllers))
		rt.Observe("subscriptions", verifC20Sum(f.VerifRefCounts()))
		rt.Assert((err != nil) == wantErr, "reconcile/error-iff-cannot-start")

		cur := mc.decoratorControllers["dc"]
		exp := map[string]int{}
		if g.running >= 0 {
			rt.Assert(len(mc.decoratorControllers) == nOther+1, "registry/not-exactly-one-instance")
			rt.Assert(cur != nil, "registry/instance-missing")
			if cur == nil {
				return
			}
			want := verifC20Valid("dc", g.running)
			exp = verifC20Expected(want)
			rt.Assert(reflect.DeepEqual(cur.dc.Spec, want.Spec), "registry/instance-has-stale-spec")
			if kept {
				rt.Assert(cur == before, "noop/instance-restarted")
			} else {
				g.c = cur
				rt.Assert(cur != before, "restart/instance-not-replaced")
				for _, old := range g.retired {
					rt.Assert(cur != old, "restart/stopped-instance-registered-again")
				}
			}
			rt.Assert(!stub.Closed(cur.stopCh), "running/stop-channel-closed")
			_, handlers, each := verifC20Handlers(cur, 1)
			rt.Assert(each, "running/not-one-handler-per-subscription")
			rt.Assert(handlers == verifC20Sum(exp), "running/handler-count")
		} else {
			rt.Assert(len(mc.decoratorControllers) == nOther, "registry/instance-left-registered")
			rt.Assert(cur == nil, "registry/instance-left-registered")
		}

		// subscriptions: exactly the resources of what is running — no leak, no
		// double count
		total := verifC20Merge(otherExp, exp)
		rt.Assert(verifC20SameCounts(f.VerifRefCounts(), total), "subscriptions/not-those-of-the-running-config")
		rt.Assert(f.VerifRunning() == len(total), "subscriptions/shared-informer-count")
		live, _, consistent := verifC20Stubs(f)
		rt.Assert(live == len(total), "informers/live-count")
		rt.Assert(consistent, "informers/stop-state-inconsistent")
		// handlers held by the shared informers = those of the running instances
		for _, r := range []verifC20Res{verifC20Things, verifC20ConfigMaps, verifC20Pods, verifC20Widgets} {
			wr, hs := f.VerifSubscribers(r.apiVersion, r.resource)
			if n := total[r.key()]; n == 0 {
				rt.Assert(wr == -1, "handlers/informer-for-unused-resource")
			} else {
				rt.Assert(wr == n, "handlers/subscriber-count")
				rt.Assert(hs == n, "handlers/handler-count")
			}
		}
		// stopped instances: stop channel closed, goroutine finished, no handler
		// left anywhere
		for _, old := range g.retired {
			rt.Assert(stub.Closed(old.stopCh), "stopped/stop-channel-open")
			rt.Assert(stub.Closed(old.doneCh), "stopped/done-channel-open")
			_, handlers, _ := verifC20Handlers(old, 0)
			rt.Assert(handlers == 0, "stopped/handlers-left")
		}
		// the second controller is never disturbed
		if bystander {
			rt.Assert(mc.decoratorControllers["other"] == other, "other-controller/replaced")
			rt.Assert(!stub.Closed(other.stopCh), "other-controller/stopped")
			_, handlers, each := verifC20Handlers(other, 1)
			rt.Assert(each, "other-controller/handlers")
			rt.Assert(handlers == verifC20Sum(otherExp), "other-controller/handlers")
		}
		// events: one Started per start, one Stopped per stop, one CreateError
		// per failed construction, one SyncError per failed read
		rt.Assert(rec.Count(events.ReasonStarted) == starts, "events/started")
		rt.Assert(rec.Count(events.ReasonStopped) == stops, "events/stopped")
		rt.Assert(rec.Count(events.ReasonCreateError) == createErrors, "events/create-error")
		rt.Assert(rec.Count(events.ReasonSyncError) == syncErrors, "events/sync-error")
	}
	rt.Observe("starts", starts)
	rt.Observe("stops", stops)

	// natively: stop what is still running so that no goroutine outlives the case
	for _, c := range mc.decoratorControllers {
		c.Stop()
	}
	rt.Assert(len(f.VerifRefCounts()) == 0, "teardown/subscriptions-left")
}

package decorator

// Scaffolding for the decorator event-handler harnesses (C14, C12 queue-key
// lemma): a real *decoratorController assembled by hand — real
// decoratorSelector, real finalizer manager, real discovery ResourceMap and
// dynamic Clientset over the simulated API server — whose informers are
// snapshot listers and whose work queue is the recording env.Queue.
// (The sync-path harnesses of C16 have their own constructor in
// zz_verif_support_c16.go; every name here is prefixed verifC14.)

import (
	"k8s.io/apimachinery/pkg/apis/meta/v1/unstructured"
	"k8s.io/apimachinery/pkg/runtime/schema"

	"metacontroller/pkg/apis/metacontroller/v1alpha1"
	"metacontroller/pkg/controller/common"
	"metacontroller/pkg/controller/common/api"
	"metacontroller/pkg/controller/common/customize"
	"metacontroller/pkg/controller/common/finalizer"
	dynamicdiscovery "metacontroller/pkg/dynamic/discovery"
	dynamicinformer "metacontroller/pkg/dynamic/informer"
	"metacontroller/pkg/zzverif/env"
)

const verifC14FinalizerName = "metacontroller.io/decoratorcontroller-dc"

// verifC14NoHook is a disabled hook: the event handlers never call hooks.
type verifC14NoHook struct{ Calls int }

func (h *verifC14NoHook) IsEnabled() bool { return false }
func (h *verifC14NoHook) Call(request api.WebhookRequest, response interface{}) error {
	h.Calls++
	return nil
}

type verifC14DCConfig struct {
	// Resources are the decorated (parent) resource rules, in order.
	Resources []v1alpha1.DecoratorControllerResourceRule
	// Attachments are the child resources.
	Attachments     []*dynamicdiscovery.APIResource
	FinalizeEnabled bool
}

type verifC14DC struct {
	*decoratorController
	W     *env.World
	Queue *env.Queue
	Cfg   verifC14DCConfig
}

func verifC14Rule(res *dynamicdiscovery.APIResource) v1alpha1.DecoratorControllerResourceRule {
	return v1alpha1.DecoratorControllerResourceRule{
		ResourceRule: v1alpha1.ResourceRule{APIVersion: res.APIVersion, Resource: res.Name},
	}
}

func verifC14GVR(apiVersion, resource string) schema.GroupVersionResource {
	gv, _ := schema.ParseGroupVersion(apiVersion)
	return gv.WithResource(resource)
}

func verifC14NewDC(w *env.World, cfg verifC14DCConfig) *verifC14DC {
	dc := &v1alpha1.DecoratorController{}
	dc.Name = "dc"
	dc.Spec.Resources = cfg.Resources
	for _, a := range cfg.Attachments {
		dc.Spec.Attachments = append(dc.Spec.Attachments, v1alpha1.DecoratorControllerAttachmentRule{
			ResourceRule: v1alpha1.ResourceRule{APIVersion: a.APIVersion, Resource: a.Name},
		})
	}
	dc.Spec.Hooks = &v1alpha1.DecoratorControllerHooks{}
	sel, err := newDecoratorSelector(w.RM, dc)
	if err != nil {
		panic(err)
	}
	strat, err := makeUpdateStrategyMap(w.RM, dc)
	if err != nil {
		panic(err)
	}
	q := &env.Queue{}
	c := &decoratorController{
		dc:              dc,
		resources:       w.RM,
		parentKinds:     make(common.GroupKindMap),
		parentSelector:  sel,
		dynClient:       w.Dyn,
		queue:           q,
		updateStrategy:  strat,
		parentInformers: make(common.InformerMap),
		childInformers:  make(common.InformerMap),
		eventRecorder:   &env.Recorder{},
		finalizer:       finalizer.NewManager(verifC14FinalizerName, cfg.FinalizeEnabled),
		customize:       &customize.Manager{},
		syncHook:        &verifC14NoHook{},
		finalizeHook:    &verifC14NoHook{},
	}
	// as newDecoratorController does: parent kinds from discovery
	for _, r := range dc.Spec.Resources {
		res := w.RM.Get(r.APIVersion, r.Resource)
		if res == nil {
			panic("verifC14NewDC: unknown parent resource " + r.Resource)
		}
		c.parentKinds.Set(schema.GroupKind{Group: res.Group, Kind: res.Kind}, res)
	}
	d := &verifC14DC{decoratorController: c, W: w, Queue: q, Cfg: cfg}
	d.Snapshot(nil, nil)
	return d
}

// Snapshot points every informer at the given cache contents, keyed by
// resource name; the objects are shared with the caller (they play the role
// of the shared informer cache).
func (d *verifC14DC) Snapshot(parents, children map[string][]*unstructured.Unstructured) {
	for _, r := range d.dc.Spec.Resources {
		d.parentInformers.Set(verifC14GVR(r.APIVersion, r.Resource), dynamicinformer.VerifNewResourceInformer(env.NewLister(parents[r.Resource]...)))
	}
	for _, a := range d.Cfg.Attachments {
		d.childInformers.Set(verifC14GVR(a.APIVersion, a.Name), dynamicinformer.VerifNewResourceInformer(env.NewLister(children[a.Name]...)))
	}
}

package decorator

// C14 (related-object clause, decorator side) — "any change to an object
// selected by its customize rules causes that parent to be queued", checked on
// a controller that comes out of the REAL constructor: newDecoratorController
// builds the customize Manager and hands it the map of parent informers, the
// related informer is created lazily by the first GetRelatedObjects and its
// handlers are the Manager's. The event is then delivered through the shared
// informer's handler chain (real sharedEventHandler fan-out), and the parent's
// key has to be in the controller's queue. A wiring slip between the
// constructor and the Manager (the Manager looking at another map than the
// controller) is invisible to harnesses that build the Manager by hand.

import (
	metav1 "k8s.io/apimachinery/pkg/apis/meta/v1"

	"metacontroller/pkg/apis/metacontroller/v1alpha1"
	"metacontroller/pkg/controller/common/customize"
	"metacontroller/pkg/zzverif/env"
	stub "metacontroller/pkg/zzverif/informerstub"
	rt "metacontroller/pkg/zzverif/rt"
)

func VerifC14_DecoratorRelatedEvent() {
	stub.Reset()
	w := env.NewWorld()
	cluster := rt.Bool("parent-cluster-scoped")
	res := verifC14ParentRes(cluster)
	pns := "ns"
	if cluster {
		pns = ""
	}
	parent := verifDCTarget(res, pns, "p", "puid")
	w.Srv.Put(res.Name, parent)
	byLabels := rt.Bool("rule-selects-by-labels")
	rule := &v1alpha1.RelatedResourceRule{ResourceRule: v1alpha1.ResourceRule{APIVersion: "v1", Resource: "configmaps"}}
	if byLabels {
		rule.LabelSelector = &metav1.LabelSelector{MatchLabels: map[string]string{"role": "settings"}}
	} else {
		rule.Names = []string{"settings"}
		rule.Namespace = "ns"
	}
	hook := &customize.VerifHook{Rules: []*v1alpha1.RelatedResourceRule{rule}}
	dc := verifNewDC(w, verifDCConfig{Rules: []verifDCRule{{Res: res}}, Customize: hook})
	// the parent is in the informer cache (both the snapshot lister of the harness
	// and the shared informer the constructor subscribed to)
	parents := dc.SnapshotFromStore()
	for _, s := range stub.Stubs() {
		s.CompleteList(parent)
	}
	n0 := len(stub.Stubs())

	// the first sync asks for the related objects: the related informer appears
	_, err := dc.customize.GetRelatedObjects(parents[0])
	rt.Assert(err == nil, "related-event/get-related-objects-error")
	stubs := stub.Stubs()
	rt.Assert(len(stubs) == n0+1, "related-event/related-informer-not-created")
	if err != nil || len(stubs) != n0+1 {
		return
	}
	rel := stubs[n0]
	rt.Assert(rel.HandlerCount() == 1, "related-event/no-handler-on-the-related-informer")
	if rel.HandlerCount() != 1 {
		return
	}
	rt.Assert(dc.Queue.Len() == 0, "related-event/enqueued-before-any-event")

	cm := env.ConfigMap("ns", "settings", "cmuid", "v1")
	env.SetLabel(cm, "role", "settings")
	// the rule selects it for both parent scopes (the names rule carries the namespace)
	h := rel.Handler(0)
	switch rt.Choice("event", 3) {
	case 0:
		rt.Cover("related-event/add")
		h.OnAdd(cm, false)
	case 1:
		rt.Cover("related-event/update")
		cur := cm.DeepCopy()
		cur.SetResourceVersion("8")
		cur.Object["data"] = map[string]interface{}{"k": "v2"}
		h.OnUpdate(cm, cur)
	default:
		rt.Cover("related-event/delete")
		h.OnDelete(cm)
	}
	rt.Observe("queued", dc.Queue.Len())
	rt.Assert(dc.Queue.Len() >= 1, "related-event/selected-object-changed-parent-not-queued")
	want := verifC14Key(res.APIVersion, res.Kind, pns, "p")
	found := false
	for _, it := range dc.Queue.Items {
		if s, ok := it.(string); ok && s == want {
			found = true
		}
	}
	rt.Assert(found, "related-event/queue-holds-another-key-than-the-parents")
}

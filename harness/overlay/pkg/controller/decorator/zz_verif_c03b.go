package decorator

// C03 (decorator, controller start-up) — "the attachments map sent to a hook
// contains precisely the objects ... that the parent controls": a decorator
// that is started (process restart, controller created or changed) while its
// targets already own attachments must not let a worker sync a target before
// the ATTACHMENT caches have received their initial LIST - the hook would be
// told the target has no attachments. Start() is the real one (handlers,
// WaitForNamedCacheSync over the informers the real constructor registered,
// workers); the attachment informer's first LIST is held back by the harness.

import (
	"k8s.io/apimachinery/pkg/apis/meta/v1/unstructured"

	v1 "metacontroller/pkg/controller/decorator/api/v1"
	"metacontroller/pkg/zzverif/env"
	stub "metacontroller/pkg/zzverif/informerstub"
	rt "metacontroller/pkg/zzverif/rt"
)

func VerifC03_DecoratorWaitsForAttachmentCache() {
	stub.Reset()
	w := env.NewWorld()
	target := env.Thing("ns", "p", "puid")
	w.Srv.Put("things", target)
	att := verifDCApplied(env.ConfigMap("ns", "c", "", "v"), target, "puid", verifDCName, "uc")
	w.Srv.Put("configmaps", att)
	// the hook wants what is there: a sync that sees the attachment writes nothing
	hook := verifDCConstHook(&v1.DecoratorHookResponse{Attachments: []*unstructured.Unstructured{env.ConfigMap("", "c", "", "v")}})
	twoKinds := rt.Bool("a-second-attachment-kind")
	atts := []verifDCAttachment{{Res: env.ConfigMapRes, Method: "InPlace"}}
	if twoKinds {
		atts = append(atts, verifDCAttachment{Res: env.PodRes, Method: "InPlace"})
	}
	d := verifNewDC(w, verifDCConfig{Attachments: atts, Sync: hook, KeepConstructorInformers: true})
	var parentStub, childStub *stub.StubInformer
	for _, s := range stub.Stubs() {
		switch s.GVR.Resource {
		case "things":
			parentStub = s
		case "configmaps":
			childStub = s
		default:
			s.CompleteList()
		}
	}
	rt.Assert(parentStub != nil && childStub != nil, "start/informers-not-created")
	if parentStub == nil || childStub == nil {
		return
	}
	parentStub.CompleteList(target)
	slow := rt.Bool("the-first-list-of-the-attachment-resource-is-slow")
	if slow {
		rt.Cover("start/attachment-list-slow")
		childStub.Unsynced = true
	} else {
		childStub.CompleteList(att)
	}
	d.Queue.Items = append(d.Queue.Items, verifC14Key("ex.com/v1", "Thing", "ns", "p"))

	d.Start()
	rt.FireTickers() // time passes: every goroutine runs until it blocks
	if slow {
		rt.Assert(len(hook.Calls) == 0, "start/target-synced-before-the-attachment-cache-had-its-initial-list")
		childStub.CompleteList(att) // the LIST arrives
		rt.FireTickers()
		rt.FireTickers()
	}
	// (stop first: Stop waits for the workers, so what they wrote is visible here)
	d.Stop()
	rt.Assert(len(hook.Calls) >= 1, "start/queued-target-never-synced")
	for _, call := range hook.Calls {
		n := 0
		for _, group := range call.Attachments {
			n += len(group)
		}
		rt.Assert(n == 1, "start/hook-not-shown-the-attachment-the-target-controls")
	}
	for _, r := range w.Srv.Writes() {
		rt.Assert(r.Resource != "configmaps", "start/attachment-written-on-the-strength-of-an-empty-cache:"+r.Verb)
	}
	rt.Cover("start/done")
}

package decorator

// Shared scaffolding for the decorator harnesses of C16 / C10 / C01: a REAL
// decoratorController assembled by hand over the simulated API server.
// Stubbed: listers (snapshots), hooks (deterministic functions of the
// request), work queue and event recorder (recording). Everything else —
// selector, update strategy map, finalizer manager, customize manager, the
// dynamic Clientset, ManageChildren — is the real code.

import (
	metav1 "k8s.io/apimachinery/pkg/apis/meta/v1"
	"k8s.io/apimachinery/pkg/apis/meta/v1/unstructured"
	"k8s.io/apimachinery/pkg/runtime/schema"
	k8sjson "k8s.io/apimachinery/pkg/util/json"

	"metacontroller/pkg/apis/metacontroller/v1alpha1"
	"metacontroller/pkg/controller/common/api"
	v1 "metacontroller/pkg/controller/decorator/api/v1"
	dynamicdiscovery "metacontroller/pkg/dynamic/discovery"
	dynamicinformer "metacontroller/pkg/dynamic/informer"
	"metacontroller/pkg/hooks"
	"metacontroller/pkg/zzverif/env"
	"metacontroller/pkg/zzverif/gen"
	stub "metacontroller/pkg/zzverif/informerstub"
	rt "metacontroller/pkg/zzverif/rt"

	"github.com/go-logr/logr"
)

const (
	verifDCName          = "dc"
	verifDCFinalizerName = "metacontroller.io/decoratorcontroller-dc"
	verifDCMarker        = "metacontroller.k8s.io/decorator-controller"
	verifDCLastApplied   = "metacontroller.k8s.io/last-applied-configuration"
)

// verifDCHook is a deterministic, side-effect-free hook: a function of the request.
type verifDCHook struct {
	enabled bool
	fn      func(req *v1.DecoratorHookRequest) (*v1.DecoratorHookResponse, error)
	Calls   []*v1.DecoratorHookRequest
}

func (h *verifDCHook) IsEnabled() bool { return h.enabled }
func (h *verifDCHook) Call(request api.WebhookRequest, response interface{}) error {
	req := request.(*v1.DecoratorHookRequest)
	h.Calls = append(h.Calls, req)
	resp, err := h.fn(req)
	if err != nil {
		return err
	}
	r := response.(*v1.DecoratorHookResponse)
	// what a JSON decoder would do: every call yields fresh maps and objects
	r.Labels = verifDCCopyPtrMap(resp.Labels)
	r.Annotations = verifDCCopyPtrMap(resp.Annotations)
	if resp.Status != nil {
		r.Status = gen.DeepCopy(resp.Status).(map[string]interface{})
	} else {
		r.Status = nil
	}
	r.Finalized = resp.Finalized
	r.ResyncAfterSeconds = resp.ResyncAfterSeconds
	r.Attachments = nil
	for _, c := range resp.Attachments {
		if c == nil {
			r.Attachments = append(r.Attachments, nil)
		} else {
			r.Attachments = append(r.Attachments, c.DeepCopy())
		}
	}
	return nil
}

func verifDCCopyPtrMap(m map[string]*string) map[string]*string {
	if m == nil {
		return nil
	}
	out := make(map[string]*string, len(m))
	for k, v := range m {
		if v == nil {
			out[k] = nil
		} else {
			s := *v
			out[k] = &s
		}
	}
	return out
}

// verifDCConstHook answers every call with the same response.
func verifDCConstHook(resp *v1.DecoratorHookResponse) *verifDCHook {
	return &verifDCHook{enabled: true, fn: func(req *v1.DecoratorHookRequest) (*v1.DecoratorHookResponse, error) {
		return resp, nil
	}}
}

type verifDCRule struct {
	Res                *dynamicdiscovery.APIResource
	LabelSelector      *metav1.LabelSelector
	AnnotationSelector *v1alpha1.AnnotationSelector
}

type verifDCAttachment struct {
	Res    *dynamicdiscovery.APIResource
	Method string // "" = no updateStrategy at all
}

type verifDCConfig struct {
	Rules           []verifDCRule // default: one rule for env.ThingRes selecting everything
	Attachments     []verifDCAttachment
	FinalizeEnabled bool
	Sync, Finalize  hooks.Hook // default: disabled stub
	Customize       hooks.Hook // nil: the controller has no customize hook
	HooksViaService bool       // the webhooks are given as a service reference + path instead of a url
	// KeepConstructorInformers: do not swap snapshot listers in; the harness fills
	// the stub informers the REAL constructor subscribed to (stub.Stubs(), by GVR)
	KeepConstructorInformers bool
}

type verifDC struct {
	*decoratorController
	W        *env.World
	Queue    *env.Queue
	Recorder *env.Recorder
	Cfg      verifDCConfig
	// identity-preserving cache (Resnapshot): what was handed out last time and
	// the resourceVersion each cached object had when it entered the cache
	cacheParents, cacheChildren map[string][]*unstructured.Unstructured
	cacheRV                     map[*unstructured.Unstructured]string
}

func verifDCGVR(r *dynamicdiscovery.APIResource) schema.GroupVersionResource {
	gv, _ := schema.ParseGroupVersion(r.APIVersion)
	return gv.WithResource(r.Name)
}

// verifNewDC builds the controller through the REAL constructor
// (newDecoratorController) over a SharedInformerFactory whose client-go
// informers are stubs, then swaps in what a harness has to control: the hooks,
// the work queue and the listers (Snapshot). A field added to
// decoratorController and initialised by the constructor is initialised here too.
func verifNewDC(w *env.World, cfg verifDCConfig) *verifDC {
	dynamicinformer.VerifNewSharedIndexInformer = stub.NewSharedIndexInformer
	dynamicinformer.VerifNewLister = stub.NewLister
	if len(cfg.Rules) == 0 {
		cfg.Rules = []verifDCRule{{Res: env.ThingRes}}
	}
	if cfg.Sync == nil {
		cfg.Sync = &verifDCHook{}
	}
	if cfg.Finalize == nil {
		cfg.Finalize = &verifDCHook{}
	}
	hookURL := "http://hook.ns/sync"
	hookPath := "/sync"
	goodHook := func() *v1alpha1.Hook {
		if cfg.HooksViaService {
			return &v1alpha1.Hook{Webhook: &v1alpha1.Webhook{Path: &hookPath, Service: &v1alpha1.ServiceReference{Name: "hook", Namespace: "ns"}}}
		}
		return &v1alpha1.Hook{Webhook: &v1alpha1.Webhook{URL: &hookURL}}
	}
	dc := &v1alpha1.DecoratorController{}
	dc.Name = verifDCName
	dc.Spec.Hooks = &v1alpha1.DecoratorControllerHooks{Sync: goodHook()}
	if cfg.FinalizeEnabled {
		dc.Spec.Hooks.Finalize = goodHook()
	}
	if cfg.Customize != nil {
		dc.Spec.Hooks.Customize = goodHook()
	}
	for _, r := range cfg.Rules {
		dc.Spec.Resources = append(dc.Spec.Resources, v1alpha1.DecoratorControllerResourceRule{
			ResourceRule:       v1alpha1.ResourceRule{APIVersion: r.Res.APIVersion, Resource: r.Res.Name},
			LabelSelector:      r.LabelSelector,
			AnnotationSelector: r.AnnotationSelector,
		})
	}
	for _, a := range cfg.Attachments {
		rule := v1alpha1.DecoratorControllerAttachmentRule{
			ResourceRule: v1alpha1.ResourceRule{APIVersion: a.Res.APIVersion, Resource: a.Res.Name},
		}
		if a.Method != "" {
			rule.UpdateStrategy = &v1alpha1.DecoratorControllerAttachmentUpdateStrategy{Method: v1alpha1.ChildUpdateMethod(a.Method)}
		}
		dc.Spec.Attachments = append(dc.Spec.Attachments, rule)
	}
	q := &env.Queue{}
	rec := &env.Recorder{}
	factory := dynamicinformer.NewSharedInformerFactory(w.Dyn, 0)
	c, err := newDecoratorController(w.RM, w.Dyn, factory, rec, dc, 1, logr.Discard())
	if err != nil {
		panic(err)
	}
	c.syncHook, c.finalizeHook = cfg.Sync, cfg.Finalize
	if cfg.Customize != nil {
		c.customize.VerifSetHook(cfg.Customize)
	}
	c.queue = q
	d := &verifDC{decoratorController: c, W: w, Queue: q, Recorder: rec, Cfg: cfg}
	if !cfg.KeepConstructorInformers {
		d.Snapshot(nil, nil)
	}
	return d
}

// Snapshot points every informer at the given cache contents, keyed by
// resource name (objects are shared with the caller: they play the role of
// the shared informer cache).
func (d *verifDC) Snapshot(parents map[string][]*unstructured.Unstructured, children map[string][]*unstructured.Unstructured) {
	for _, r := range d.Cfg.Rules {
		d.parentInformers.Set(verifDCGVR(r.Res), dynamicinformer.VerifNewResourceInformer(env.NewLister(parents[r.Res.Name]...)))
	}
	for _, a := range d.Cfg.Attachments {
		d.childInformers.Set(verifDCGVR(a.Res), dynamicinformer.VerifNewResourceInformer(env.NewLister(children[a.Res.Name]...)))
	}
}

// SnapshotFromStore re-lists everything from the server (an up-to-date cache)
// and returns the cached parents of the first rule.
func (d *verifDC) SnapshotFromStore() []*unstructured.Unstructured {
	parents := map[string][]*unstructured.Unstructured{}
	children := map[string][]*unstructured.Unstructured{}
	for _, r := range d.Cfg.Rules {
		parents[r.Res.Name] = d.W.Srv.All(r.Res.Name)
	}
	for _, a := range d.Cfg.Attachments {
		children[a.Res.Name] = d.W.Srv.All(a.Res.Name)
	}
	d.Snapshot(parents, children)
	return parents[d.Cfg.Rules[0].Res.Name]
}

// Resnapshot is what a real informer does between two syncs: objects whose
// stored version did not change keep their IDENTITY in the cache (the very same
// in-memory object is handed out again, including anything a sync wrongly
// wrote into it), changed or new ones are replaced by what the server holds.
func (d *verifDC) Resnapshot() []*unstructured.Unstructured {
	keep := func(old []*unstructured.Unstructured, cur []*unstructured.Unstructured) []*unstructured.Unstructured {
		out := make([]*unstructured.Unstructured, 0, len(cur))
		for _, c := range cur {
			var same *unstructured.Unstructured
			for _, o := range old {
				if o.GetUID() == c.GetUID() && o.GetNamespace() == c.GetNamespace() && o.GetName() == c.GetName() && d.cacheRV[o] == c.GetResourceVersion() {
					same = o
				}
			}
			if same != nil {
				out = append(out, same)
			} else {
				d.cacheRV[c] = c.GetResourceVersion()
				out = append(out, c)
			}
		}
		return out
	}
	if d.cacheRV == nil {
		d.cacheRV = map[*unstructured.Unstructured]string{}
	}
	parents := map[string][]*unstructured.Unstructured{}
	children := map[string][]*unstructured.Unstructured{}
	for _, r := range d.Cfg.Rules {
		parents[r.Res.Name] = keep(d.cacheParents[r.Res.Name], d.W.Srv.All(r.Res.Name))
	}
	for _, a := range d.Cfg.Attachments {
		children[a.Res.Name] = keep(d.cacheChildren[a.Res.Name], d.W.Srv.All(a.Res.Name))
	}
	d.cacheParents, d.cacheChildren = parents, children
	d.Snapshot(parents, children)
	return parents[d.Cfg.Rules[0].Res.Name]
}

// ---- fixtures ----

// verifDCTarget builds a decorated-resource instance of the given fixture resource.
func verifDCTarget(res *dynamicdiscovery.APIResource, ns, name, uid string) *unstructured.Unstructured {
	return env.Obj(res.APIVersion, res.Kind, ns, name, uid)
}

func verifDCSetFinalizers(o *unstructured.Unstructured, fins ...string) {
	md := o.Object["metadata"].(map[string]interface{})
	if len(fins) == 0 {
		delete(md, "finalizers")
		return
	}
	l := make([]interface{}, 0, len(fins))
	for _, f := range fins {
		l = append(l, f)
	}
	md["finalizers"] = l
}

func verifDCHasFinalizer(o *unstructured.Unstructured, name string) bool {
	if o == nil {
		return false
	}
	for _, f := range o.GetFinalizers() {
		if f == name {
			return true
		}
	}
	return false
}

// verifDCApplied returns the observed form of an attachment that decorator
// `marker` created earlier from `applied` for the owner (ownerUID): the applied
// fields plus the marker, a last-applied record, a controller reference and
// server-populated metadata.
func verifDCApplied(applied *unstructured.Unstructured, owner *unstructured.Unstructured, ownerUID, marker, uid string) *unstructured.Unstructured {
	a := applied.DeepCopy()
	if marker != "" {
		env.SetAnnotation(a, verifDCMarker, marker)
	}
	o := a.DeepCopy()
	md := o.Object["metadata"].(map[string]interface{})
	md["uid"] = uid
	md["resourceVersion"] = "7"
	md["generation"] = int64(1)
	env.SetAnnotation(o, verifDCLastApplied, verifDCJSON(a.Object))
	env.AddOwnerRef(o, env.OwnerRefMap(owner.GetAPIVersion(), owner.GetKind(), owner.GetName(), ownerUID, true))
	return o
}

func verifDCJSON(v interface{}) string {
	b, err := k8sjson.Marshal(v)
	if err != nil {
		panic(err)
	}
	return string(b)
}

func verifDCStrPtr(s string) *string { return &s }

// ---- C17 oracle: shared cache objects are read-only ----

type verifDCFingerprint struct {
	objs   []*unstructured.Unstructured
	copies []*unstructured.Unstructured
}

func verifDCFingerprintOf(lists ...[]*unstructured.Unstructured) *verifDCFingerprint {
	f := &verifDCFingerprint{}
	for _, l := range lists {
		for _, o := range l {
			f.objs = append(f.objs, o)
			f.copies = append(f.copies, o.DeepCopy())
		}
	}
	return f
}

func (f *verifDCFingerprint) AssertUnchanged(label string) {
	for i := range f.objs {
		gen.Equal(f.objs[i].Object, f.copies[i].Object, label)
		// gen.Equal(got, want) checks got ⊇ want key-wise plus equal sizes.
	}
}

// ---- request-log helpers ----

func verifDCIndexOf(log []env.Req, pred func(r env.Req) bool) int {
	for i, r := range log {
		if pred(r) {
			return i
		}
	}
	return -1
}

func verifDCCount(log []env.Req, pred func(r env.Req) bool) int {
	n := 0
	for _, r := range log {
		if pred(r) {
			n++
		}
	}
	return n
}

var _ = rt.Assert

package decorator

// C12 (decorator) — one fault of a symbolic kind at a symbolic request position
// of a real decorator sync driven through processNextWorkItem; then fault-free
// syncs until quiescence.

import (
	"k8s.io/apimachinery/pkg/apis/meta/v1/unstructured"

	v1 "metacontroller/pkg/controller/decorator/api/v1"
	"metacontroller/pkg/zzverif/env"
	rt "metacontroller/pkg/zzverif/rt"
)

func verifC12DCSetup() (*verifDC, *env.World) { return verifC12DCSetupStatus(false) }

// statusThere: the target already has the status the hook wants, so the only
// write to the target is the label update.
func verifC12DCSetupStatus(statusThere bool) (*verifDC, *env.World) {
	w := env.NewWorld()
	target := verifDCTarget(env.ThingRes, "ns", "p", "puid")
	target.Object["spec"] = map[string]interface{}{"x": "1"}
	if statusThere {
		target.Object["status"] = map[string]interface{}{"phase": "ok"}
	}
	w.Srv.Put("things", target)
	// one attachment to update, one stale attachment to delete, one to create
	old := verifDCApplied(env.ConfigMap("ns", "a", "", "old"), target, "puid", verifDCName, "uid-a")
	stale := verifDCApplied(env.ConfigMap("ns", "b", "", "x"), target, "puid", verifDCName, "uid-b")
	w.Srv.Put("configmaps", old)
	w.Srv.Put("configmaps", stale)
	hook := verifDCConstHook(&v1.DecoratorHookResponse{
		Labels:      map[string]*string{"decorated": verifDCStrPtr("yes")},
		Status:      map[string]interface{}{"phase": "ok"},
		Attachments: []*unstructured.Unstructured{env.ConfigMap("ns", "a", "", "new"), env.ConfigMap("ns", "c", "", "new")},
	})
	dc := verifNewDC(w, verifDCConfig{Attachments: []verifDCAttachment{{Res: env.ConfigMapRes, Method: "InPlace"}}, Sync: hook})
	return dc, w
}

func verifC12DCConverged(w *env.World, label string) {
	p := w.Srv.Peek("things", "ns", "p")
	rt.Assert(p != nil, label+"/target-missing")
	if p != nil {
		rt.Assert(p.GetLabels()["decorated"] == "yes", label+"/label-not-applied")
		st, _ := p.Object["status"].(map[string]interface{})
		rt.Assert(st["phase"] == "ok", label+"/status-not-applied")
	}
	a := w.Srv.Peek("configmaps", "ns", "a")
	rt.Assert(a != nil, label+"/a-missing")
	if a != nil {
		d, _ := a.Object["data"].(map[string]interface{})
		rt.Assert(d["k"] == "new", label+"/a-not-updated")
	}
	rt.Assert(w.Srv.Peek("configmaps", "ns", "b") == nil, label+"/b-not-deleted")
	rt.Assert(w.Srv.Peek("configmaps", "ns", "c") != nil, label+"/c-not-created")
}

const verifC12DCKey = "ex.com/v1:Thing:ns:p"

func VerifC12_DecoratorFaultFree() {
	dc, w := verifC12DCSetup()
	dc.SnapshotFromStore()
	dc.Queue.Items = append(dc.Queue.Items, verifC12DCKey)
	dc.processNextWorkItem()
	rt.Assert(dc.Queue.Count("forget") == 1 && dc.Queue.Count("add-rate-limited") == 0, "fault-free/queue")
	verifC12DCConverged(w, "fault-free")
	rt.Observe("requests", len(w.Srv.Log))
	rt.Cover("fault-free-converged")
}

func VerifC12_DecoratorFaults() {
	statusThere := rt.Bool("target-status-already-as-desired")
	dc, w := verifC12DCSetupStatus(statusThere)
	dc.Resnapshot()
	// fault-free sequence: [update-status p,] update p, delete b, update a, create c
	nreq := 5
	if statusThere {
		nreq = 4
	}
	pos := rt.Choice("fault-at", nreq)
	kind := 1 + rt.Choice("fault-kind", env.NumFaultKinds-2)
	w.Srv.ArmFault(pos, kind, "", true)
	dc.Queue.Items = append(dc.Queue.Items, verifC12DCKey)
	more := dc.processNextWorkItem()
	rt.Assert(more, "worker-stops-after-a-sync")
	var hit *env.Req
	for i := range w.Srv.Log {
		if w.Srv.Log[i].Seq == pos {
			hit = &w.Srv.Log[i]
		}
	}
	rt.Assert(hit != nil, "fault-position-not-reached")
	if hit == nil {
		return
	}
	benign := false
	switch {
	case hit.Resource == "things":
		benign = kind == env.FaultNotFound || kind == env.FaultConflict
	case hit.Verb == "delete":
		benign = kind == env.FaultNotFound
	case hit.Verb == "update":
		benign = kind == env.FaultNotFound || kind == env.FaultConflict
	case hit.Verb == "create":
		benign = kind == env.FaultAlreadyExists
	}
	requeued, forgot := dc.Queue.Count("add-rate-limited"), dc.Queue.Count("forget")
	// (update of a / create of c: their order follows Go's map iteration order, so
	// cover markers - compared between executor and native run - skip them)
	orderDependent := hit.Resource == "configmaps" && hit.Verb != "delete"
	if benign {
		if !orderDependent {
			rt.Cover("benign-fault-tolerated")
		}
		rt.Assert(requeued == 0 && forgot == 1, "decorator/benign/"+hit.Verb+"-"+hit.Resource+"/reported-as-error")
	} else {
		if !orderDependent {
			rt.Cover("fault-requeued")
		}
		rt.Assert(requeued == 1 && forgot == 0, "decorator/non-benign/"+hit.Verb+"-"+hit.Resource+"/not-requeued-with-backoff")
	}
	// a failure on one attachment does not stop the others
	if hit.Resource == "configmaps" {
		n := 0
		for _, r := range w.Srv.Log {
			if r.IsWrite() && r.Resource == "configmaps" {
				n++
			}
		}
		rt.Assert(n == 3, "decorator/one-failure-stopped-other-attachments")
	}
	// once faults stop the cluster converges to the fault-free state and goes quiet
	w.Srv.DisarmFault()
	// (the retries see the cache a real informer would show: unchanged objects
	// are the very same in-memory objects as in the failed sync)
	for i := 0; i < 3; i++ {
		dc.Resnapshot()
		dc.Queue.Items = append(dc.Queue.Items, verifC12DCKey)
		dc.processNextWorkItem()
	}
	verifC12DCConverged(w, "decorator/after-fault")
	w.Srv.ResetLog()
	dc.SnapshotFromStore()
	dc.Queue.Items = append(dc.Queue.Items, verifC12DCKey)
	dc.processNextWorkItem()
	rt.Assert(len(w.Srv.Writes()) == 0, "decorator/after-fault/not-quiescent")
}

package discovery

import "k8s.io/client-go/discovery"

// VerifNewResourceMap builds a ResourceMap the way the running process does:
// the REAL refresh() over a (fake) discovery client. No unexported field is
// touched, so a refactoring of the map layout keeps the harnesses compiling,
// and a defect in refresh() shows in every property that resolves resources.
func VerifNewResourceMap(dc discovery.DiscoveryInterface) *ResourceMap {
	rm := NewResourceMap(dc)
	rm.refresh()
	return rm
}

package discovery

import metav1 "k8s.io/apimachinery/pkg/apis/meta/v1"

func VerifNewAPIResource(apiVersion string, r metav1.APIResource, subresources ...string) *APIResource {
	a := &APIResource{APIResource: r, APIVersion: apiVersion}
	for _, s := range subresources {
		if a.subresourceMap == nil {
			a.subresourceMap = map[string]bool{}
		}
		a.subresourceMap[s] = true
	}
	return a
}

func VerifNewResourceMap(rs ...*APIResource) *ResourceMap {
	rm := &ResourceMap{groupVersions: map[string]groupVersionEntry{}}
	for _, r := range rs {
		gve, ok := rm.groupVersions[r.APIVersion]
		if !ok {
			gve = groupVersionEntry{resources: map[string]*APIResource{}, kinds: map[string]*APIResource{}, subresources: map[string]*APIResource{}}
			rm.groupVersions[r.APIVersion] = gve
		}
		gve.resources[r.Name] = r
		gve.kinds[r.Kind] = r
	}
	return rm
}

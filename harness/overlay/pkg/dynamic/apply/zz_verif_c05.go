package apply

// C05 — three-way merge laws on the real Merge().
//
// The reference below is written from the property statement and
// docs/src/api/apply.md ("Conventions"), not from merge(): it walks the three
// input trees and states, per field, what the result must be.

import (
	"fmt"

	"metacontroller/pkg/zzverif/gen"
	rt "metacontroller/pkg/zzverif/rt"
)

var verifConventionalKeys = []string{"containerPort", "port", "mountPath", "name", "uid", "ip", "path"}

// verifAssocKey restates the documented convention: a list is associative iff
// all items of all known examples are objects sharing a conventional key.
func verifAssocKey(lists ...[]interface{}) string {
	for _, k := range verifConventionalKeys {
		all := true
		seen := false
		for _, l := range lists {
			for _, it := range l {
				m, ok := it.(map[string]interface{})
				if !ok {
					return ""
				}
				seen = true
				if _, has := m[k]; !has {
					all = false
				}
			}
		}
		if all && seen {
			return k
		}
	}
	return ""
}

func verifKeyString(v interface{}) string {
	switch x := v.(type) {
	case string:
		return x
	case int64:
		return fmt.Sprintf("%v", x)
	}
	return fmt.Sprintf("%v", v)
}

// verifUniqueKeys: are the merge-key values of the list pairwise distinct?
// (decided by the solver via Assume: non-unique keys are outside the laws)
func verifAssumeUnique(l []interface{}, key string) {
	for i := range l {
		for j := i + 1; j < len(l); j++ {
			a := verifKeyString(l[i].(map[string]interface{})[key])
			b := verifKeyString(l[j].(map[string]interface{})[key])
			rt.Assume(a != b)
		}
	}
}

func verifFindItem(l []interface{}, key, want string) (map[string]interface{}, bool) {
	for _, it := range l {
		m := it.(map[string]interface{})
		if verifKeyString(m[key]) == want {
			return m, true
		}
	}
	return nil, false
}

func verifIsComposite(k string) bool { return k == gen.KMap || k == gen.KList || k == gen.KLMap }
func verifIsList(k string) bool      { return k == gen.KList || k == gen.KLMap }

// verifClash returns a label when desired and observed have clashing JSON
// types somewhere Merge has to look at, "" otherwise.
func verifClash(obs interface{}, obsP bool, last interface{}, lastP bool, des interface{}, desP bool) string {
	if !desP {
		return ""
	}
	ko, kd := gen.Kind(obs, obsP), gen.Kind(des, desP)
	if !verifIsComposite(ko) {
		return "" // scalar/null/absent observed is simply replaced
	}
	if ko == gen.KMap {
		if kd != gen.KMap {
			return "clash/des=" + kd + "/obs=map"
		}
		om, dm := obs.(map[string]interface{}), des.(map[string]interface{})
		lm, _ := last.(map[string]interface{})
		for k, dv := range dm {
			ov, oP := om[k]
			lv, lP := lm[k]
			if c := verifClash(ov, oP, lv, lP, dv, true); c != "" {
				return c
			}
		}
		return ""
	}
	// observed is a list
	ol := obs.([]interface{})
	ll, _ := last.([]interface{})
	if kd == gen.KNull && verifAssocKey(ol, ll) == "" {
		return "" // null replaces an atomic list
	}
	if kd == gen.KNull {
		return "clash/des=null/obs=listmap"
	}
	if !verifIsList(kd) {
		return "clash/des=" + kd + "/obs=" + ko
	}
	dl := des.([]interface{})
	key := verifAssocKey(ol, ll, dl)
	if key == "" {
		return ""
	}
	for _, it := range dl {
		dm := it.(map[string]interface{})
		ks := verifKeyString(dm[key])
		om, oP := verifFindItem(ol, key, ks)
		lm, lP := verifFindItem(ll, key, ks)
		var ov, lv interface{}
		if oP {
			ov = om
		}
		if lP {
			lv = lm
		}
		if c := verifClash(ov, oP, lv, lP, dm, true); c != "" {
			return c
		}
	}
	return ""
}

// verifLaws asserts L1 (containment), L2 (removal) and L3 (preservation) for
// one field.
func verifLaws(path string, obs interface{}, obsP bool, last interface{}, lastP bool, des interface{}, desP bool, res interface{}, resP bool) {
	ko, kd := gen.Kind(obs, obsP), gen.Kind(des, desP)
	cls := "/des=" + kd + "/obs=" + ko
	if !desP {
		if lastP {
			rt.Assert(!resP, "L2-removal"+cls)
			return
		}
		rt.Assert(resP == obsP, "L3-preservation"+cls)
		if resP && obsP {
			gen.Equal(res, obs, "L3-preservation"+cls)
		}
		return
	}
	rt.Assert(resP, "L1-containment"+cls)
	if !resP {
		return
	}
	switch {
	case kd == gen.KMap && ko == gen.KMap:
		om, dm := obs.(map[string]interface{}), des.(map[string]interface{})
		lm, _ := last.(map[string]interface{})
		rm, ok := res.(map[string]interface{})
		rt.Assert(ok, "L1-containment"+cls)
		if !ok {
			return
		}
		keys := map[string]bool{}
		for k := range om {
			keys[k] = true
		}
		for k := range lm {
			keys[k] = true
		}
		for k := range dm {
			keys[k] = true
		}
		for k := range rm {
			rt.Assert(keys[k], "L3-preservation/invented-key"+cls)
		}
		for k := range keys {
			ov, oP := om[k]
			lv, lP := lm[k]
			dv, dP := dm[k]
			rv, rP := rm[k]
			verifLaws(path+"."+k, ov, oP, lv, lP, dv, dP, rv, rP)
		}
	case verifIsList(kd) && verifIsList(ko):
		ol, dl := obs.([]interface{}), des.([]interface{})
		ll, _ := last.([]interface{})
		key := verifAssocKey(ol, ll, dl)
		if key == "" {
			gen.Equal(res, des, "L1-containment/atomic-list"+cls)
			return
		}
		rl, ok := res.([]interface{})
		rt.Assert(ok, "L1-containment"+cls)
		if !ok {
			return
		}
		// expected order: surviving observed items in their order, then new desired items
		var order []string
		for _, it := range ol {
			ks := verifKeyString(it.(map[string]interface{})[key])
			_, inDes := verifFindItem(dl, key, ks)
			_, inLast := verifFindItem(ll, key, ks)
			if inDes || !inLast {
				order = append(order, ks)
			}
		}
		for _, it := range dl {
			ks := verifKeyString(it.(map[string]interface{})[key])
			if _, inObs := verifFindItem(ol, key, ks); !inObs {
				order = append(order, ks)
			}
		}
		rt.Assert(len(rl) == len(order), "L3-preservation/assoc-list-length"+cls)
		if len(rl) != len(order) {
			return
		}
		for i, ks := range order {
			rm, isMap := rl[i].(map[string]interface{})
			rt.Assert(isMap, "L3-preservation/assoc-list-order"+cls)
			if !isMap {
				return
			}
			rt.Assert(verifKeyString(rm[key]) == ks, "L3-preservation/assoc-list-order"+cls)
			om, oP := verifFindItem(ol, key, ks)
			lm, lP := verifFindItem(ll, key, ks)
			dm, dP := verifFindItem(dl, key, ks)
			var ov, lv, dv interface{}
			if oP {
				ov = om
			}
			if lP {
				lv = lm
			}
			if dP {
				dv = dm
			}
			verifLaws(path+"["+key+"]", ov, oP, lv, lP, dv, dP, rm, true)
		}
	default:
		// observed is absent / scalar / null (or clash, excluded before): the
		// desired value is taken as is
		gen.Equal(res, des, "L1-containment"+cls)
	}
}

// VerifC05_Merge: every (observed, lastApplied, desired) triple of the bounded
// universe through the real Merge.  Quick universe: one key, all value kinds.
func VerifC05_Merge() {
	verifC05(gen.Shape{Depth: 1, Keys: []string{"a"}, Nulls: true, Ints: true, Lists: 1, ListMaps: 1, MergeKeys: []string{"name", ""}})
}

// Thorough universes (each explored exhaustively).
func VerifC05_Merge_TwoKeys() {
	verifC05(gen.Shape{Depth: 1, Keys: []string{"a", "b"}, SubKeys: []string{"c"}, Nulls: true})
}

func VerifC05_Merge_Lists() {
	verifC05(gen.Shape{Depth: 1, Keys: []string{"a"}, Nulls: true, Lists: 1, ListMaps: 2, MergeKeys: []string{"name"}})
}

// list-maps keyed by an integer merge key (rendered with %v by the code under test)
func VerifC05_Merge_ListsPort() {
	verifC05(gen.Shape{Depth: 1, Keys: []string{"a"}, ListMaps: 2, MergeKeys: []string{"port"}})
}

func VerifC05_Merge_Deep() {
	verifC05(gen.Shape{Depth: 2, Keys: []string{"a"}, Nulls: true, Ints: true, Bools: true, Lists: 1})
}

func verifC05(sh gen.Shape) {
	top := sh
	top.Depth = sh.Depth + 1
	obs := gen.Map("o", top)
	var last map[string]interface{}
	if rt.Bool("l.present") {
		last = gen.Map("l", top)
	}
	des := gen.Map("d", top)

	// list-maps with duplicate keys are outside L1-L6 (only no-panic is claimed)
	for _, m := range []map[string]interface{}{obs, last, des} {
		verifAssumeUniqueIn(m)
	}

	obs0 := gen.DeepCopy(obs)
	last0 := gen.DeepCopy(last)
	des0 := gen.DeepCopy(des)

	res, err := Merge(obs, last, des)

	var lastI interface{}
	if last != nil {
		lastI = last
	}
	clash := verifClash(obs, true, lastI, last != nil, des, true)
	rt.Observe("err", err != nil)
	if clash != "" {
		rt.Cover("type-clash")
		if err == nil && clash == "clash/des=null/obs=map" {
			// (the recorded finding: a null over an observed object is treated as "no
			// opinion". What the code does there is still bound by the removal law:
			// the keys that were applied earlier go, the rest of the object stays.
			// Checked BEFORE the assertion of the finding itself: a path ends at its
			// first failed assertion.)
			verifNullOverMap(obs0.(map[string]interface{}), last0, des0.(map[string]interface{}), res)
		}
		rt.Assert(err != nil, "L1-"+clash+"/silently-dropped")
		return
	}
	rt.Assert(err == nil, "unexpected-error")
	if err != nil {
		return
	}
	rt.Cover("merged")
	verifLaws("", obs0, true, lastI, last != nil, des0, true, res, true)

	// L6 purity
	gen.Equal(obs, obs0, "L6-purity/observed-mutated")
	if last != nil {
		gen.Equal(last, last0, "L6-purity/lastApplied-mutated")
	}
	gen.Equal(des, des0, "L6-purity/desired-mutated")

	// L5 idempotence: applying the same desired state to its own result changes nothing
	res2, err2 := Merge(res, des, des)
	rt.Assert(err2 == nil, "L5-idempotence/error")
	if err2 == nil {
		gen.Equal(res2, res, "L5-idempotence")
	}
}

// verifNullOverMap: for every top-level field whose desired value is null and
// whose observed value is an object, the result keeps the observed object
// without the keys the last-applied record lists for it (L2 removal, L3
// preservation inside the known-finding region).
func verifNullOverMap(obs map[string]interface{}, last interface{}, des map[string]interface{}, res map[string]interface{}) {
	lm, _ := last.(map[string]interface{})
	for k, dv := range des {
		if dv != nil {
			continue
		}
		om, isMap := obs[k].(map[string]interface{})
		if !isMap {
			continue
		}
		rm, ok := res[k].(map[string]interface{})
		rt.Assert(ok, "L3-preservation/null-over-object/object-not-kept")
		if !ok {
			continue
		}
		lk, _ := lm[k].(map[string]interface{})
		for sk, sv := range om {
			_, applied := lk[sk]
			rv, has := rm[sk]
			if applied {
				rt.Assert(!has, "L2-removal/null-over-object/previously-applied-key-not-removed")
			} else {
				rt.Assert(has, "L3-preservation/null-over-object/foreign-key-lost")
				if has {
					gen.Equal(rv, sv, "L3-preservation/null-over-object/foreign-key-changed")
				}
			}
		}
		rt.Cover("null-over-object-checked")
	}
}

func verifAssumeUniqueIn(v interface{}) {
	switch x := v.(type) {
	case map[string]interface{}:
		for _, e := range x {
			verifAssumeUniqueIn(e)
		}
	case []interface{}:
		if k := verifAssocKey(x); k != "" {
			verifAssumeUnique(x, k)
		}
		for _, e := range x {
			verifAssumeUniqueIn(e)
		}
	}
}

// verifIrregularList builds a list of 1-2 items of mixed kinds: null, scalar,
// object with the conventional merge key, object without it, nested list.
func verifIrregularList(tag string, maxItems int) []interface{} {
	n := 1
	if maxItems > 1 {
		n = 1 + rt.Choice(tag+".items", maxItems)
	}
	l := make([]interface{}, 0, n)
	for i := 0; i < n; i++ {
		it := tag + string(rune('0'+i))
		switch rt.Choice(it+".kind", 5) {
		case 0:
			l = append(l, nil)
		case 1:
			l = append(l, rt.String(it+".scalar"))
		case 2:
			l = append(l, map[string]interface{}{"name": rt.String(it + ".name"), "v": rt.String(it + ".v")})
		case 3:
			l = append(l, map[string]interface{}{"other": rt.String(it + ".other")})
		default:
			l = append(l, []interface{}{rt.String(it + ".nested")})
		}
	}
	return l
}

// VerifC05_Merge_IrregularLists: "never panics on any JSON input" for lists
// whose items are not uniformly objects with a merge key (nulls, scalars,
// objects without the key, nested lists, in any of the three arguments). Only
// no-panic and value-xor-error are claimed here; the merge laws are decided on
// the regular universes above.
func VerifC05_Merge_IrregularLists() {
	obs := map[string]interface{}{"a": verifIrregularList("o", 2)}
	var last map[string]interface{}
	if rt.Bool("l.present") {
		// quick tier: one item in the last-applied list
		last = map[string]interface{}{"a": verifIrregularList("l", 1+rt.Tier())}
	}
	des := map[string]interface{}{"a": verifIrregularList("d", 2)}
	res, err := Merge(obs, last, des)
	rt.Observe("err", err != nil)
	if err != nil {
		rt.Cover("irregular/error")
	} else {
		rt.Cover("irregular/merged")
		rt.Assert(res != nil, "irregular/neither-value-nor-error")
	}
}

// VerifC05_Merge_ListOrder: the order clause for name-keyed lists - surviving
// observed entries keep their order, entries that are new come after them in
// the order of the desired list - with Go's map iteration order as a symbolic
// dimension (a rebuild that walks a map instead of the desired slice yields
// the right SET in the wrong ORDER only under some iteration orders). The
// names are symbolic (pairwise different), the number of observed and desired
// entries is drawn, the merge key is `name` or `port`.
func VerifC05_Merge_ListOrder() {
	if rt.Bool("maps-reversed") {
		rt.ReverseMaps(true)
	}
	key := "name"
	if rt.Bool("keyed-by-port") {
		key = "port"
	}
	nObs := rt.Choice("observed-entries", 3)   // 0..2
	nDes := 2 + rt.Choice("desired-entries", 2) // 2..3
	var names []string
	fresh := func(tag string) string {
		s := rt.String(tag)
		for _, o := range names {
			rt.Assume(s != o)
		}
		names = append(names, s)
		return s
	}
	var obsL, desL []interface{}
	var obsNames []string
	for i := 0; i < nObs; i++ {
		n := fresh("o" + string(rune('0'+i)))
		obsNames = append(obsNames, n)
		obsL = append(obsL, map[string]interface{}{key: n, "v": "old"})
	}
	// desired: optionally keeps the observed entries (in reverse order, to tell
	// "observed order wins" from "desired order wins"), then the new ones
	keep := nObs > 0 && rt.Bool("desired-keeps-the-observed-entries")
	var want []string
	if keep {
		for i := nObs - 1; i >= 0; i-- {
			desL = append(desL, map[string]interface{}{key: obsNames[i], "v": "new"})
		}
	}
	// observed entries survive either way: they are in desired, or they were never applied by us
	want = append(want, obsNames...)
	for i := 0; i < nDes; i++ {
		n := fresh("d" + string(rune('0'+i)))
		desL = append(desL, map[string]interface{}{key: n, "v": "new"})
		want = append(want, n)
	}
	obs := map[string]interface{}{"a": obsL}
	if nObs == 0 && rt.Bool("observed-field-absent") {
		obs = map[string]interface{}{}
	}
	des := map[string]interface{}{"a": desL}
	res, err := Merge(obs, nil, des)
	rt.Assert(err == nil, "list-order/unexpected-error")
	if err != nil {
		return
	}
	rl, ok := res["a"].([]interface{})
	rt.Assert(ok && len(rl) == len(want), "list-order/length")
	if !ok || len(rl) != len(want) {
		return
	}
	rt.Cover("list-order/merged")
	for i, n := range want {
		m, isMap := rl[i].(map[string]interface{})
		rt.Assert(isMap && verifKeyString(m[key]) == n, "list-order/entry-out-of-order")
	}
	// and the same input gives the same output (determinism)
	res2, err2 := Merge(obs, nil, des)
	rt.Assert(err2 == nil, "list-order/second-run-error")
	if err2 == nil {
		gen.Equal(res2, res, "list-order/not-deterministic")
	}
}

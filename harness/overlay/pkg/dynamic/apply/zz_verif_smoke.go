package apply

import (
	rt "metacontroller/pkg/zzverif/rt"
)

func verifSmokeVal(tag string) (interface{}, bool) {
	if !rt.Bool(tag + ".present") {
		return nil, false
	}
	if rt.Bool(tag + ".ismap") {
		m := map[string]interface{}{}
		if rt.Bool(tag + ".x") {
			m["x"] = rt.String(tag + ".xv")
		}
		return m, true
	}
	return rt.String(tag + ".s"), true
}

// VerifSmoke_Merge is the engine smoke test (prototype harness).
func VerifSmoke_Merge() {
	obs := map[string]interface{}{}
	last := map[string]interface{}{}
	des := map[string]interface{}{}
	if v, ok := verifSmokeVal("o"); ok {
		obs["k"] = v
	}
	if v, ok := verifSmokeVal("l"); ok {
		last["k"] = v
	}
	dv, dok := verifSmokeVal("d")
	if dok {
		des["k"] = dv
	}
	r, err := Merge(obs, last, des)
	rt.Observe("err", err != nil)
	if err != nil {
		rt.Cover("merge-error")
		return
	}
	rt.Cover("merge-ok")
	if dok {
		got, has := r["k"]
		rt.Assert(has, "desired key missing")
		if ds, isStr := dv.(string); isStr {
			gs, ok := got.(string)
			rt.Assert(ok, "desired scalar but result not scalar")
			if ok {
				rt.Observe("got", gs)
				rt.Assert(gs == ds, "desired scalar value differs")
			}
		}
	}
}

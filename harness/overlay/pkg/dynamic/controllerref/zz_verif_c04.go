package controllerref

// C04 (c) — addOwnerReference / removeOwnerReference on arbitrary owner lists.
//
// (The ClaimChildren harness over the simulated API server lives in package
// composite — zz_verif_c04.go there — because it uses the REAL
// parentController.canAdoptFunc / claimChildren instead of a copy of the
// closure.)

import (
	metav1 "k8s.io/apimachinery/pkg/apis/meta/v1"
	"k8s.io/apimachinery/pkg/types"

	rt "metacontroller/pkg/zzverif/rt"
)

func verifRefEq(a, b metav1.OwnerReference, what string) {
	rt.Assert(a.UID == b.UID, what+"/uid")
	rt.Assert(a.Name == b.Name, what+"/name")
	rt.Assert(a.Kind == b.Kind, what+"/kind")
	rt.Assert(a.APIVersion == b.APIVersion, what+"/apiVersion")
	rt.Assert((a.Controller == nil) == (b.Controller == nil), what+"/controller-nilness")
	if a.Controller != nil && b.Controller != nil {
		rt.Assert(*a.Controller == *b.Controller, what+"/controller")
	}
	rt.Assert((a.BlockOwnerDeletion == nil) == (b.BlockOwnerDeletion == nil), what+"/blockOwnerDeletion-nilness")
	if a.BlockOwnerDeletion != nil && b.BlockOwnerDeletion != nil {
		rt.Assert(*a.BlockOwnerDeletion == *b.BlockOwnerDeletion, what+"/blockOwnerDeletion")
	}
}

// verifRefSame: a and b are the same owner reference (a symbolic boolean computed
// without forking the path).
func verifRefSame(a, b metav1.OwnerReference) bool {
	if (a.Controller == nil) != (b.Controller == nil) || (a.BlockOwnerDeletion == nil) != (b.BlockOwnerDeletion == nil) {
		return false
	}
	same := rt.And(rt.And(a.UID == b.UID, a.Name == b.Name), rt.And(a.Kind == b.Kind, a.APIVersion == b.APIVersion))
	if a.Controller != nil {
		same = rt.And(same, *a.Controller == *b.Controller)
	}
	if a.BlockOwnerDeletion != nil {
		same = rt.And(same, *a.BlockOwnerDeletion == *b.BlockOwnerDeletion)
	}
	return same
}

// verifOthersKept: the property fixes WHICH references an object has, not their
// order: every reference of orig that is not ours is still in out, and out holds
// nothing but those (and, when oursOK, our reference).
func verifOthersKept(out, orig []metav1.OwnerReference, our string, ours *metav1.OwnerReference, what string) {
	for i := range orig {
		if string(orig[i].UID) == our {
			continue
		}
		found := false
		for j := range out {
			found = rt.Or(found, verifRefSame(out[j], orig[i]))
		}
		rt.Assert(found, what+"/other-owner-lost")
	}
	for j := range out {
		known := false
		if ours != nil {
			known = verifRefSame(out[j], *ours)
		}
		for i := range orig {
			known = rt.Or(known, rt.And(string(orig[i].UID) != our, verifRefSame(out[j], orig[i])))
		}
		rt.Assert(known, what+"/entry-invented")
	}
}

var verifIdx = []string{"0", "1", "2", "3"}

func VerifC04_OwnerRefs() {
	our := rt.String("our-uid")
	rt.Assume(our != "")
	n := rt.Choice("n", 4)
	var in []metav1.OwnerReference
	for i := 0; i < n; i++ {
		ref := metav1.OwnerReference{
			APIVersion: rt.String("apiVersion" + verifIdx[i]),
			Kind:       rt.String("kind" + verifIdx[i]),
			Name:       rt.String("name" + verifIdx[i]),
			UID:        types.UID(rt.String("uid" + verifIdx[i])),
		}
		if rt.Bool("has-controller-flag" + verifIdx[i]) {
			c := rt.Bool("controller" + verifIdx[i])
			ref.Controller = &c
			b := rt.Bool("block" + verifIdx[i])
			ref.BlockOwnerDeletion = &b
		}
		in = append(in, ref)
	}
	orig := append([]metav1.OwnerReference(nil), in...)
	tr := true
	add := metav1.OwnerReference{APIVersion: "ex.com/v1", Kind: "Thing", Name: "p", UID: types.UID(our), Controller: &tr, BlockOwnerDeletion: &tr}

	if rt.Bool("remove") {
		out := removeOwnerReference(in, types.UID(our))
		// expectation: the others (in any order)
		var want []metav1.OwnerReference
		for _, r := range orig {
			if string(r.UID) != our {
				want = append(want, r)
			}
		}
		if len(want) < n {
			rt.Cover("remove/ours-present")
		} else {
			rt.Cover("remove/ours-absent")
		}
		rt.Observe("remove-len", len(out))
		rt.Assert(len(out) == len(want), "remove/length")
		for i := range out {
			rt.Assert(string(out[i].UID) != our, "remove/ours-still-there")
		}
		verifOthersKept(out, orig, our, nil, "remove")
	} else {
		out := addOwnerReference(in, add)
		ours := 0
		for _, r := range orig {
			if string(r.UID) == our {
				ours++
			}
		}
		rt.Observe("add-len", len(out))
		if ours == 0 {
			rt.Cover("add/appended")
			rt.Assert(len(out) == n+1, "add/length-when-absent")
		} else {
			rt.Cover("add/replaced")
			rt.Assert(len(out) == n, "add/length-when-present")
		}
		oursOut := 0
		for i := range out {
			if string(out[i].UID) == our {
				oursOut++
				verifRefEq(out[i], add, "add/our-entry")
			}
		}
		verifOthersKept(out, orig, our, &add, "add")
		if ours <= 1 {
			rt.Assert(oursOut == 1, "add/ours-not-exactly-once")
		} else {
			// the input already carried our UID several times: never more than before
			rt.Assert(oursOut == ours, "add/ours-multiplied")
		}
	}
	// purity: the input slice is not modified
	rt.Assert(len(in) == n, "input-length-changed")
	for i := range orig {
		verifRefEq(in[i], orig[i], "input-modified")
	}
}

package informer

// Read-only accessors for harnesses that live OUTSIDE this package (C20:
// composite / decorator constructors and reconcilers). Always part of the
// overlay; nothing here is called by repo code and nothing changes state.

import "k8s.io/client-go/tools/cache"

// VerifRefCounts returns a copy of the factory's subscription counters
// (key = "<resource>.<apiVersion>", see resourceKey).
func (f *SharedInformerFactory) VerifRefCounts() map[string]int {
	f.mutex.Lock()
	defer f.mutex.Unlock()
	out := make(map[string]int, len(f.refCount))
	for k, v := range f.refCount {
		out[k] = v
	}
	return out
}

// VerifRefCount returns the counter of one resource (0 = no entry).
func (f *SharedInformerFactory) VerifRefCount(apiVersion, resource string) int {
	f.mutex.Lock()
	defer f.mutex.Unlock()
	return f.refCount[resourceKey(apiVersion, resource)]
}

// VerifRunning is the number of shared informers the factory holds.
func (f *SharedInformerFactory) VerifRunning() int {
	f.mutex.Lock()
	defer f.mutex.Unlock()
	return len(f.sharedInformers)
}

// VerifUnderlying returns the client-go informer behind the factory's shared
// informer of one resource (nil = none held).
func (f *SharedInformerFactory) VerifUnderlying(apiVersion, resource string) cache.SharedIndexInformer {
	f.mutex.Lock()
	defer f.mutex.Unlock()
	sri := f.sharedInformers[resourceKey(apiVersion, resource)]
	if sri == nil {
		return nil
	}
	return sri.informer
}

// VerifHolds reports whether u is the client-go informer of one of the shared
// informers the factory currently holds.
func (f *SharedInformerFactory) VerifHolds(u cache.SharedIndexInformer) bool {
	f.mutex.Lock()
	defer f.mutex.Unlock()
	for _, sri := range f.sharedInformers {
		if sri.informer == u {
			return true
		}
	}
	return false
}

// VerifSubscribers returns, for the shared informer the factory holds for one
// resource, the number of subscriptions (informerWrappers) that have at least
// one event handler registered and the total number of registered handlers
// (-1,-1 = no shared informer held).
func (f *SharedInformerFactory) VerifSubscribers(apiVersion, resource string) (wrappers int, handlers int) {
	f.mutex.Lock()
	defer f.mutex.Unlock()
	sri := f.sharedInformers[resourceKey(apiVersion, resource)]
	if sri == nil {
		return -1, -1
	}
	return sri.eventHandlers.verifCounts()
}

func (seh *sharedEventHandler) verifCounts() (wrappers int, handlers int) {
	seh.mutex.RLock()
	defer seh.mutex.RUnlock()
	for _, hs := range seh.handlers {
		wrappers++
		handlers += len(hs)
	}
	return wrappers, handlers
}

// VerifHandlers is the number of event handlers currently registered THROUGH
// this subscription (this ResourceInformer's own wrapper) with its shared
// informer's broadcast handler.
func (ri *ResourceInformer) VerifHandlers() int {
	seh := ri.sharedResourceInformer.eventHandlers
	if seh == nil {
		return 0
	}
	seh.mutex.RLock()
	defer seh.mutex.RUnlock()
	return len(seh.handlers[ri.informerWrapper])
}

// VerifSharedHandlers is the total number of handlers (over all subscriptions)
// registered with the shared informer this subscription belongs to, whether or
// not the factory still holds that shared informer.
func (ri *ResourceInformer) VerifSharedHandlers() int {
	seh := ri.sharedResourceInformer.eventHandlers
	if seh == nil {
		return 0
	}
	_, n := seh.verifCounts()
	return n
}

// VerifUnderlying returns the client-go informer behind this subscription.
func (ri *ResourceInformer) VerifUnderlying() cache.SharedIndexInformer {
	return ri.sharedResourceInformer.informer
}

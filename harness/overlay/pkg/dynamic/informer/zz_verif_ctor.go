package informer

import "k8s.io/client-go/dynamic/dynamiclister"

func VerifNewResourceInformer(l dynamiclister.Lister) *ResourceInformer {
	sri := &sharedResourceInformer{lister: l, close: func() {}}
	return &ResourceInformer{sharedResourceInformer: sri, informerWrapper: &informerWrapper{sharedResourceInformer: sri}}
}

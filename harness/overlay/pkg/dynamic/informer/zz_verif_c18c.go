package informer

// C18 — "removing one subscriber's handlers never affects another subscriber",
// under the one schedule that makes the shared lock matter: subscriber B's
// handler is busy with an event (the shared informer's fan-out holds the read
// lock) when subscriber A removes its handlers (the removal waits for the
// fan-out); A's handler may have a resync timer of its own, which comes due
// while the removal waits. When B's handler returns, the removal completes, A
// receives nothing more and B goes on receiving events. A code path that takes
// the shared lock on the timer goroutine deadlocks here (Go's RWMutex keeps new
// readers out while a writer waits; the executor's lock model does the same).

import (
	"time"

	"metacontroller/pkg/zzverif/env"
	stub "metacontroller/pkg/zzverif/informerstub"
	rt "metacontroller/pkg/zzverif/rt"
)

func VerifC18_RemoveWhileOtherSubscriberBusy() {
	verifC18Install()
	w := env.NewWorld()
	f := NewSharedInformerFactory(w.Dyn, time.Hour)
	riA, errA := f.Resource("ex.com/v1", "things")
	riB, errB := f.Resource("ex.com/v1", "things")
	verifAssert(errA == nil && errB == nil && riA != nil && riB != nil, "busy/subscribe-error")
	if verifC18Failed {
		return
	}
	stub.Settle(1)
	stubs := stub.Stubs()
	verifAssert(len(stubs) == 1 && stubs[0].HandlerCount() == 1, "busy/setup")
	if verifC18Failed {
		return
	}
	st := stubs[0]
	shared := st.Handler(0)
	o := env.Thing("ns", "a", "uid")
	st.Indexer.Items = append(st.Indexer.Items, o)

	ownPeriod := rt.Bool("removed-handler-has-own-resync-period")
	hA, hB := verifNewGated(), verifNewGated()
	if ownPeriod {
		rt.Cover("busy/own-period")
		riA.Informer().AddEventHandlerWithResyncPeriod(hA, 2*time.Millisecond)
	} else {
		riA.Informer().AddEventHandler(hA)
	}
	riB.Informer().AddEventHandler(hB)

	// B's handler is busy with an update: the fan-out holds the shared read lock
	hB.set(true, false)
	dispatched := make(chan struct{})
	o2 := env.Thing("ns", "a", "uid")
	o2.SetResourceVersion("2")
	go func() {
		shared.OnUpdate(o, o2)
		close(dispatched)
	}()
	<-hB.entered
	// A removes its handlers; the removal has to wait for the fan-out
	removed := make(chan struct{})
	go func() {
		riA.Informer().RemoveEventHandlers()
		hA.set(false, true)
		close(removed)
	}()
	time.Sleep(20 * time.Millisecond)
	rt.FireTickers() // A's own timer (if any) comes due while the removal waits
	close(hB.gate)   // B's handler returns
	<-dispatched
	<-removed
	rt.Cover("busy/removed")

	// afterwards: nothing for A, B still served
	uB0, _, _ := hB.snapshot()
	o3 := env.Thing("ns", "a", "uid")
	o3.SetResourceVersion("3")
	shared.OnUpdate(o2, o3)
	rt.FireTickers()
	uB1, _, _ := hB.snapshot()
	_, _, lateA := hA.snapshot()
	verifAssert(lateA == 0, "busy/removed-handler-invoked-after-RemoveEventHandlers-returned")
	verifAssert(uB1 == uB0+1, "busy/other-subscriber-lost-an-event-after-the-removal")
	riB.Close()
	riA.Close()
}
